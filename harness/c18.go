package main

// C18 — collection builtins satisfy their defining identities.
// Metamorphic oracle on the real code (both sides of every identity are compiled and run by /repo's
// packages and compared in Go), plus the model tie: every program that was run is also evaluated by
// the Lean reference evaluator (speceval) and compared with the real outcome.

import (
	"fmt"
	"reflect"
	"strings"

	"github.com/antonmedv/expr/vm"
)

// one side of an identity: a program built and (if it compiled) run on a fresh VM
type c18out struct {
	src  string
	b    *Built
	o    *RunOutcome
	kind string // "ok" | "err" | "reject"
	out  string // value (S-expression) | error class | stage of the rejection
}

func (s *c18out) String() string          { return s.kind + " " + s.out }
func (s *c18out) isErr(class string) bool { return s.kind == "err" && s.out == class }

type c18 struct {
	c       *Ctx
	small   bool        // small-budget stream
	results []*VMResult // every program run in the current stream (for the Spec tie)
	envs    int
}

var c18ids = []string{"all-vs-any", "none-vs-any", "one-vs-count", "count-vs-len-filter", "len-map", "filter-order", "closure-innermost", "in-range", "slice-partition"}

func (k *c18) count(name string) { k.c.R.Count(name, 1) }

func (k *c18) run(src string, m Mode, env *Env) *c18out {
	b := BuildReal(src, m, env)
	s := &c18out{src: src, b: b}
	if b.Program == nil {
		s.kind, s.out = "reject", b.Stage
		return s
	}
	cs := &Case{Src: src, Mode: m, Env: env, B: b}
	o := RunReal(&vm.VM{}, b.Program, envVal(cs), env)
	s.o = o
	switch {
	case o.Timeout:
		s.kind, s.out = "err", "timeout"
		k.count("c18:timeout")
		return s
	case o.Err != nil:
		s.kind, s.out = "err", o.Class
	default:
		s.kind, s.out = "ok", valSx(o.Val).String()
	}
	k.results = append(k.results, &VMResult{Case: cs, Real: o})
	return s
}

func (k *c18) violate(key, what, lhs, rhs string, m Mode, env *Env, expect, got string) {
	k.c.R.Violate(Violation{What: what, Key: key,
		Input:  map[string]interface{}{"lhs": lhs, "rhs": rhs, "mode": m.String(), "env": valSx(envVal(&Case{Mode: m, Env: env})).String()},
		Expect: expect, Got: got})
}

// pair builds and runs both sides, keeps the counters; ok = both sides compiled
func (k *c18) pair(key, lhs, rhs string, m Mode, env *Env, nontrivial bool, n int) (l, r *c18out, ok bool) {
	k.c.R.Case(key+"|"+lhs+"|"+m.String(), nontrivial)
	l, r = k.run(lhs, m, env), k.run(rhs, m, env)
	if l.kind == "reject" || r.kind == "reject" {
		if l.kind != r.kind {
			k.count(key + ":one-side-rejected")
		} else {
			k.count(key + ":both-rejected:" + l.out)
			if l.out == "parse" && k.c.R.Counters["c18:parse-notes"] < 6 {
				k.count("c18:parse-notes")
				k.c.R.Note("rejected by the parser: %s", lhs)
			}
		}
		return l, r, false
	}
	k.count(key + ":compared")
	if k.small {
		k.count(key + ":small-budget")
	}
	switch {
	case l.kind == "ok" && r.kind == "ok":
		k.count(key + ":both-ok")
	case l.kind == "err" && r.kind == "err":
		k.count(key + ":both-err")
		k.count(key + ":err:" + l.out)
	}
	if n == 0 {
		k.count(key + ":empty")
	} else if n > 40 {
		k.count(key + ":long")
	}
	return l, r, true
}

func c18logEq(a, b []string) bool {
	if len(a) != len(b) {
		return false
	}
	for i := range a {
		if a[i] != b[i] {
			return false
		}
	}
	return true
}

// combined runs `(LHS) == (RHS)` as one expression
func (k *c18) combined(key string, l, r *c18out, m Mode, env *Env) {
	src := "(" + l.src + ") == (" + r.src + ")"
	cb := k.run(src, m, env)
	if cb.kind == "reject" {
		k.count(key + ":combined:rejected")
		return
	}
	k.count(key + ":combined")
	if l.kind == "ok" && r.kind == "ok" {
		if cb.isErr("budget") {
			k.count(key + ":combined:budget") // the one-expression form allocates both sides
			return
		}
		if cb.String() != "ok (b true)" {
			k.violate(key+":combined", "both sides succeed separately but (LHS) == (RHS) is not true", l.src, r.src, m, env, "ok (b true)", cb.String())
		}
		return
	}
	if cb.isErr("budget") && k.small {
		k.count(key + ":combined:budget")
		return
	}
	if !(l.kind == "err" && cb.isErr(l.out)) && !(r.kind == "err" && cb.isErr(r.out)) {
		k.violate(key+":combined", "a side fails but (LHS) == (RHS) does not fail with that class", l.src, r.src, m, env, l.String()+" / "+r.String(), cb.String())
	}
}

// same: identities 1-3 — outcome, call log and allocation total all equal
func (k *c18) same(id, lhs, rhs string, m Mode, env *Env, nontrivial bool, n int) {
	key := "c18:" + id
	l, r, ok := k.pair(key, lhs, rhs, m, env, nontrivial, n)
	if !ok {
		return
	}
	switch {
	case l.String() != r.String():
		k.violate(key, "outcomes differ", lhs, rhs, m, env, l.String(), r.String())
	case !c18logEq(l.o.Log, r.o.Log):
		k.violate(key, "call logs differ", lhs, rhs, m, env, strings.Join(l.o.Log, ","), strings.Join(r.o.Log, ","))
	case l.o.Memory != r.o.Memory:
		k.violate(key, "allocation totals differ", lhs, rhs, m, env, fmt.Sprint(l.o.Memory), fmt.Sprint(r.o.Memory))
	}
	k.combined(key, l, r, m, env)
}

func (k *c18) countVsLenFilter(xs, p string, m Mode, env *Env, nontrivial bool, n int) {
	key := "c18:count-vs-len-filter"
	lhs, rhs := "count("+xs+", {"+p+"})", "len(filter("+xs+", {"+p+"}))"
	if xs == "M" {
		k.run(lhs, m, env)
		k.run(rhs, m, env)
		k.count("c18:out-of-scope:map-collection")
		return
	}
	l, r, ok := k.pair(key, lhs, rhs, m, env, nontrivial, n)
	if !ok {
		return
	}
	extraBudget := r.isErr("budget") && !l.isErr("budget")
	switch {
	case extraBudget:
		k.count(key + ":rhs-budget")
		if !c18logEq(l.o.Log, r.o.Log) {
			k.violate(key, "call logs differ (rhs over budget)", lhs, rhs, m, env, strings.Join(l.o.Log, ","), strings.Join(r.o.Log, ","))
		}
	case l.String() != r.String():
		k.violate(key, "outcomes differ", lhs, rhs, m, env, l.String(), r.String())
	case !c18logEq(l.o.Log, r.o.Log):
		k.violate(key, "call logs differ", lhs, rhs, m, env, strings.Join(l.o.Log, ","), strings.Join(r.o.Log, ","))
	case l.kind == "ok":
		if cnt, isInt := l.o.Val.(int); !isInt || r.o.Memory != l.o.Memory+cnt {
			k.violate(key, "allocation total of len(filter) is not that of count plus the count", lhs, rhs, m, env, fmt.Sprintf("%d + %v", l.o.Memory, l.o.Val), fmt.Sprint(r.o.Memory))
		}
	}
	if !extraBudget {
		k.combined(key, l, r, m, env)
	}
}

func (k *c18) lenMap(xs, f string, m Mode, env *Env, nontrivial bool, n int) {
	key := "c18:len-map"
	lhs, rhs := "len(map("+xs+", {"+f+"}))", "len("+xs+")"
	l, r, ok := k.pair(key, lhs, rhs, m, env, nontrivial, n)
	if !ok {
		return
	}
	if l.kind == "ok" {
		if l.String() != r.String() {
			k.violate(key, "len(map(xs, f)) differs from len(xs)", lhs, rhs, m, env, r.String(), l.String())
		}
	} else {
		k.count(key + ":lhs-err:" + l.out)
		alone := k.run("map("+xs+", {"+f+"})", m, env)
		if alone.kind != "reject" && alone.String() != l.String() {
			k.violate(key, "len(map(xs, f)) fails but map(xs, f) alone does not fail the same way", lhs, "map("+xs+", {"+f+"})", m, env, l.String(), alone.String())
		}
	}
	k.combined(key, l, r, m, env)
}

// c18elems renders the elements of a sequence value (slice, array or string) one by one
func c18elems(v interface{}) ([]string, bool) {
	rv := reflect.ValueOf(v)
	if !rv.IsValid() {
		return nil, false
	}
	switch rv.Kind() {
	case reflect.Slice, reflect.Array, reflect.String:
		out := make([]string, rv.Len())
		for i := range out {
			out[i] = valSx(rv.Index(i).Interface()).String()
		}
		return out, true
	}
	return nil, false
}

func (k *c18) filterOrder(xs, p string, m Mode, env *Env, nontrivial bool, n int) {
	key := "c18:filter-order"
	fsrc, msrc := "filter("+xs+", {"+p+"})", "map("+xs+", {"+p+"})"
	f, mp, ok := k.pair(key, fsrc, msrc, m, env, nontrivial, n)
	if !ok {
		return
	}
	x := k.run(xs, m, env)
	switch {
	case x.kind == "reject":
		k.count(key + ":xs-rejected")
	case x.kind == "err":
		if f.String() != x.String() || mp.String() != x.String() {
			k.violate(key, "the collection fails but filter/map do not fail the same way", fsrc, msrc, m, env, x.String(), f.String()+" / "+mp.String())
		}
	case mp.kind == "err":
		if mp.out == "budget" {
			k.count(key + ":map-budget") // map's own allocation; filter allocates less
			return
		}
		if f.String() != mp.String() {
			k.violate(key, "the predicate fails at some element (map fails) but filter does not fail the same way", fsrc, msrc, m, env, mp.String(), f.String())
		}
	default:
		xe, ok1 := c18elems(x.o.Val)
		me, ok2 := c18elems(mp.o.Val)
		if !ok1 || !ok2 || len(xe) != len(me) {
			k.violate(key, "map(xs, p) is not a sequence as long as xs", fsrc, msrc, m, env, x.String(), mp.String())
			return
		}
		var want []string
		nonBool := false
		for i, b := range me {
			switch b {
			case "(b true)":
				want = append(want, xe[i])
			case "(b false)":
			default:
				nonBool = true
			}
		}
		if nonBool {
			k.count(key + ":non-bool")
			if !f.isErr("type") {
				k.violate(key, "the predicate yields a non-boolean but filter does not fail with a type error", fsrc, msrc, m, env, "err type", f.String())
			}
			return
		}
		fe, ok3 := c18elems(f.o.Val)
		if _, isAny := f.o.Val.([]interface{}); f.kind != "ok" || !ok3 || !isAny {
			k.violate(key, "filter does not yield a []interface{}", fsrc, msrc, m, env, "ok [...]", f.String())
			return
		}
		if strings.Join(fe, " ") != strings.Join(want, " ") {
			k.violate(key, "filter does not keep exactly the satisfying elements in order", fsrc, msrc, m, env, strings.Join(want, " "), strings.Join(fe, " "))
		}
		k.count(key + ":order-checked")
	}
}

// ---- inputs ----

func (k *c18) newEnv() *Env {
	r := k.c.Rng
	k.envs++
	env := NewEnv(k.envs, func(n int) int { return r.Intn(n) })
	if r.Intn(5) < 2 {
		sz := func() int { return []int{0, 1, 2 + r.Intn(10), 50 + r.Intn(151)}[r.Intn(4)] }
		env.Ints = make([]int, sz())
		for i := range env.Ints {
			env.Ints[i] = r.Intn(16) - 3
		}
		env.Strs = make([]string, sz())
		for i := range env.Strs {
			env.Strs[i] = []string{"a", "b", "ab", "", "xyz", "abc", "lo"}[r.Intn(7)]
		}
		env.Anys = make([]interface{}, sz())
		for i := range env.Anys {
			env.Anys[i] = []interface{}{1, "a", true, nil, 2.5, int64(3), 2, false}[r.Intn(8)]
		}
	}
	return env
}

func c18isLong(env *Env) bool { return len(env.Ints) > 40 || len(env.Strs) > 40 || len(env.Anys) > 40 }

func (k *c18) mode() Mode {
	switch k.c.Rng.Intn(10) {
	case 0, 1, 2:
		return Mode{Env: "struct", Optimize: true}
	case 3, 4, 5:
		return Mode{Env: "struct", Optimize: false}
	case 6:
		return Mode{Env: "map", Optimize: true}
	}
	return Mode{Env: "none"}
}

func c18span(lo, hi int) int {
	if hi < lo {
		return 0
	}
	return hi - lo + 1
}

// coll draws a collection (source text), the type tag of its elements and its length
func (k *c18) coll(env *Env, m Mode) (string, string, int) {
	r := k.c.Rng
	tail := func(n int) int {
		if n > 0 {
			return n - 1
		}
		return 0
	}
	switch r.Intn(25) {
	case 0, 1, 2, 3:
		return "Ints", "int", len(env.Ints)
	case 4, 5:
		return "Strs", "string", len(env.Strs)
	case 6, 7:
		return "Anys", "any", len(env.Anys)
	case 8:
		return "[]", "int", 0
	case 9:
		return "[7]", "int", 1
	case 10:
		return "[1, 2, 3]", "int", 3
	case 11:
		return "[3, 1, 4, 1, 5, 9, 2, 6, 5, 3, 5, 8]", "int", 12
	case 12:
		return "I..J", "int", c18span(env.I, env.J)
	case 13:
		n := 1 + r.Intn(60)
		return fmt.Sprintf("1..%d", n), "int", n
	case 14:
		return "0..0", "int", 1
	case 15:
		return "3..1", "int", 0
	case 16:
		n := 0
		for _, x := range env.Ints {
			if x > 1 {
				n++
			}
		}
		return "filter(Ints, {# > 1})", "int", n
	case 17:
		return "map(Ints, {# * 2})", "int", len(env.Ints)
	case 18:
		return "map(1..5, {# + I})", "int", 5
	case 19:
		return "Ints[1:]", "int", tail(len(env.Ints))
	case 20:
		return `["a", "b", "ab"]`, "string", 3
	case 21:
		return "Strs[1:]", "string", tail(len(env.Strs))
	case 22:
		return `[1, "a", true, nil]`, "any", 4
	case 23:
		return "Anys[1:]", "any", tail(len(env.Anys))
	}
	if m.Env == "none" { // strings are collections of bytes when there is no checker
		if r.Intn(2) == 0 {
			return "S", "byte", len(env.S)
		}
		return `"abcab"`, "byte", 5
	}
	return "Ints", "int", len(env.Ints)
}

// closure draws a closure body; result "bool" = predicate, "val" = mapper
func (k *c18) closure(result, elem string, d int) string {
	r := k.c.Rng
	pick := func(xs ...string) string { return xs[r.Intn(len(xs))] }
	gen := func(res, el string) string {
		for {
			g := &G{r: r}
			s := g.closure(res, el, d)
			if !strings.Contains(s, "1_000") { // keeps nested ranges short
				return s
			}
		}
	}
	byHand := r.Intn(3) == 0
	if result == "bool" {
		switch elem {
		case "int":
			if byHand {
				return pick("(1 / (# - 2)) == 1", "Fail()", "Fail() == 1", "# + 1", "Ints[#] > 0", "IsPos(#)", "IsPos(Inc(#))", "# > 1 and IsPos(#)",
					"IsPos(#) and (1 / (# - 2)) == 1", "IsPos(# - 2) or Ints[#] > 0", "# > 2", "# == 1", "# % 2 == 0", "true", "false", "# in Ints", "IsPos(#) ? # : true")
			}
			return gen("bool", "int")
		case "string":
			if byHand {
				return pick(`# == "a"`, "len(#) > 1", `# contains "a"`, `#[0:1] == "a"`, `Strs[len(#)] == "a"`, `Cat(#, "x") == "ax"`, "#", "true", "IsPos(len(#))", `# + 1 == "a"`)
			}
			return gen("bool", "string")
		case "byte":
			return pick("# == 97", "true", "false", "# > 97", "# != nil", "IsPos(#)", "# + 1")
		}
		return pick("# == 1", "# != nil", "true", "false", `# == "a"`, "# > 1", "# == true", "#", "Id(#) == 1", "not #")
	}
	switch elem {
	case "int":
		if byHand {
			return pick("1 / (# - 2)", "Inc(#)", "Ints[#]", "Fail()", "#", "# * 2", "IsPos(#)", "[#, #]", "1..#")
		}
		return gen(pick("int", "string"), "int")
	case "string":
		return pick(`# + "x"`, "len(#)", "#", `Cat(#, "z")`, "Strs[len(#)]", "# + 1")
	}
	return pick("#", "[#]", "# == nil", "Id(#)", "# + 1", "1")
}

var c18callRe = []string{"Id(", "Inc(", "Add(", "Cat(", "IsPos(", "Fail(", "Fast(", "Sum(", "Half("}

func c18nontrivial(n int, body string) bool {
	if n == 0 {
		return false
	}
	if strings.Contains(body, "#") {
		return true
	}
	for _, f := range c18callRe {
		if strings.Contains(body, f) {
			return true
		}
	}
	return false
}

// builtins: identities 1-6 on n drawn (environment, mode, collection, closure) tuples each
func (k *c18) builtins(n int) {
	r := k.c.Rng
	for i := 0; i < n; i++ {
		env := k.newEnv()
		m := k.mode()
		xs, elem, ln := k.coll(env, m)
		d := r.Intn(4)
		if (c18isLong(env) || ln > 40) && d > 1 {
			d = r.Intn(2)
		}
		id := i % 6
		if id == 4 {
			f := k.closure("val", elem, d)
			k.lenMap(xs, f, m, env, c18nontrivial(ln, f), ln)
			continue
		}
		p := k.closure("bool", elem, d)
		nt := c18nontrivial(ln, p)
		switch id {
		case 0:
			k.same("all-vs-any", "all("+xs+", {"+p+"})", "not any("+xs+", {not ("+p+")})", m, env, nt, ln)
		case 1:
			k.same("none-vs-any", "none("+xs+", {"+p+"})", "not any("+xs+", {"+p+"})", m, env, nt, ln)
		case 2:
			k.same("one-vs-count", "one("+xs+", {"+p+"})", "count("+xs+", {"+p+"}) == 1", m, env, nt, ln)
		case 3:
			if m.Env == "none" && r.Intn(25) == 0 {
				xs, p = "M", []string{"true", "# == 1", "# != nil"}[r.Intn(3)]
			}
			k.countVsLenFilter(xs, p, m, env, nt, ln)
		case 5:
			k.filterOrder(xs, p, m, env, nt, ln)
		}
	}
}

// ---- identity 7: a closure nested to any depth sees the element of its own innermost collection ----

type c18level struct {
	src  string
	vals []int
}

func c18rangeVals(lo, hi int) []int {
	out := []int{}
	for x := lo; x <= hi; x++ {
		out = append(out, x)
	}
	return out
}

func c18any(xs []int) []interface{} {
	out := make([]interface{}, len(xs))
	for i, x := range xs {
		out[i] = x
	}
	return out
}

func (k *c18) scopes(n int) {
	key := "c18:closure-innermost"
	r := k.c.Rng
	allModes4 := []Mode{{Env: "struct", Optimize: true}, {Env: "struct", Optimize: false}, {Env: "none"}, {Env: "map", Optimize: true}}
	for i := 0; i < n; i++ {
		env := k.newEnv()
		if len(env.Ints) > 12 {
			env.Ints = env.Ints[:12]
		}
		m := allModes4[r.Intn(4)]
		gt1 := []int{}
		for _, x := range env.Ints {
			if x > 1 {
				gt1 = append(gt1, x)
			}
		}
		as := []c18level{{"1..3", c18rangeVals(1, 3)}, {"[1, 2, 3]", []int{1, 2, 3}}, {"Ints", env.Ints}, {"filter(Ints, {# > 1})", gt1}, {"0..I", c18rangeVals(0, env.I)}}
		bs := []c18level{{"10..12", c18rangeVals(10, 12)}, {"[10, 11, 12]", []int{10, 11, 12}}, {"map(1..3, {# + 9})", []int{10, 11, 12}}, {"10..10", []int{10}}}
		cs := []c18level{{"100..101", []int{100, 101}}, {"[100, 101]", []int{100, 101}}, {"[]", nil}}
		ds := []c18level{{"1000..1001", []int{1000, 1001}}, {"[1000]", []int{1000}}}
		A, B, C, D := as[r.Intn(len(as))], bs[r.Intn(len(bs))], cs[r.Intn(len(cs))], ds[r.Intn(len(ds))]
		var src string
		var want interface{}
		rep := func(inner interface{}, over []int) []interface{} { // map(over, {inner})
			out := make([]interface{}, len(over))
			for j := range out {
				out[j] = inner
			}
			return out
		}
		switch i % 10 {
		case 0:
			src, want = "map("+A.src+", {map("+B.src+", {#})})", rep(c18any(B.vals), A.vals)
		case 1:
			src = "map(" + A.src + ", {[#, map(" + B.src + ", {#}), #]})"
			out := []interface{}{}
			for _, a := range A.vals {
				out = append(out, []interface{}{a, c18any(B.vals), a})
			}
			want = out
		case 2:
			src, want = "map("+A.src+", {map("+B.src+", {map("+C.src+", {#})})})", rep(rep(c18any(C.vals), B.vals), A.vals)
		case 3:
			b0, a0 := 9+r.Intn(5), r.Intn(3)
			src = fmt.Sprintf("filter(%s, {any(%s, {# == %d}) and # > %d})", A.src, B.src, b0, a0)
			out := []interface{}{}
			for _, a := range A.vals {
				found := false
				for _, b := range B.vals {
					found = found || b == b0
				}
				if found && a > a0 {
					out = append(out, a)
				}
			}
			want = out
		case 4:
			t := 9 + r.Intn(4)
			src = fmt.Sprintf("map(%s, {# + count(%s, {# > %d})})", A.src, B.src, t)
			out := []interface{}{}
			for _, a := range A.vals {
				cnt := 0
				for _, b := range B.vals {
					if b > t {
						cnt++
					}
				}
				out = append(out, a+cnt)
			}
			want = out
		case 5:
			src = "map(" + A.src + ", {map(" + B.src + ", {map(" + C.src + ", {map(" + D.src + ", {#})})})})"
			want = rep(rep(rep(c18any(D.vals), C.vals), B.vals), A.vals)
		case 6:
			tc, tb, ta := 99+r.Intn(3), 9+r.Intn(3), 2+r.Intn(10)
			src = fmt.Sprintf("all(%s, {all(%s, {all(%s, {# >= %d}) and # >= %d}) and # < %d})", A.src, B.src, C.src, tc, tb, ta)
			res := true
			for _, a := range A.vals {
				for _, b := range B.vals {
					for _, c := range C.vals {
						res = res && c >= tc
					}
					res = res && b >= tb
				}
				res = res && a < ta
			}
			want = res
		case 7:
			xs := []string{"Ints", "Strs", "Anys", "1..7", `[1, "a", nil]`, A.src, B.src}[r.Intn(7)]
			src = "map(" + xs + ", {#})" // element-wise against xs itself
			k.c.R.Case(key+"|"+src+"|"+m.String(), true)
			mo, xo := k.run(src, m, env), k.run(xs, m, env)
			if mo.kind == "reject" || xo.kind == "reject" {
				k.count(key + ":rejected")
				continue
			}
			k.count(key + ":compared")
			me, _ := c18elems(mo.o.Val)
			xe, _ := c18elems(xo.o.Val)
			if mo.kind != "ok" || xo.kind != "ok" || strings.Join(me, " ") != strings.Join(xe, " ") {
				k.violate(key, "map(xs, {#}) is not xs element by element", src, xs, m, env, xo.String(), mo.String())
			}
			continue
		case 8:
			t := 99 + r.Intn(3)
			src = fmt.Sprintf("map(%s, {map(%s, {count(%s, {# > %d}) + #})})", A.src, B.src, C.src, t)
			cnt := 0
			for _, c := range C.vals {
				if c > t {
					cnt++
				}
			}
			inner := []interface{}{}
			for _, b := range B.vals {
				inner = append(inner, cnt+b)
			}
			want = rep(inner, A.vals)
		case 9:
			src = "map(" + A.src + ", {map(Strs, {[#, len(filter(" + B.src + ", {# > 10}))]})})"
			cnt := 0
			for _, b := range B.vals {
				if b > 10 {
					cnt++
				}
			}
			inner := []interface{}{}
			for _, s := range env.Strs {
				inner = append(inner, []interface{}{s, cnt})
			}
			want = rep(inner, A.vals)
		}
		k.c.R.Case(key+"|"+src+"|"+m.String(), true)
		o := k.run(src, m, env)
		if o.kind == "reject" {
			k.count(key + ":rejected")
			continue
		}
		k.count(key + ":compared")
		if exp := "ok " + valSx(want).String(); o.String() != exp {
			k.violate(key, "a nested closure does not see the element of its own innermost collection", src, "(computed in Go)", m, env, exp, o.String())
		}
	}
}

// scopesDependent: the inner builtin's COLLECTION operand mentions the outer closure's element (`1..#`, `[#, 2]`):
// it must be evaluated in the outer scope, before the inner scope exists - for every builtin in the inner position.
func (k *c18) scopesDependent() {
	key := "c18:closure-innermost"
	outer := []c18level{{"1..4", c18rangeVals(1, 4)}, {"[3, 0, 2]", []int{3, 0, 2}}, {"filter(0..5, {# > 2})", []int{3, 4, 5}}}
	evens := func(a int) []int {
		out := []int{}
		for x := 1; x <= a; x++ {
			if x%2 == 0 {
				out = append(out, x)
			}
		}
		return out
	}
	inner := []struct {
		src string
		f   func(a int) interface{}
	}{
		{"all(1..#, {# % 2 == 0})", func(a int) interface{} { return len(evens(a)) == len(c18rangeVals(1, a)) }},
		{"any(1..#, {# % 2 == 0})", func(a int) interface{} { return len(evens(a)) > 0 }},
		{"none(1..#, {# % 2 == 0})", func(a int) interface{} { return len(evens(a)) == 0 }},
		{"one(1..#, {# % 2 == 0})", func(a int) interface{} { return len(evens(a)) == 1 }},
		{"count(1..#, {# % 2 == 0})", func(a int) interface{} { return len(evens(a)) }},
		{"filter(1..#, {# % 2 == 0})", func(a int) interface{} { return c18any(evens(a)) }},
		{"map(1..#, {# * 2})", func(a int) interface{} {
			out := []interface{}{}
			for x := 1; x <= a; x++ {
				out = append(out, 2*x)
			}
			return out
		}},
		{"one([#, 2, 4], {# == 2})", func(a int) interface{} { return a != 2 }},
		{"count([#, #], {# > 2})", func(a int) interface{} {
			if a > 2 {
				return 2
			}
			return 0
		}},
	}
	modes := []Mode{{Env: "struct", Optimize: true}, {Env: "struct", Optimize: false}, {Env: "none"}, {Env: "map", Optimize: true}}
	env := k.newEnv()
	for _, A := range outer {
		for _, in := range inner {
			for _, wrap := range []string{"map(%s, {%s})", "map(%s, {[#, %s]})"} {
				src := fmt.Sprintf(wrap, A.src, in.src)
				out := []interface{}{}
				for _, a := range A.vals {
					if strings.Contains(wrap, "[#,") {
						out = append(out, []interface{}{a, in.f(a)})
					} else {
						out = append(out, in.f(a))
					}
				}
				for _, m := range modes {
					k.c.R.Case(key+"|"+src+"|"+m.String(), true)
					o := k.run(src, m, env)
					if o.kind == "reject" {
						k.count(key + ":rejected")
						continue
					}
					k.count(key + ":dependent-collection")
					if exp := "ok " + valSx(out).String(); o.String() != exp {
						k.violate(key, "the collection operand of a nested builtin is not evaluated in the enclosing closure's scope", src, "(computed in Go)", m, env, exp, o.String())
					}
				}
			}
		}
	}
}

// ---- identity 8: membership in an integer range = the two-sided comparison ----

type c18num struct {
	src string
	val int
}

func (k *c18) inRange(n int) {
	r := k.c.Rng
	modes := []Mode{{Env: "struct", Optimize: true}, {Env: "struct", Optimize: false}, {Env: "none"}, {Env: "struct", Optimize: false}, {Env: "map", Optimize: true}}
	for i := 0; i < n; i++ {
		env := k.newEnv()
		m := modes[r.Intn(len(modes))]
		if r.Intn(4) == 0 {
			env.I8 = []int8{-1, -128, 127, 44}[r.Intn(4)]
			env.U8 = []uint8{0, 255, 44}[r.Intn(3)]
			env.J = []int{300, 1000, 127}[r.Intn(3)]
		}
		lit := func(v int) c18num { return c18num{fmt.Sprint(v), v} }
		bounds := []c18num{lit(0), lit(1), lit(2), lit(5), lit(10), lit(-3), lit(-1), lit(300), lit(-200), lit(7),
			{"I", env.I}, {"J", env.J}, {"len(Ints)", len(env.Ints)}, {"(I + 1)", env.I + 1}}
		lo, hi := bounds[r.Intn(len(bounds))], bounds[r.Intn(len(bounds))]
		xsrc := []string{"I", "J", "I8", "U8", "I64", "U", "I + 1", "len(Ints)", "#"}[r.Intn(9)]
		if i < 8 { // the forced narrow-kind shape: I8 in 0..300 with I8 = -1, optimiser off
			env.I8, xsrc, lo, hi = -1, "I8", lit(0), lit(300)
			m = []Mode{{Env: "struct", Optimize: false}, {Env: "none"}}[i%2]
		} else if i < 12 { // the unsigned analogues (wrapped values against negative bounds)
			env.U8, env.U, xsrc, lo, hi = 255, ^uint(0), []string{"U8", "U"}[i%2], lit(-3), lit(5)
			m = []Mode{{Env: "struct", Optimize: false}, {Env: "none"}}[i/2%2]
		}
		if hi.val-lo.val > 5000 {
			continue
		}
		neg := r.Intn(3) == 0
		x := xsrc
		if xsrc == "I + 1" {
			x = "(I + 1)"
		}
		lhs, rhs := fmt.Sprintf("%s in %s..%s", x, lo.src, hi.src), fmt.Sprintf("%s >= %s and %s <= %s", x, lo.src, x, hi.src)
		if neg {
			lhs, rhs = fmt.Sprintf("%s not in %s..%s", x, lo.src, hi.src), "not ("+rhs+")"
		}
		if xsrc == "#" {
			lhs, rhs = "filter(Ints, {"+lhs+"})", "filter(Ints, {"+rhs+"})"
		}
		outside := func(a, b int) bool { return lo.val < a || lo.val > b || hi.val < a || hi.val > b }
		// known deviation: the VM's equality converts the int element to the narrow signed kind of x (int8(255) == -1);
		// unsigned x are widened to int instead, so U8 / U stay under the main key (counted, expected to hold)
		narrow := xsrc == "I8" && outside(-128, 127)
		if (xsrc == "U8" && outside(0, 255)) || (xsrc == "U" && (lo.val < 0 || hi.val < 0)) {
			k.count("c18:in-range:unsigned-out-of-kind-bound:" + xsrc)
		}
		key := "c18:in-range"
		l, rr, ok := k.pair(key, lhs, rhs, m, env, true, c18span(lo.val, hi.val))
		if !ok {
			continue
		}
		if narrow {
			k.count("c18:in-range:narrow-kind-cases:" + xsrc)
			key = "c18:in-range-narrow-kind"
		}
		if l.isErr("budget") && !rr.isErr("budget") {
			k.count("c18:in-range:lhs-budget") // only the range allocates
			continue
		}
		if rr.isErr("budget") && !l.isErr("budget") {
			// a descending range has a negative size in the VM's accounting (the known range-size finding), so
			// filter(.., {# in hi..lo}) can stay under a budget that the comparison form exceeds; allocation is not an observable here
			k.count("c18:in-range:rhs-budget-only")
			continue
		}
		switch {
		case l.String() != rr.String():
			k.violate(key, "membership of "+xsrc+" in an integer range differs from the two-sided comparison", lhs, rhs, m, env, rr.String(), l.String())
			if narrow {
				k.count("c18:in-range-narrow-kind:differs:" + xsrc)
			}
		case !c18logEq(l.o.Log, rr.o.Log):
			k.violate(key, "call logs differ", lhs, rhs, m, env, strings.Join(rr.o.Log, ","), strings.Join(l.o.Log, ","))
		}
		if l.String() == rr.String() {
			k.combined("c18:in-range", l, rr, m, env)
		}
	}
}

// ---- identity 9: slicing at i partitions a sequence ----

func (k *c18) slices(n int) {
	key := "c18:slice-partition"
	r := k.c.Rng
	modes := []Mode{{Env: "struct", Optimize: true}, {Env: "struct", Optimize: false}, {Env: "none"}, {Env: "map", Optimize: true}}
	for i := 0; i < n; i++ {
		env := k.newEnv()
		m := modes[r.Intn(len(modes))]
		type seq struct {
			src string
			n   int
			str bool
		}
		seqs := []seq{{"Ints", len(env.Ints), false}, {"Anys", len(env.Anys), false}, {"Strs", len(env.Strs), false}, {"(1..7)", 7, false},
			{"[1, 2, 3]", 3, false}, {"[]", 0, false}, {`[1, "a", nil, 2.5]`, 4, false}, {"S", len(env.S), true}, {"T", len(env.T), true}, {`("hello")`, 5, true}}
		s := seqs[r.Intn(len(seqs))]
		ival := []int{0, 1, 2, s.n, s.n + 3, -1, -2, s.n / 2}[r.Intn(8)]
		isrc := fmt.Sprint(ival)
		if r.Intn(4) == 0 {
			isrc, ival = "I", env.I
		}
		a, b := s.src+"[:"+isrc+"]", s.src+"["+isrc+":]"
		l, rr, ok := k.pair(key, a, b, m, env, s.n > 0, s.n)
		if !ok {
			continue
		}
		if ival < 0 {
			k.count(key + ":negative")
			if !l.isErr("index") || !rr.isErr("index") {
				k.violate(key, "a negative slice bound does not fail with an index error on both parts", a, b, m, env, "err index / err index", l.String()+" / "+rr.String())
			}
			continue
		}
		whole := k.run(s.src, m, env)
		le, ok1 := c18elems(valOf(l))
		re, ok2 := c18elems(valOf(rr))
		we, ok3 := c18elems(valOf(whole))
		if !ok1 || !ok2 || !ok3 || strings.Join(append(le, re...), " ") != strings.Join(we, " ") {
			k.violate(key, "xs[:i] followed by xs[i:] is not xs", a, b, m, env, whole.String(), l.String()+" ++ "+rr.String())
		}
		one := "len(" + a + ") + len(" + b + ") == len(" + s.src + ")"
		if s.str {
			one = a + " + " + b + " == " + s.src
		}
		if o := k.run(one, m, env); o.kind != "reject" && o.String() != "ok (b true)" {
			k.violate(key, "the one-expression form of the partition is not true", one, "", m, env, "ok (b true)", o.String())
		}
	}
}

func valOf(s *c18out) interface{} {
	if s.kind != "ok" {
		return nil
	}
	return s.o.Val
}

// stream runs f with the given memory budget and ties every program it ran to the Lean reference evaluator
func (k *c18) stream(budget int, small bool, f func()) {
	old := vm.MemoryBudget
	vm.MemoryBudget = budget
	defer func() { vm.MemoryBudget = old }()
	k.small, k.results = small, nil
	f()
	c := k.c
	SpecCorrespondence(c, k.results, budget, asIs.RangeSigned, true, func(vr *VMResult, spec, real string) {
		c.R.Mismatch("spec", vr.Case.Src+" ["+vr.Case.Mode.String()+"] env="+valSx(envVal(vr.Case)).String(), spec, real)
	})
	k.results = nil
}

func runC18(c *Ctx) {
	r := c.R
	r.Rule = "metamorphic identities on the real pipeline (parse, check, optimise, compile, run on a fresh VM) over collections (typed environment slices of length 0..200, literals, ranges, results of filter/map, slices; strings and a map only without a checker) x closures (generated to nesting depth 3 with logged environment calls, plus failing and non-boolean ones) x modes {struct env optimiser on/off, map env, no checker} x memory budgets {1e6, 50}: all = not any not, none = not any, one = (count == 1) (value or error class, call log, allocation total), count = len(filter) (allocation total + count), len(map) = len, filter = the satisfying elements in order (against map and the collection, in Go), nested closures see their own innermost element (expected value computed in Go, depth 2..4), x in lo..hi = (x >= lo and x <= hi), xs[:i] ++ xs[i:] = xs; every program run is also compared with the Lean reference evaluator (value, error class, call log, allocation total); non-trivial = non-empty collection and a closure that mentions # or calls a function; distinct by (identity, source, mode)"
	scale := 1
	if c.Thorough() {
		scale = 22
	}
	k := &c18{c: c}
	k.stream(1000000, false, func() {
		k.builtins(1200 * scale)
		k.scopes(200 * scale)
		k.scopesDependent()
		k.inRange(300 * scale)
		k.slices(200 * scale)
	})
	k.stream(50, true, func() {
		k.builtins(300 * scale)
		k.inRange(60 * scale)
	})
	for i, id := range c18ids {
		if r.Counters["c18:"+id+":compared"] == 0 || (i < 4 && r.Counters["c18:"+id+":both-err"] == 0) {
			r.Mismatch("generator", id, "no cases", "")
		}
	}
	if r.Counters["c18:in-range:narrow-kind-cases:I8"] == 0 {
		r.Mismatch("generator", "in-range-narrow-kind", "no cases", "")
	}
}

func init() { props["C18"] = runC18 }
