package main

// The environment zoo used by the end-to-end stages (compile / VM / Spec correspondence).
// Environment functions are closures over a per-environment call log; their behaviour is mirrored by
// `libCall` in lean/ExprModel/Drv/Code.lean (ids = field names).

import (
	"fmt"
	"reflect"
)

type Sub struct {
	X    int
	Name string
	Tags []string
	// a function-valued member: `Sub.Twice(3)`, `P?.Twice(I)` compile to method calls (OpMethod / OpMethodNilSafe,
	// FetchFn / FetchFnNil on a NON-nil receiver)
	Twice func(int) int
}

type CallLog struct{ Calls []string }

func (l *CallLog) add(name string, args ...interface{}) {
	s := name
	for _, a := range args {
		s += " " + valSx(a).String()
	}
	l.Calls = append(l.Calls, s)
}

type Env struct {
	I, J  int
	I8    int8
	U8    uint8
	I64   int64
	U     uint
	F     float64
	F32   float32
	S, T  string
	B, C  bool
	Ints  []int
	Strs  []string
	Anys  []interface{}
	Fs    []float64
	M     map[string]interface{}
	MI    map[string]int // typed maps: a missing key reads as the element zero (0, ""), not nil
	MS    map[string]string
	MN    map[string]int // nil
	Sub   Sub
	P     *Sub
	Z     interface{} // nil
	Id    func(interface{}) interface{}
	Inc   func(int) int
	Add   func(int, int) int
	Cat   func(string, string) string
	IsPos func(int) bool
	Fail  func() interface{}
	Fast  func(...interface{}) interface{}
	Sum   func(...int) int
	List  func(...interface{}) interface{}
	Half  func(float64) float64
	I64f  func(int64) int64 `verif:"I64"`
	// identity at every other numeric kind: the only way an integer literal gets that kind (checker retyping)
	K8   func(int8) int8
	K16  func(int16) int16
	K32  func(int32) int32
	KU   func(uint) uint
	KU8  func(uint8) uint8
	KU16 func(uint16) uint16
	KU32 func(uint32) uint32
	KU64 func(uint64) uint64
	KF32 func(float32) float32

	log *CallLog
}

var envFnNames = []string{"Id", "Inc", "Add", "Cat", "IsPos", "Fail", "Fast", "Sum", "List", "Half", "I64f", "K8", "K16", "K32", "KU", "KU8", "KU16", "KU32", "KU64", "KF32"}

func registerFn(name string, f interface{}) {
	fnIDs[reflect.ValueOf(f).Pointer()] = name
}

// NewEnv builds an environment with the given scalar/collection values and fresh logging functions.
func NewEnv(seed int, pick func(n int) int) *Env {
	log := &CallLog{}
	e := &Env{log: log}
	ints := [][]int{{}, {1}, {1, 2, 3}, {3, -1, 0, 7, 7}, {5, 4, 3, 2, 1, 0}}
	strs := [][]string{{}, {"a"}, {"a", "b", "ab"}, {"x", "", "xyz"}}
	anys := [][]interface{}{{}, {1, "a", true}, {nil, 2.5, int64(3)}, {1, 2, 3}, {1.5, 2}}
	scal := []int{0, 1, -1, 2, 3, 7, 10, -5, 100}
	e.I = scal[pick(len(scal))]
	e.J = scal[pick(len(scal))]
	e.I8 = int8(scal[pick(len(scal))])
	e.U8 = []uint8{0, 1, 255, 2}[pick(4)]
	e.I64 = int64(scal[pick(len(scal))])
	e.U = []uint{0, 1, 2, 7}[pick(4)] // small on purpose: the driver refuses to build run-time ranges when the env holds huge integers
	e.F = []float64{0, 1.5, -2.25, 3, 100.5}[pick(5)]
	e.F32 = []float32{0, 0.5, -1.5, 2}[pick(4)]
	e.S = []string{"", "a", "abc", "hello world", "xyz"}[pick(5)]
	e.T = []string{"", "a", "b", "abc", "lo w"}[pick(5)]
	e.B = pick(2) == 0
	e.C = pick(2) == 0
	e.Ints = ints[pick(len(ints))]
	e.Strs = strs[pick(len(strs))]
	e.Anys = anys[pick(len(anys))]
	e.Fs = [][]float64{{}, {1.5}, {0.5, 2, -1}}[pick(3)]
	e.M = []map[string]interface{}{{}, {"a": 1, "b": "x"}, {"k": []interface{}{1, 2}, "n": nil, "a": 2.5}}[pick(3)]
	e.MI = []map[string]int{{}, {"a": 1, "b": -2}, {"a": 0, "abc": 7, "": 3}}[pick(3)]
	e.MS = []map[string]string{{}, {"a": "x", "b": ""}, {"abc": "lo", "xyz": "a"}}[pick(3)]
	e.Sub = Sub{X: scal[pick(len(scal))], Name: "sub", Tags: []string{"t1", "t2"}}
	e.P = &Sub{X: 42, Name: "ptr", Tags: nil}
	twice := func(x int) int { log.add("Twice", x); return 2 * x }
	e.Sub.Twice = twice
	e.P.Twice = twice
	registerFn("Twice", twice)
	e.Id = func(x interface{}) interface{} { log.add("Id", x); return x }
	e.Inc = func(x int) int { log.add("Inc", x); return x + 1 }
	e.Add = func(a, b int) int { log.add("Add", a, b); return a + b }
	e.Cat = func(a, b string) string { log.add("Cat", a, b); return a + b }
	e.IsPos = func(x int) bool { log.add("IsPos", x); return x > 0 }
	e.Fail = func() interface{} { log.add("Fail"); panic("env function failed") }
	e.Fast = func(xs ...interface{}) interface{} { log.add("Fast", xs...); return len(xs) }
	e.Sum = func(xs ...int) int {
		as := make([]interface{}, len(xs))
		s := 0
		for i, x := range xs {
			as[i] = x
			s += x
		}
		log.add("Sum", as...)
		return s
	}
	e.List = func(xs ...interface{}) interface{} { log.add("List", xs...); return xs } // keeps its argument slice
	e.Half = func(x float64) float64 { log.add("Half", x); return x / 2 }
	e.I64f = func(x int64) int64 { log.add("I64f", x); return x }
	e.K8 = func(x int8) int8 { log.add("K8", x); return x }
	e.K16 = func(x int16) int16 { log.add("K16", x); return x }
	e.K32 = func(x int32) int32 { log.add("K32", x); return x }
	e.KU = func(x uint) uint { log.add("KU", x); return x }
	e.KU8 = func(x uint8) uint8 { log.add("KU8", x); return x }
	e.KU16 = func(x uint16) uint16 { log.add("KU16", x); return x }
	e.KU32 = func(x uint32) uint32 { log.add("KU32", x); return x }
	e.KU64 = func(x uint64) uint64 { log.add("KU64", x); return x }
	e.KF32 = func(x float32) float32 { log.add("KF32", x); return x }
	registerFn("K8", e.K8)
	registerFn("K16", e.K16)
	registerFn("K32", e.K32)
	registerFn("KU", e.KU)
	registerFn("KU8", e.KU8)
	registerFn("KU16", e.KU16)
	registerFn("KU32", e.KU32)
	registerFn("KU64", e.KU64)
	registerFn("KF32", e.KF32)
	registerFn("Id", e.Id)
	registerFn("Inc", e.Inc)
	registerFn("Add", e.Add)
	registerFn("Cat", e.Cat)
	registerFn("IsPos", e.IsPos)
	registerFn("Fail", e.Fail)
	registerFn("Fast", e.Fast)
	registerFn("Sum", e.Sum)
	registerFn("List", e.List)
	registerFn("Half", e.Half)
	registerFn("I64", e.I64f)
	return e
}

// AsMap returns the same members as a map[string]interface{} environment.
func (e *Env) AsMap() map[string]interface{} {
	m := map[string]interface{}{}
	rv := reflect.ValueOf(e).Elem()
	rt := rv.Type()
	for i := 0; i < rt.NumField(); i++ {
		f := rt.Field(i)
		if f.PkgPath != "" {
			continue
		}
		m[f.Name] = rv.Field(i).Interface()
	}
	return m
}

func (e *Env) ResetLog()      { e.log.Calls = nil }
func (e *Env) Log() []string  { return append([]string(nil), e.log.Calls...) }
func (e *Env) String() string { return fmt.Sprintf("%+v", *e) }
