package main

<<<<<<< HEAD
// The environment zoo used by the end-to-end stages (compile / VM / Spec correspondence).
// Environment functions are closures over a per-environment call log; their behaviour is mirrored by
// `libCall` in lean/ExprModel/Drv/Code.lean (ids = field names).

import (
	"fmt"
	"reflect"
)

type Sub struct {
	X    int
	Name string
	Tags []string
}

type CallLog struct{ Calls []string }

func (l *CallLog) add(name string, args ...interface{}) {
	s := name
	for _, a := range args {
		s += " " + valSx(a).String()
	}
	l.Calls = append(l.Calls, s)
}

type Env struct {
	I, J  int
	I8    int8
	U8    uint8
	I64   int64
	U     uint
	F     float64
	F32   float32
	S, T  string
	B, C  bool
	Ints  []int
	Strs  []string
	Anys  []interface{}
	Fs    []float64
	M     map[string]interface{}
	Sub   Sub
	P     *Sub
	Z     interface{} // nil
	Id    func(interface{}) interface{}
	Inc   func(int) int
	Add   func(int, int) int
	Cat   func(string, string) string
	IsPos func(int) bool
	Fail  func() interface{}
	Fast  func(...interface{}) interface{}
	Sum   func(...int) int
	Half  func(float64) float64
	I64f  func(int64) int64 `verif:"I64"`

	log *CallLog
}

var envFnNames = []string{"Id", "Inc", "Add", "Cat", "IsPos", "Fail", "Fast", "Sum", "Half", "I64f"}

func registerFn(name string, f interface{}) {
	fnIDs[reflect.ValueOf(f).Pointer()] = name
}

// NewEnv builds an environment with the given scalar/collection values and fresh logging functions.
func NewEnv(seed int, pick func(n int) int) *Env {
	log := &CallLog{}
	e := &Env{log: log}
	ints := [][]int{{}, {1}, {1, 2, 3}, {3, -1, 0, 7, 7}, {5, 4, 3, 2, 1, 0}}
	strs := [][]string{{}, {"a"}, {"a", "b", "ab"}, {"x", "", "xyz"}}
	anys := [][]interface{}{{}, {1, "a", true}, {nil, 2.5, int64(3)}, {1, 2, 3}}
	scal := []int{0, 1, -1, 2, 3, 7, 10, -5, 100}
	e.I = scal[pick(len(scal))]
	e.J = scal[pick(len(scal))]
	e.I8 = int8(scal[pick(len(scal))])
	e.U8 = uint8(scal[pick(4)])
	e.I64 = int64(scal[pick(len(scal))])
	e.U = uint(scal[pick(4)])
	e.F = []float64{0, 1.5, -2.25, 3, 100.5}[pick(5)]
	e.F32 = []float32{0, 0.5, -1.5, 2}[pick(4)]
	e.S = []string{"", "a", "abc", "hello world", "xyz"}[pick(5)]
	e.T = []string{"", "a", "b", "abc", "lo w"}[pick(5)]
	e.B = pick(2) == 0
	e.C = pick(2) == 0
	e.Ints = ints[pick(len(ints))]
	e.Strs = strs[pick(len(strs))]
	e.Anys = anys[pick(len(anys))]
	e.Fs = [][]float64{{}, {1.5}, {0.5, 2, -1}}[pick(3)]
	e.M = []map[string]interface{}{{}, {"a": 1, "b": "x"}, {"k": []interface{}{1, 2}, "n": nil, "a": 2.5}}[pick(3)]
	e.Sub = Sub{X: scal[pick(len(scal))], Name: "sub", Tags: []string{"t1", "t2"}}
	e.P = &Sub{X: 42, Name: "ptr", Tags: nil}
	e.Id = func(x interface{}) interface{} { log.add("Id", x); return x }
	e.Inc = func(x int) int { log.add("Inc", x); return x + 1 }
	e.Add = func(a, b int) int { log.add("Add", a, b); return a + b }
	e.Cat = func(a, b string) string { log.add("Cat", a, b); return a + b }
	e.IsPos = func(x int) bool { log.add("IsPos", x); return x > 0 }
	e.Fail = func() interface{} { log.add("Fail"); panic("env function failed") }
	e.Fast = func(xs ...interface{}) interface{} { log.add("Fast", xs...); return len(xs) }
	e.Sum = func(xs ...int) int {
		as := make([]interface{}, len(xs))
		s := 0
		for i, x := range xs {
			as[i] = x
			s += x
		}
		log.add("Sum", as...)
		return s
	}
	e.Half = func(x float64) float64 { log.add("Half", x); return x / 2 }
	e.I64f = func(x int64) int64 { log.add("I64f", x); return x }
	registerFn("Id", e.Id)
	registerFn("Inc", e.Inc)
	registerFn("Add", e.Add)
	registerFn("Cat", e.Cat)
	registerFn("IsPos", e.IsPos)
	registerFn("Fail", e.Fail)
	registerFn("Fast", e.Fast)
	registerFn("Sum", e.Sum)
	registerFn("Half", e.Half)
	registerFn("I64", e.I64f)
	return e
}

// AsMap returns the same members as a map[string]interface{} environment.
func (e *Env) AsMap() map[string]interface{} {
	m := map[string]interface{}{}
	rv := reflect.ValueOf(e).Elem()
	rt := rv.Type()
	for i := 0; i < rt.NumField(); i++ {
		f := rt.Field(i)
		if f.PkgPath != "" {
			continue
		}
		m[f.Name] = rv.Field(i).Interface()
	}
	return m
}

func (e *Env) ResetLog()        { e.log.Calls = nil }
func (e *Env) Log() []string    { return append([]string(nil), e.log.Calls...) }
func (e *Env) String() string   { return fmt.Sprintf("%+v", *e) }
=======
// The type zoo: environment types for the name-resolution (C16) and typing (C03) properties.
// Struct shapes with embedded structs by value and by pointer, shadowing at depths 1-3, genuine
// ambiguity, unexported members, methods on value and pointer receivers (declared and promoted),
// func-typed members, typed and untyped maps, nested members; plus reflect.StructOf shapes.

import (
	"fmt"
	"math/rand"
	"reflect"
)

// ---- building blocks ------------------------------------------------------------------------

type ZA struct {
	X int
	Y string
}
type ZB struct {
	X float64
	Z bool
}
type ZDeep struct {
	X string
	W int
}
type ZMid struct {
	ZDeep
	V int
}
type ZMidP struct {
	*ZDeep
	V uint8
}
type ZTop struct {
	ZMid
	U int
}
type ZC struct {
	ZA int // a field named like an embedded type elsewhere
}
type zhidden struct {
	Pub  int
	priv int
}
type ZMyInt int
type ZMyStr string

// methods on building blocks (promoted when embedded)
type ZMethV struct{ N int }

func (z ZMethV) ValM(i int) int        { return z.N + i }
func (z *ZMethV) PtrM(s string) string { return s }

type ZMethW struct{ K string }

func (z ZMethW) ValM(i int) int { return i } // clashes with ZMethV.ValM when both embedded
func (z ZMethW) OnlyW() string  { return z.K }

type ZFieldValM struct {
	ValM int // a field named like ZMethV's method
	Foo  int
}

type ZStringer interface {
	Str() string
}
type zstr struct{}

func (zstr) Str() string { return "zstr" }

// ---- environments ---------------------------------------------------------------------------

// outer field declared before an embedded struct with the same field
type EnvShadowBefore struct {
	X int
	ZA
}

// outer field declared after it
type EnvShadowAfter struct {
	ZA
	X int
}

// genuine ambiguity at depth 1
type EnvAmbig struct {
	ZA
	ZB
}

// X at depth 1 (ZB) and at depth 2 (ZMid.ZDeep): Go resolves ZB.X
type EnvDepth struct {
	ZMid
	ZB
}
type EnvDepthRev struct {
	ZB
	ZMid
}

// depth 3: X only through ZTop.ZMid.ZDeep; own field Name
type EnvDepth3 struct {
	ZTop
	Name string
}

// ambiguity at depth 2 (ZMid.ZDeep.X vs ZMidP.ZDeep.X, V at depth 1 twice)
type EnvAmbigDeep struct {
	ZMid
	ZMidP
}

// embedded by pointer
type EnvPtrEmb struct {
	*ZA
	Q int
}

// embedded type whose name equals a field of another embedded struct, both orders
type EnvNameClashA struct {
	ZA
	ZC
}
type EnvNameClashB struct {
	ZC
	ZA
}

// unexported members; unexported embedded struct with an exported field
type EnvUnexported struct {
	priv int
	Pub2 string
	zhidden
}

// embedded non-struct defined types
type EnvEmbScalar struct {
	ZMyInt
	ZMyStr
	Flag bool
}

// methods declared on the environment (value and pointer receivers)
type EnvMeth struct {
	Base int
}

func (e EnvMeth) Add(a, b int) int                   { return a + b + e.Base }
func (e *EnvMeth) PtrOnly(s string) string           { return s }
func (e EnvMeth) Var(xs ...int) int                  { return len(xs) }
func (e EnvMeth) NoResult()                          {}
func (e EnvMeth) Two() (int, error)                  { return 1, nil }
func (e EnvMeth) Fast(xs ...interface{}) interface{} { return len(xs) }

// promoted methods: by value, by pointer; clash between two embedded; method vs field of an embedded
type EnvPromV struct {
	ZMethV
	Own int
}
type EnvPromP struct {
	*ZMethV
	Own int
}
type EnvMethClash struct {
	ZMethV
	ZMethW
}
type EnvMethVsField struct {
	ZMethV
	ZFieldValM
}

// a method declared on the environment shadows a promoted field of the same name
type EnvMethShadowsField struct {
	ZFieldValM
}

func (EnvMethShadowsField) Foo() string { return "method" }

// embedded interface
type EnvEmbIface struct {
	ZStringer
	Tag string
}

// function-typed members
type EnvFuncs struct {
	F     func(int) int
	S     func(string) string
	G     func(...interface{}) interface{}
	V     func(string, ...int) int
	None  func()
	Two   func() (int, int)
	h     func() int
	IFn   interface{} // holds a func(int) int
	Inner struct {
		Fn func(string) string
		N  int
	}
}

// nested members
type EnvNested struct {
	A   EnvDepth
	B   EnvAmbig
	C   EnvShadowBefore
	P   *ZMid
	PP  **ZA
	PM  *map[string]int
	M   map[string]ZA
	MI  map[int]string
	MS  map[ZMyStr]int
	MA  map[string]interface{}
	I   interface{}
	S   []ZA
	Str string
	MV  EnvPromV
	MP  *EnvPromV
	MC  EnvMethClash
	U   EnvUnexported
	Fn  EnvFuncs
}

// recursive type
type EnvRec struct {
	Name string
	Next *EnvRec
	Kids []EnvRec
}

// every scalar kind (C03)
type EnvScalars struct {
	I    int
	I8   int8
	I16  int16
	I32  int32
	I64  int64
	U    uint
	U8   uint8
	U16  uint16
	U32  uint32
	U64  uint64
	F32  float32
	F64  float64
	B    bool
	Str  string
	Any  interface{}
	Ints []int
	Strs []string
	Anys []interface{}
	Arr  [3]int
	MSI  map[string]int
	MII  map[int]int
	St   ZA
	PSt  *ZA
	Sts  []ZA
	My   ZMyInt
	Fi   func(int) int
	Fs   func(string) string
	Ff   func(float64) float64
	Fv   func(string, ...int) int
	Fa   func(interface{}) interface{}
	Fb   func(bool, int64) bool
}

func (EnvScalars) Mi(a int, b string) int { return a + len(b) }
func (EnvScalars) Ms(s string) string     { return s }
func (*EnvScalars) Mp(f float64) float64  { return f }

// defined map type with a method
type EnvNamedMap map[string]interface{}

func (EnvNamedMap) Size() int { return 0 }

type zooEnv struct {
	Name string
	Val  interface{} // the fully populated environment value (struct, *struct or map)
}

func init() {
	ifaceImpls[reflect.TypeOf((*ZStringer)(nil)).Elem()] = zstr{}
}

func popIface(x interface{}) interface{} {
	p := reflect.New(reflect.TypeOf(x))
	fill(p.Elem(), 0)
	zooSpecial(p.Elem())
	return p.Elem().Interface()
}

func popPtr(x interface{}) interface{} {
	p := reflect.New(reflect.TypeOf(x))
	fill(p.Elem(), 0)
	zooSpecial(p.Elem())
	return p.Interface()
}

// zooSpecial: fields named IFn (interface{}) hold a function.
func zooSpecial(v reflect.Value) {
	if v.Kind() != reflect.Struct {
		return
	}
	for i := 0; i < v.NumField(); i++ {
		f := v.Field(i)
		if v.Type().Field(i).Name == "IFn" && f.CanSet() {
			f.Set(reflect.ValueOf(func(i int) int { return i + 1 }))
		} else if f.Kind() == reflect.Struct {
			zooSpecial(f)
		}
	}
}

// zooEnvs lists the environments: every struct shape by value and by pointer, then the maps.
func zooEnvs(rng *rand.Rand, nRandom int) []zooEnv {
	var out []zooEnv
	shapes := []interface{}{
		EnvShadowBefore{}, EnvShadowAfter{}, EnvAmbig{}, EnvDepth{}, EnvDepthRev{}, EnvDepth3{}, EnvAmbigDeep{},
		EnvPtrEmb{}, EnvNameClashA{}, EnvNameClashB{}, EnvUnexported{}, EnvEmbScalar{}, EnvMeth{}, EnvPromV{}, EnvPromP{},
		EnvMethClash{}, EnvMethVsField{}, EnvMethShadowsField{}, EnvEmbIface{}, EnvFuncs{}, EnvNested{}, EnvRec{}, EnvScalars{},
	}
	for _, s := range shapes {
		n := reflect.TypeOf(s).Name()
		out = append(out, zooEnv{n, popIface(s)})
		out = append(out, zooEnv{"*" + n, popPtr(s)})
	}
	// maps
	fInt := func(i int) int { return i + 1 }
	out = append(out,
		zooEnv{"map[string]interface{}", map[string]interface{}{
			"a": 1, "s": "x", "f": fInt, "st": popIface(EnvDepth{}), "pst": popPtr(EnvAmbig{}), "nilv": nil,
			"m": map[string]interface{}{"k": 1}, "Fast": func(xs ...interface{}) interface{} { return len(xs) },
		}},
		zooEnv{"map[string]int", map[string]int{"a": 1, "b": 2}},
		zooEnv{"map[string]ZA", map[string]ZA{"za": {1, "y"}}},
		zooEnv{"map[string]func(int)int", map[string]func(int) int{"f": fInt}},
		zooEnv{"map[ZMyStr]int", map[ZMyStr]int{"a": 1}},
		zooEnv{"map[int]string", map[int]string{1: "a"}},
		zooEnv{"map[interface{}]interface{}", map[interface{}]interface{}{"a": 1, 2: "b"}},
		zooEnv{"EnvNamedMap", EnvNamedMap{"a": 1, "f": fInt}},
	)
	for i := 0; i < nRandom; i++ {
		t := randomStructType(rng, 3)
		out = append(out, zooEnv{fmt.Sprintf("structof#%d", i), populate(t, 0).Interface()})
	}
	return out
}

// randomStructType builds a method-less struct shape with reflect.StructOf: field names from a small
// alphabet (so that clashes at several depths are frequent), embedded structs by value.
// (reflect.StructOf does not support embedded pointers to structs with promoted fields reliably nor
// unexported fields without a package path, so those are covered by the declared zoo above.)
func randomStructType(rng *rand.Rand, depth int) reflect.Type {
	names := []string{"X", "Y", "Z", "W"}
	leaf := []reflect.Type{reflect.TypeOf(0), reflect.TypeOf(""), reflect.TypeOf(1.5), reflect.TypeOf(true), reflect.TypeOf(uint8(0))}
	embNames := []string{"EA", "EB", "EC"}
	for try := 0; ; try++ {
		var fields []reflect.StructField
		used := map[string]bool{}
		n := 1 + rng.Intn(4)
		for i := 0; i < n; i++ {
			if depth > 0 && rng.Intn(3) == 0 {
				en := embNames[rng.Intn(len(embNames))]
				if used[en] {
					continue
				}
				used[en] = true
				fields = append(fields, reflect.StructField{Name: en, Type: randomStructType(rng, depth-1), Anonymous: true})
			} else {
				fn := names[rng.Intn(len(names))]
				if used[fn] {
					continue
				}
				used[fn] = true
				fields = append(fields, reflect.StructField{Name: fn, Type: leaf[rng.Intn(len(leaf))]})
			}
		}
		if len(fields) == 0 {
			continue
		}
		var t reflect.Type
		func() {
			defer func() { recover() }()
			t = reflect.StructOf(fields)
		}()
		if t != nil {
			return t
		}
		if try > 20 {
			return reflect.TypeOf(struct{ X int }{})
		}
	}
}
>>>>>>> 5f4a00c74e8ed889fe2da1b13ccc562e2abc25a5
