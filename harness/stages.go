package main

// Stage-level correspondence shared by C01, C05, C06, C07, C15, C18: the Lean compile model vs
// compiler.Compile (byte for byte), and the Lean VM model vs (*VM).Run on the real bytecode.

import (
	"fmt"
	"os"
	"path/filepath"
	"regexp"
	"strings"

	"github.com/antonmedv/expr/ast"
	"github.com/antonmedv/expr/compiler"
	"github.com/antonmedv/expr/file"
	"github.com/antonmedv/expr/parser"
	"github.com/antonmedv/expr/vm"
)

type Case struct {
	Src  string
	Mode Mode
	Env  *Env
	B    *Built
}

var allModes = []Mode{
	{Env: "none"}, {Env: "struct", Optimize: true}, {Env: "struct", Optimize: false}, {Env: "map", Optimize: true},
	{Env: "struct", Optimize: true, Cast: "int64"}, {Env: "struct", Optimize: false, Cast: "float64"},
}

// GenCases produces n generated sources, each built under one mode and one environment.
func GenCases(c *Ctx, n int, depth int, modes []Mode, tweak func(*G)) []*Case {
	var out []*Case
	// minimised past failures and directed inputs run first (corpus/<property>.txt, one source per line)
	for _, src := range corpusLines(c.Prop) {
		for k := 0; k < 4; k++ {
			env := NewEnv(k, func(n int) int { return (k*7 + 3) % n })
			out = append(out, &Case{Src: src, Mode: modes[k%len(modes)], Env: env})
		}
	}
	for i := 0; i < n; i++ {
		g := &G{r: c.Rng}
		if i%4 == 3 {
			g.Chaos = 60 // a separate, mostly ill-typed stream (rejected by the checker in typed modes, run-time type errors under Eval)
		}
		if tweak != nil {
			tweak(g)
		}
		t := genTypes[c.Rng.Intn(len(genTypes))]
		m := modes[c.Rng.Intn(len(modes))]
		if m.Cast != "" {
			t = []string{"int", "float"}[c.Rng.Intn(2)]
		}
		src := g.Expr(t, 1+c.Rng.Intn(depth))
		if i%10 == 7 && m.Cast == "" {
			src = g.ConstSoup() // constant-pool stress (see gen.go)
		}
		env := NewEnv(i, func(k int) int { return c.Rng.Intn(k) })
		out = append(out, &Case{Src: src, Mode: m, Env: env})
	}
	return out
}

func corpusLines(prop string) []string {
	b, err := os.ReadFile(filepath.Join(verifDir(), "corpus", prop+".txt"))
	if err != nil {
		return nil
	}
	var out []string
	for _, l := range strings.Split(string(b), "\n") {
		l = strings.TrimSpace(l)
		if l != "" && !strings.HasPrefix(l, "//") {
			out = append(out, l)
		}
	}
	return out
}

// verifDir is the root of the verification tree (the harness runs with cwd = <root>/harness)
func verifDir() string {
	wd, _ := os.Getwd()
	return filepath.Dir(wd)
}

func envVal(cs *Case) interface{} {
	if cs.Mode.Env == "map" {
		return cs.Env.AsMap()
	}
	return cs.Env
}

// CompileCorrespondence compares the model's compilation with the real one; returns the cases that compiled.
func CompileCorrespondence(c *Ctx, cases []*Case) []*Case {
	r := c.R
	var lines []string
	var idx []*Case
	for _, cs := range cases {
		cs.B = BuildReal(cs.Src, cs.Mode, cs.Env)
		r.Count("build:"+cs.B.Stage, 1)
		if cs.B.Panicked {
			r.Count("build:panicked", 1)
			r.Note("pipeline panicked at stage %s: %s [%s]: %v", cs.B.Stage, cs.Src, cs.Mode.String(), cs.B.Err)
		}
		if cs.B.Tree != nil && !cs.B.Panicked {
			lines = append(lines, T("compile", cs.Mode.cfgSx(), A(cs.B.TreeSx)).String())
			idx = append(idx, cs)
		}
	}
	resp, err := c.AskAll(lines)
	if err != nil {
		r.Mismatch("driver", "compile", err.Error(), "")
		return nil
	}
	var ok []*Case
	for i, cs := range idx {
		r.Count("compile:compared", 1)
		if cs.B.Program == nil {
			if !strings.HasPrefix(resp[i], "(err") {
				r.Mismatch("compile", cs.Src+" ["+cs.Mode.String()+"]", resp[i], "error: "+cs.B.Err.Error())
			}
			continue
		}
		impl := programSx(cs.B.Program).String()
		if impl != resp[i] {
			r.Mismatch("compile", cs.Src+" ["+cs.Mode.String()+"] tree="+cs.B.TreeSx, resp[i], impl)
			continue
		}
		ok = append(ok, cs)
	}
	return ok
}

// typedMapSrc recognises sources that mention one of the typed-map members of the zoo environment
var typedMapSrc = regexp.MustCompile(`\bM[ISN]\b`)

type VMResult struct {
	Case  *Case
	Real  *RunOutcome
	Model *Sx
}

func renderReal(p *vm.Program, o *RunOutcome) string {
	logSx := []*Sx{A("log")}
	for _, l := range o.Log {
		logSx = append(logSx, A(strings.ReplaceAll(l, " ", "~")))
	}
	if o.Err != nil {
		return fmt.Sprintf("(err %s %d:%d mem=%d %s)", o.Class, o.Line, o.Col, o.Memory, L(logSx...))
	}
	return fmt.Sprintf("(ok %s stack=%d scopes=%d mem=%d %s)", valSx(o.Val), o.StackLen, o.Scopes, o.Memory, L(logSx...))
}

func renderModel(p *vm.Program, m *Sx) string {
	logOf := func(x *Sx) string {
		out := []*Sx{A("log")}
		for _, e := range x.List[1:] {
			s := e.List[0].Str()
			for _, a := range e.List[1:] {
				s += "~" + a.String()
			}
			out = append(out, A(strings.ReplaceAll(s, " ", "~")))
		}
		return L(out...).String()
	}
	switch m.Tag() {
	case "ok":
		return fmt.Sprintf("(ok %s stack=%s scopes=%s mem=%s %s)", m.List[1], m.List[2].Atom, m.List[3].Atom, m.List[4].Atom, logOf(m.List[6]))
	case "err":
		var pp int
		fmt.Sscan(m.List[2].Atom, &pp)
		loc := p.Locations[pp]
		return fmt.Sprintf("(err %s %d:%d mem=%s %s)", m.List[1].Atom, loc.Line, loc.Column, m.List[3].Atom, logOf(m.List[5]))
	}
	return m.String()
}

type DefectFlags struct{ RangeSigned, MemNotReset bool }

// The flags that mirror /repo today.  They are DERIVED on every run from the facts the translator extracts
// from vm/vm.go (Gen/VMReset.lean: is `vm.memory` assigned in the prologue of Run?  Gen/Budget.lean: is the
// size of OpRange clamped at zero?) by the model driver's `srcdefects` stage (lean/ExprModel/VM/SrcDefects.lean),
// so the same /verif follows the code before and after a fix: commit.  The values below are only the
// fallback used if the driver cannot be asked (reported as a broken tie).
var asIs = DefectFlags{RangeSigned: true, MemNotReset: true}

func initAsIs(c *Ctx) {
	resp, err := c.AskAll([]string{"(srcdefects)"})
	if err != nil {
		c.R.Mismatch("driver", "srcdefects", err.Error(), "")
		return
	}
	m, perr := ParseSx(resp[0])
	if perr != nil || m.Tag() != "defects" || len(m.List) != 3 {
		c.R.Mismatch("driver", "srcdefects", resp[0], "(defects <rangeSizeSigned> <memoryNotReset>)")
		return
	}
	asIs = DefectFlags{RangeSigned: m.List[1].Atom == "true", MemNotReset: m.List[2].Atom == "true"}
	c.R.Note("model variant derived from the source: rangeSizeSigned=%v memoryNotReset=%v", asIs.RangeSigned, asIs.MemNotReset)
}

func (d DefectFlags) Sx() *Sx { return T("defects", SBool(d.RangeSigned), SBool(d.MemNotReset)) }

// VMCorrespondence runs each compiled case on a fresh real VM and on the model.
func VMCorrespondence(c *Ctx, cases []*Case, budget int) []*VMResult {
	r := c.R
	old := vm.MemoryBudget
	vm.MemoryBudget = budget
	defer func() { vm.MemoryBudget = old }()
	var lines []string
	var res []*VMResult
	for _, cs := range cases {
		machine := &vm.VM{}
		ev := envVal(cs)
		o := RunReal(machine, cs.B.Program, ev, cs.Env)
		res = append(res, &VMResult{Case: cs, Real: o})
		lines = append(lines, T("vmrun", SInt(int64(budget)), asIs.Sx(), valSx(ev), programSx(cs.B.Program), T("regex")).String())
	}
	resp, err := c.AskAll(lines)
	if err != nil {
		r.Mismatch("driver", "vmrun", err.Error(), "")
		return nil
	}
	for i, vr := range res {
		m, perr := ParseSx(resp[i])
		if perr != nil {
			r.Mismatch("vm", vr.Case.Src, resp[i], "unparsable")
			continue
		}
		vr.Model = m
		real := renderReal(vr.Case.B.Program, vr.Real)
		model := renderModel(vr.Case.B.Program, m)
		r.Count("vm:compared", 1)
		if vr.Real.Err != nil {
			r.Count("vm:err:"+vr.Real.Class, 1)
		} else {
			r.Count("vm:ok", 1)
		}
		if typedMapSrc.MatchString(vr.Case.Src) {
			// members of type map[string]int / map[string]string / a nil map[string]int (zoo.go): missing key = element zero
			if vr.Real.Err != nil {
				r.Count("vm:typedmap:err", 1)
			} else {
				r.Count("vm:typedmap:ok", 1)
			}
		}
		if real != model && !(strings.Contains(real, "f64") && powClose(vr.Case, real, model)) {
			r.Mismatch("vm", vr.Case.Src+" ["+vr.Case.Mode.String()+"] env="+valSx(envVal(vr.Case)).String(), model, real)
		}
	}
	return res
}

// powClose: math.Pow (Go) and libm pow (Lean's Float.pow) may differ in the last bits for non-exact results;
// `**` values are not compared beyond that (DESIGN 3.3): tolerated only when the program contains OpExponent.
func powClose(cs *Case, a, b string) bool {
	hasPow := false
	for _, by := range cs.B.Program.Bytecode {
		if by == vm.OpExponent {
			hasPow = true
		}
	}
	if !hasPow {
		return false
	}
	re := regexp.MustCompile(`\(f64 (\d+)\)`)
	fa, fb := re.FindAllStringSubmatch(a, -1), re.FindAllStringSubmatch(b, -1)
	if len(fa) != len(fb) || re.ReplaceAllString(a, "F") != re.ReplaceAllString(b, "F") {
		return false
	}
	for i := range fa {
		var x, y uint64
		fmt.Sscan(fa[i][1], &x)
		fmt.Sscan(fb[i][1], &y)
		d := x - y
		if y > x {
			d = y - x
		}
		if d > 4 {
			return false
		}
	}
	return true
}

// SpecCorrespondence evaluates each compiled case with the Lean reference evaluator (on the tree the
// real compiler was given) and compares value / error class / call log / allocation total with the real run.
// flags = (rangeSizeSigned, sliceToFirst): (false,false) is the semantics the properties require.
func SpecCorrespondence(c *Ctx, results []*VMResult, budget int, rangeSigned, sliceToFirst bool, onDiff func(vr *VMResult, spec, real string)) {
	r := c.R
	var lines []string
	for _, vr := range results {
		cs := vr.Case
		cast := "_"
		if cs.Mode.Env != "none" && (cs.Mode.Cast == "int64" || cs.Mode.Cast == "float64") {
			cast = cs.Mode.Cast
		}
		lines = append(lines, T("speceval", SInt(int64(budget)), T("flags", SBool(rangeSigned), SBool(sliceToFirst)), A(cast),
			valSx(envVal(cs)), A(cs.B.TreeSx)).String())
	}
	resp, err := c.AskAll(lines)
	if err != nil {
		r.Mismatch("driver", "speceval", err.Error(), "")
		return
	}
	for i, vr := range results {
		m, perr := ParseSx(resp[i])
		if perr == nil && m.Tag() == "refused" {
			// the driver does not build ranges of more than 2e6 elements (Spec.eval would, before checking the budget)
			r.Count("spec:refused-huge-range", 1)
			continue
		}
		if perr != nil || (m.Tag() != "ok" && m.Tag() != "err") {
			r.Mismatch("spec", vr.Case.Src, resp[i], "bad response")
			continue
		}
		logOf := func(x *Sx) string {
			out := []string{}
			for _, e := range x.List[1:] {
				s := e.List[0].Str()
				for _, a := range e.List[1:] {
					s += "~" + a.String()
				}
				out = append(out, strings.ReplaceAll(s, " ", "~"))
			}
			return strings.Join(out, ",")
		}
		var spec string
		if m.Tag() == "ok" {
			spec = fmt.Sprintf("(ok %s mem=%s log=%s)", m.List[1], m.List[2].Atom, logOf(m.List[4]))
		} else {
			spec = fmt.Sprintf("(err %s mem=%s log=%s)", m.List[1].Atom, m.List[2].Atom, logOf(m.List[4]))
		}
		rl := []string{}
		for _, l := range vr.Real.Log {
			rl = append(rl, strings.ReplaceAll(l, " ", "~"))
		}
		var real string
		if vr.Real.Err != nil {
			real = fmt.Sprintf("(err %s mem=%d log=%s)", vr.Real.Class, vr.Real.Memory, strings.Join(rl, ","))
		} else {
			real = fmt.Sprintf("(ok %s mem=%d log=%s)", valSx(vr.Real.Val), vr.Real.Memory, strings.Join(rl, ","))
		}
		r.Count("spec:compared", 1)
		if spec != real && !(strings.Contains(real, "f64") && powClose(vr.Case, real, spec)) {
			onDiff(vr, spec, real)
		}
	}
}

// EnumCases: exhaustive small trees (depth 2 fully, depth 3 thinned) compiled WITHOUT type information
// (trees built directly; compiler.Compile(tree, nil)).  The closure bodies use `#`.
func EnumCases(c *Ctx, stride3 int) []*Case {
	l := &locGen{}
	var out []*Case
	mk := func(f func() ast.Node, k int) {
		n := f()
		env := NewEnv(k, func(m int) int { return (k*5 + 1) % m })
		tree := &parser.Tree{Node: n, Source: file.NewSource("")}
		cs := &Case{Src: "<enum>", Mode: Mode{Env: "none"}, Env: env}
		b := &Built{Src: "<enum>", Mode: cs.Mode, Tree: tree, TreeSx: nodeSx(n, true).String(), Stage: "compile"}
		func() {
			defer func() {
				if r := recover(); r != nil {
					b.Panicked = true
					b.Err = fmt.Errorf("PANIC: %v", r)
				}
			}()
			p, err := compiler.Compile(tree, nil)
			b.Program, b.Err = p, err
			if err == nil {
				b.Stage = "done"
			}
		}()
		cs.B = b
		cs.Src = "<enum> " + ast.Dump(n)
		out = append(out, cs)
	}
	leaves := enumLeaves(l, true)
	d2 := EnumTrees(l, leaves, true, 1)
	for i, f := range d2 {
		mk(f, i)
	}
	// depth 3: children from a deterministic sample of depth-2 trees plus some leaves
	var kids []func() ast.Node
	for i, f := range d2 {
		if i%(211+c.Rng.Intn(40)) == 0 {
			kids = append(kids, f)
		}
	}
	kids = append(kids, leaves[1], leaves[2], leaves[6], leaves[9], leaves[len(leaves)-1])
	d3 := EnumTrees(l, kids, true, stride3)
	for i, f := range d3 {
		mk(f, i)
	}
	return out
}

// CompileCorrespondenceBuilt is CompileCorrespondence for cases that are already built.
func CompileCorrespondenceBuilt(c *Ctx, cases []*Case) []*Case {
	r := c.R
	var lines []string
	for _, cs := range cases {
		lines = append(lines, T("compile", cs.Mode.cfgSx(), A(cs.B.TreeSx)).String())
	}
	resp, err := c.AskAll(lines)
	if err != nil {
		r.Mismatch("driver", "compile", err.Error(), "")
		return nil
	}
	var ok []*Case
	for i, cs := range cases {
		r.Count("enum:compile:compared", 1)
		if cs.B.Program == nil {
			r.Count("enum:compile:rejected", 1)
			if !strings.HasPrefix(resp[i], "(err") {
				r.Mismatch("compile-enum", cs.B.TreeSx, resp[i], fmt.Sprint("error: ", cs.B.Err))
			}
			continue
		}
		impl := programSx(cs.B.Program).String()
		if impl != resp[i] {
			r.Mismatch("compile-enum", cs.B.TreeSx, resp[i], impl)
			continue
		}
		ok = append(ok, cs)
	}
	return ok
}
