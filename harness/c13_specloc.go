package main

// C13 (iv): the instrumented reference evaluator (lean/ExprModel/Spec/EvalLoc.lean, `Spec.runLoc`: Spec.eval whose
// failures carry the location of the node that RAISES them) is tied to the real code: for every failing run of
// a generated or enumerated program the class and the position of the real *file.Error must be the class and
// the location `runLoc` assigns to the same tree in the same environment; a run that succeeds must succeed in
// `runLoc` too.  Theorem `runtime_error_location_exact_partial` is about that evaluator.

import (
	"fmt"
	"strings"

	"github.com/antonmedv/expr/vm"
)

// c13LocAsk is one question to the driver stage `specloc` together with what the real code did.
type c13LocAsk struct {
	what     string // stage name for the report
	input    string
	line     string
	realErr  bool
	class    string
	row, col int
}

func c13LocLine(budget int, rangeSigned bool, cast string, env interface{}, treeSx string) string {
	return T("specloc", SInt(int64(budget)), T("flags", SBool(rangeSigned), SBool(true)), A(cast), valSx(env), A(treeSx)).String()
}

// c13LocJudge asks the driver and compares; returns the number of compared failing runs.
func c13LocJudge(c *Ctx, asks []c13LocAsk) int {
	r := c.R
	lines := make([]string, len(asks))
	for i, a := range asks {
		lines[i] = a.line
	}
	resp, err := c.AskAll(lines)
	if err != nil {
		r.Mismatch("driver", "specloc", err.Error(), "")
		return 0
	}
	failing := 0
	for i, a := range asks {
		m, perr := ParseSx(resp[i])
		if perr == nil && m.Tag() == "refused" {
			r.Count("specloc:refused-huge-range", 1)
			continue
		}
		if perr != nil || (m.Tag() != "ok" && m.Tag() != "err") {
			r.Mismatch(a.what, a.input, resp[i], "bad response")
			continue
		}
		model := m.String()
		real := "(ok)"
		if a.realErr {
			real = fmt.Sprintf("(err %s %d %d)", a.class, a.row, a.col)
			failing++
			r.Count("specloc:err:"+a.class, 1)
		} else {
			r.Count("specloc:ok", 1)
		}
		r.Count("specloc:compared", 1)
		if model != real {
			r.Mismatch(a.what, a.input, model, real)
		}
	}
	return failing
}

// c13SpecLoc: generated zoo programs (typed and untyped modes, a chaos stream of ill-typed ones that fail at run
// time under Eval) and the exhaustive small trees (every node kind in every child slot, each node with its own location).
func c13SpecLoc(c *Ctx) {
	r := c.R
	n := 1000
	stride := 18
	if c.Thorough() {
		n = 30000
		stride = 2
	}
	const budget = 1000
	old := vm.MemoryBudget
	vm.MemoryBudget = budget
	defer func() { vm.MemoryBudget = old }()
	var asks []c13LocAsk
	add := func(cs *Case, what string) {
		if cs.B == nil || cs.B.Program == nil || cs.B.Panicked {
			return
		}
		o := RunReal(&vm.VM{}, cs.B.Program, envVal(cs), cs.Env)
		if o.Timeout || o.Class == "panic-escaped" {
			return
		}
		cast := "_"
		if cs.Mode.Env != "none" && (cs.Mode.Cast == "int64" || cs.Mode.Cast == "float64") {
			cast = cs.Mode.Cast
		}
		a := c13LocAsk{what: what, input: cs.Src + " [" + cs.Mode.String() + "] tree=" + cs.B.TreeSx,
			line: c13LocLine(budget, asIs.RangeSigned, cast, envVal(cs), cs.B.TreeSx)}
		if o.Err != nil {
			a.realErr, a.class, a.row, a.col = true, o.Class, o.Line, o.Col
		}
		asks = append(asks, a)
	}
	cases := GenCases(c, n, 4, allModes, func(g *G) {
		if g.Chaos == 0 && c.Rng.Intn(3) == 0 {
			g.Chaos = 40
		}
	})
	for _, cs := range cases {
		cs.B = BuildReal(cs.Src, cs.Mode, cs.Env)
		r.Case("specloc|"+cs.Src+"|"+cs.Mode.String(), len(cs.Src) > 6 && strings.ContainsAny(cs.Src, "[.(/%"))
		add(cs, "specloc")
	}
	for _, cs := range EnumCases(c, stride) {
		add(cs, "specloc-enum")
	}
	failing := c13LocJudge(c, asks)
	if failing == 0 || r.Counters["specloc:ok"] == 0 {
		r.Mismatch("generator", "specloc", "failing and succeeding runs", fmt.Sprintf("failing=%d ok=%d", failing, r.Counters["specloc:ok"]))
	}
	for _, k := range []string{"specloc:err:type", "specloc:err:index", "specloc:err:divzero", "specloc:err:call"} {
		if r.Counters[k] == 0 {
			r.Mismatch("generator", k, "no failing run of that class", "")
		}
	}
}
