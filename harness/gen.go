package main

// Type-directed generator of expression sources over the zoo environment (zoo.go).
// Mostly well-typed; every node kind and every operator has a production.  All randomness comes
// from the *rand.Rand handed in, so a seed replays exactly.

import (
	"fmt"
	"math/rand"
	"strings"
)

type G struct {
	r     *rand.Rand
	depth int // closure nesting: > 0 inside a closure
	elem  []string
	// NoCalls suppresses environment calls (for rewrites that duplicate operands)
	NoCalls bool
	// Chaos is the probability (in 1/1000) of substituting a sub-expression of a random other type
	Chaos int
}

func (g *G) pick(xs ...string) string { return xs[g.r.Intn(len(xs))] }

func (g *G) Expr(t string, d int) string {
	if g.Chaos > 0 && g.r.Intn(1000) < g.Chaos {
		t = genTypes[g.r.Intn(len(genTypes))]
	}
	if d <= 0 {
		return g.leaf(t)
	}
	switch t {
	case "int":
		switch g.r.Intn(18) {
		case 0, 1:
			return g.leaf(t)
		case 2, 3:
			return fmt.Sprintf("(%s %s %s)", g.Expr("int", d-1), g.pick("+", "-", "*"), g.Expr("int", d-1))
		case 4:
			return fmt.Sprintf("(%s %s %s)", g.Expr("int", d-1), g.pick("/", "%"), g.Expr("int", d-1))
		case 5:
			return fmt.Sprintf("(-%s)", g.Expr("int", d-1))
		case 6:
			return fmt.Sprintf("len(%s)", g.Expr(g.pick("ints", "anys", "string", "strs"), d-1))
		case 7:
			return fmt.Sprintf("(%s ? %s : %s)", g.Expr("bool", d-1), g.Expr("int", d-1), g.Expr("int", d-1))
		case 8:
			return fmt.Sprintf("%s[%s]", g.Expr("ints", d-1), g.Expr("int", d-1))
		case 9:
			return fmt.Sprintf("count(%s, {%s})", g.Expr("ints", d-1), g.closure("bool", "int", d-1))
		case 10:
			if g.NoCalls {
				return g.leaf(t)
			}
			return g.pick(fmt.Sprintf("Inc(%s)", g.Expr("int", d-1)), fmt.Sprintf("Add(%s, %s)", g.Expr("int", d-1), g.Expr("int", d-1)),
				fmt.Sprintf("Sum(%s, %s)", g.Expr("int", d-1), g.Expr("int", d-1)))
		case 11:
			if !g.NoCalls && g.r.Intn(3) == 0 {
				return fmt.Sprintf("%s(%s)", g.pick("Sub.Twice", "P.Twice", "P?.Twice", "Sub?.Twice"), g.Expr("int", d-1))
			}
			return g.pick("Sub.X", "P.X", "P?.X")
		case 12:
			if g.depth > 0 && g.elem[len(g.elem)-1] == "int" {
				return "#"
			}
			return g.leaf(t)
		case 13:
			return fmt.Sprintf("(+%s)", g.Expr("int", d-1))
		case 14:
			if g.NoCalls || g.r.Intn(2) == 0 {
				return g.leaf(t)
			}
			return g.kindCall()
		case 15:
			// typed maps: a missing key (and every key of the nil map) reads as 0
			return g.pick("MI.a", "MI.zz", "MI?.b", `MI["abc"]`, `(MI["zz"] + 1)`, "MN.a", `MN["k"]`, "MN?.a", "len(MI)", "len(MS)", "len(MN)",
				fmt.Sprintf("MI[%s]", g.Expr("string", d-1)), fmt.Sprintf("(MI[%s] %s %s)", g.Expr("string", d-1), g.pick("+", "*", "-"), g.Expr("int", d-1)))
		default:
			return g.leaf(t)
		}
	case "float":
		switch g.r.Intn(8) {
		case 0:
			return fmt.Sprintf("(%s %s %s)", g.Expr("float", d-1), g.pick("+", "-", "*", "/"), g.Expr(g.pick("float", "int"), d-1))
		case 1:
			return fmt.Sprintf("(%s ** %s)", g.pick("2", "3", "I", "2.0"), g.pick("2", "3", "0", "1"))
		case 2:
			return fmt.Sprintf("(%s + %s)", g.Expr("int", d-1), g.Expr("float", d-1))
		case 3:
			if g.NoCalls {
				return g.leaf(t)
			}
			return fmt.Sprintf("Half(%s)", g.Expr("float", d-1))
		default:
			return g.leaf(t)
		}
	case "string":
		switch g.r.Intn(10) {
		case 0:
			return fmt.Sprintf("(%s + %s)", g.Expr("string", d-1), g.Expr("string", d-1))
		case 1:
			return fmt.Sprintf("%s[%s:%s]", g.pick("S", "T", "Sub.Name"), g.optInt(d-1), g.optInt(d-1))
		case 2:
			if g.NoCalls {
				return g.leaf(t)
			}
			return fmt.Sprintf("Cat(%s, %s)", g.Expr("string", d-1), g.Expr("string", d-1))
		case 3:
			return g.pick("Sub.Name", "P.Name", "P?.Name")
		case 4:
			return fmt.Sprintf("(%s ? %s : %s)", g.Expr("bool", d-1), g.Expr("string", d-1), g.Expr("string", d-1))
		case 5:
			return fmt.Sprintf("%s[%s]", g.Expr("strs", d-1), g.Expr("int", d-1))
		case 6:
			if g.depth > 0 && g.elem[len(g.elem)-1] == "string" {
				return "#"
			}
			return g.leaf(t)
		case 7:
			// map[string]string: a missing key reads as ""
			return g.pick("MS.a", "MS.zz", "MS?.abc", `MS["b"]`, "(MS[S] + T)", fmt.Sprintf("MS[%s]", g.Expr("string", d-1)),
				fmt.Sprintf("(MS[%s] + %s)", g.Expr("string", d-1), g.Expr("string", d-1)))
		default:
			return g.leaf(t)
		}
	case "bool":
		switch g.r.Intn(24) {
		case 0:
			return fmt.Sprintf("(%s %s %s)", g.Expr("bool", d-1), g.pick("and", "or", "&&", "||"), g.Expr("bool", d-1))
		case 1:
			return fmt.Sprintf("(%s %s)", g.pick("not", "!"), g.Expr("bool", d-1))
		case 2, 3:
			return fmt.Sprintf("(%s %s %s)", g.Expr("int", d-1), g.pick("==", "!=", "<", "<=", ">", ">="), g.Expr("int", d-1))
		case 4:
			return fmt.Sprintf("(%s %s %s)", g.Expr("float", d-1), g.pick("==", "<", ">="), g.Expr(g.pick("int", "float"), d-1))
		case 5:
			return fmt.Sprintf("(%s %s %s)", g.Expr("string", d-1), g.pick("==", "!=", "<", ">", "contains", "startsWith", "endsWith"), g.Expr("string", d-1))
		case 6:
			return fmt.Sprintf("(%s %s %s)", g.Expr(g.pick("int", "int", "float", "any"), d-1), g.pick("in", "not in"), g.Expr(g.pick("ints", "anys", "ints"), d-1))
		case 7:
			return fmt.Sprintf("(%s %s %s..%s)", g.Expr("int", d-1), g.pick("in", "not in"), g.leaf("int"), g.leaf("int"))
		case 8:
			return fmt.Sprintf("(%s in %s)", g.Expr("string", d-1), g.pick("M", "Sub", "Strs", `["a", "b"]`, `{a: 1}`))
		case 9:
			return fmt.Sprintf("%s(%s, {%s})", g.pick("all", "any", "none", "one"), g.Expr("ints", d-1), g.closure("bool", "int", d-1))
		case 10:
			return fmt.Sprintf("%s(%s, {%s})", g.pick("all", "any", "none", "one"), g.Expr("strs", d-1), g.closure("bool", "string", d-1))
		case 11:
			if g.depth > 0 && g.elem[len(g.elem)-1] == "string" && g.r.Intn(2) == 0 {
				// a pattern that changes from one iteration to the next
				return fmt.Sprintf("(%s matches #)", g.pick("S", "T", `"abc"`, `"xyz a"`))
			}
			return fmt.Sprintf("(%s matches %s)", g.Expr("string", d-1), g.pick(`"^a"`, `"bc$"`, `"lo"`, `"^abc$"`, "T"))
		case 12:
			if g.NoCalls {
				return g.leaf(t)
			}
			return fmt.Sprintf("IsPos(%s)", g.Expr("int", d-1))
		case 13:
			return fmt.Sprintf("(%s == %s)", g.pick("Z", "nil", "P", "M.n"), g.pick("nil", "Z"))
		case 14:
			return fmt.Sprintf("(%s ? %s : %s)", g.Expr("bool", d-1), g.Expr("bool", d-1), g.Expr("bool", d-1))
		case 15:
			return fmt.Sprintf("(%s == %s)", g.Expr("ints", d-1), g.Expr("ints", d-1))
		case 16:
			return fmt.Sprintf("(%s in [%s, %s])", g.Expr("int", d-1), g.leaf("intlit"), g.leaf("intlit"))
		case 17:
			return fmt.Sprintf("(%s %s %s)", g.Expr("string", d-1), g.pick("in", "not in"), g.pick("MI", "MS", "MN"))
		case 18:
			return g.pick("(MI == MI)", "(MI == MN)", "(MN == nil)", "(MI == nil)", "(MN == Z)", "(MI != MS)", "(MS == M)", "(MS == MS)", "(MI.zz == 0)", `(MS.zz == "")`,
				"(MI.zz == nil)", "(MN.a == 0)", fmt.Sprintf("(MI[%s] == %s)", g.Expr("string", d-1), g.Expr("int", d-1)),
				fmt.Sprintf("(MS[%s] == %s)", g.Expr("string", d-1), g.Expr("string", d-1)), fmt.Sprintf("(MI[%s] < %s)", g.Expr("string", d-1), g.Expr("int", d-1)))
		default:
			return g.leaf(t)
		}
	case "ints":
		switch g.r.Intn(10) {
		case 0:
			return fmt.Sprintf("%s..%s", g.leaf("int"), g.leaf("int"))
		case 1:
			return fmt.Sprintf("filter(%s, {%s})", g.Expr("ints", d-1), g.closure("bool", "int", d-1))
		case 2:
			return fmt.Sprintf("map(%s, {%s})", g.Expr("ints", d-1), g.closure("int", "int", d-1))
		case 3:
			return fmt.Sprintf("%s[%s:%s]", g.pick("Ints", "(1..5)"), g.optInt(d-1), g.optInt(d-1))
		case 4:
			return fmt.Sprintf("[%s, %s]", g.Expr("int", d-1), g.Expr("int", d-1))
		case 5:
			return fmt.Sprintf("(%s ? %s : %s)", g.Expr("bool", d-1), g.Expr("ints", d-1), g.Expr("ints", d-1))
		case 6:
			return fmt.Sprintf("(%s..%s)", g.Expr("int", d-1), g.Expr("int", d-1))
		case 7:
			// a collection that depends on the enclosing closure's element: it must be evaluated in the outer scope
			if g.depth > 0 && g.elem[len(g.elem)-1] == "int" {
				return g.pick("(1..#)", "[#, 2, 4]", "(#..3)", "[#, #]")
			}
			return g.leaf(t)
		default:
			return g.leaf(t)
		}
	case "strs":
		switch g.r.Intn(6) {
		case 0:
			return fmt.Sprintf("filter(%s, {%s})", g.Expr("strs", d-1), g.closure("bool", "string", d-1))
		case 1:
			return fmt.Sprintf("[%s, %s]", g.Expr("string", d-1), g.Expr("string", d-1))
		case 2:
			return fmt.Sprintf("map(%s, {%s})", g.Expr("ints", d-1), g.closure("string", "int", d-1))
		default:
			return g.leaf(t)
		}
	case "anys":
		switch g.r.Intn(6) {
		case 0:
			return fmt.Sprintf("[%s, %s, %s]", g.Expr("int", d-1), g.Expr("string", d-1), g.Expr("bool", d-1))
		case 1:
			return fmt.Sprintf("map(%s, {%s})", g.Expr("ints", d-1), g.closure(g.pick("int", "bool", "string", "float"), "int", d-1))
		case 2:
			if g.NoCalls {
				return "[]"
			}
			return g.pick("[]", fmt.Sprintf("List(%s, %s)", g.Expr("int", d-1), g.Expr(g.pick("string", "int", "bool"), d-1)), fmt.Sprintf("List(%s)", g.Expr("int", d-1)))
		case 3:
			return fmt.Sprintf("[%s, {a: %s, \"b\": %s, (%s): 1}]", g.Expr("float", d-1), g.Expr("int", d-1), g.Expr("ints", d-1), g.Expr("string", d-1))
		default:
			return g.leaf(t)
		}
	case "any":
		switch g.r.Intn(8) {
		case 0:
			if g.NoCalls {
				return "Z"
			}
			return fmt.Sprintf("Id(%s)", g.Expr(g.pick("int", "string", "bool", "float", "ints"), d-1))
		case 1:
			return fmt.Sprintf("M.%s", g.pick("a", "b", "k", "n", "zz"))
		case 2:
			return fmt.Sprintf("M[%s]", g.Expr("string", d-1))
		case 3:
			return fmt.Sprintf("{a: %s, b: %s}", g.Expr("int", d-1), g.Expr("string", d-1))
		case 4:
			if !g.NoCalls && g.r.Intn(2) == 0 {
				return fmt.Sprintf("List(%s, %s)[%s]", g.Expr("int", d-1), g.Expr("int", d-1), g.pick("0", "1"))
			}
			return fmt.Sprintf("%s[%s]", g.Expr("anys", d-1), g.Expr("int", d-1))
		case 5:
			if g.NoCalls {
				return "nil"
			}
			return g.pick(fmt.Sprintf("Fast(%s, %s)", g.Expr("int", d-1), g.Expr("string", d-1)), "Fast()", "Fail()")
		case 6:
			if g.r.Intn(2) == 0 {
				// nil-safe method call on a receiver that is nil at run time (arguments are still evaluated)
				return g.pick(fmt.Sprintf("Z?.Foo(%s)", g.Expr("int", d-1)), "Z?.Bar()", fmt.Sprintf("M.n?.Foo(%s, %s)", g.Expr("int", d-1), g.Expr("string", d-1)), "M?.zz?.Foo(1)", "MN?.Foo(1)", "MI?.zz?.Foo()", "MI.a(1)")
			}
			return fmt.Sprintf("(%s ?: %s)", g.Expr("bool", d-1), g.Expr("int", d-1))
		default:
			return g.Expr(g.pick("int", "string", "bool", "float", "ints", "anys"), d-1)
		}
	}
	return g.leaf(t)
}

func (g *G) optInt(d int) string {
	if g.r.Intn(3) == 0 {
		return ""
	}
	return g.Expr("int", d)
}

func (g *G) closure(result, elem string, d int) string {
	g.depth++
	g.elem = append(g.elem, elem)
	s := g.Expr(result, d)
	if g.r.Intn(3) == 0 && !strings.Contains(s, "#") {
		// make sure the element is used in most closures
		switch {
		case result == "bool" && elem == "int":
			s = fmt.Sprintf("(# %s %s) %s %s", g.pick(">", "<", "==", "!="), g.leaf("int"), g.pick("and", "or"), s)
		case result == "int" && elem == "int":
			s = fmt.Sprintf("# %s %s", g.pick("+", "*", "-"), s)
		case result == "bool" && elem == "string":
			s = fmt.Sprintf("(# %s %s) %s %s", g.pick("==", "contains", "!="), g.leaf("string"), g.pick("and", "or"), s)
		}
	}
	g.elem = g.elem[:len(g.elem)-1]
	g.depth--
	return s
}

func (g *G) leaf(t string) string {
	switch t {
	case "intlit":
		return g.pick("0", "1", "2", "3", "7", "10")
	case "int":
		if g.depth > 0 && g.elem[len(g.elem)-1] == "int" && g.r.Intn(3) == 0 {
			return "#"
		}
		return g.pick("0", "1", "2", "3", "7", "10", "I", "J", "I", "J", "Sub.X", "100", "0x1F", "1_000")
	case "float":
		return g.pick("0.5", "1.5", "2.0", "F", "F", "1e2", ".25", "2.5", "3.0", "(I + 0.5)")
	case "string":
		if g.depth > 0 && g.elem[len(g.elem)-1] == "string" && g.r.Intn(3) == 0 {
			return "#"
		}
		return g.pick(`"a"`, `"abc"`, `""`, `'lo'`, "S", "T", "S", "T", `"x\ty"`, `"^a"`, `"bc$"`)
	case "bool":
		return g.pick("true", "false", "B", "C", "B", "C")
	case "ints":
		return g.pick("Ints", "Ints", "[1, 2, 3]", "1..3", "[]", "[7]", "2..1")
	case "strs":
		return g.pick("Strs", "Strs", `["a", "b"]`, "Sub.Tags")
	case "anys":
		return g.pick("Anys", "Anys", `[1, "a", true]`, "[nil, 1.5]")
	case "any":
		return g.pick("Z", "nil", "M", "Sub", "P", "I", "S", "Anys", "MI", "MS", "MN")
	}
	return "nil"
}

var genTypes = []string{"int", "float", "string", "bool", "ints", "strs", "anys", "any"}

// kindCall: an integer literal (or literal arithmetic) handed to a parameter of another numeric kind - the checker
// retypes the literal, the compiler pushes it at that kind, the optimizer must leave it alone.
func (g *G) kindCall() string {
	f := g.pick("K8", "K16", "K32", "KU", "KU8", "KU16", "KU32", "KU64", "KF32", "I64f", "Half")
	n := g.pick("0", "1", "2", "3", "7", "100")
	switch g.r.Intn(6) {
	case 0:
		return fmt.Sprintf("%s(%s + %s)", f, n, g.pick("1", "2"))
	case 1:
		return fmt.Sprintf("%s(-%s)", f, n)
	case 2:
		return fmt.Sprintf("%s(%s * %s)", f, n, g.pick("2", "3"))
	case 3:
		return fmt.Sprintf("%s(I)", f)
	default:
		return fmt.Sprintf("%s(%s)", f, n)
	}
}

// ConstSoup builds an expression that puts many *similar but different* constants into one program: the same
// number at several kinds (typed call arguments), strings that spell regexp patterns or numbers, folded
// []int / []string literals and constant ranges with equal end points, lengths or printed forms.  The constant
// pool (makeConstant) must keep them apart; the compile model does, so any too-coarse de-duplication in the
// compiler shows up as a byte-for-byte disagreement and then as a wrong run result.
func (g *G) ConstSoup() string {
	n := g.pick("1", "2", "3", "7", "10")
	atoms := []string{
		n, n + ".0", `"` + n + `"`, "I64f(" + n + ")", "Half(" + n + ")", "K8(" + n + ")", "K16(" + n + ")", "K32(" + n + ")", "KU(" + n + ")", "KU8(" + n + ")", "KU16(" + n + ")", "KU32(" + n + ")", "KU64(" + n + ")", "KF32(" + n + ")", "Inc(" + n + ")", "Id(" + n + ")", "(" + n + " + 0)",
		`"^a"`, `(S matches "^a")`, `"lo"`, `(T matches "lo")`, `"a b"`, `"a"`, `"b c"`,
		"len(1.." + n + ")", "len([1, " + n + "])", "len([1, 9, 9, " + n + "])", "len([\"1\", \"" + n + "\"])",
		"len([\"a b\", \"c\"])", "len([\"a\", \"b c\"])", "[\"a b\", \"c\"][1]", "[\"a\", \"b c\"][1]",
		"count([1, 1, 3], {# == 1})", "count(1..3, {# == 1})", "filter([1, 9, 9, 4], {# > 1})", "filter(1..4, {# > 1})",
		"[1, 0, 0, 4][1]", "[1, 2, 3, 4][1]", "(1..4)[1]", "(" + n + " in [1, 2, 3])", "(\"" + n + "\" in [\"1\", \"2\", \"3\"])",
		"Sum(I, J)", "Sum(I, J, I)", "Sum(I)", "Fast(" + n + ")", "Fast(" + n + ", " + n + ")", "true", "nil", "0.0", "0",
	}
	k := 3 + g.r.Intn(6)
	parts := make([]string, k)
	for i := range parts {
		parts[i] = atoms[g.r.Intn(len(atoms))]
	}
	return "[" + strings.Join(parts, ", ") + "]"
}
