//go:build verif

package main

// Go native coverage-guided fuzzing for C04, used by the thorough tier strictly as a *search* for inputs
// (harness/c04.go runs `go test -fuzz`, reads the crasher it writes and reports it as a violation with its key).
// Keys listed in C04_FUZZ_IGNORE (the panics the deterministic streams already reported, and known findings)
// do not stop the fuzzer, so that it keeps looking for new ones.

import (
	"encoding/hex"
	"os"
	"strings"
	"testing"

	"github.com/antonmedv/expr"
	"github.com/antonmedv/expr/parser"
	"github.com/antonmedv/expr/vm"
)

func FuzzC04(f *testing.F) {
	ignore := map[string]bool{}
	for _, k := range strings.Split(os.Getenv("C04_FUZZ_IGNORE"), ",") {
		if k != "" {
			ignore[k] = true
		}
	}
	for i, s := range c04Sources {
		f.Add(s, uint32(i*7919))
	}
	for i, s := range c08Fixed {
		f.Add(s, uint32(i))
	}
	for _, list := range [][]string{c04EscapeEnum(false), c04NumberEnum(), c04KeywordEnum(), c04BoundaryEnum(false)} {
		for i := 0; i < len(list); i += 37 {
			f.Add(list[i], uint32(i))
		}
	}
	all := c04AllOpts()
	envs := c04RunEnvs()
	f.Fuzz(func(t *testing.T, src string, sel uint32) {
		if len(src) > 64*1024 {
			return
		}
		o := all[int(sel)%len(all)]
		fail := func(api string, out c04Out) {
			if out.Class == "PANIC" {
				if k := c04Key(out); !ignore[k] {
					t.Fatalf("KEY=%s API=%s SRCHEX=%s OPTS=%s MSG=%s", k, api, hexOrDash(src), o.String(), out.Msg)
				}
			}
			if out.Class == "TIMEOUT" {
				t.Fatalf("KEY=c04:timeout:%s API=%s SRCHEX=%s OPTS=%s", api, api, hexOrDash(src), o.String())
			}
			if out.Class == "error" && !isNilValue(out.Val) {
				t.Fatalf("KEY=c04:shape:%s:value-with-error API=%s SRCHEX=%s OPTS=%s", api, api, hexOrDash(src), o.String())
			}
		}
		fail("parser.Parse", c04CallD(func() (interface{}, error) {
			tr, err := parser.Parse(src)
			if tr == nil {
				return nil, err
			}
			return tr, err
		}, c04Deadline*6))
		e := envs[int(sel>>16)%len(envs)]
		fail("expr.Eval", c04CallD(func() (interface{}, error) { return expr.Eval(src, e.Env) }, c04Deadline*6))
		co := c04CallD(func() (interface{}, error) {
			p, err := expr.Compile(src, o.Build()...)
			if p == nil {
				return nil, err
			}
			return p, err
		}, c04Deadline*6)
		fail("expr.Compile", co)
		if p, ok := co.Val.(*vm.Program); ok && p != nil && co.Class == "ok" {
			fail("expr.Run", c04CallD(func() (interface{}, error) { return expr.Run(p, e.Env) }, c04Deadline*6))
		}
	})
}

func hexOrDash(s string) string {
	if s == "" {
		return "-"
	}
	return hex.EncodeToString([]byte(s))
}
