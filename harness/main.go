package main

// Entry point of the Go side of the correspondence checks.  One sub-command per property; each
// writes a JSON report that bin/check merges with the Lean obligations into evidence/<id>.json.

import (
	"bufio"
	"bytes"
	"encoding/json"
	"flag"
	"fmt"
	"math/rand"
	"os"
	"os/exec"
	"path/filepath"
	"runtime"
	"sort"
	"strings"
	"sync"
	"time"
)

type Mismatch struct {
	Stage string `json:"stage"`
	Input string `json:"input"`
	Model string `json:"model"`
	Impl  string `json:"impl"`
}

type Violation struct {
	What   string      `json:"what"`   // short description, used in KNOWN-FINDING matching
	Key    string      `json:"key"`    // stable key identifying the failing input class (known-findings match on it)
	Input  interface{} `json:"input"`  // the replayable input
	Expect string      `json:"expect"` // what the property requires
	Got    string      `json:"got"`
}

type Report struct {
	Property    string         `json:"property"`
	Tier        string         `json:"tier"`
	Seed        int64          `json:"seed"`
	Evaluations int            `json:"evaluations"`
	Distinct    int            `json:"distinct_nontrivial"`
	Rule        string         `json:"rule"`
	Samples     []string       `json:"samples"`
	Counters    map[string]int `json:"counters"`
	Mismatches  []Mismatch     `json:"mismatches"` // model vs implementation (tie broken)
	Violations  []Violation    `json:"violations"` // property fails on the implementation
	Notes       []string       `json:"notes"`
	WallS       float64        `json:"wall_s"`

	mu       sync.Mutex
	distinct map[string]bool
	perKey   map[string]int
}

type Ctx struct {
	Prop   string
	Tier   string
	Seed   int64
	Rng    *rand.Rand
	Driver string
	R      *Report
	Replay string
}

func (c *Ctx) Thorough() bool { return c.Tier == "thorough" }

func (r *Report) Count(key string, n int) {
	r.mu.Lock()
	r.Counters[key] += n
	r.mu.Unlock()
}

// Case records one explored case; key identifies it for the distinct count; nontrivial by the caller's rule.
func (r *Report) Case(key string, nontrivial bool) {
	r.mu.Lock()
	r.Evaluations++
	if nontrivial && !r.distinct[key] {
		r.distinct[key] = true
		r.Distinct++
		if len(r.Samples) < 12 && (r.Distinct < 6 || r.Distinct%97 == 0) {
			r.Samples = append(r.Samples, key)
		}
	}
	r.mu.Unlock()
}

func (r *Report) Mismatch(stage, input, model, impl string) {
	r.mu.Lock()
	if r.Counters["mismatch:"+stage] < 20 && len(r.Mismatches) < 400 { // bounded per stage, so that no stage hides another
		r.Mismatches = append(r.Mismatches, Mismatch{stage, input, model, impl})
	}
	r.Counters["mismatch:"+stage]++
	r.mu.Unlock()
}

func (r *Report) Violate(v Violation) {
	r.mu.Lock()
	// keep a bounded number of instances PER KEY: the many instances of one (possibly known) finding must never
	// crowd out a violation with another key
	if r.perKey == nil {
		r.perKey = map[string]int{}
	}
	r.perKey[v.Key]++
	if r.perKey[v.Key] <= 12 && len(r.Violations) < 4000 {
		r.Violations = append(r.Violations, v)
	}
	r.Counters["violation"]++
	r.mu.Unlock()
}

func (r *Report) Note(format string, a ...interface{}) {
	r.mu.Lock()
	r.Notes = append(r.Notes, fmt.Sprintf(format, a...))
	r.mu.Unlock()
}

// AskAll sends request lines to the Lean model driver (several processes in parallel) and returns
// one response line per request, in order.
func (c *Ctx) AskAll(lines []string) ([]string, error) {
	n := len(lines)
	out := make([]string, n)
	if n == 0 {
		return out, nil
	}
	workers := runtime.NumCPU()
	if workers > 16 {
		workers = 16
	}
	if n < workers*8 {
		workers = 1
	}
	chunk := (n + workers - 1) / workers
	var wg sync.WaitGroup
	errs := make([]error, workers)
	for w := 0; w < workers; w++ {
		lo, hi := w*chunk, (w+1)*chunk
		if lo >= n {
			break
		}
		if hi > n {
			hi = n
		}
		wg.Add(1)
		go func(w, lo, hi int) {
			defer wg.Done()
			cmd := exec.Command(c.Driver)
			cmd.Stdin = strings.NewReader(strings.Join(lines[lo:hi], "\n") + "\n")
			var stdout, stderr bytes.Buffer
			cmd.Stdout = &stdout
			cmd.Stderr = &stderr
			if err := cmd.Run(); err != nil {
				errs[w] = fmt.Errorf("model driver: %v: %s", err, stderr.String())
				return
			}
			sc := bufio.NewScanner(&stdout)
			sc.Buffer(make([]byte, 1<<20), 1<<28)
			i := lo
			for sc.Scan() {
				if i >= hi {
					errs[w] = fmt.Errorf("model driver: too many output lines")
					return
				}
				out[i] = sc.Text()
				i++
			}
			if i != hi {
				errs[w] = fmt.Errorf("model driver: %d responses for %d requests (stderr: %s)", i-lo, hi-lo, stderr.String())
			}
		}(w, lo, hi)
	}
	wg.Wait()
	for _, e := range errs {
		if e != nil {
			return out, e
		}
	}
	return out, nil
}

var props = map[string]func(*Ctx){}

func main() {
	tier := flag.String("tier", "quick", "quick|thorough")
	seed := flag.Int64("seed", 1, "PRNG seed")
	report := flag.String("report", "", "path of the JSON report to write")
	driver := flag.String("driver", "/verif/lean/.lake/build/bin/modeldriver", "Lean model driver")
	replay := flag.String("replay", "", "replay file")
	flag.Parse()
	if flag.NArg() < 1 {
		ids := []string{}
		for k := range props {
			ids = append(ids, k)
		}
		sort.Strings(ids)
		fmt.Fprintln(os.Stderr, "usage: harness [flags] <property>; known:", ids)
		os.Exit(2)
	}
	id := flag.Arg(0)
	f, ok := props[id]
	if !ok {
		fmt.Fprintln(os.Stderr, "unknown property", id)
		os.Exit(2)
	}
	ctx := &Ctx{Prop: id, Tier: *tier, Seed: *seed, Rng: rand.New(rand.NewSource(*seed)), Driver: *driver, Replay: *replay}
	ctx.R = &Report{Property: id, Tier: *tier, Seed: *seed, Counters: map[string]int{}, distinct: map[string]bool{}}
	t0 := time.Now()
	initAsIs(ctx)
	f(ctx)
	ctx.R.WallS = time.Since(t0).Seconds()
	b, _ := json.MarshalIndent(ctx.R, "", " ")
	if *report != "" {
		os.MkdirAll(filepath.Dir(*report), 0o755)
		if err := os.WriteFile(*report, b, 0o644); err != nil {
			fmt.Fprintln(os.Stderr, err)
			os.Exit(2)
		}
	} else {
		os.Stdout.Write(b)
	}
}
