package main

// C02 — the optimizer is observationally transparent.
//
// (i)  Correspondence: the Lean model of optimizer.Optimize (lean/ExprModel/Opt) against the real one, on
//      typed trees produced by the real parser and checker: tree equality including kinds and locations,
//      or the location of the compile error.
// (ii) Property oracle on the real code alone: expr.Compile with Optimize(true) / Optimize(false)
//      (and ConstExpr on / off) on the same source, run on the same environment values: both fail or both
//      succeed with observationally equal values; the optimizer may reject only constant integer division /
//      modulo by zero; a ConstExpr call may only move its failure to compile time.
//      A deviation found by the oracle is attributed to a defect class by re-running the *model* with one
//      repair switched on at a time (driver stage `optspec`); the key of the violation names that class.

import (
	"fmt"
	"math"
	"math/rand"
	"os"
	"reflect"
	"runtime"
	"sort"
	"strings"
	"sync"
	"time"

	"github.com/antonmedv/expr"
	"github.com/antonmedv/expr/checker"
	"github.com/antonmedv/expr/conf"
	"github.com/antonmedv/expr/file"
	"github.com/antonmedv/expr/optimizer"
	"github.com/antonmedv/expr/parser"
	"github.com/antonmedv/expr/vm"
)

// ---------------------------------------------------------------------------------------------
// deviation switches of the model (lean/ExprModel/Opt/Basic.lean `Flags`), probed from the real code

type OptFlags struct{ WalkSlice, StrGuard, KindGuard, SimpleLeft, PlainOnly, Convert, RangeNoOverflow bool }

func (f OptFlags) Sx() *Sx {
	return T("flags", SBool(f.WalkSlice), SBool(f.StrGuard), SBool(f.KindGuard), SBool(f.SimpleLeft), SBool(f.PlainOnly), SBool(f.Convert), SBool(f.RangeNoOverflow))
}

func (f OptFlags) String() string {
	return fmt.Sprintf("walkSlice=%v strGuard=%v kindGuard=%v simpleLeft=%v plainOnly=%v convert=%v rangeNoOverflow=%v", f.WalkSlice, f.StrGuard, f.KindGuard, f.SimpleLeft, f.PlainOnly, f.Convert, f.RangeNoOverflow)
}

var optRepaired = OptFlags{true, true, true, true, true, true, true}

var flagKeys = []struct {
	name string
	key  string
	set  func(*OptFlags)
	get  func(OptFlags) bool
}{
	{"inArrayStrGuard", "c02:in-array-string-set-left-type", func(f *OptFlags) { f.StrGuard = true }, func(f OptFlags) bool { return f.StrGuard }},
	{"inRangeKindGuard", "c02:in-range-left-type", func(f *OptFlags) { f.KindGuard = true }, func(f OptFlags) bool { return f.KindGuard }},
	{"inRangeSimpleLeft", "c02:in-range-left-evaluated-twice", func(f *OptFlags) { f.SimpleLeft = true }, func(f OptFlags) bool { return f.SimpleLeft }},
	{"constExprConvert", "c02:constexpr-int-literal-kind", func(f *OptFlags) { f.Convert = true }, func(f OptFlags) bool { return f.Convert }},
	{"constRangeNoOverflow", keyRangeOverflow, func(f *OptFlags) { f.RangeNoOverflow = true }, func(f OptFlags) bool { return f.RangeNoOverflow }},
	{"foldPlainOnly", "c02:fold-retyped-literal", func(f *OptFlags) { f.PlainOnly = true }, func(f OptFlags) bool { return f.PlainOnly }},
}

const (
	keyArrayElem = "c02:array-literal-elem-type"
	keyBudget    = "c02:budget-differs"
	keyUnattr    = "c02:unattributed"
	keyConstNil  = "c02:constexpr-nil-result"
	// const_range.go folds a literal range whose size overflows int to the empty constant
	keyRangeOverflow = "c02:const-range-size-overflow"
	// OpRange / makeRange compute max-min+1 in int: a range of more than 2^63-1 elements is empty instead of exceeding the budget
	keyVMRangeOverflow = "c02:vm-range-size-overflow"
)

// ---------------------------------------------------------------------------------------------
// environments: the zoo as a struct, and the zoo as a map extended with functions of further signatures

var oFnID = map[string]string{"Id": "Id", "Inc": "Inc", "Add": "Add", "Cat": "Cat", "IsPos": "IsPos", "Fail": "Fail", "Fast": "Fast",
	"Sum": "Sum", "Half": "Half", "I64f": "I64", "I8f": "I8", "U8f": "U8", "U64f": "U64", "F32f": "F32", "Up": "Up", "Neg": "Neg"}

var oRegOnce sync.Once

func oMapEnv(e *Env) map[string]interface{} {
	m := e.AsMap()
	log := e.log
	i8 := func(x int8) int8 { log.add("I8f", x); return x }
	u8 := func(x uint8) uint8 { log.add("U8f", x); return x }
	u64 := func(x uint64) uint64 { log.add("U64f", x); return x }
	f32 := func(x float32) float32 { log.add("F32f", x); return x }
	up := func(s string) string { log.add("Up", s); return s + "!" }
	neg := func(x int) int { log.add("Neg", x); return -x }
	m["I8f"], m["U8f"], m["U64f"], m["F32f"], m["Up"], m["Neg"] = i8, u8, u64, f32, up, neg
	// closures of one function literal share their code pointer: registering once is enough
	oRegOnce.Do(func() {
		registerFn("I8", i8)
		registerFn("U8", u8)
		registerFn("U64", u64)
		registerFn("F32", f32)
		registerFn("Up", up)
		registerFn("Neg", neg)
	})
	return m
}

func constFnsSx(names []string) *Sx {
	out := []*Sx{A("constexpr")}
	for _, n := range names {
		out = append(out, L(SStr(n), SStr(oFnID[n])))
	}
	return L(out...)
}

// ---------------------------------------------------------------------------------------------
// the real optimizer on a typed tree

type optReal struct {
	Stage    string // parse, check, optimize, done
	Before   string
	After    string
	Rejected bool
	Line     int
	Col      int
	Msg      string
	Err      error
	Panicked bool
}

func optimizeReal(src string, env interface{}, constFns []string) (o *optReal) {
	o = &optReal{Stage: "parse"}
	defer func() {
		if r := recover(); r != nil {
			o.Panicked = true
			o.Err = fmt.Errorf("PANIC: %v", r)
		}
	}()
	tree, err := parser.Parse(src)
	if err != nil {
		o.Err = err
		return
	}
	cfg := conf.New(env)
	cfg.Operators = conf.OperatorsTable{}
	for _, n := range constFns {
		cfg.ConstExpr(n)
	}
	o.Stage = "check"
	if err := cfg.Check(); err != nil {
		o.Err = err
		return
	}
	if _, err := checker.Check(tree, cfg); err != nil {
		o.Err = err
		return
	}
	if _, err := checker.Check(tree, cfg); err != nil {
		o.Err = err
		return
	}
	o.Before = nodeSx(tree.Node, true).String()
	o.Stage = "optimize"
	if err := optimizer.Optimize(&tree.Node, cfg); err != nil {
		o.Rejected = true
		o.Err = err
		if fe, ok := err.(*file.Error); ok {
			o.Line, o.Col, o.Msg = fe.Line, fe.Column, fe.Message
		} else {
			o.Line, o.Col, o.Msg = -1, -1, err.Error()
		}
		return
	}
	o.After = nodeSx(tree.Node, true).String()
	o.Stage = "done"
	return
}

// canonSets sorts the keys of every (set et k…) the way valSx renders Go maps
func canonSets(s *Sx) {
	if !s.IsL {
		return
	}
	for _, x := range s.List {
		canonSets(x)
	}
	if s.Tag() == "set" && len(s.List) > 2 {
		ks := s.List[2:]
		sort.Slice(ks, func(i, j int) bool { return ks[i].String() < ks[j].String() })
	}
}

// probeOptFlags decides, from the behaviour of the real code on six distinguishing inputs, which variant
// of each rewrite /repo currently has (so that the model follows /repo before and after a fix: commit).
func probeOptFlags(c *Ctx) OptFlags {
	env := NewEnv(0, func(int) int { return 1 })
	has := func(o *optReal, needle string) bool { return o.After != "" && strings.Contains(o.After, needle) }
	var f OptFlags
	plus := SStr("+").String()
	and := SStr("and").String()
	div := SStr("/").String()
	// (#3) the sliced operand `[1+1]` is folded only if Walk descends into SliceNode.Node
	f.WalkSlice = !has(optimizeReal("[1+1, I][0:1]", env, nil), "(bin (@ 1 2 int) "+plus)
	// (#8)
	f.StrGuard = !has(optimizeReal(`1 in ["a"]`, env, nil), "(set string")
	// (#9)
	f.KindGuard = !has(optimizeReal(`F in 1..3`, env, nil), " "+and+" ")
	f.SimpleLeft = !has(optimizeReal(`Inc(I) in 1..3`, env, nil), " "+and+" ")
	// (#10)
	f.PlainOnly = has(optimizeReal(`Half(1/2)`, env, nil), " "+div+" ")
	// (#11)
	f.Convert = !optimizeReal(`I64f(1)`, env, []string{"I64f"}).Rejected
	// size overflow in const_range.go: the range of 2^63 elements stays a range
	f.RangeNoOverflow = has(optimizeReal(`len(0..9223372036854775807)`, env, nil), SStr("..").String())
	for _, p := range []string{"[1+1, I][0:1]", `1 in ["a"]`, `F in 1..3`, `Inc(I) in 1..3`, `Half(1/2)`} {
		if o := optimizeReal(p, env, nil); o.Stage != "done" {
			c.R.Mismatch("probe", p, "expected to optimise", fmt.Sprintf("stage=%s err=%v", o.Stage, o.Err))
		}
	}
	return f
}

// ---------------------------------------------------------------------------------------------
// generator: sources in which the rewrites fire

type og struct {
	r      *rand.Rand
	extras bool // the map environment with the additional functions
	small  bool // only small integer literals (range bounds)
	site   string
}

func (o *og) pick(xs ...string) string { return xs[o.r.Intn(len(xs))] }

func (o *og) intLit() string {
	if !o.small && o.r.Intn(12) == 0 {
		return o.pick("9223372036854775807", "4611686018427387904", "9007199254740993", "3037000500", "255", "128", "200", "1000", "9223372036854775806", "(-9223372036854775807 - 1)")
	}
	return o.pick("0", "1", "2", "3", "5", "7", "10", "100")
}

// constant integer expression
func (o *og) cint(d int) string {
	if d <= 0 || o.r.Intn(3) == 0 {
		return o.intLit()
	}
	switch o.r.Intn(10) {
	case 0, 1, 2:
		return fmt.Sprintf("(%s %s %s)", o.cint(d-1), o.pick("+", "-", "*"), o.cint(d-1))
	case 3, 4:
		return fmt.Sprintf("(%s %s %s)", o.cint(d-1), o.pick("/", "%"), o.cint(d-1))
	case 5:
		return fmt.Sprintf("(-%s)", o.cint(d-1))
	case 6:
		return fmt.Sprintf("(+%s)", o.cint(d-1))
	case 7:
		return fmt.Sprintf("-%s", o.intLit())
	default:
		return fmt.Sprintf("(%s %s %s)", o.intLit(), o.pick("+", "-", "*", "/"), o.intLit())
	}
}

func (o *og) cstr(d int) string {
	if d <= 0 || o.r.Intn(2) == 0 {
		return o.pick(`"a"`, `"b"`, `"abc"`, `""`, `'lo'`)
	}
	return fmt.Sprintf("(%s + %s)", o.cstr(d-1), o.cstr(d-1))
}

var leftTypes = []string{"int", "int", "int", "int8", "uint8", "int64", "uint", "float", "float", "float32", "string", "string", "nil", "any", "any", "bool", "call"}

// a non-constant operand of the given static type
func (o *og) operand(t string) string {
	switch t {
	case "int":
		return o.pick("I", "J", "Sub.X", "Ints[0]", "len(S)", "(I + 1)", "P.X", "1", "(1 + 1)")
	case "call":
		return o.pick("Inc(I)", "Add(I, J)", "Sum(I, 1)", "Inc(1)")
	case "int8":
		return "I8"
	case "uint8":
		return "U8"
	case "int64":
		return "I64"
	case "uint":
		return "U"
	case "float":
		return o.pick("F", "1.5", "2.0", "(F + 1)", "Fs[0]")
	case "float32":
		return "F32"
	case "string":
		return o.pick("S", "T", "Sub.Name", `"a"`, `("a" + "b")`)
	case "nil":
		return "nil"
	case "bool":
		return o.pick("B", "true")
	case "any":
		return o.pick("Z", "Anys[0]", "M.a", "M.b", "Id(I)", "Id(S)", "Id(F)", "Anys[1]")
	}
	return "nil"
}

func (o *og) arrayLit(d int) (string, string) {
	n := 1 + o.r.Intn(4)
	switch o.r.Intn(9) {
	case 0, 1, 2:
		xs := make([]string, n)
		for i := range xs {
			xs[i] = o.cint(d)
		}
		return "[" + strings.Join(xs, ", ") + "]", "ints"
	case 3, 4:
		xs := make([]string, n)
		for i := range xs {
			xs[i] = o.cstr(d)
		}
		return "[" + strings.Join(xs, ", ") + "]", "strs"
	case 5:
		return fmt.Sprintf("[%s, %s]", o.cint(d), o.cstr(d)), "anys"
	case 6:
		return "[]", "anys"
	case 7:
		return fmt.Sprintf("[%s, %s]", o.operand("int"), o.cint(d)), "ints"
	default:
		a, _ := o.arrayLit(d - 1)
		b, _ := o.arrayLit(d - 1)
		return fmt.Sprintf("[%s, %s]", a, b), "anys"
	}
}

func (o *og) rangeLit(d int) string {
	if o.r.Intn(8) == 0 {
		return o.pick("0..9223372036854775807", "-1..9223372036854775807", "(-9223372036854775807 - 1)..9223372036854775807", "1..9223372036854775807", "(-9223372036854775807 - 1)..0", "9223372036854775807..9223372036854775807", "1..1000001", "5..1", "0..1000000", "(1 - 2)..3", "3..3", "1..2000", "1..(100 * 100)")
	}
	o.small = true
	defer func() { o.small = false }()
	return fmt.Sprintf("%s..%s", o.cint(d), o.cint(d))
}

// one rewrite site: source and its type
func (o *og) genSite(d int) (string, string) {
	k := o.r.Intn(20)
	switch {
	case k < 3:
		o.site = "arith"
		switch o.r.Intn(6) {
		case 0:
			return o.pick(fmt.Sprintf("(%s ** %s)", o.pick("2", "3", "10", "0"), o.pick("2", "3", "0", "1")), "(2 ** 62)", "(2 ** 64)", "(2 ** -1)", "(0 ** -1)"), "float"
		case 1:
			return o.cstr(d + 1), "string"
		}
		return o.cint(d + 1), "int"
	case k < 7:
		o.site = "call"
		fns := []string{"Inc", "Add", "Sum", "Half", "I64f", "Cat", "IsPos", "Id", "Fast"}
		if o.extras {
			fns = append(fns, "I8f", "U8f", "U64f", "F32f", "Up", "Neg")
		}
		arg := o.cint(d)
		if o.r.Intn(4) == 0 {
			arg = o.operand("int")
		}
		switch fn := fns[o.r.Intn(len(fns))]; fn {
		case "Inc", "Neg":
			return fmt.Sprintf("%s(%s)", fn, arg), "int"
		case "Add":
			return fmt.Sprintf("Add(%s, %s)", arg, o.cint(d)), "int"
		case "Sum":
			return o.pick(fmt.Sprintf("Sum(%s, %s)", arg, o.cint(d)), "Sum()", fmt.Sprintf("Sum(%s)", arg)), "int"
		case "Half":
			return fmt.Sprintf("Half(%s)", o.pick(arg, arg, "1.5", "F", "(1.5 + 2)")), "float"
		case "F32f":
			return fmt.Sprintf("F32f(%s)", arg), "any"
		case "I64f", "I8f", "U8f", "U64f":
			return fmt.Sprintf("%s(%s)", fn, arg), "any"
		case "Cat":
			return fmt.Sprintf("Cat(%s, %s)", o.cstr(d), o.pick(o.cstr(d), "S")), "string"
		case "Up":
			return fmt.Sprintf("Up(%s)", o.cstr(d)), "string"
		case "IsPos":
			return fmt.Sprintf("IsPos(%s)", arg), "bool"
		case "Id":
			a, _ := o.arrayLit(d)
			return fmt.Sprintf("Id(%s)", o.pick(arg, o.cstr(d), "nil", "true", "1.5", a)), "any"
		default:
			return o.pick(fmt.Sprintf("Fast(%s, %s)", arg, o.cstr(d)), "Fast()", "Fast(nil, 1.5, true)"), "any"
		}
	case k < 10:
		o.site = "array"
		return o.arrayLit(d)
	case k < 14:
		o.site = "inArray"
		a, _ := o.arrayLit(d)
		return fmt.Sprintf("(%s %s %s)", o.operand(leftTypes[o.r.Intn(len(leftTypes))]), o.pick("in", "in", "not in"), a), "bool"
	case k < 18:
		o.site = "inRange"
		return fmt.Sprintf("(%s %s %s)", o.operand(leftTypes[o.r.Intn(len(leftTypes))]), o.pick("in", "in", "not in"), o.rangeLit(d)), "bool"
	default:
		o.site = "range"
		return o.rangeLit(d), "ints"
	}
}

// contexts by type of the hole
func (o *og) wrap(s, t string, d int) (string, string) {
	if d <= 0 {
		return s, t
	}
	var ns, nt string
	switch t {
	case "int":
		switch o.r.Intn(12) {
		case 0:
			ns, nt = fmt.Sprintf("(%s + I)", s), "int"
		case 1:
			ns, nt = fmt.Sprintf("Inc(%s)", s), "int"
		case 2:
			ns, nt = fmt.Sprintf("[%s, I]", s), "ints"
		case 3:
			ns, nt = fmt.Sprintf("(%s in [1, 2, 3])", s), "bool"
		case 4:
			ns, nt = fmt.Sprintf("(%s in 1..5)", s), "bool"
		case 5:
			ns, nt = fmt.Sprintf("(-%s)", s), "int"
		case 6:
			ns, nt = fmt.Sprintf("(%s == %s)", s, o.pick("I", "2", "I64", "F")), "bool"
		case 7:
			ns, nt = fmt.Sprintf("Ints[%s:]", s), "ints"
		case 8:
			ns, nt = fmt.Sprintf("(B ? %s : J)", s), "int"
		case 9:
			ns, nt = fmt.Sprintf("(%s * %s)", s, o.cint(1)), "int"
		case 10:
			ns, nt = fmt.Sprintf("%s..%s", o.intLit(), s), "ints"
		default:
			ns, nt = fmt.Sprintf("Id(%s)", s), "any"
		}
	case "float":
		switch o.r.Intn(4) {
		case 0:
			ns, nt = fmt.Sprintf("(%s + 1.5)", s), "float"
		case 1:
			ns, nt = fmt.Sprintf("Half(%s)", s), "float"
		case 2:
			ns, nt = fmt.Sprintf("(%s > F)", s), "bool"
		default:
			ns, nt = fmt.Sprintf("[%s]", s), "anys"
		}
	case "string":
		switch o.r.Intn(6) {
		case 0:
			ns, nt = fmt.Sprintf("(%s + S)", s), "string"
		case 1:
			ns, nt = fmt.Sprintf("len(%s)", s), "int"
		case 2:
			ns, nt = fmt.Sprintf("(%s in Strs)", s), "bool"
		case 3:
			ns, nt = fmt.Sprintf(`(%s in ["a", "b"])`, s), "bool"
		case 4:
			ns, nt = fmt.Sprintf(`Cat(%s, "x")`, s), "string"
		default:
			ns, nt = fmt.Sprintf("(%s == T)", s), "bool"
		}
	case "bool":
		switch o.r.Intn(8) {
		case 0:
			ns, nt = fmt.Sprintf("(%s and B)", s), "bool"
		case 1:
			ns, nt = fmt.Sprintf("(not %s)", s), "bool"
		case 2:
			ns, nt = fmt.Sprintf("(%s ? 1 : 2)", s), "int"
		case 3:
			ns, nt = fmt.Sprintf("filter(Ints, {%s})", strings.Replace(s, "I ", "# ", 1)), "ints"
		case 4:
			ns, nt = fmt.Sprintf("all(Ints, {%s})", strings.Replace(s, "I ", "# ", 1)), "bool"
		case 5:
			ns, nt = fmt.Sprintf("(B or %s)", s), "bool"
		case 6:
			ns, nt = fmt.Sprintf("(%s == C)", s), "bool"
		default:
			ns, nt = fmt.Sprintf("[%s]", s), "anys"
		}
	case "ints", "strs", "anys":
		switch o.r.Intn(13) {
		case 0:
			ns, nt = fmt.Sprintf("len(%s)", s), "int"
		case 1:
			ns, nt = fmt.Sprintf("%s[0]", s), "any"
		case 2:
			ns, nt = fmt.Sprintf("%s[0:1]", s), t
		case 3:
			ns, nt = fmt.Sprintf("(%s == %s)", s, o.pick("Ints", "Anys", "Strs", "[1, 2, 3]", `["a"]`)), "bool"
		case 4:
			ns, nt = fmt.Sprintf("(%s in %s)", o.operand(o.pick("int", "string", "any", "float")), s), "bool"
		case 5:
			ns, nt = fmt.Sprintf("map(%s, {#})", s), "anys"
		case 6:
			ns, nt = fmt.Sprintf("filter(%s, {# != 1})", s), "anys"
		case 7:
			ns, nt = fmt.Sprintf("all(%s, {# == #})", s), "bool"
		case 8:
			ns, nt = fmt.Sprintf("Id(%s)", s), "any"
		case 9:
			ns, nt = fmt.Sprintf("[%s, %s]", s, s), "anys"
		case 10:
			ns, nt = fmt.Sprintf("(%s != %s)", o.pick("Ints", "Anys", "Strs"), s), "bool"
		case 11:
			ns, nt = fmt.Sprintf("%s[%s:%s]", s, o.pick("", "0", "(0 + 1)"), o.pick("", "2", "(1 + 1)")), t
		default:
			ns, nt = fmt.Sprintf("count(%s, {true})", s), "int"
		}
	default:
		switch o.r.Intn(4) {
		case 0:
			ns, nt = fmt.Sprintf("(%s == nil)", s), "bool"
		case 1:
			ns, nt = fmt.Sprintf("[%s, 1]", s), "anys"
		case 2:
			ns, nt = fmt.Sprintf("Id(%s)", s), "any"
		default:
			ns, nt = fmt.Sprintf("(%s == %s)", s, o.pick("1", "I", `"a"`, "I64")), "bool"
		}
	}
	return o.wrap(ns, nt, d-1)
}

func (o *og) gen(depth, ctxDepth int) string {
	s, t := o.genSite(depth)
	s, _ = o.wrap(s, t, o.r.Intn(ctxDepth+1))
	return s
}

var oConstSets = [][]string{nil, nil, {"Inc", "Add", "Sum", "Half", "I64f", "Cat", "IsPos", "Id", "Fast"}, {"Inc"}, {"Half", "I64f", "Cat"}, {"Fail", "Id", "Sum"}}
var oConstExtra = []string{"I8f", "U8f", "U64f", "F32f", "Up", "Neg"}

type optCase struct {
	Src      string
	Site     string
	MapEnv   bool
	Fns      []string
	Env      *Env
	EnvVal   interface{}
	Real     *optReal
	modelIdx int
	env2     *Env                // second environment value for the oracle
	found    []*pendingViolation // deviations found by the oracle on this case
}

func (cs *optCase) String() string {
	m := "struct"
	if cs.MapEnv {
		m = "map"
	}
	return fmt.Sprintf("%s [%s env, ConstExpr=%v]", cs.Src, m, cs.Fns)
}

func genOptCases(c *Ctx, n int) []*optCase {
	var out []*optCase
	for i := 0; i < n; i++ {
		cs := &optCase{MapEnv: c.Rng.Intn(3) == 0}
		o := &og{r: c.Rng, extras: cs.MapEnv}
		cs.Src = o.gen(1+c.Rng.Intn(3), 3)
		cs.Site = o.site
		cs.Fns = oConstSets[c.Rng.Intn(len(oConstSets))]
		if cs.MapEnv && len(cs.Fns) > 1 {
			cs.Fns = append(append([]string{}, cs.Fns...), oConstExtra...)
		}
		cs.Env = NewEnv(i, func(k int) int { return c.Rng.Intn(k) })
		cs.EnvVal = cs.Env
		if cs.MapEnv {
			cs.EnvVal = oMapEnv(cs.Env)
		}
		out = append(out, cs)
	}
	return out
}

// fixed sources: every rewrite rule at its boundary cases (always included)
var optFixed = []string{
	`1 + 2`, `1 - 2`, `2 * 3`, `7 / 2`, `7 % 3`, `2 ** 3`, `-1`, `+1`, `-(1 + 2)`, `"a" + "b"`, `1 / 0`, `1 % 0`, `(1 / 0) + (2 % 0)`, `false ? 1 / 0 : 2`,
	`9223372036854775807 + 1`, `(-9223372036854775807 - 1) / -1`, `(-9223372036854775807 - 1) % -1`, `-(-9223372036854775807 - 1)`, `3037000500 * 3037000500`,
	`[1, 2, 3]`, `["a", "b"]`, `[1, "a"]`, `[]`, `[1 + 1, 2]`, `[[1, 2], [3]]`, `[I, 1]`, `["a" + "b"]`,
	`I in [1, 2, 3]`, `I in [1, 1, 2]`, `I not in [1, 2]`, `S in ["a", "b"]`, `S in ["a", "a"]`, `S not in ["a"]`, `I in []`, `I in [1, "a"]`, `1 in ["a"]`, `nil in ["a"]`, `F in ["a"]`,
	`I64 in [1, 2]`, `F in [1, 2]`, `Z in [1]`, `Anys[0] in ["a"]`, `I in [1 + 1]`, `I8 in [1]`, `Id(I) in [1]`, `"a" in ["a"]`,
	`I in 1..3`, `I not in 1..3`, `F in 1..3`, `S in 1..3`, `nil in 1..3`, `Inc(I) in 1..3`, `I in 3..1`, `I in (1 - 2)..3`, `I in -1..3`, `I8 in 1..3`, `U in 1..3`, `I in I..3`, `Z in 1..3`,
	`1..3`, `3..1`, `3..3`, `1..1000001`, `0..1000000`, `-2..2`, `len(0..9223372036854775807)`, `0..9223372036854775807`, `len(-1..9223372036854775807)`, `len(1..9223372036854775807)`, `len((-9223372036854775807 - 1)..9223372036854775807)`, `3 in 0..9223372036854775807`, `I in -1..9223372036854775807`, `len(9223372036854775807..9223372036854775807)`, `len((-9223372036854775807 - 1)..(-9223372036854775807 - 1))`, `9223372036854775807 - (-9223372036854775807 - 1)`, `I in 0..4611686018427387904`, `F in 0..4611686018427387904`, `I8 in -5..255`, `I8 in 1..3`, `U8 in -100..100`, `I64 in -5..255`, `(-9223372036854775807 - 1)..9223372036854775807`,
	`map(1..3, {# * 2})`, `all(1..3, {# in 1..2})`, `filter(Ints, {# in [1, 2]})`,
	`Half((7 % 2) - 3)`, `Half((7 % 2) + 3)`, `Half(3 - (7 % 2))`, `I64f((7 % 2) * 3)`, `Half(3 / (7 % 4))`, `Half(-(7 % 2))`, `Half((7 % 2) - 3 - 1)`, `Add(1, (7 % 2) - 3)`,
	`Half(1 / 2)`, `Half(1)`, `Half(-0)`, `Half(9007199254740993 - 9007199254740992)`, `I64f(1 + 2)`, `I64f(1)`, `Inc(1 + 1)`, `Add(2 * 3, 4)`, `Sum(1, 2 + 3)`, `Sum()`, `Id(1 + 1)`, `Fast(1, "a")`,
	`Cat("a", "b")`, `Cat("a" + "b", "c")`, `Fail()`, `IsPos(1)`, `Id(nil)`, `Id([1, 2])`, `Inc(Inc(1))`, `Inc(I)`, `Half(1.5)`, `Half(1 / 0)`,
	`[1, 2][0:1]`, `[1 + 1, 2][0:1]`, `Ints[1 + 1:3]`, `Ints[0:1 + 1]`, `[1, 2][1 - 1]`, `[1, 2] == Ints`, `[1, 2] == [1, 2]`, `[1, 2] != Anys`, `["a"] == Strs`, `I in [[1, 2]][0]`,
	`{a: 1 + 1, b: [1, 2]}`, `{a: 1 + 1}.a`, `(1 + 1 > 1) ? [1] : [2]`, `S matches "a" + "b"`, `not (1 + 1 == 2)`, `Sub.Tags[1 - 1]`, `P?.X in 1..50`,
}

// the 1e6 boundary of const_range.go: million-element constants, compared one at a time
var optBoundary = []string{`1..1000000`, `0..999999`, `len(1..1000000)`}

const hugeTree = 1 << 20

// ---------------------------------------------------------------------------------------------
// (i) correspondence

func optCorrespondence(c *Ctx, flags OptFlags, cases []*optCase) []*optCase {
	r := c.R
	var lines []string
	var sent []*optCase
	for _, cs := range cases {
		cs.Real = optimizeReal(cs.Src, cs.EnvVal, cs.Fns)
		r.Count("real:"+cs.Real.Stage, 1)
		if cs.Real.Panicked {
			r.Count("real:panicked", 1)
			continue
		}
		if cs.Real.Before == "" {
			continue
		}
		if len(cs.Real.After) > hugeTree && cs.Site != "boundary" {
			r.Count("opt:skipped-huge-constant", 1)
			continue
		}
		cs.modelIdx = len(lines)
		lines = append(lines, T("optimize", flags.Sx(), constFnsSx(cs.Fns), A(cs.Real.Before)).String())
		sent = append(sent, cs)
	}
	resp, err := c.AskAll(lines)
	if err != nil {
		r.Mismatch("driver", "optimize", err.Error(), "")
		return nil
	}
	var done []*optCase
	for _, cs := range sent {
		r.Count("opt:compared", 1)
		m, perr := ParseSx(resp[cs.modelIdx])
		if perr != nil {
			r.Mismatch("optimize", cs.String(), resp[cs.modelIdx], "unparsable")
			continue
		}
		var impl, model string
		if cs.Real.Rejected {
			impl = fmt.Sprintf("(err %d %d)", cs.Real.Line, cs.Real.Col)
			r.Count("opt:rejected", 1)
		} else {
			impl = "(ok " + cs.Real.After + ")"
			if cs.Real.After != cs.Real.Before {
				r.Count("fired:"+cs.Site, 1)
				r.Count("opt:changed", 1)
			}
		}
		canonSets(m)
		model = m.String()
		if t := os.Getenv("VERIF_C02_TRACE"); t != "" && t == cs.Src {
			fmt.Fprintf(os.Stderr, "TRACE %s\n before: %s\n impl:   %s\n model:  %s\n", cs.String(), cs.Real.Before, impl, model)
		}
		if impl != model {
			r.Mismatch("optimize", cs.String()+" flags: "+flags.String()+" tree="+cs.Real.Before, model, impl+"  ("+cs.Real.Msg+")")
			continue
		}
		done = append(done, cs)
	}
	return done
}

// ---------------------------------------------------------------------------------------------
// (ii) the property oracle on the real code

// obsEq: numbers equal in kind and value, sequences element by element, maps key by key
func obsEq(a, b interface{}) bool {
	if a == nil || b == nil {
		return a == nil && b == nil
	}
	va, vb := reflect.ValueOf(a), reflect.ValueOf(b)
	switch va.Kind() {
	case reflect.Int, reflect.Int8, reflect.Int16, reflect.Int32, reflect.Int64:
		return va.Kind() == vb.Kind() && va.Int() == vb.Int()
	case reflect.Uint, reflect.Uint8, reflect.Uint16, reflect.Uint32, reflect.Uint64:
		return va.Kind() == vb.Kind() && va.Uint() == vb.Uint()
	case reflect.Float32, reflect.Float64:
		if va.Kind() != vb.Kind() {
			return false
		}
		x, y := va.Float(), vb.Float()
		return x == y || (math.IsNaN(x) && math.IsNaN(y))
	case reflect.Slice, reflect.Array:
		if vb.Kind() != reflect.Slice && vb.Kind() != reflect.Array {
			return false
		}
		if va.Len() != vb.Len() {
			return false
		}
		for i := 0; i < va.Len(); i++ {
			if !va.Index(i).CanInterface() || !vb.Index(i).CanInterface() {
				return false
			}
			if !obsEq(va.Index(i).Interface(), vb.Index(i).Interface()) {
				return false
			}
		}
		return true
	case reflect.Map:
		if vb.Kind() != reflect.Map || va.Len() != vb.Len() {
			return false
		}
		for _, k := range va.MapKeys() {
			if !k.Type().AssignableTo(vb.Type().Key()) {
				return false
			}
			y := vb.MapIndex(k)
			if !y.IsValid() {
				return false
			}
			if !obsEq(va.MapIndex(k).Interface(), y.Interface()) {
				return false
			}
		}
		return true
	}
	return reflect.DeepEqual(a, b)
}

type compiled struct {
	P        *vm.Program
	Err      error
	Panicked bool
}

func compileReal(src string, env interface{}, optimize bool, fns []string) (out compiled) {
	defer func() {
		if r := recover(); r != nil {
			out.Panicked = true
			out.Err = fmt.Errorf("PANIC: %v", r)
		}
	}()
	ops := []expr.Option{expr.Env(env), expr.Optimize(optimize)}
	for _, f := range fns {
		ops = append(ops, expr.ConstExpr(f))
	}
	out.P, out.Err = expr.Compile(src, ops...)
	return
}

func outcomeStr(o *RunOutcome) string {
	if o.Timeout {
		return "timeout"
	}
	if o.Err != nil {
		msg := o.Err.Error()
		if i := strings.Index(msg, "\n"); i > 0 {
			msg = msg[:i]
		}
		return "error[" + o.Class + "]: " + msg
	}
	return valSx(o.Val).String() + fmt.Sprintf(" (%T)", o.Val)
}

type oracleInput struct {
	Src  string   `json:"src"`
	Env  string   `json:"env"`
	Mode string   `json:"mode"`
	Fns  []string `json:"constexpr"`
	Pair string   `json:"pair"`
}

type pendingViolation struct {
	cs     *optCase
	envVal interface{}
	pair   string
	what   string
	expect string
	got    string
	fns    []string // ConstExpr set of the optimised side
	hint   string   // fallback key
	logs   bool
}

type oracle struct {
	mu         sync.Mutex
	maxPending int
	c          *Ctx
	flags      OptFlags
	pending    []*pendingViolation
}

// fallback classification (used when the model cannot be asked, or does not reproduce the deviation)
func hintFor(ox, oy *RunOutcome) string {
	switch {
	case oy.Err != nil && oy.Class == "budget":
		return keyBudget
	case ox.Err != nil && (strings.Contains(ox.Err.Error(), ">= int") || strings.Contains(ox.Err.Error(), "<= int")):
		return "c02:in-range-left-type"
	case ox.Err != nil && strings.Contains(ox.Err.Error(), "MapIndex"):
		return "c02:in-array-string-set-left-type"
	}
	return keyUnattr
}

func errLine(err error) string {
	msg := err.Error()
	if i := strings.Index(msg, "\n"); i > 0 {
		msg = msg[:i]
	}
	return msg
}

// compare the optimised variant X with the baseline Y (same source) on the given environment values
func (or *oracle) comparePair(cs *optCase, pair string, xFns []string, x, y compiled, envs []*Env) {
	r := or.c.R
	mode := "struct"
	if cs.MapEnv {
		mode = "map"
	}
	add := func(envVal interface{}, what, expect, got, hint string, logs bool) {
		r.Count("oracle:deviations", 1)
		cs.found = append(cs.found, &pendingViolation{cs: cs, envVal: envVal, pair: pair, what: what, expect: expect, got: got, fns: xFns, hint: hint, logs: logs})
	}
	if x.Panicked || y.Panicked {
		r.Count("oracle:compile-panicked", 1)
		return // C04's subject
	}
	if y.Err != nil {
		r.Count("oracle:both-rejected", 1)
		if x.Err == nil {
			add(cs.EnvVal, "accepted only with optimisation", "rejected: "+errLine(y.Err), "compiled", keyUnattr, false)
		}
		return
	}
	run := func(p *vm.Program, e *Env) *RunOutcome {
		var ev interface{} = e
		if cs.MapEnv {
			ev = oMapEnv(e)
		}
		return RunReal(&vm.VM{}, p, ev, e)
	}
	if x.Err != nil {
		msg := errLine(x.Err)
		if strings.Contains(msg, "integer divide by zero") && pair != "constexpr-on/off" {
			r.Count("oracle:rejected-const-divzero(allowed)", 1)
			return
		}
		// a ConstExpr call may move its failure to compile time: the baseline must then fail at run time
		for _, e := range envs {
			oy := run(y.P, e)
			if oy.Err == nil {
				hint := keyUnattr
				switch {
				case strings.Contains(msg, "reflect: Call using"):
					hint = "c02:constexpr-int-literal-kind"
				case strings.Contains(msg, "nil pointer dereference"):
					hint = keyConstNil
				}
				ev := interface{}(e)
				if cs.MapEnv {
					ev = oMapEnv(e)
				}
				add(ev, "rejected at compile time ("+msg+") although the baseline succeeds", outcomeStr(oy), "compile error: "+msg, hint, false)
				return
			}
		}
		r.Count("oracle:failure-moved-to-compile-time(allowed)", 1)
		return
	}
	for _, e := range envs {
		ox := run(x.P, e)
		logX := strings.Join(ox.Log, ";")
		oy := run(y.P, e)
		logY := strings.Join(oy.Log, ";")
		r.Count("oracle:runs", 1)
		if ox.Timeout || oy.Timeout {
			r.Count("oracle:timeout", 1)
			continue
		}
		var ev interface{} = e
		if cs.MapEnv {
			ev = oMapEnv(e)
		}
		_ = mode
		switch {
		case ox.Err != nil && oy.Err != nil:
			r.Count("oracle:both-fail", 1)
		case ox.Err == nil && oy.Err == nil:
			if obsEq(ox.Val, oy.Val) {
				r.Count("oracle:both-equal", 1)
				if len(xFns) == 0 && logX != logY {
					add(ev, "same value, but the environment functions are called differently", "calls "+logY, "calls "+logX, keyUnattr, true)
					return
				}
			} else {
				add(ev, "values differ", outcomeStr(oy), outcomeStr(ox), keyUnattr, false)
				return
			}
		default:
			add(ev, "one variant fails, the other succeeds", outcomeStr(oy), outcomeStr(ox), hintFor(ox, oy), false)
			return
		}
	}
}

// attribute decides the defect class of each pending violation by asking the model which single repair
// (or analysis switch) makes the deviation disappear, and reports it.
func (or *oracle) attribute() {
	c := or.c
	r := c.R
	type probe struct {
		name   string
		key    string
		flags  OptFlags
		arrays bool
		budget int64
	}
	base := or.flags
	var probes []probe
	probes = append(probes, probe{"as-is", "", base, true, int64(vm.MemoryBudget)})
	for _, fk := range flagKeys {
		if !fk.get(base) {
			f := base
			fk.set(&f)
			probes = append(probes, probe{fk.name, fk.key, f, true, int64(vm.MemoryBudget)})
		}
	}
	probes = append(probes, probe{"no-array-fold", keyArrayElem, base, false, int64(vm.MemoryBudget)})
	probes = append(probes, probe{"no-budget", keyBudget, base, true, 1 << 40})
	var lines []string
	for _, pv := range or.pending {
		before := pv.cs.Real.Before
		for _, p := range probes {
			lines = append(lines, T("optspec", p.flags.Sx(), constFnsSx(pv.fns), SBool(p.arrays), SInt(p.budget), valSx(pv.envVal), A(before)).String())
		}
	}
	resp, err := c.AskAll(lines)
	if err != nil {
		r.Mismatch("driver", "optspec", err.Error(), "")
		return
	}
	verdictOf := func(line string, logs bool) (string, string) {
		m, perr := ParseSx(line)
		if perr != nil {
			return "?", ""
		}
		if m.Tag() == "skipped" {
			return "skipped", ""
		}
		if m.Tag() == "res" && len(m.List) == 5 {
			v := m.List[3].Atom
			if logs {
				v = m.List[4].Atom
			}
			return v, "model: unoptimised " + m.List[1].String() + ", optimised " + m.List[2].String()
		}
		return "?", ""
	}
	// second round, for deviations that no single switch removes: everything switched, and everything but one
	everything := probe{"everything", "", optRepaired, false, 1 << 40}
	everything.flags.WalkSlice = base.WalkSlice
	minus := func(p probe) probe {
		q := everything
		q.name = "all-but-" + p.name
		q.key = p.key
		switch p.name {
		case "no-array-fold":
			q.arrays = true
		case "no-budget":
			q.budget = int64(vm.MemoryBudget)
		default:
			for _, fk := range flagKeys {
				if fk.name == p.name {
					f := base
					// keep every repair except this one
					for _, other := range flagKeys {
						if other.name != p.name {
							other.set(&f)
						}
					}
					q.flags = f
				}
			}
		}
		return q
	}
	var second []probe
	second = append(second, everything)
	for _, p := range probes[1:] {
		second = append(second, minus(p))
	}
	allVerdicts := make([]map[string]string, len(or.pending))
	details := make([]string, len(or.pending))
	var lines2 []string
	var idx2 []int
	for i, pv := range or.pending {
		verdicts := map[string]string{}
		for j, p := range probes {
			v, d := verdictOf(resp[i*len(probes)+j], pv.logs)
			if j == 0 {
				details[i] = d
				if v == "skipped" {
					r.Count("attribution:skipped-huge-range", 1)
				}
			}
			verdicts[p.name] = v
		}
		allVerdicts[i] = verdicts
		single := false
		for _, p := range probes[1:] {
			if verdicts[p.name] == "same" {
				single = true
			}
		}
		if verdicts["as-is"] == "differ" && !single {
			idx2 = append(idx2, i)
			for _, p := range second {
				lines2 = append(lines2, T("optspec", p.flags.Sx(), constFnsSx(pv.fns), SBool(p.arrays), SInt(p.budget), valSx(pv.envVal), A(pv.cs.Real.Before)).String())
			}
		}
	}
	resp2, err := c.AskAll(lines2)
	if err != nil {
		r.Mismatch("driver", "optspec", err.Error(), "")
		return
	}
	combined := map[int][]string{}
	for k, i := range idx2 {
		pv := or.pending[i]
		ev, _ := verdictOf(resp2[k*len(second)], pv.logs)
		allVerdicts[i]["everything"] = ev
		if ev != "same" {
			continue
		}
		for j, p := range second[1:] {
			v, _ := verdictOf(resp2[k*len(second)+1+j], pv.logs)
			allVerdicts[i][p.name] = v
			if v == "differ" {
				combined[i] = append(combined[i], p.key)
			}
		}
		r.Count("attribution:combined", 1)
	}
	// deviations the reference evaluator was not asked about (ranges too large to build): is an int overflow involved?
	var lines3 []string
	var idx3 []int
	for i, pv := range or.pending {
		if allVerdicts[i]["as-is"] == "skipped" {
			idx3 = append(idx3, i)
			lines3 = append(lines3, T("rangeinfo", A(pv.cs.Real.Before)).String())
		}
	}
	resp3, err := c.AskAll(lines3)
	if err != nil {
		r.Mismatch("driver", "rangeinfo", err.Error(), "")
		return
	}
	for k, i := range idx3 {
		pv := or.pending[i]
		m, perr := ParseSx(resp3[k])
		if perr != nil || m.Tag() != "rangeinfo" || len(m.List) != 3 {
			continue
		}
		overflow, foldsDiffer := m.List[1].Atom == "true", m.List[2].Atom == "true"
		switch {
		case overflow && foldsDiffer:
			pv.hint = keyRangeOverflow
		case overflow && pv.hint != keyBudget:
			pv.hint = keyVMRangeOverflow
		}
	}
	for i, pv := range or.pending {
		verdicts := allVerdicts[i]
		detail := details[i]
		var keys []string
		if verdicts["as-is"] == "differ" {
			for _, p := range probes[1:] {
				if verdicts[p.name] == "same" {
					keys = append(keys, p.key)
				}
			}
		}
		if len(keys) > 1 {
			// several independent repairs each remove the deviation: report under the first (fixed order)
			keys = keys[:1]
		}
		if len(keys) == 0 {
			keys = combined[i] // several defects at once: one report per defect that has to be repaired
		}
		if len(keys) == 0 {
			keys = []string{pv.hint}
		}
		mode := "struct"
		if pv.cs.MapEnv {
			mode = "map"
		}
		for _, k := range keys {
			if k == keyUnattr {
				r.Note("unattributed deviation: %s [%s, %s env, ConstExpr=%v] expected %s got %s verdicts=%v {%s}", pv.cs.Src, pv.pair, mode, pv.fns, pv.expect, pv.got, verdicts, detail)
			}
			r.Count("violation:"+k, 1)
			r.Violate(Violation{
				What:   pv.what + " [" + pv.pair + "]",
				Key:    k,
				Input:  oracleInput{Src: pv.cs.Src, Env: valSx(pv.envVal).String(), Mode: mode, Fns: pv.fns, Pair: pv.pair},
				Expect: pv.expect,
				Got:    pv.got + "  {" + detail + "}",
			})
		}
	}
}

// ---------------------------------------------------------------------------------------------
// witnesses of the known deviations on the real code, with a stateful environment function

type witnessEnv struct {
	I     int
	F     float64
	S     string
	Ints  []int
	Anys  []interface{}
	Half  func(float64) float64
	I64f  func(int64) int64
	I8f   func(int8) int8
	Next  func() int
	I8    int8
	First func([]interface{}) interface{}
	Null  func() interface{}
	Big   interface{} // a float beyond 2^53 behind an interface: arithmetic on it must not be regrouped
	Tiny  interface{}
}

func newWitnessEnv() *witnessEnv {
	n := 0
	return &witnessEnv{I: 2, F: 1.5, S: "a", Ints: []int{1, 2}, Anys: []interface{}{1, 2},
		Half: func(x float64) float64 { return x / 2 },
		I64f: func(x int64) int64 { return x },
		I8f:  func(x int8) int8 { return x },
		Next: func() int { n++; return n }, I8: 7,
		First: func(xs []interface{}) interface{} { return xs[0] },
		Null:  func() interface{} { return nil }, Big: 1e16, Tiny: 0.1}
}

var witnessTable = []struct {
	Key  string
	Src  string
	Fns  []string
	What string
}{
	{"c02:in-array-string-set-left-type", `1 in ["a"]`, nil, "string-set rewrite with an int left operand"},
	{"c02:in-array-string-set-left-type", `nil in ["a"]`, nil, "string-set rewrite with a nil left operand"},
	{"c02:in-range-left-type", `F in 1..3`, nil, "in-range rewrite with a float left operand"},
	{"c02:in-range-left-type", `S in 1..3`, nil, "in-range rewrite with a string left operand"},
	{"c02:in-range-left-type", `nil in 1..3`, nil, "in-range rewrite with a nil left operand"},
	{"c02:in-range-left-evaluated-twice", `Next() in 1..1`, nil, "in-range rewrite evaluates a stateful left operand twice"},
	{"c02:fold-retyped-literal", `Half(1 / 2)`, nil, "integer folding of literals retyped to float64"},
	{"c02:fold-retyped-literal", `I8f(200 / 3)`, nil, "integer folding of literals retyped to int8"},
	{"c02:fold-retyped-literal", `Half(9007199254740993 - 9007199254740992)`, nil, "integer folding of literals retyped to float64 (rounding)"},
	{"c02:fold-retyped-literal", `Half(1 / 0)`, nil, "constant float division by zero rejected as integer division"},
	{"c02:constexpr-int-literal-kind", `I64f(1)`, []string{"I64f"}, "ConstExpr passes int for a literal to func(int64)"},
	{"c02:constexpr-int-literal-kind", `Half(1)`, []string{"Half"}, "ConstExpr passes int for a literal to func(float64)"},
	{"c02:array-literal-elem-type", `[1, 2] == Ints`, nil, "literal array folded to []int compared with =="},
	{"c02:array-literal-elem-type", `[1, 2] == Anys`, nil, "literal array folded to []int compared with =="},
	{"c02:array-literal-elem-type", `First([1, 2])`, nil, "literal array folded to []int passed to a func([]interface{})"},
	{"c02:in-range-left-type", `I8 in -5..255`, nil, "in-range rewrite with an int8 left operand and bounds outside int8"},
	{"c02:constexpr-nil-result", `Null()`, []string{"Null"}, "ConstExpr function returning nil: the compiler cannot emit the nil constant"},
	{keyRangeOverflow, `len(0..9223372036854775807)`, nil, "a literal range whose size overflows int is folded to the empty constant"},
	{keyVMRangeOverflow, `3 in 0..9223372036854775807`, nil, "OpRange computes max-min+1 in int: the unoptimised range of 2^63 elements is empty"},
	// no listed deviation: dynamically typed operands whose run-time value is a float where rounding shows — folding
	// or regrouping the integer literals around them must not change the result (seed c02_7: (x + a) + b -> x + (a+b))
	{"c02:arithmetic-regrouped", `Big + 1 + 2`, nil, "literals regrouped around a dynamically typed operand holding 1e16"},
	{"c02:arithmetic-regrouped", `Big + 1 + 2 + 3 + 4`, nil, "literals regrouped around a dynamically typed operand holding 1e16"},
	{"c02:arithmetic-regrouped", `(Big - 1) - 2`, nil, "literals regrouped around a dynamically typed operand holding 1e16"},
	{"c02:arithmetic-regrouped", `1 + 2 + Big + 1 + 2`, nil, "literals regrouped around a dynamically typed operand holding 1e16"},
	{"c02:arithmetic-regrouped", `Big * 3 * 3`, nil, "literals regrouped around a dynamically typed operand holding 1e16"},
	{"c02:arithmetic-regrouped", `Tiny + 1 + 2 == Tiny + 3`, nil, "literals regrouped around a dynamically typed operand holding 0.1"},
	{"c02:arithmetic-regrouped", `[Anys[0] + 1 + 2, Big + 1 + 1]`, nil, "literals regrouped around dynamically typed operands"},
	{"c02:budget-differs", `len(1..1000000)`, nil, "constant range is not counted against the memory budget"},
	{"c02:budget-differs", `len(map(1..400000, {# in [1, 2, 3]}))`, nil, "literal array inside a loop is counted only when not folded"},
}

func runWitnesses(c *Ctx) {
	r := c.R
	for _, w := range witnessTable {
		outcome := func(optimize bool, fns []string) string {
			env := newWitnessEnv()
			cp := compileReal(w.Src, env, optimize, fns)
			if cp.Err != nil {
				return "compile error: " + errLine(cp.Err)
			}
			o := RunReal(&vm.VM{}, cp.P, env, nil)
			if o.Err != nil {
				return "error[" + o.Class + "]"
			}
			return "ok " + valSx(o.Val).String()
		}
		on := outcome(true, w.Fns)
		off := outcome(false, nil)
		r.Count("witness:run", 1)
		r.Case("witness|"+w.Src, true)
		same := on == off || (strings.HasPrefix(on, "error") && strings.HasPrefix(off, "error"))
		if !same {
			r.Count("witness:deviates", 1)
			key := w.Key
			if key == keyVMRangeOverflow && strings.HasPrefix(off, "error[budget]") {
				key = keyBudget // OpRange repaired: what is left is the budget difference
			}
			r.Violate(Violation{What: w.What, Key: key,
				Input:  oracleInput{Src: w.Src, Env: "witnessEnv{I:2 F:1.5 S:a Ints:[1 2] Anys:[1 2] Half I64f I8f Next(counter)}", Mode: "struct", Fns: w.Fns, Pair: "optimize-on/off"},
				Expect: "Optimize(false): " + off, Got: "Optimize(true): " + on})
		}
	}
}

// ---------------------------------------------------------------------------------------------

func runC02(c *Ctx) {
	defer definedTypeProbe(c, "C02") // defined scalar types: real-code oracle only (defined_zoo.go)
	r := c.R
	r.Rule = "sources in which a rewrite can fire (constant arithmetic at depth, literal arrays, membership in literal arrays / literal ranges with left operands of every admitted static type, constant ranges, ConstExpr calls) inside typed contexts x {struct, map} environments x ConstExpr sets: (i) Lean model of optimizer.Optimize = real optimizer on the typed tree (kinds, locations, error location); (ii) on the real code: Optimize(true) vs Optimize(false), ConstExpr on vs off, same environment values, ObsEq; non-trivial = the real optimizer changed the tree or rejected it"
	flags := probeOptFlags(c)
	r.Note("model flags probed from /repo: %s", flags.String())
	if flags != optRepaired {
		// the theorems of Props/C02 (and C01's typed pipeline) are stated for the literal `Opt.Flags.asIs` (every repair
		// in place): when the code behaves like another variant they are theorems about a model the code does not implement
		r.Mismatch("flags", "behaviour probes of the optimizer", "Opt.Flags.asIs = "+optRepaired.String(), flags.String())
	}
	for _, fk := range flagKeys {
		if fk.get(flags) {
			r.Count("flag:"+fk.name, 1)
		}
	}
	if flags.WalkSlice {
		r.Count("flag:walkSliceNode", 1)
	}
	runWitnesses(c) // first, so that the replay written per key is the minimal witness
	n := 5000
	nOracle := 400
	maxPending := 150
	if c.Thorough() {
		n, nOracle, maxPending = 120000, 40000, 2000
	}
	var cases []*optCase
	for i, src := range optFixed {
		for _, mapEnv := range []bool{false, true} {
			for _, fns := range [][]string{nil, oConstSets[2]} {
				e := NewEnv(i, func(k int) int { return (i + 1) % k })
				cs := &optCase{Src: src, Site: "fixed", MapEnv: mapEnv, Env: e, EnvVal: e, Fns: fns}
				if mapEnv {
					cs.EnvVal = oMapEnv(e)
				}
				cases = append(cases, cs)
			}
		}
	}
	cases = append(cases, genOptCases(c, n)...)
	t0 := time.Now()
	done := optCorrespondence(c, flags, cases)
	r.Note("correspondence: %.1fs", time.Since(t0).Seconds())
	t0 = time.Now()
	for i, src := range optBoundary {
		e := NewEnv(i, func(k int) int { return 1 % k })
		cs := &optCase{Src: src, Site: "boundary", Env: e, EnvVal: e}
		done = append(done, optCorrespondence(c, flags, []*optCase{cs})...)
		cases = append(cases, cs)
	}
	for _, cs := range cases {
		nontrivial := cs.Real != nil && (cs.Real.Rejected || (cs.Real.After != "" && cs.Real.After != cs.Real.Before))
		r.Case(cs.String(), nontrivial)
	}
	for _, site := range []string{"arith", "call", "array", "inArray", "inRange", "range", "fixed", "boundary"} {
		if r.Counters["fired:"+site] == 0 {
			r.Mismatch("generator", "site "+site, "rewrites fire", "no case in which the real optimizer changed the tree")
		}
	}
	if r.Counters["opt:rejected"] == 0 {
		r.Mismatch("generator", "rejections", "some", "none")
	}

	// (ii) oracle on the real code
	or := &oracle{c: c, flags: flags, maxPending: maxPending}
	k := 0
	var todo []*optCase
	for _, cs := range done {
		if cs.Site != "fixed" && cs.Site != "boundary" {
			if k >= nOracle {
				continue
			}
			k++
		}
		cs.env2 = NewEnv(k, func(m int) int { return c.Rng.Intn(m) })
		todo = append(todo, cs)
	}
	oMapEnv(NewEnv(0, func(int) int { return 0 })) // registers the additional functions before the workers start
	workers := runtime.NumCPU() / 2
	if workers < 1 {
		workers = 1
	}
	if workers > 8 {
		workers = 8
	}
	jobs := make(chan *optCase)
	var wg sync.WaitGroup
	for w := 0; w < workers; w++ {
		wg.Add(1)
		go func() {
			defer wg.Done()
			for cs := range jobs {
				tcase := time.Now()
				envs := []*Env{cs.Env, cs.env2}
				off := compileReal(cs.Src, cs.EnvVal, false, nil)
				on := compileReal(cs.Src, cs.EnvVal, true, nil)
				or.comparePair(cs, "optimize-on/off", nil, on, off, envs)
				r.Count("oracle:sources", 1)
				if len(cs.Fns) > 0 {
					onCE := compileReal(cs.Src, cs.EnvVal, true, cs.Fns)
					or.comparePair(cs, "constexpr-on/off", cs.Fns, onCE, on, envs)
					or.comparePair(cs, "optimize+constexpr/off", cs.Fns, onCE, off, envs)
				}
				if d := time.Since(tcase); d > 200*time.Millisecond && os.Getenv("VERIF_C02_SLOW") != "" {
					fmt.Fprintf(os.Stderr, "slow oracle case %.2fs: %s\n", d.Seconds(), cs.Src)
				}
			}
		}()
	}
	for _, cs := range todo {
		jobs <- cs
	}
	close(jobs)
	wg.Wait()
	for _, cs := range todo { // in generation order: the report does not depend on scheduling
		for _, pv := range cs.found {
			if len(or.pending) >= or.maxPending {
				r.Count("oracle:deviations-not-reported(cap)", 1)
				continue
			}
			or.pending = append(or.pending, pv)
		}
	}
	r.Count("oracle:pending-violations", len(or.pending))
	r.Note("oracle runs: %.1fs", time.Since(t0).Seconds())
	t0 = time.Now()
	or.attribute()
	r.Note("attribution: %.1fs", time.Since(t0).Seconds())
	if r.Counters["oracle:both-equal"] == 0 || r.Counters["oracle:both-fail"] == 0 {
		r.Mismatch("generator", "oracle", "both-equal and both-fail outcomes", fmt.Sprintf("%v", r.Counters))
	}
}

func init() { props["C02"] = runC02 }
