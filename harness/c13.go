package main

// C13 — errors point at the offending source position.
//
// (i)   correspondence: file.NewSource(src).Snippet(L) and (&file.Error{…}).Bind(source) / Error() of the
//       real code vs the Lean model (ExprModel/Api/Source.lean, about which Props/C13.lean proves
//       snippet_is_line, snippet_total, loc_in_source, bind_indicator …) on random multi-line sources
//       with tabs, 2/3/4-byte runes, invalid UTF-8, empty lines, trailing newline, CRLF; also the
//       harness's own position bookkeeping (used by the oracles below) vs the model's posOf.
// (ii)  single-fault oracle at compile time (c13_oracle.go): one fault injected at a known rune
//       position into a well-typed, multi-line, non-ASCII-laden expression.
// (iii) single-failure oracle at run time (c13_oracle.go).

import (
	"fmt"
	"strings"

	"github.com/antonmedv/expr/file"
)

// c13LcOf computes (line, column) of rune offset k the documented way: line = 1 + number of newlines
// before k, column = runes since the last newline (0-based).  Independent of the library.
func c13LcOf(runes []rune, k int) (int, int) {
	line, col := 1, 0
	for i := 0; i < k && i < len(runes); i++ {
		if runes[i] == '\n' {
			line++
			col = 0
		} else {
			col++
		}
	}
	return line, col
}

var c13Alphabet = []string{
	"a", "b", "x", "Z", "0", "7", " ", " ", "\t", "\n", "\n", "\r\n", "+", ".", "(", ")", "'", "\"", "|",
	"é", "ñ", "ß", // 2-byte
	"€", "漢", "→", // 3-byte
	"😀", "𝔘", // 4-byte
	"\xff", "\xc3", // invalid UTF-8 (become U+FFFD in []rune)
}

func c13RandomSource(c *Ctx) string {
	var sb strings.Builder
	n := c.Rng.Intn(40)
	switch c.Rng.Intn(10) {
	case 0:
		n = 0
	case 1:
		n = 1
	}
	ascii := c.Rng.Intn(3) == 0
	for i := 0; i < n; i++ {
		if ascii {
			sb.WriteString(c13Alphabet[c.Rng.Intn(19)])
		} else {
			sb.WriteString(c13Alphabet[c.Rng.Intn(len(c13Alphabet))])
		}
	}
	if c.Rng.Intn(4) == 0 {
		sb.WriteString("\n")
	}
	return sb.String()
}

func c13ImplSnippet(src string, line int) (out string) {
	defer func() {
		if r := recover(); r != nil {
			out = "(panic)"
		}
	}()
	s, found := file.NewSource(src).Snippet(line)
	return T("ok", SStr(s), SBool(found)).String()
}

func c13ImplBind(src string, line, col int, msg string) (out string) {
	defer func() {
		if r := recover(); r != nil {
			out = "(panic)"
		}
	}()
	e := (&file.Error{Location: file.Location{Line: line, Column: col}, Message: msg}).Bind(file.NewSource(src))
	return T("ok", SStr(e.Snippet), SStr(e.Error())).String()
}

func c13Source(c *Ctx) {
	r := c.R
	n := 400
	if c.Thorough() {
		n = 6000
	}
	type cs struct {
		stage, input, impl string
	}
	var cases []cs
	var lines []string
	fixed := []string{"", "\n", "a", "a\n", "\n\n", "é", "a\tb\n\tc", "x\r\ny\r\n", "'é' + \n  (1 / 0)", "\xff\n\xff", "😀😀\n😀"}
	for i := 0; i < n; i++ {
		var raw string
		if i < len(fixed) {
			raw = fixed[i]
		} else {
			raw = c13RandomSource(c)
		}
		src := file.NewSource(raw).Content() // []rune normalisation: invalid bytes are U+FFFD from here on
		runes := []rune(src)
		nl := strings.Count(src, "\n") + 1
		multi := len(src) != len(runes)
		r.Case("src:"+raw, nl > 1 || multi)
		if multi {
			r.Count("source:multibyte", 1)
		}
		if nl > 1 {
			r.Count("source:multiline", 1)
		}
		if strings.Contains(src, "\t") {
			r.Count("source:tabs", 1)
		}
		if strings.Contains(src, "\r\n") {
			r.Count("source:crlf", 1)
		}
		if strings.HasSuffix(src, "\n") {
			r.Count("source:trailing-newline", 1)
		}
		if raw != src {
			r.Count("source:invalid-utf8", 1)
		}
		for line := -1; line <= nl+2; line++ {
			in := fmt.Sprintf("Snippet(%q, %d)", src, line)
			cases = append(cases, cs{"snippet", in, c13ImplSnippet(raw, line)})
			lines = append(lines, T("snippet", SStr(src), SInt(int64(line))).String())
			r.Count("snippet-calls", 1)
		}
		for j := 0; j < 6; j++ {
			line := c.Rng.Intn(nl+2) - 0
			col := c.Rng.Intn(14) - 1
			if j == 0 && len(runes) > 0 { // an in-source position
				k := c.Rng.Intn(len(runes) + 1)
				line, col = c13LcOf(runes, k)
			}
			msg := []string{"m", "unknown name é", "", "x (1:1)"}[c.Rng.Intn(4)]
			in := fmt.Sprintf("Bind(%q, %d:%d, %q)", src, line, col, msg)
			cases = append(cases, cs{"bind", in, c13ImplBind(raw, line, col, msg)})
			lines = append(lines, T("bind", SStr(src), SInt(int64(line)), SInt(int64(col)), SStr(msg)).String())
			r.Count("bind-calls", 1)
		}
		// the harness's own position rule vs the model's posOf (the theorems are about posOf)
		for k := 0; k <= len(runes); k++ {
			l, cc := c13LcOf(runes, k)
			cases = append(cases, cs{"posof", fmt.Sprintf("posOf(%q, %d)", src, k), T("loc", SInt(int64(l)), SInt(int64(cc))).String()})
			lines = append(lines, T("posof", SStr(src), SInt(int64(k))).String())
		}
	}
	resp, err := c.AskAll(lines)
	if err != nil {
		r.Mismatch("driver", "source", err.Error(), "")
		return
	}
	for i, k := range cases {
		if resp[i] != k.impl {
			r.Mismatch(k.stage, k.input, resp[i], k.impl)
		}
	}
	for _, k := range []string{"source:multibyte", "source:multiline", "source:tabs", "source:crlf", "source:trailing-newline", "source:invalid-utf8"} {
		if r.Counters[k] == 0 {
			r.Mismatch("generator", k, "no case generated", "")
		}
	}
}

func runC13(c *Ctx) {
	defer definedTypeProbe(c, "C13") // defined scalar types: real-code oracle only (defined_zoo.go)
	c.R.Rule = "(i) random sources over {ASCII, tab, LF, CRLF, 2/3/4-byte runes, invalid UTF-8}: Snippet(L) for every L in -1..lines+2, Bind at in-source and out-of-source (line, col), posOf at every offset, real code vs Lean model; (ii) well-typed multi-line non-ASCII expressions with exactly one injected fault (kind x depth x position): Parse/Compile/Eval must return *file.Error at the fault's rune position with the snippet = that source line; (iii) programs with exactly one failing run-time operation among guarded ones; (iv) the instrumented reference evaluator Spec.runLoc (the location of the node that raises a failure) vs the position of the real *file.Error, on generated and enumerated programs and on the single-failure programs of (iii); non-trivial = multi-line or multi-byte source; distinct by source text"
	if c.Replay == "" {
		c13Source(c)
		c13SpecLoc(c)
	}
	c13Oracle(c)
}

func init() { props["C13"] = runC13 }
