package main

// Type-directed random expression generator over the FxEnv zoo (shared by C09, C08, C04).
// Every production is well-typed against FxEnv; run-time failures (index out of range, nil dereference)
// are possible and wanted.

import (
	"fmt"
	"math/rand"
	"strings"
)

type fxType int

const (
	fxInt fxType = iota
	fxFloat
	fxStr
	fxBool
	fxIntsT
	fxStrsT
	fxAnyT
	fxMapT
	fxVecT
)

func (t fxType) String() string {
	return [...]string{"int", "float", "string", "bool", "[]int", "[]string", "[]any", "map", "vec"}[t]
}

type fxGen struct {
	r       *rand.Rand
	ops     bool // may use the overloaded + on vectors
	closure int  // > 0 inside a closure over an int collection: # is an int
	used    map[string]int
}

func (g *fxGen) pick(n int) int { return g.r.Intn(n) }

func (g *fxGen) note(rule string) { g.used[rule]++ }

func (g *fxGen) gen(t fxType, d int) string {
	switch t {
	case fxInt:
		return g.genInt(d)
	case fxFloat:
		return g.genFloat(d)
	case fxStr:
		return g.genStr(d)
	case fxBool:
		return g.genBool(d)
	case fxIntsT:
		return g.genInts(d)
	case fxStrsT:
		return g.genStrs(d)
	case fxAnyT:
		return g.genAny(d)
	case fxMapT:
		return g.genMap(d)
	case fxVecT:
		return g.genVec(d)
	}
	return "nil"
}

func (g *fxGen) lit() string {
	if g.pick(12) == 0 {
		return fmt.Sprint(1000 + g.pick(100000))
	}
	return fmt.Sprint(g.pick(13))
}

func (g *fxGen) genInt(d int) string {
	if d <= 0 {
		leaves := []string{g.lit(), g.lit(), "I", "J", "BaseI", "B2", "In.N", "PIn.N", "len(Ints)"}
		if g.closure > 0 {
			leaves = append(leaves, "#", "#", "#")
		}
		g.note("int-leaf")
		return leaves[g.pick(len(leaves))]
	}
	switch g.pick(20) {
	case 0, 1:
		g.note("int-arith")
		return fmt.Sprintf("(%s %s %s)", g.genInt(d-1), []string{"+", "-", "*"}[g.pick(3)], g.genInt(d-1))
	case 2:
		g.note("int-mod")
		return fmt.Sprintf("(%s %% %d)", g.genInt(d-1), 1+g.pick(7))
	case 3:
		g.note("int-index")
		return fmt.Sprintf("Ints[%d]", g.pick(8))
	case 4:
		g.note("int-index-dyn")
		return fmt.Sprintf("Ints[%s %% 6]", g.genInt(d-1))
	case 5:
		g.note("call-func")
		return fmt.Sprintf("Add(%s, %s)", g.genInt(d-1), g.genInt(d-1))
	case 6:
		g.note("call-method-env")
		return fmt.Sprintf("Twice(%s)", g.genInt(d-1))
	case 7:
		g.note("constexpr-candidate")
		return fmt.Sprintf("Fib(%d)", g.pick(30))
	case 8:
		g.note("method")
		return "In.Double()"
	case 9:
		g.note("cond")
		return fmt.Sprintf("(%s ? %s : %s)", g.genBool(d-1), g.genInt(d-1), g.genInt(d-1))
	case 10:
		g.note("count")
		return fmt.Sprintf("count(%s, {%s})", g.genInts(d-1), g.inClosure(func() string { return g.genBool(d - 1) }))
	case 11:
		g.note("len")
		return fmt.Sprintf("len(%s)", []string{g.genInts(d - 1), g.genStr(d - 1), g.genStrs(d - 1), "M", "Any"}[g.pick(5)])
	case 12:
		g.note("neg")
		return "-" + g.genInt(d-1)
	case 13:
		g.note("map-index")
		return []string{`M["a"]`, "M.b", `M[S]`, `In.M["x"]`, "PIn.M.y"}[g.pick(5)]
	case 14:
		g.note("nilsafe")
		return []string{"PIn?.N", "NilP?.N ?: 0", "PIn.P.N", "In.P?.N"}[g.pick(4)]
	case 15:
		g.note("int-div")
		return fmt.Sprintf("(%s / %d)", g.genInt(d-1), 1+g.pick(5))
	case 16:
		g.note("sum-method")
		return "SumInts()"
	default:
		return g.genInt(0)
	}
}

func (g *fxGen) genFloat(d int) string {
	if d <= 0 {
		g.note("float-leaf")
		return []string{"F", "1.5", "0.25", "2e3", ".5", "Floats[0]"}[g.pick(6)]
	}
	switch g.pick(6) {
	case 0:
		g.note("float-mixed")
		return fmt.Sprintf("(%s + %s)", g.genInt(d-1), g.genFloat(d-1))
	case 1:
		g.note("float-arith")
		return fmt.Sprintf("(%s %s %s)", g.genFloat(d-1), []string{"*", "-", "/"}[g.pick(3)], g.genFloat(d-1))
	case 2:
		g.note("pow")
		return fmt.Sprintf("(%s ** %d)", g.genInt(d-1), g.pick(4))
	case 3:
		g.note("float-cond")
		return fmt.Sprintf("(%s ? %s : %s)", g.genBool(d-1), g.genFloat(d-1), g.genFloat(d-1))
	default:
		return g.genFloat(0)
	}
}

func (g *fxGen) strLit() string {
	return []string{`"a"`, `"alpha"`, `'bb'`, `"x y"`, `"été"`, `"li\nne"`, `""`}[g.pick(7)]
}

func (g *fxGen) genStr(d int) string {
	if d <= 0 {
		g.note("str-leaf")
		return []string{"S", "T", g.strLit(), "In.S", "Strs[0]", g.strLit()}[g.pick(6)]
	}
	switch g.pick(9) {
	case 0, 1:
		g.note("str-concat")
		return fmt.Sprintf("(%s + %s)", g.genStr(d-1), g.genStr(d-1))
	case 2:
		g.note("constexpr-candidate")
		return fmt.Sprintf("Upper(%s)", g.genStr(d-1))
	case 3:
		g.note("call-method-env")
		return fmt.Sprintf("Greet(%s)", g.genStr(d-1))
	case 4:
		g.note("str-slice")
		return fmt.Sprintf("%s[%d:%d]", []string{"S", "T", "In.S"}[g.pick(3)], g.pick(3), 2+g.pick(4))
	case 5:
		g.note("method-ptr")
		return "PIn.Name()"
	case 6:
		g.note("cond")
		return fmt.Sprintf("(%s ? %s : %s)", g.genBool(d-1), g.genStr(d-1), g.genStr(d-1))
	case 7:
		g.note("str-index")
		return fmt.Sprintf("%s[%d]", g.genStrs(d-1), g.pick(4))
	default:
		return g.genStr(0)
	}
}

func (g *fxGen) genBool(d int) string {
	if d <= 0 {
		g.note("bool-leaf")
		return []string{"B", "true", "false", "I < J", "S == T"}[g.pick(5)]
	}
	switch g.pick(22) {
	case 0, 1:
		g.note("cmp")
		return fmt.Sprintf("(%s %s %s)", g.genInt(d-1), []string{"<", "<=", ">", ">=", "==", "!="}[g.pick(6)], g.genInt(d-1))
	case 2:
		g.note("cmp-float")
		return fmt.Sprintf("(%s %s %s)", g.genFloat(d-1), []string{"<", ">=", "=="}[g.pick(3)], g.genInt(d-1))
	case 3:
		g.note("str-eq")
		return fmt.Sprintf("(%s %s %s)", g.genStr(d-1), []string{"==", "!=", "<"}[g.pick(3)], g.genStr(d-1))
	case 4:
		g.note("matches-const")
		return fmt.Sprintf("(%s matches %s)", g.genStr(d-1), []string{`"^a.*a$"`, `"[a-c]+"`, `"(?i)ALPHA"`, `"^$"`, `"\\d+"`}[g.pick(5)])
	case 5:
		g.note("matches-dyn")
		return fmt.Sprintf("(%s matches %s)", g.genStr(d-1), g.genStr(d-1))
	case 6:
		g.note("str-ops")
		return fmt.Sprintf("(%s %s %s)", g.genStr(d-1), []string{"contains", "startsWith", "endsWith"}[g.pick(3)], g.genStr(d-1))
	case 7:
		g.note("in-int-array")
		return fmt.Sprintf("(%s %s [%s, %s, %s])", g.genInt(d-1), []string{"in", "not in"}[g.pick(2)], g.lit(), g.lit(), g.lit())
	case 8:
		g.note("in-str-array")
		return fmt.Sprintf("(%s %s [%s, %s])", g.genStr(d-1), []string{"in", "not in"}[g.pick(2)], g.strLit(), g.strLit())
	case 9:
		g.note("in-range")
		return fmt.Sprintf("(%s %s %d..%d)", g.genInt(d-1), []string{"in", "not in"}[g.pick(2)], g.pick(5), 3+g.pick(9))
	case 10:
		g.note("in-collection")
		return []string{fmt.Sprintf("(%s in Ints)", g.genInt(d-1)), fmt.Sprintf("(%s in M)", g.genStr(d-1)), fmt.Sprintf("(%s in Strs)", g.genStr(d-1)), `("N" in In)`, `("Zz" in PIn)`}[g.pick(5)]
	case 11:
		g.note("not")
		return fmt.Sprintf("%s %s", []string{"not", "!"}[g.pick(2)], g.genBool(d-1))
	case 12, 13:
		g.note("logic")
		return fmt.Sprintf("(%s %s %s)", g.genBool(d-1), []string{"and", "or", "&&", "||"}[g.pick(4)], g.genBool(d-1))
	case 14, 15:
		g.note("quantifier")
		return fmt.Sprintf("%s(%s, {%s})", []string{"all", "any", "none", "one"}[g.pick(4)], g.genInts(d-1), g.inClosure(func() string { return g.genBool(d - 1) }))
	case 16:
		g.note("nil-cmp")
		return []string{"NilP == nil", "PIn != nil", "nil == NilP", "In.P == nil", "MS.zz == nil"}[g.pick(5)]
	case 17:
		g.note("cond")
		return fmt.Sprintf("(%s ? %s : %s)", g.genBool(d-1), g.genBool(d-1), g.genBool(d-1))
	case 18:
		g.note("arr-eq")
		return fmt.Sprintf("(%s == %s)", g.genInts(d-1), g.genInts(d-1))
	default:
		return g.genBool(0)
	}
}

func (g *fxGen) inClosure(f func() string) string {
	g.closure++
	s := f()
	g.closure--
	return s
}

func (g *fxGen) genInts(d int) string {
	if d <= 0 {
		g.note("ints-leaf")
		return []string{"Ints", "[1, 2, 3]", "[5]", "1..4", "MS.l"}[g.pick(4)] // MS.l is []int behind interface{}: kept out (index 4 never picked)
	}
	switch g.pick(8) {
	case 0:
		g.note("filter")
		return fmt.Sprintf("filter(%s, {%s})", g.genInts(d-1), g.inClosure(func() string { return g.genBool(d - 1) }))
	case 1:
		g.note("range-dyn")
		return fmt.Sprintf("(%d..%s)", g.pick(3), g.genInt(d-1))
	case 2:
		g.note("ints-slice")
		return fmt.Sprintf("Ints[%d:%d]", g.pick(3), 2+g.pick(5))
	case 3:
		g.note("array-lit-fold")
		return fmt.Sprintf("[%s, %s, %s, %s]", g.lit(), g.lit(), g.lit(), g.lit())
	case 4:
		g.note("array-lit-dyn")
		return fmt.Sprintf("[%s, %s]", g.genInt(d-1), g.genInt(d-1))
	case 5:
		g.note("ints-cond")
		return fmt.Sprintf("(%s ? %s : %s)", g.genBool(d-1), g.genInts(d-1), g.genInts(d-1))
	default:
		return g.genInts(0)
	}
}

func (g *fxGen) genStrs(d int) string {
	if d <= 0 {
		g.note("strs-leaf")
		return []string{"Strs", `["a", "bb"]`, "In.Tags", "PIn.Tags"}[g.pick(4)]
	}
	switch g.pick(4) {
	case 0:
		g.note("strs-slice")
		return fmt.Sprintf("Strs[%d:]", g.pick(3))
	case 1:
		g.note("strs-lit-fold")
		return fmt.Sprintf("[%s, %s, %s]", g.strLit(), g.strLit(), g.strLit())
	default:
		return g.genStrs(0)
	}
}

func (g *fxGen) genAny(d int) string {
	switch g.pick(5) {
	case 0:
		g.note("map-builtin")
		return fmt.Sprintf("map(%s, {%s})", g.genInts(d-1), g.inClosure(func() string { return g.genInt(d - 1) }))
	case 1:
		g.note("array-mixed")
		return fmt.Sprintf("[%s, %s, %s]", g.genInt(d-1), g.genStr(d-1), g.genBool(d-1))
	case 2:
		g.note("fast-call")
		return fmt.Sprintf("[Concat(%s, %s)]", g.genInt(d-1), g.genStr(d-1))
	case 3:
		g.note("any-slice")
		return "Any[1:3]"
	default:
		return "Any"
	}
}

func (g *fxGen) genMap(d int) string {
	g.note("map-lit")
	switch g.pick(3) {
	case 0:
		return fmt.Sprintf("{a: %s, b: %s}", g.genInt(d-1), g.genStr(d-1))
	case 1:
		return fmt.Sprintf(`{"k": %s, (%s): %s, 3: %s}`, g.genBool(d-1), g.genStr(d-1), g.genInts(d-1), g.genFloat(d-1))
	default:
		return "{}"
	}
}

func (g *fxGen) genVec(d int) string {
	if d <= 0 || !g.ops {
		g.note("vec-leaf")
		return []string{"V1", "V2", "VAdd(V1, V2)"}[g.pick(3)]
	}
	g.note("vec-plus")
	return fmt.Sprintf("(%s + %s)", g.genVec(d-1), g.genVec(d-1))
}

// fxSources: n sources per type with depths 1..maxDepth, deterministic for a given rng state
func fxSources(r *rand.Rand, n, maxDepth int, ops bool) (out []struct {
	Src string
	T   fxType
}, used map[string]int) {
	g := &fxGen{r: r, ops: ops, used: map[string]int{}}
	types := []fxType{fxInt, fxFloat, fxStr, fxBool, fxIntsT, fxStrsT, fxAnyT, fxMapT, fxVecT}
	for i := 0; i < n; i++ {
		t := types[i%len(types)]
		d := 1 + i%maxDepth
		src := g.gen(t, d)
		// random whitespace variation
		if g.pick(5) == 0 {
			src = strings.ReplaceAll(src, " ", "  ")
		}
		out = append(out, struct {
			Src string
			T   fxType
		}{src, t})
	}
	return out, g.used
}
