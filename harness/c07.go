package main

// C07 — a reused VM behaves like a fresh one.
//
// Histories of 5–40 runs on ONE real vm.VM value: generated programs of every kind (GenCases), runs that
// fail inside nested loops (open scopes, non-empty stack), index errors, budget-exhausting runs and runs
// that allocate below the budget so that the cumulative allocation crosses it many times.
//  (a) correspondence: the Lean model's `vmhist` stage (runOn folded over the history) must return, run by
//      run, what the real VM returned (value / error class / location, stack and scope depth, the memory
//      counter read through the hook, call log);
//  (b) oracle on the real code (the property itself): every run on the reused VM must return what the same
//      program and environment return on a fresh vm.VM{}.  A difference is a counterexample; the history is
//      shrunk (runs are dropped while the difference persists) before it is reported.

import (
	"encoding/json"
	"fmt"
	"math/rand"
	"os"
	"strings"

	"github.com/antonmedv/expr/vm"
)

// RunSpec identifies one (program, environment) pair reproducibly.
type RunSpec struct {
	Src     string `json:"src"`
	Env     string `json:"env"` // none | struct | map
	Opt     bool   `json:"optimize"`
	Cast    string `json:"cast,omitempty"`
	EnvSeed int64  `json:"env_seed"`
	I       *int   `json:"I,omitempty"` // overrides of the integer members that choose bounds at run time
	J       *int   `json:"J,omitempty"`
}

func (s RunSpec) mode() Mode { return Mode{Env: s.Env, Optimize: s.Opt, Cast: s.Cast} }

func (s RunSpec) env() *Env {
	r := rand.New(rand.NewSource(s.EnvSeed))
	e := NewEnv(int(s.EnvSeed), func(k int) int { return r.Intn(k) })
	if s.I != nil {
		e.I = *s.I
	}
	if s.J != nil {
		e.J = *s.J
	}
	return e
}

func (s RunSpec) String() string {
	x := fmt.Sprintf("%s [%s] env#%d", s.Src, s.mode(), s.EnvSeed)
	if s.I != nil {
		x += fmt.Sprintf(" I=%d", *s.I)
	}
	if s.J != nil {
		x += fmt.Sprintf(" J=%d", *s.J)
	}
	return x
}

func specCase(s RunSpec) *Case {
	cs := &Case{Src: s.Src, Mode: s.mode(), Env: s.env()}
	cs.B = BuildReal(cs.Src, cs.Mode, cs.Env)
	return cs
}

func intp(n int) *int { return &n }

type histRun struct {
	Spec RunSpec
	Case *Case
}

// observable part of an outcome for the reused-vs-fresh comparison: what the run *returns* (value or error
// class and location) and the environment calls it made.
func observable(o *RunOutcome) string {
	log := strings.Join(o.Log, ",")
	if o.Timeout {
		return "(timeout)"
	}
	if o.Err != nil {
		return fmt.Sprintf("(err %s %d:%d log=%s)", o.Class, o.Line, o.Col, log)
	}
	return fmt.Sprintf("(ok %s log=%s)", valSx(o.Val), log)
}

func freshOutcome(hr *histRun) *RunOutcome {
	return RunReal(&vm.VM{}, hr.Case.B.Program, envVal(hr.Case), hr.Case.Env)
}

// runHistory performs the runs on one VM value and returns the outcomes.
func runHistoryReal(h []*histRun) []*RunOutcome {
	machine := &vm.VM{}
	out := make([]*RunOutcome, len(h))
	for i, hr := range h {
		out[i] = RunReal(machine, hr.Case.B.Program, envVal(hr.Case), hr.Case.Env)
	}
	return out
}

// lastDiffers: does the last run of h, performed after the others on one VM, differ from a fresh run?
func lastDiffers(h []*histRun) (bool, string, string) {
	outs := runHistoryReal(h)
	reused := observable(outs[len(outs)-1])
	fresh := observable(freshOutcome(h[len(h)-1]))
	return reused != fresh, reused, fresh
}

// shrinkHistory drops earlier runs while the last run still differs from the fresh run.
func shrinkHistory(h []*histRun) []*histRun {
	cur := append([]*histRun(nil), h...)
	for changed := true; changed; {
		changed = false
		for i := 0; i < len(cur)-1; i++ {
			cand := append(append([]*histRun(nil), cur[:i]...), cur[i+1:]...)
			if d, _, _ := lastDiffers(cand); d {
				cur = cand
				changed = true
				break
			}
		}
	}
	return cur
}

func historyInput(h []*histRun, budget int) map[string]interface{} {
	runs := []RunSpec{}
	for _, hr := range h {
		runs = append(runs, hr.Spec)
	}
	return map[string]interface{}{"memory_budget": budget, "runs_on_one_vm": runs}
}

// checkHistoryOracle is part (b); returns true when the history exposed a difference.
func checkHistoryOracle(c *Ctx, h []*histRun, budget int, outs []*RunOutcome) bool {
	r := c.R
	for i, hr := range h {
		fresh := freshOutcome(hr)
		fo, ro := observable(fresh), observable(outs[i])
		r.Count("c07:runs-compared-with-fresh", 1)
		if fo == ro {
			continue
		}
		min := shrinkHistory(h[:i+1])
		_, reused, freshS := lastDiffers(min)
		r.Violate(Violation{
			What:   fmt.Sprintf("run %d of %d on a reused VM returns %s, a fresh VM returns %s", len(min), len(min), clip(reused, 160), clip(freshS, 160)),
			Key:    "c07:reused-vm-differs",
			Input:  historyInput(min, budget),
			Expect: "every run on the reused VM = the same run on a fresh vm.VM{}: " + clip(freshS, 400),
			Got:    clip(reused, 400),
		})
		return true
	}
	return false
}

func clip(s string, n int) string {
	if len(s) > n {
		return s[:n] + "…"
	}
	return s
}

// crafted sources: failing runs (inside nested loops, index errors, environment failures) and allocating runs
var c07Failing = []string{
	"map(1..3, {map(1..3, {Ints[# + 10]})})",       // index error two loops deep: two open scopes, accumulators on the stack
	"all(1..4, {any(1..3, {Ints[100] > #})})",       // index error inside all/any
	"filter(1..5, {count(1..3, {Fail() == #}) > 0})", // environment function fails two loops deep
	"[1, 2, [3, Ints[50]]]",                          // fails with operands on the stack
	"map(Ints, {# / 0})[10]",
	"Ints[100]", "Strs[7]", "len(S[1:2]) + Ints[99]",
	"{a: 1, b: [I, Anys[40]]}",
	"map(0..J, {[#, #, Fail()]})",
	"one(1..3, {none(1..3, {(# % 0) == 1})})", // integer modulo by zero inside nested loops
}

var c07Allocating = []string{
	"len(map(I..J, {#}))", "len(0..J)", "[I, J, 1, 2]", "{a: I, b: [J, J]}", "filter(0..J, {# > I})",
	"map(0..J, {[#, #]})", "len(map(filter(0..J, {# % 2 == 0}), {[#]}))", "len(J..I) + len(I..J)",
	"map(I..J, {{k: #}})", "[[I], [J], [I, J]]", "len(map(1..J, {# .. # + 1}))",
}

func runC07(c *Ctx) {
	r := c.R
	r.Rule = "histories of 5-40 runs on ONE real vm.VM (generated programs of all kinds; runs failing inside nested loops, index errors, environment failures; budget-exhausting runs; allocating runs whose cumulative allocation crosses the budget many times; budgets 8..default): (a) model vmhist = real, run by run (value / error class / location, stack and scope depth, memory counter, call log); (b) each run on the reused VM = the same run on a fresh vm.VM{}; non-trivial = history with at least one failing and one allocating run"
	if c.Replay != "" {
		replayC07(c)
		return
	}
	nHist, nGen := 60, 500
	if c.Thorough() {
		nHist, nGen = 8000, 8000
	}
	// the pool
	var pool, failing, allocating []*histRun
	add := func(s RunSpec, where *[]*histRun) {
		cs := specCase(s)
		r.Count("c07:build:"+cs.B.Stage, 1)
		if cs.B.Program == nil || cs.B.Panicked {
			if where != &pool { // the crafted sources must build
				r.Mismatch("generator", s.String(), "crafted source does not build", fmt.Sprint(cs.B.Err))
			}
			return
		}
		hr := &histRun{Spec: s, Case: cs}
		*where = append(*where, hr)
	}
	gen := GenCases(c, nGen, 4, allModes, nil)
	for i, cs := range gen {
		add(RunSpec{Src: cs.Src, Env: cs.Mode.Env, Opt: cs.Mode.Optimize, Cast: cs.Mode.Cast, EnvSeed: int64(i)}, &pool)
	}
	bounds := [][2]int{{1, 10}, {0, 7}, {3, 12}, {5, 4}, {2, 30}, {0, 0}, {-2, 15}}
	for k, src := range c07Failing {
		for _, m := range []Mode{{Env: "struct", Optimize: true}, {Env: "none"}, {Env: "map", Optimize: true}} {
			b := bounds[k%len(bounds)]
			add(RunSpec{Src: src, Env: m.Env, Opt: m.Optimize, EnvSeed: int64(1000 + k), I: intp(b[0]), J: intp(b[1])}, &failing)
		}
	}
	for k, src := range c07Allocating {
		for bi, b := range bounds {
			m := []Mode{{Env: "struct", Optimize: true}, {Env: "struct", Optimize: false}, {Env: "none"}}[(k+bi)%3]
			add(RunSpec{Src: src, Env: m.Env, Opt: m.Optimize, EnvSeed: int64(2000 + k), I: intp(b[0]), J: intp(b[1])}, &allocating)
		}
	}
	if len(pool) < nGen/4 || len(failing) < len(c07Failing) || len(allocating) < len(c07Allocating) {
		r.Mismatch("generator", "c07 pool", fmt.Sprintf("pool=%d failing=%d allocating=%d", len(pool), len(failing), len(allocating)), "too few programs compiled")
		return
	}

	old := vm.MemoryBudget
	defer func() { vm.MemoryBudget = old }()
	budgets := []int{8, 20, 50, 50, 200, 1000, old}
	// the package-level budget changes BETWEEN runs of one reused VM (lowered, then raised again): every run must
	// behave like the same run on a fresh VM under the budget in force at that moment (seed c07_7: a per-VM limit
	// that was only initialised on first use kept the budget of the VM's first run)
	{
		nchg := 0
		for _, hr := range allocating {
			vm.MemoryBudget = old
			fo := RunReal(&vm.VM{}, hr.Case.B.Program, envVal(hr.Case), hr.Case.Env)
			if fo.Err != nil || fo.Memory < 2 {
				continue
			}
			reused := &vm.VM{}
			for step, budget := range []int{old, fo.Memory, old, 1, fo.Memory + 1, fo.Memory, old} {
				vm.MemoryBudget = budget
				a := RunReal(reused, hr.Case.B.Program, envVal(hr.Case), hr.Case.Env)
				b := RunReal(&vm.VM{}, hr.Case.B.Program, envVal(hr.Case), hr.Case.Env)
				r.Count("c07:budget-change-runs", 1)
				if (a.Err == nil) != (b.Err == nil) || a.Class != b.Class || (a.Err == nil && valSx(a.Val).String() != valSx(b.Val).String()) {
					r.Violate(Violation{What: "after vm.MemoryBudget changed between two runs, a reused VM behaves unlike a fresh one", Key: "c07:budget-changed-between-runs",
						Input:  map[string]string{"source": hr.Case.Src, "step": fmt.Sprint(step), "budget": fmt.Sprint(budget), "needs": fmt.Sprint(fo.Memory)},
						Expect: "fresh VM: " + c07OutcomeText(b), Got: "reused VM: " + c07OutcomeText(a)})
					break
				}
			}
			nchg++
			if nchg >= 12 {
				break
			}
		}
		vm.MemoryBudget = old
		if nchg == 0 {
			r.Mismatch("generator", "c07 budget-change histories", "0", "no allocating program succeeded under the default budget")
			return
		}
	}
	found := false
	type job struct {
		h      []*histRun
		budget int
		outs   []*RunOutcome
	}
	var jobs []*job
	var lines []string
	for hi := 0; hi < nHist; hi++ {
		budget := budgets[hi%len(budgets)]
		n := 5 + c.Rng.Intn(36)
		var h []*histRun
		style := hi % 4
		vm.MemoryBudget = budget
		if style == 3 {
			// allocating runs only, each of which stays below the budget on its own; 25-40 of them, so that
			// together they cross the budget many times over
			budget = []int{20, 50, 100}[(hi/4)%3]
			vm.MemoryBudget = budget
			n = 25 + c.Rng.Intn(16)
			var below []*histRun
			for _, hr := range allocating {
				if o := freshOutcome(hr); o.Err == nil && o.Memory >= 3 {
					below = append(below, hr)
				}
			}
			if len(below) < 5 {
				r.Mismatch("generator", "c07 allocating runs below the budget", fmt.Sprint(len(below)), "")
				return
			}
			for k := 0; k < n; k++ {
				h = append(h, below[c.Rng.Intn(len(below))])
			}
		}
		for k := len(h); k < n; k++ {
			var from []*histRun
			switch x := c.Rng.Intn(10); {
			case x < 4:
				from = pool
			case x < 6:
				from = failing
			default:
				from = allocating
			}
			h = append(h, from[c.Rng.Intn(len(from))])
		}
		outs := runHistoryReal(h)
		// coverage
		nfail, nbudget, nalloc, dirty, total := 0, 0, 0, 0, 0
		for _, o := range outs {
			if o.Err != nil {
				nfail++
				if o.Class == "budget" {
					nbudget++
				}
				if o.Scopes > 0 || o.StackLen > 0 {
					dirty++
				}
			}
			r.Count("c07:runs", 1)
		}
		for i, hr := range h {
			fo := RunReal(&vm.VM{}, hr.Case.B.Program, envVal(hr.Case), hr.Case.Env)
			if fo.Err == nil && fo.Memory > 0 {
				nalloc++
				total += fo.Memory
			}
			_ = i
		}
		r.Count("c07:histories", 1)
		r.Count("c07:runs-failing", nfail)
		r.Count("c07:runs-budget-error", nbudget)
		r.Count("c07:runs-failing-with-open-scopes-or-stack", dirty)
		r.Count("c07:runs-allocating", nalloc)
		if total >= budget {
			r.Count("c07:histories-cumulative-allocation-crosses-budget", 1)
		}
		if total >= 5*budget {
			r.Count("c07:histories-cumulative-allocation-5x-budget", 1)
		}
		if style == 3 {
			r.Count("c07:histories-each-run-below-budget-total-above", 1)
			if total < 2*budget {
				r.Mismatch("generator", key0(hi, budget, n), fmt.Sprintf("cumulative allocation %d < 2 x budget %d", total, budget), "")
			}
		}
		key := key0(hi, budget, n)
		r.Case(key, nfail > 0 && nalloc > 0)
		// (b) oracle
		if !found || c.Thorough() {
			if checkHistoryOracle(c, h, budget, outs) {
				found = true
			}
		}
		// (a) model
		runs := []*Sx{A("runs")}
		for _, hr := range h {
			runs = append(runs, L(valSx(envVal(hr.Case)), programSx(hr.Case.B.Program), T("regex")))
		}
		lines = append(lines, T("vmhist", SInt(int64(budget)), asIs.Sx(), L(runs...)).String())
		jobs = append(jobs, &job{h, budget, outs})
	}
	vm.MemoryBudget = old

	// default budget, oracle only (the model would need millions of steps): large results on one VM
	bigRuns := []RunSpec{
		{Src: "len(map(1..400000, {#}))", Env: "struct", Opt: true, EnvSeed: 1},
		{Src: "len(map(1..400000, {#}))", Env: "struct", Opt: true, EnvSeed: 1},
		{Src: "len(map(1..400000, {#}))", Env: "struct", Opt: true, EnvSeed: 1},
		{Src: "len(filter(1..300000, {# > 0}))", Env: "none", EnvSeed: 2},
		{Src: "len(map(1..400000, {#}))", Env: "struct", Opt: true, EnvSeed: 1},
	}
	var big []*histRun
	for _, s := range bigRuns {
		add(s, &big)
	}
	if len(big) == len(bigRuns) {
		outs := runHistoryReal(big)
		r.Count("c07:histories", 1)
		r.Count("c07:histories-default-budget-large", 1)
		r.Case("default-budget-large", true)
		if !found || c.Thorough() {
			if checkHistoryOracle(c, big, old, outs) {
				found = true
			}
		}
	} else {
		r.Mismatch("generator", "c07 default-budget history", "did not compile", "")
	}

	resp, err := c.AskAll(lines)
	if err != nil {
		r.Mismatch("driver", "vmhist", err.Error(), "")
		return
	}
	for ji, jb := range jobs {
		m, perr := ParseSx(resp[ji])
		if perr != nil || m.Tag() != "hist" || len(m.List) != len(jb.h)+1 {
			r.Mismatch("vmhist", historyString(jb.h, jb.budget), clip(resp[ji], 300), "one outcome per run")
			continue
		}
		for i, hr := range jb.h {
			real := renderReal(hr.Case.B.Program, jb.outs[i])
			model := m.List[i+1].String()
			if t := m.List[i+1].Tag(); t == "ok" || t == "err" {
				model = renderModel(hr.Case.B.Program, m.List[i+1])
			}
			r.Count("c07:vmhist:runs-compared", 1)
			if real != model {
				r.Mismatch("vmhist", fmt.Sprintf("run %d of %s", i+1, historyString(jb.h[:i+1], jb.budget)), model, real)
				break
			}
		}
	}
	for _, k := range []string{"c07:runs-failing", "c07:runs-budget-error", "c07:runs-failing-with-open-scopes-or-stack", "c07:runs-allocating",
		"c07:histories-cumulative-allocation-5x-budget", "c07:vmhist:runs-compared"} {
		if r.Counters[k] == 0 {
			r.Mismatch("generator", k, "no case generated", "")
		}
	}
}

func key0(hi, budget, n int) string { return fmt.Sprintf("h%d:b%d:n%d", hi, budget, n) }

func historyString(h []*histRun, budget int) string {
	parts := []string{}
	for _, hr := range h {
		parts = append(parts, hr.Spec.String())
	}
	return fmt.Sprintf("budget=%d: ", budget) + strings.Join(parts, " ; ")
}

// replayC07 re-runs the history of a replay file on one VM and compares its last run with a fresh run.
func replayC07(c *Ctx) {
	r := c.R
	raw, err := os.ReadFile(c.Replay)
	if err != nil {
		r.Mismatch("replay", c.Replay, err.Error(), "")
		return
	}
	var f struct {
		Violation struct {
			Input struct {
				Budget int       `json:"memory_budget"`
				Runs   []RunSpec `json:"runs_on_one_vm"`
			} `json:"input"`
		} `json:"violation"`
	}
	if err := json.Unmarshal(raw, &f); err != nil || len(f.Violation.Input.Runs) == 0 {
		r.Mismatch("replay", c.Replay, "not a C07 counterexample file", "")
		return
	}
	var h []*histRun
	for _, s := range f.Violation.Input.Runs {
		cs := specCase(s)
		if cs.B.Program == nil {
			r.Mismatch("replay", s.String(), "does not compile", "")
			return
		}
		h = append(h, &histRun{Spec: s, Case: cs})
	}
	old := vm.MemoryBudget
	defer func() { vm.MemoryBudget = old }()
	vm.MemoryBudget = f.Violation.Input.Budget
	r.Case("replay", true)
	outs := runHistoryReal(h)
	checkHistoryOracle(c, h, f.Violation.Input.Budget, outs)
}

func init() { props["C07"] = runC07 }

func c07OutcomeText(o *RunOutcome) string {
	if o.Err != nil {
		return "error[" + o.Class + "]"
	}
	return "ok " + valSx(o.Val).String()
}
