package main

// C03 — static typing is sound and rejects ill-typed expressions.
//
// Correspondence (tie): the Lean model of checker/checker.go (`check`, Types/Checker.lean) against
// checker.Check on type-directed generated expressions and single-fault mutants of them: verdict, result
// type, error position and class, and the annotated tree (node types, retyped integer literals).
// Oracle (property, on the real code only):
//   (a) an accepted program whose operands are all statically typed never fails at run time for a
//       type reason, and a successful result has the dynamic type the checker reported (exactly bool /
//       int64 / float64 under AsBool / AsInt64 / AsFloat64);
//   (b) a program with one deliberate violation of a documented typing rule is rejected by expr.Compile.

import (
	"fmt"
	"math/rand"
	"os"
	"reflect"
	"regexp"
	"strings"

	"github.com/antonmedv/expr"
	"github.com/antonmedv/expr/ast"
	"github.com/antonmedv/expr/checker"
	"github.com/antonmedv/expr/conf"
	"github.com/antonmedv/expr/file"
	"github.com/antonmedv/expr/parser"
)

func init() { props["C03"] = runC03 }

// c03Model: the rule flags the real checker is tied to: `asis` = TDefects.asIs (the current /repo);
// `safefix` / `repaired` for self-tests against a patched copy (VERIF_REPO=… VERIF_C03_MODEL=safefix).
func c03Model() string {
	switch m := os.Getenv("VERIF_C03_MODEL"); m {
	case "safefix", "safefix2", "safefix3", "safefix4", "repaired", "aswas":
		return m
	}
	return "asis"
}

var (
	tInt     = reflect.TypeOf(int(0))
	tFloat64 = reflect.TypeOf(float64(0))
	tString  = reflect.TypeOf("")
	tBool    = reflect.TypeOf(true)
	tAny     = reflect.TypeOf((*interface{})(nil)).Elem()
	tInts    = reflect.TypeOf([]int{})
	tStrs    = reflect.TypeOf([]string{})
	tAnys    = reflect.TypeOf([]interface{}{})
	tZA      = reflect.TypeOf(ZA{})
)

var numKinds = []reflect.Type{
	reflect.TypeOf(uint(0)), reflect.TypeOf(uint8(0)), reflect.TypeOf(uint16(0)), reflect.TypeOf(uint32(0)), reflect.TypeOf(uint64(0)),
	reflect.TypeOf(int(0)), reflect.TypeOf(int8(0)), reflect.TypeOf(int16(0)), reflect.TypeOf(int32(0)), reflect.TypeOf(int64(0)),
	reflect.TypeOf(float32(0)), reflect.TypeOf(float64(0)),
}

func numRank(t reflect.Type) int {
	for i, k := range numKinds {
		if k == t {
			return i
		}
	}
	return -1
}

func isIntKind(t reflect.Type) bool { r := numRank(t); return r >= 0 && r < 10 }

// c03gen generates expressions over the EnvScalars environment, directed by the goal type, according to
// the reference typing rules (DESIGN appendix C).  With `static` set no interface-typed operand is used.
type c03gen struct {
	rng     *rand.Rand
	static  bool
	closure []reflect.Type // element types of the enclosing closures (for `#`)
	// fault injection: when faultIn reaches 0 at an expression position, an ill-typed expression of class
	// faultClass is generated there instead
	faultIn    int
	faultClass string
	faultDone  bool
	ptrEnv     bool
}

var numVar = map[reflect.Type]string{}

func init() {
	names := []string{"U", "U8", "U16", "U32", "U64", "I", "I8", "I16", "I32", "I64", "F32", "F64"}
	for i, t := range numKinds {
		numVar[t] = names[i]
	}
}

func (g *c03gen) pick(xs ...string) string { return xs[g.rng.Intn(len(xs))] }

func (g *c03gen) hashOf(t reflect.Type) (string, bool) {
	if n := len(g.closure); n > 0 && g.closure[n-1] == t {
		return "#", true
	}
	return "", false
}

var c03Faults = []string{
	"unknown-name", "unknown-field", "unknown-func", "unknown-method", "wrong-arity", "wrong-arg-type",
	"int-literal-to-non-numeric-param", "non-bool-condition", "non-bool-predicate", "mismatched-operands",
	"non-collection-builtin", "bad-index",
}

func (g *c03gen) fault() string {
	g.faultDone = true
	switch g.faultClass {
	case "unknown-name":
		return g.pick("Nope", "i", "Strx", "ints", "Amb", "Mi", "Ms")
	case "unknown-field":
		return g.pick("St.Nope", "PSt.Z", "Sts[0].x", "St.y")
	case "unknown-func":
		return g.pick("Nope(1)", "fi(1)", "Fix()")
	case "unknown-method":
		return g.pick("St.Nope()", "PSt.Get(1)", "Str.Len()", "I.String()")
	case "wrong-arity":
		return g.pick("Fi()", "Fi(1, 2)", "Mi(1)", "Ms()", "Fb(true)", "Fv()", "Mi(1, \"a\", 3)")
	case "wrong-arg-type":
		return g.pick("Fi(\"s\")", "Fs(true)", "Mi(\"s\", \"s\")", "Fb(I, 1)", "Ff(Str)", "Fv(B)", "Fv(\"s\", \"t\")", "Fi(F64)", "Fi(I64)", "Ms(I)")
	case "int-literal-to-non-numeric-param":
		return g.pick("Fs(1)", "Ms(2)", "Fb(1, 2)", "Mi(1, 2)", "Fs(1 + 2)", "Fs(-1)", "Fv(1)")
	case "non-bool-condition":
		return g.pick("(1 ? I : I)", "(Str ? 1 : 2)", "(St ? 1 : 2)", "(F64 ? Str : Str)")
	case "non-bool-predicate":
		return g.pick("all(Ints, {#})", "filter(Ints, {# + 1})", "any(Strs, {#})", "count(Ints, {Str})", "one(Ints, {1})", "none(Ints, {St})")
	case "mismatched-operands":
		return g.pick("(Str + 1)", "(B + 1)", "(St * 2)", "(1 < \"a\")", "(not 1)", "(-Str)", "(1 and true)", "(Str matches 1)", "(I % F64)", "(B or 1)", "(Ints + 1)", "(Str contains 1)", "(1..F64)", "(Str == 1)", "(!Str)", "(B < B)")
	case "non-collection-builtin":
		return g.pick("len(1)", "all(1, {true})", "map(Str, {#})", "count(St, {true})", "filter(MSI, {true})", "len(B)", "any(F64, {true})")
	case "bad-index":
		return g.pick("Ints[\"a\"]", "MSI[1]", "St[0]", "I[0]", "Ints[Str]", "Strs[1.5]", "Ints[B]", "MSI[B]", "Str[\"a\":2]", "I[1:2]", "Ints[1:\"b\"]")
	case "pointer-outside-closure":
		return g.pick("(# + 1)", "#")
	}
	return "Nope"
}

// expr generates an expression of static type t.
func (g *c03gen) expr(t reflect.Type, d int) string {
	if g.faultClass != "" && !g.faultDone {
		if g.faultIn == 0 {
			if g.faultClass == "pointer-outside-closure" && len(g.closure) > 0 {
				g.faultIn = 1 // wait for a position outside closures
			} else {
				return g.fault()
			}
		}
		g.faultIn--
	}
	leaf := d <= 0 || g.rng.Intn(4) == 0
	switch {
	case numRank(t) >= 0:
		return g.numeric(t, d, leaf)
	case t == tBool:
		return g.boolean(d, leaf)
	case t == tString:
		return g.str(d, leaf)
	case t == tInts:
		return g.ints(d, leaf)
	case t == tStrs:
		if leaf {
			return "Strs"
		}
		switch g.rng.Intn(4) {
		case 0:
			return fmt.Sprintf("map(%s, {%s})", g.array(d-1), g.inClosure(tInt, func() string { return g.expr(tString, d-1) }))
		case 1:
			return fmt.Sprintf("filter(Strs, {%s})", g.inClosure(tString, func() string { return g.expr(tBool, d-1) }))
		case 2:
			return fmt.Sprintf("Strs[%s:%s]", g.smallInt(), g.smallInt())
		}
		return "Strs"
	case t == tAnys:
		if leaf {
			return "Anys"
		}
		switch g.rng.Intn(4) {
		case 0:
			return fmt.Sprintf("[%s, %s]", g.expr(tInt, d-1), g.expr(tString, d-1))
		case 1:
			return "[]"
		case 2:
			return fmt.Sprintf("[%s]", g.expr(tBool, d-1))
		}
		return "Anys"
	case t == tAny:
		if !leaf && g.rng.Intn(3) == 0 {
			return fmt.Sprintf("Fa(%s)", g.expr(tInt, d-1))
		}
		return g.pick("Any", "Anys[0]")
	case t == tZA:
		return g.pick("St", "Sts[0]", "Sts["+g.smallInt()+"]")
	}
	return "nil"
}

func (g *c03gen) smallInt() string { return g.pick("0", "1", "2", "I", "5") }

func (g *c03gen) inClosure(elem reflect.Type, f func() string) string {
	g.closure = append(g.closure, elem)
	s := f()
	g.closure = g.closure[:len(g.closure)-1]
	return s
}

// array: an expression of type []int (element type int is what closures then see)
func (g *c03gen) array(d int) string { return g.ints(d, d <= 0) }

func (g *c03gen) ints(d int, leaf bool) string {
	if leaf {
		return g.pick("Ints", "1..3")
	}
	switch g.rng.Intn(6) {
	case 0:
		return fmt.Sprintf("%s..%s", g.expr(tInt, d-1), g.expr(tInt, d-1))
	case 1:
		return fmt.Sprintf("Ints[%s:%s]", g.smallInt(), g.smallInt())
	case 2:
		return fmt.Sprintf("filter(%s, {%s})", g.array(d-1), g.inClosure(tInt, func() string { return g.expr(tBool, d-1) }))
	case 3:
		return fmt.Sprintf("map(%s, {%s})", g.array(d-1), g.inClosure(tInt, func() string { return g.expr(tInt, d-1) }))
	case 4:
		return fmt.Sprintf("(%s ? %s : %s)", g.expr(tBool, d-1), g.array(d-1), g.array(d-1))
	}
	return "Ints"
}

func (g *c03gen) numeric(t reflect.Type, d int, leaf bool) string {
	v := numVar[t]
	if h, ok := g.hashOf(t); ok && g.rng.Intn(2) == 0 {
		return h
	}
	if leaf {
		switch t {
		case tInt:
			return g.pick(v, "1", "2", "7", "0", "Arr[0]", "St.X", "PSt.X", "MSI.k", "MSI[\"k\"]", "Ints[0]", "MII[4]")
		case tFloat64:
			return g.pick(v, "1.5", "0.5", "2.0")
		}
		return v
	}
	r := numRank(t)
	switch g.rng.Intn(9) {
	case 0, 1: // arithmetic: the other operand has a rank not above t's
		u := numKinds[g.rng.Intn(r+1)]
		ops := []string{"+", "-", "*", "/"}
		if isIntKind(t) {
			ops = append(ops, "%")
		}
		a, b := g.expr(t, d-1), g.exprNoLit(u, d-1)
		if g.rng.Intn(2) == 0 {
			a, b = b, a
		}
		return fmt.Sprintf("(%s %s %s)", a, ops[g.rng.Intn(len(ops))], b)
	case 2:
		return fmt.Sprintf("(%s%s)", g.pick("-", "+"), g.expr(t, d-1))
	case 3:
		return fmt.Sprintf("(%s ? %s : %s)", g.expr(tBool, d-1), g.expr(t, d-1), g.expr(t, d-1))
	}
	switch t {
	case tInt:
		switch g.rng.Intn(8) {
		case 0:
			switch g.rng.Intn(3) {
			case 0:
				return fmt.Sprintf("len(%s)", g.expr(tString, d-1))
			case 1:
				return fmt.Sprintf("len(%s)", g.array(d-1))
			}
			return fmt.Sprintf("len(%s)", g.pick("Ints", "Strs", "Str", "MSI", "Arr", "Anys"))
		case 1:
			return fmt.Sprintf("count(%s, {%s})", g.array(d-1), g.inClosure(tInt, func() string { return g.expr(tBool, d-1) }))
		case 2:
			return fmt.Sprintf("Ints[%s]", g.smallInt())
		case 3:
			return fmt.Sprintf("Fi(%s)", g.expr(tInt, d-1))
		case 4:
			return fmt.Sprintf("Mi(%s, %s)", g.expr(tInt, d-1), g.expr(tString, d-1))
		case 5:
			return fmt.Sprintf("Fv(%s, %s, %s)", g.expr(tString, d-1), g.expr(tInt, d-1), g.expr(tInt, d-1))
		case 6:
			return fmt.Sprintf("Fv(%s)", g.expr(tString, d-1))
		case 7:
			return fmt.Sprintf("Sts[%s].X", g.smallInt())
		}
	case tFloat64:
		switch g.rng.Intn(3) {
		case 0:
			return fmt.Sprintf("(%s ** %s)", g.expr(numKinds[g.rng.Intn(12)], d-1), g.expr(numKinds[g.rng.Intn(12)], d-1))
		case 1:
			return fmt.Sprintf("Ff(%s)", g.expr(tFloat64, d-1))
		case 2:
			if g.ptrEnv {
				return fmt.Sprintf("Mp(%s)", g.expr(tFloat64, d-1))
			}
		}
	}
	return v
}

// exprNoLit: like expr, but never a bare literal when the type is not the literal's own type
func (g *c03gen) exprNoLit(t reflect.Type, d int) string { return g.expr(t, d) }

func (g *c03gen) boolean(d int, leaf bool) string {
	if leaf {
		return g.pick("true", "false", "B")
	}
	switch g.rng.Intn(14) {
	case 0:
		return fmt.Sprintf("(%s %s)", g.pick("not", "!"), g.expr(tBool, d-1))
	case 1:
		return fmt.Sprintf("(%s %s %s)", g.expr(tBool, d-1), g.pick("and", "or", "&&", "||"), g.expr(tBool, d-1))
	case 2, 3:
		a, b := numKinds[g.rng.Intn(12)], numKinds[g.rng.Intn(12)]
		return fmt.Sprintf("(%s %s %s)", g.expr(a, d-1), g.pick("<", ">", "<=", ">=", "==", "!="), g.expr(b, d-1))
	case 4:
		return fmt.Sprintf("(%s %s %s)", g.expr(tString, d-1), g.pick("<", ">", "<=", ">=", "==", "!=", "contains", "startsWith", "endsWith"), g.expr(tString, d-1))
	case 5:
		return fmt.Sprintf("(%s %s %s)", g.expr(tInt, d-1), g.pick("in", "not in"), g.array(d-1))
	case 6:
		return fmt.Sprintf("(%s %s %s)", g.expr(tString, d-1), g.pick("in", "not in"), g.pick("Strs", "MSI", "St"))
	case 7:
		return fmt.Sprintf("(%s matches %s)", g.expr(tString, d-1), g.pick("\"^s\"", "\"a+\"", "Str"))
	case 8:
		return fmt.Sprintf("%s(%s, {%s})", g.pick("all", "any", "none", "one"), g.array(d-1), g.inClosure(tInt, func() string { return g.expr(tBool, d-1) }))
	case 9:
		return fmt.Sprintf("Fb(%s, %s)", g.expr(tBool, d-1), g.pick("1", "I64", "7"))
	case 10:
		return fmt.Sprintf("(%s == %s)", g.expr(tBool, d-1), g.expr(tBool, d-1))
	case 11:
		return fmt.Sprintf("(%s ? %s : %s)", g.expr(tBool, d-1), g.expr(tBool, d-1), g.expr(tBool, d-1))
	case 12:
		if !g.static {
			return fmt.Sprintf("(%s == %s)", g.expr(tAny, d-1), g.pick("nil", "1", "Str"))
		}
	}
	return "B"
}

func (g *c03gen) str(d int, leaf bool) string {
	if h, ok := g.hashOf(tString); ok && g.rng.Intn(2) == 0 {
		return h
	}
	if leaf {
		return g.pick("Str", "\"a\"", "\"str\"", "St.Y", "Strs[0]")
	}
	switch g.rng.Intn(7) {
	case 0:
		return fmt.Sprintf("(%s + %s)", g.expr(tString, d-1), g.expr(tString, d-1))
	case 1:
		return fmt.Sprintf("Ms(%s)", g.expr(tString, d-1))
	case 2:
		return fmt.Sprintf("Fs(%s)", g.expr(tString, d-1))
	case 3:
		return fmt.Sprintf("Str[%s:%s]", g.smallInt(), g.smallInt())
	case 4:
		return fmt.Sprintf("(%s ? %s : %s)", g.expr(tBool, d-1), g.expr(tString, d-1), g.expr(tString, d-1))
	case 5:
		return fmt.Sprintf("Strs[%s]", g.smallInt())
	}
	return "Str"
}

// ---- nested builtins: the collection stack
//
// A closure body of the form `<inner builtin> <op> <use of #>` or `<use of #> <op> <inner builtin>`, where
// the inner builtin iterates a collection of *another* element type and the use of `#` is typed at the
// outer element type by a construct that no other element type admits.  If the checker does not restore
// its collection stack after the inner builtin, the outer `#` is typed as an element of the inner
// collection.  All seven builtins occur as the inner and as the outer one; element types int, string,
// float64, struct; up to three builtins deep.  In the mutant, one use of `#` is written for the inner
// builtin's element type instead (ill typed by the reference rules).
type c03Elem struct {
	name    string
	colls   []string
	boolUse []string // bool-typed uses of `#` that only this element type admits
	valUse  []string
}

var c03Elems = []c03Elem{
	{"int", []string{"Ints", "1..3", "Ints[0:2]"}, []string{"# % 2 == 0", "Fi(#) > 0", "(# % 3) in Ints"}, []string{"# % 2", "Fi(#)"}},
	{"string", []string{"Strs", "Strs[0:1]"}, []string{"# startsWith \"b\"", "len(#) > 0", "Fs(#) == \"a\"", "# contains \"a\""}, []string{"# + \"x\"", "len(#)", "Fs(#)"}},
	{"float", []string{"Fls"}, []string{"Ff(#) > 0.5", "Ff(#) == Ff(#)"}, []string{"Ff(#)"}},
	{"struct", []string{"Sts"}, []string{"#.X > 0", "#.Y == \"a\"", "#.X in Ints"}, []string{"#.X", "#.Y"}},
}

var c03Builtins = []string{"all", "none", "any", "one", "filter", "map", "count"}

// nestedBody: a bool-typed closure body over elements of type c03Elems[e], with `depth` further builtins
// nested inside.
func (g *c03gen) nestedBody(e, depth int) string {
	if depth <= 0 {
		return g.pick(c03Elems[e].boolUse...)
	}
	e2 := (e + 1 + g.rng.Intn(len(c03Elems)-1)) % len(c03Elems)
	inner := g.nestedBuiltin(c03Builtins[g.rng.Intn(len(c03Builtins))], e2, depth-1)
	use := g.pick(c03Elems[e].boolUse...)
	if g.faultClass == "outer-pointer-as-inner-element" && !g.faultDone {
		if g.faultIn == 0 {
			g.faultDone = true
			use = g.pick(c03Elems[e2].boolUse...)
		}
		g.faultIn--
	}
	op := g.pick("&&", "and", "||", "or", "==", "!=")
	if g.rng.Intn(4) == 0 {
		return fmt.Sprintf("(%s) %s (%s)", use, op, inner)
	}
	return fmt.Sprintf("(%s) %s (%s)", inner, op, use)
}

// nestedBuiltin: a bool-typed expression around builtin `name` over a collection of element type e
func (g *c03gen) nestedBuiltin(name string, e, depth int) string {
	coll := g.pick(c03Elems[e].colls...)
	body := g.nestedBody(e, depth)
	switch name {
	case "count":
		return fmt.Sprintf("count(%s, {%s}) %s %s", coll, body, g.pick("==", ">", "<="), g.pick("0", "1", "2"))
	case "filter":
		return fmt.Sprintf("len(filter(%s, {%s})) %s %s", coll, body, g.pick("==", ">", "<="), g.pick("0", "1", "2"))
	case "map":
		if g.rng.Intn(2) == 0 {
			return fmt.Sprintf("len(map(%s, {(%s) ? %s : %s})) > 0", coll, body, g.pick(c03Elems[e].valUse...), g.pick(c03Elems[e].valUse...))
		}
		return fmt.Sprintf("len(map(%s, {%s})) > 0", coll, body)
	}
	return fmt.Sprintf("%s(%s, {%s})", name, coll, body)
}

// nestedTop: the outer builtin itself (results of type bool, int, []T, []interface{})
func (g *c03gen) nestedTop(depth int) string {
	name := c03Builtins[g.rng.Intn(len(c03Builtins))]
	e := g.rng.Intn(len(c03Elems))
	if g.rng.Intn(2) == 0 {
		return g.nestedBuiltin(name, e, depth)
	}
	return fmt.Sprintf("%s(%s, {%s})", name, g.pick(c03Elems[e].colls...), g.nestedBody(e, depth))
}

// untyped generates an arbitrary (mostly ill-typed) expression over the environment's names: it exercises
// the error paths of the checker — which error is reported first, where, and how the tree is annotated.
func (g *c03gen) untyped(d int) string {
	atoms := []string{"I", "I8", "U64", "F64", "F32", "B", "Str", "Any", "Ints", "Strs", "Anys", "Arr", "MSI", "MII", "St", "PSt", "Sts", "My",
		"Fi", "Mi", "Amb", "PPSt", "PS", "PA", "PI", "PF64", "PStr", "MIF", "MIK", "PPFn", "PPM", "Sg", "Zs", "Nope", "1", "2", "0", "1.5", "\"a\"", "\"k\"", "true", "false", "nil"}
	if len(g.closure) > 0 {
		atoms = append(atoms, "#", "#", "#")
	}
	if d <= 0 || g.rng.Intn(5) == 0 {
		return atoms[g.rng.Intn(len(atoms))]
	}
	sub := func() string { return g.untyped(d - 1) }
	par := func() string { return "(" + sub() + ")" }
	switch g.rng.Intn(16) {
	case 0:
		return fmt.Sprintf("(%s %s)", g.pick("not", "!", "-", "+"), par())
	case 1, 2, 3:
		ops := []string{"+", "-", "*", "/", "%", "**", "==", "!=", "<", ">", "<=", ">=", "and", "or", "&&", "||", "in", "not in", "..", "contains", "startsWith", "endsWith", "matches"}
		return fmt.Sprintf("(%s %s %s)", par(), ops[g.rng.Intn(len(ops))], par())
	case 4:
		return fmt.Sprintf("%s%s%s", par(), g.pick(".", "?."), g.pick("X", "Y", "Nope", "k", "Str"))
	case 5:
		return fmt.Sprintf("%s[%s]", par(), sub())
	case 6:
		return fmt.Sprintf("%s[%s:%s]", par(), g.pick("", sub()), g.pick("", sub()))
	case 7:
		n := g.rng.Intn(3)
		args := make([]string, n)
		for i := range args {
			args[i] = sub()
		}
		return fmt.Sprintf("%s(%s)", g.pick("Fi", "Fs", "Ff", "Fv", "Fa", "Fb", "Mi", "Ms", "Mp", "Nope", "I", "Any", "Fx", "Fy", "Fn", "F2", "Mx", "Nf", "Fe", "Fg", "PFi"), strings.Join(args, ", "))
	case 8:
		n := g.rng.Intn(2)
		args := make([]string, n)
		for i := range args {
			args[i] = sub()
		}
		return fmt.Sprintf("%s%s%s(%s)", par(), g.pick(".", "?."), g.pick("Mi", "Ms", "Nope", "X", "Len"), strings.Join(args, ", "))
	case 9:
		return fmt.Sprintf("len(%s)", sub())
	case 10, 11:
		coll := sub()
		return fmt.Sprintf("%s(%s, {%s})", g.pick("all", "any", "none", "one", "filter", "map", "count"), coll,
			g.inClosure(tAny, func() string { return g.untyped(d - 1) }))
	case 12:
		return fmt.Sprintf("(%s ? %s : %s)", sub(), sub(), sub())
	case 13:
		return fmt.Sprintf("[%s, %s]", sub(), sub())
	case 14:
		return fmt.Sprintf("{a: %s, \"b\": %s, (%s): 1}", sub(), sub(), sub())
	}
	return atoms[g.rng.Intn(len(atoms))]
}

// ---------------------------------------------------------------------------------------------

func errClassOf(msg string) string {
	m := msg
	has := func(s string) bool { return strings.Contains(m, s) }
	switch {
	case has("ambiguous identifier"):
		return "ambiguous-identifier"
	case has("unknown name"):
		return "unknown-name"
	case has("can only be called"):
		return "method-value"
	case has("unknown operator"):
		return "unknown-operator"
	case has("invalid operation: matches"):
		return "mismatch-matches"
	case has("as index to"):
		return "bad-index"
	case has("does not support indexing"):
		return "not-indexable"
	case has("non-integer slice index"):
		return "bad-slice-index"
	case has("cannot slice"):
		return "not-sliceable"
	case has("(mismatched types"):
		return "mismatch-binary"
	case has("(mismatched type"):
		return "mismatch-unary"
	case has("has no field"):
		return "no-field"
	case has("has no method"):
		return "no-method"
	case has("unknown func"):
		return "unknown-func"
	case has("doesn't return value"):
		return "no-result"
	case has("returns more then one value"):
		return "many-results"
	case has("too many arguments"):
		return "too-many"
	case has("not enough arguments"):
		return "not-enough"
	case has("as argument (type"):
		return "bad-argument"
	case has("invalid argument for len"):
		return "bad-len"
	case has("takes only array"):
		return "not-array"
	case has("closure should return boolean"):
		return "closure-not-bool"
	case has("closure should has one input"):
		return "bad-closure"
	case has("unknown builtin"):
		return "unknown-builtin"
	case has("invalid number of arguments for builtin"):
		return "builtin-arity"
	case has("pointer accessor outside closure"):
		return "pointer-outside"
	case has("as array"):
		return "pointer-not-array"
	case has("used as condition"):
		return "non-bool-cond"
	case has("invalid map key"):
		return "bad-map-key"
	case strings.HasPrefix(m, "expected "):
		return "expected"
	}
	return "other:" + firstLine16(m)
}

// runErrClass: is a run-time failure a *type* failure (the checker should have excluded it for a
// statically typed program) or a value-dependent one?
func runErrClass(msg string) string {
	has := func(s string) bool { return strings.Contains(msg, s) }
	switch {
	// bounds of every kind are value-dependent, whoever reports them (the runtime, reflect.Value.Index /
	// Slice / Slice3, expr's own fetch and slice): "index out of range", "slice bounds out of range",
	// "slice index out of bounds", "string index out of bounds", "array index out of range"
	case has("out of range"), has("out of bounds"), has("integer divide by zero"), has("nil pointer"), has("invalid memory address"),
		has("error parsing regexp"), has("memory budget exceeded"), has("cannot fetch") && has("<nil>"):
		return "value"
	case has("invalid operation") && has("<nil>"):
		// a nil operand (`int64(<nil>)` under AsInt64 on a nil path, `<nil> + int`): value-dependent, the property lists nil
		return "value"
	case has("invalid operation"), has("cannot fetch"), has("cannot use"), has("interface conversion"), has("reflect:"),
		has("reflect.Value"), has("cannot get"), has("cannot slice"), has("invalid argument for len"), has("is not assignable"),
		has("not defined on"):
		return "type"
	}
	return "unknown"
}

type c03Input struct {
	Env    string `json:"env"`
	Expr   string `json:"expr"`
	Expect string `json:"expect"`
	Fault  string `json:"fault,omitempty"`
}

var c03Expects = []struct {
	name string
	opt  func() expr.Option
	kind reflect.Kind
}{
	{"none", nil, reflect.Invalid},
	{"bool", expr.AsBool, reflect.Bool},
	{"int64", expr.AsInt64, reflect.Int64},
	{"float64", expr.AsFloat64, reflect.Float64},
}

type c03Case struct {
	env       zooEnv
	src       string
	expect    int
	fault     string
	static    bool
	goal      reflect.Type
	refWell   bool
	refClass  string // the rule of the reference set that rejects it
	nonStrict bool   // compiled with AllowUndefinedVariables()
}

func c03Envs() []zooEnv {
	full := popIface(EnvScalars{}).(EnvScalars)
	zero := popIface(EnvScalars{}).(EnvScalars)
	zero.I, zero.I8, zero.I64, zero.U, zero.U8, zero.F64 = 0, 0, 0, 0, 0, 0
	zero.Ints = []int{}
	zero.Str = ""
	zero.B = false
	pfull := full
	return []zooEnv{{"EnvScalars", full}, {"EnvScalars/zero", zero}, {"*EnvScalars", &pfull}}
}

func runC03(c *Ctx) {
	defer definedTypeProbe(c, "C03") // defined scalar types: real-code oracle only (defined_zoo.go)
	c.R.Rule = "a case = one (environment, generated expression or single-fault mutant, result directive); non-trivial when the expression has at least one operator, call, member or builtin"
	envs := c03Envs()
	n := 2500
	if c.Thorough() {
		n = 40000
	}
	goals := append([]reflect.Type{tBool, tString, tInts, tStrs, tAnys, tZA, tAny}, numKinds...)
	var cases []c03Case
	for i := 0; i < n; i++ {
		g := &c03gen{rng: c.Rng}
		e := envs[c.Rng.Intn(len(envs))]
		g.ptrEnv = strings.HasPrefix(e.Name, "*")
		g.static = c.Rng.Intn(4) != 0
		goal := goals[c.Rng.Intn(len(goals))]
		if g.static && (goal == tAny || goal == tAnys) {
			goal = tInt
		}
		cs := c03Case{env: e, static: g.static, goal: goal}
		if i%2 == 1 {
			g.faultClass = c03Faults[c.Rng.Intn(len(c03Faults))]
			g.faultIn = c.Rng.Intn(6)
			cs.fault = g.faultClass
		}
		cs.src = g.expr(goal, 2+c.Rng.Intn(3))
		if g.faultClass != "" && !g.faultDone {
			cs.fault = ""
			if g.faultClass == "pointer-outside-closure" {
				continue
			}
		}
		cs.expect = 0
		if c.Rng.Intn(3) == 0 {
			cs.expect = 1 + c.Rng.Intn(3)
		}
		cases = append(cases, cs)
	}
	// directed: result directives on programs whose static type is exactly the requested kind but whose value is nil on
	// one path (a conditional with a nil branch) — the cast epilogue must still run, so that a successful result is
	// exactly bool / int64 / float64 (seed c03_7: the compiler skipped the cast when the root's static kind matched)
	for _, src := range []string{"B ? I64 : nil", "B ? nil : I64", "not B ? F64 : nil", "B ? nil : F64", "B ? I64 + I64 : nil",
		"(B ? nil : F64 * 2.5)", "B ? (I > 0 ? I64 : nil) : I64", "B ? true : nil", "B ? nil : not B", "I > 100 ? F64 : nil",
		"B ? I64 : (I > 0 ? nil : I64)", "B ? F64 : F64", "B ? I64 : I64"} {
		for _, e := range envs {
			for ex := 1; ex <= 3; ex++ {
				cases = append(cases, c03Case{env: e, src: src, expect: ex, static: true, goal: nil})
				c.R.Count("directed:nil-path-under-directive", 1)
			}
		}
	}
	// nested builtins with element types that differ between the levels (the collection stack)
	nNested := n / 4
	for i := 0; i < nNested; i++ {
		g := &c03gen{rng: c.Rng, static: true}
		e := envs[c.Rng.Intn(len(envs))]
		cs := c03Case{env: e, static: true, goal: tBool}
		depth := 1 + c.Rng.Intn(2)
		if i%2 == 1 {
			g.faultClass = "outer-pointer-as-inner-element"
			g.faultIn = c.Rng.Intn(depth)
			cs.fault = g.faultClass
		}
		cs.src = g.nestedTop(depth)
		if g.faultClass != "" && !g.faultDone {
			cs.fault = ""
		}
		if cs.fault == "" {
			c.R.Count("nested:well-typed", 1)
		} else {
			c.R.Count("nested:mutants", 1)
		}
		cases = append(cases, cs)
	}
	// arbitrary trees (tie only: error paths, positions, classes, annotations)
	nUntyped := n
	for i := 0; i < nUntyped; i++ {
		g := &c03gen{rng: c.Rng}
		e := envs[c.Rng.Intn(len(envs))]
		ex := 0
		if c.Rng.Intn(4) == 0 {
			ex = 1 + c.Rng.Intn(3)
		}
		cases = append(cases, c03Case{env: e, src: g.untyped(1 + c.Rng.Intn(3)), expect: ex, static: false, goal: nil})
	}
	// non-strict configurations: AllowUndefinedVariables() on struct and map environments, typed maps
	// (conf sets DefaultType to the element type): unknown names under operators, calls, builtins, closures
	nsEnvs := c03NonStrictEnvs(envs)
	for _, e := range nsEnvs {
		for i, src := range c03NonStrictSrcs {
			ex := 0
			if i%7 == 3 {
				ex = 1 + c.Rng.Intn(3)
			}
			cases = append(cases, c03Case{env: e, src: src, expect: ex, nonStrict: true})
			if reflect.TypeOf(e.Val).Kind() == reflect.Map && i%3 == 0 {
				cases = append(cases, c03Case{env: e, src: src, expect: ex}) // the same, strict
			}
		}
		c.R.Count("nonstrict:fixed", len(c03NonStrictSrcs))
	}
	for i := 0; i < n/4; i++ {
		g := &c03gen{rng: c.Rng}
		e := nsEnvs[c.Rng.Intn(len(nsEnvs))]
		ex := 0
		if c.Rng.Intn(4) == 0 {
			ex = 1 + c.Rng.Intn(3)
		}
		cases = append(cases, c03Case{env: e, src: g.untyped(1 + c.Rng.Intn(3)), expect: ex, nonStrict: true})
		c.R.Count("nonstrict:random", 1)
	}
	// a few fixed probes (DESIGN section 6 #5, #14-16, #23)
	for _, s := range []struct {
		src string
		ex  int
	}{{"nil", 1}, {"Fs(1)", 0}, {"filter(Ints, {# > 1})", 0}, {"map(Ints, {# + 1})", 0}, {"MSI[1]", 0}, {"Ints[\"a\"]", 0},
		{"My == 1", 0}, {"map(Ints, {nil})", 0}, {"Ff(+U64)", 0}, {"Fi(F64 + 1)", 0}, {"Arr[:]", 0}, {"len(Arr[1:2])", 0}, {"{(1): 2}", 0}, {"MSI[:]", 0}, {"F32 in MII", 0}, {"Any?.x", 1}, {"1 + 2", 2}, {"I8 + 1", 2}, {"F32 * 2", 3}, {"I", 3}, {"Str", 2}, {"B", 1}, {"I", 1},
		{"I == PI", 0}, {"PI == I", 0}, {"PI != 1", 0}, {"PStr == Str", 0}, {"Str != PStr", 0}, {"PI == PI", 0}, {"PI == nil", 0}, {"NPI == nil", 0}, {"PI == PF64", 0},
		{"PI < 1", 0}, {"I >= PI", 0}, {"PStr < \"b\"", 0}, {"PI in [1, 2, 3]", 0}, {"PI in Ints", 0}, {"PI + 1", 0}, {"1 + PI", 0}, {"PF64 * 2", 0}, {"-PI", 0}, {"PI % 2", 0}, {"PI ** 2", 0},
		{"PStr + \"a\"", 0}, {"PStr contains \"s\"", 0}, {"PStr matches \"s\"", 0}, {"len(PStr)", 0}, {"PI..3", 0}, {"Ints[PI]", 0}, {"PI > 0 ? 1 : 2", 0}, {"NPI + 1", 0}, {"Fi(PI)", 0}, {"PStr[0:1]", 0}, {"not (PI == 1)", 0},
		{"MIF.foo(1)", 0}, {"MIF?.foo(1)", 0}, {"MIF.foo", 0}, {"MIK.foo", 0}, {"MIK?.foo", 0}, {"MIK.foo()", 0}, {"MIF[1](2)", 0}, {"MIK[1]", 0},
		{"PPFn.F(1)", 0}, {"PPFn?.F(1)", 0}, {"PPFn.S(\"a\")", 0}, {"PPFn.Nope(1)", 0}, {"PPM.k(1)", 0}, {"PPM?.k(1)", 0}, {"PPM.k", 0}, {"PPFn.F", 0},
		{"PFi(1)", 0}, {"PFi(I) + 1", 0}, {"PFi(\"a\")", 0}, {"PFi()", 0}, {"Nf(1, 2)", 0}, {"Nf()", 0}, {"Fe(1)", 0}, {"Fe()", 0}, {"Fg(Sg)", 0}, {"Fg(Zs, Sg)", 0}, {"Fg()", 0}, {"Fx(1, \"a\")", 0}, {"Fx()", 0}, {"Fy(1)", 0}, {"Mx(1, 2)", 0}, {"Mx()", 0}, {"Fn()", 0}, {"F2()", 0}, {"Fx(Nope)", 0},
		{"len(PS)", 0}, {"PS[0]", 0}, {"PS[0:1]", 0}, {"1 in PS", 0}, {"all(PS, {# > 0})", 0}, {"filter(PS, {# > 0})", 0}, {"map(PS, {# + 1})", 0}, {"count(PS, {true})", 0},
		{"len(PA)", 0}, {"PA[0]", 0}, {"PA[0:1]", 0}, {"1 in PA", 0}, {"any(PA, {# > 0})", 0}, {"none(PA, {# > 9})", 0}, {"one(PA, {# == 0})", 0}, {"PS[0] + PA[1]", 0}, {"len(PS[1:]) + len(PA[:2])", 0},
		{"B ? Zs : Sg", 0}, {"B ? Sg : Zs", 0}, {"B ? Sg : Sg", 0}, {"Sg.String()", 0}, {"Zs.String()", 0}, {"PPSt.X", 0}, {"PPSt?.Y", 0},
		{"My + I", 0}, {"I + My", 0}, {"My * 2", 0}, {"2 * My", 0}, {"My - My", 0}, {"My % I", 0}, {"F64 + F64", 0},
		{"Any in MSI", 0}, {"Any in MII", 0}, {"Any not in MSI", 0}, {"nil in MSI", 0}, {"I in MII", 0}, {"Str in MII", 0},
		{"Ff(1 / 2)", 0}, {"Ff(4 / 2)", 0}, {"Ff(1 - 2)", 0}, {"Ff(2 * 3)", 0}, {"Ff(-1)", 0}, {"Ff(+1)", 0}, {"Ff(-(1 + 2))", 0}, {"Fi(1 / 2)", 0},
		{"Ff(I / 2)", 0}, {"Ff(1 + 2 * 3)", 0}, {"Ff(1 % 2)", 0}, {"Ff(not 1)", 0}, {"Fa(1 + 2)", 0}, {"Fa(-1)", 0}, {"Fv(\"s\", 1 + 2, -3)", 0},
		{"St?.Nope()", 0}, {"St.Nope()", 0}, {"PSt?.Nope(1)", 0}, {"Any?.Nope()", 0}, {"St?.Nope", 0}, {"Nope?.x", 0}, {"Sts[0]?.Nope(Nope)", 0}} {
		cases = append(cases, c03Case{env: envs[0], src: s.src, expect: s.ex, static: false, goal: nil})
	}

	// ---- tie: model vs checker.Check
	var reqs []string
	type realRes struct {
		parsed bool
		res    string
	}
	reals := make([]realRes, len(cases))
	envSxCache := map[string]*Sx{}
	for i, cs := range cases {
		tree, err := parser.Parse(cs.src)
		if err != nil {
			reals[i] = realRes{false, "parse: " + err.Error()}
			reqs = append(reqs, "(c03-check bad)")
			continue
		}
		if _, ok := envSxCache[cs.env.Name]; !ok {
			envSxCache[cs.env.Name] = envSx(cs.env.Val)
		}
		reqs = append(reqs, L(A("c03-check"), A(c03Model()), envSxCache[cs.env.Name], SBool(!cs.nonStrict), A(c03Expects[cs.expect].name), nodeSx(tree.Node, false)).String())
		reals[i] = realRes{true, c03RealCheck(cs)}
	}
	resp, err := c.AskAll(reqs)
	if err != nil {
		c.R.Mismatch("driver", "c03-check", err.Error(), "")
		return
	}
	for i, cs := range cases {
		if !reals[i].parsed {
			if cs.goal != nil || cs.fault != "" {
				c.R.Mismatch("generator", cs.src, "", reals[i].res)
			} else {
				c.R.Count("untyped:unparsable", 1)
			}
			continue
		}
		nontrivial := strings.ContainsAny(cs.src, "+-*/%<>=(.[?{")
		c.R.Case(cs.env.Name+"|"+cs.src+"|"+c03Expects[cs.expect].name, nontrivial)
		model := resp[i]
		if sx, perr := ParseSx(model); perr == nil {
			model = canonTy(sx).String()
		}
		if model != reals[i].res {
			c.R.Mismatch("c03/check", cs.env.Name+" | "+cs.src+" | expect="+c03Expects[cs.expect].name, model, reals[i].res)
		}
		if strings.HasPrefix(reals[i].res, "(ok") {
			c.R.Count("check:accepted", 1)
		} else if strings.HasPrefix(reals[i].res, "(err") {
			c.R.Count("check:rejected", 1)
		} else {
			c.R.Count("check:panic", 1)
		}
	}

	// ---- Spec verdicts: the reference typing rules (Lean `synth` with the documented rule set)
	for i := range reqs {
		if reals[i].parsed {
			tree, _ := parser.Parse(cases[i].src)
			reqs[i] = L(A("c03-ref"), envSxCache[cases[i].env.Name], nodeSx(tree.Node, false), SBool(!cases[i].nonStrict)).String()
		}
	}
	refs, err := c.AskAll(reqs)
	if err != nil {
		c.R.Mismatch("driver", "c03-ref", err.Error(), "")
		return
	}

	// ---- oracle on the real code
	for i, cs := range cases {
		if !reals[i].parsed {
			continue
		}
		if cs.nonStrict {
			// the reference rules with undefined variables allowed: well typed? statically typed?
			cs.refWell = strings.HasPrefix(refs[i], "(well")
			cs.static = strings.HasSuffix(refs[i], " true)")
			if rsx, perr := ParseSx(refs[i]); perr == nil && rsx.Tag() == "ill" && len(rsx.List) > 1 {
				cs.refClass = rsx.List[1].Atom
			}
			c03OracleNonStrict(c, cs)
			continue
		}
		refWell := strings.HasPrefix(refs[i], "(well")
		if cs.fault == "" && cs.goal != nil && !refWell {
			// the generator claims the expression is well typed, the reference rules disagree
			c.R.Mismatch("c03/reference-vs-generator", cs.env.Name+" | "+cs.src, refs[i], "generated as well typed")
		}
		if cs.fault != "" && refWell {
			c.R.Count("oracle:mutant-not-ill-typed-by-reference", 1)
			continue
		}
		// "all its operands are statically typed": the Lean definition `staticNode` decides
		cs.static = strings.HasSuffix(refs[i], " true)")
		cs.refWell = refWell
		if rsx, perr := ParseSx(refs[i]); perr == nil && rsx.Tag() == "ill" && len(rsx.List) > 1 {
			cs.refClass = rsx.List[1].Atom
		}
		c03Oracle(c, cs)
	}
	c03IfaceArith(c)
	c03PtrScalarEq(c)
	c03DirectiveNilPaths(c)
	c03Synthetic(c, envs[0])
	for _, k := range []string{"check:accepted", "check:rejected", "oracle:static-runs", "oracle:mutants-rejected", "nested:well-typed", "nested:mutants",
		"nonstrict:fixed", "nonstrict:random", "nonstrict:accepted", "nonstrict:typed-runs"} {
		if c.R.Counters[k] == 0 {
			c.R.Mismatch("generator", k, "", "counter is zero")
		}
	}
}

// c03RealCheck runs checker.Check and renders verdict, type, error position/class and the annotated tree.
func c03RealCheck(cs c03Case) (out string) {
	defer func() {
		if r := recover(); r != nil {
			out = "(panic)"
		}
	}()
	tree, _ := parser.Parse(cs.src)
	cfg := conf.New(cs.env.Val)
	cfg.Expect = c03Expects[cs.expect].kind
	cfg.Strict = !cs.nonStrict
	ty, err := checker.Check(tree, cfg)
	if err != nil {
		e := errSx(err)
		line, col := e.List[1], e.List[2]
		if line.Atom == "-1" || strings.HasPrefix(err.Error(), "expected ") {
			return L(A("err"), A("-1"), A("-1"), A(errClassOf(err.Error())), canonTy(nodeSx(tree.Node, true))).String()
		}
		return L(A("err"), line, col, A(errClassOf(e.List[3].Str())), canonTy(nodeSx(tree.Node, true))).String()
	}
	return L(A("ok"), cty(ty), canonTy(nodeSx(tree.Node, true))).String()
}

// ---- non-strict configurations

var c03NonStrictSrcs = []string{
	"Missing", "Missing + 1", "1 + Missing", "Missing + Missing", "Missing * 2.5", "len(Missing)", "Missing.x", "Missing.x.y", "Missing?.x",
	"Missing()", "Missing(1, I)", "Missing(Gone)", "Missing.Foo()", "Missing.Foo(1)", "all(Ints, {# > Missing})", "all(Missing, {# > 1})",
	"map(Missing, {#})", "map(Ints, {Missing})", "filter(Ints, {Missing})", "count(Missing, {Gone})", "Missing ? 1 : 2", "B ? Missing : 1",
	"B ? 1 : Missing", "I == Missing", "Missing == nil", "Missing != Gone", "Missing in Ints", "I in Missing", "Missing[0]", "Ints[Missing]",
	"Missing[1:2]", "Ints[Missing:]", "not Missing", "-Missing", "+Missing", "Missing and B", "Missing or Gone", "Missing matches \"a\"",
	"Str + Missing", "Missing contains \"a\"", "Missing..3", "1..Missing", "Fi(Missing)", "Fs(Missing)", "Ff(Missing + 1)", "[Missing, 1]",
	"{a: Missing}", "{(Missing): 1}", "Missing < 1", "Missing < \"a\"", "Missing % 2", "Missing ** 2", "I", "I + J", "I + 1.5", "Str", "len(Str)",
	"I.x", "I()", "Str + \"a\"", "I > 0 ? I : Missing", "len(Missing) + Missing", "Missing.x + I", "all(Missing, {#.x > Gone})", "nil", "Missing?.Foo()",
}

// c03NonStrictEnvs: struct environments (value and pointer), map[string]interface{}, typed maps
func c03NonStrictEnvs(envs []zooEnv) []zooEnv {
	fi := func(i int) int { return i + 1 }
	return []zooEnv{
		{"EnvScalars", envs[0].Val}, {"*EnvScalars", envs[2].Val},
		{"ns:map[string]interface{}", map[string]interface{}{"I": 1, "J": 2, "Str": "s", "B": true, "Ints": []int{1, 2, 3}, "Fi": fi, "nilv": nil}},
		{"ns:map[string]int", map[string]int{"I": 1, "J": 2}},
		{"ns:map[string]string", map[string]string{"Str": "a", "I": "i"}},
		{"ns:map[string][]int", map[string][]int{"Ints": {1, 2, 3}}},
		{"ns:EnvNamedMap", EnvNamedMap{"I": 1, "Str": "s"}},
	}
}

// c03OracleNonStrict: Compile with AllowUndefinedVariables() never panics; and where the configuration
// still makes a static claim — a typed map environment gives every unknown name the element type — an
// accepted program whose type is not an interface runs, or fails for a value-dependent reason, and yields
// a value of the reported type.
func c03OracleNonStrict(c *Ctx, cs c03Case) {
	in := c03Input{cs.env.Name + " (non-strict)", cs.src, c03Expects[cs.expect].name, ""}
	opts := []expr.Option{expr.Env(cs.env.Val), expr.AllowUndefinedVariables(), expr.Optimize(false)}
	if cs.expect != 0 {
		opts = append(opts, c03Expects[cs.expect].opt())
	}
	var cerr error
	panicked := ""
	func() {
		defer func() {
			if r := recover(); r != nil {
				panicked = fmt.Sprint(r)
			}
		}()
		_, cerr = expr.Compile(cs.src, opts...)
	}()
	if panicked != "" {
		violateKeyed16(c, Violation{What: "expr.Compile panics instead of returning an error", Key: "c03:compile-panics:non-strict", Input: in, Expect: "an error or a program", Got: firstLine16(panicked)})
		return
	}
	if cerr != nil {
		return
	}
	c.R.Count("nonstrict:accepted", 1)
	et := reflect.TypeOf(cs.env.Val)
	if et.Kind() != reflect.Map || et.Elem().Kind() == reflect.Interface {
		return // every unknown name is interface{}-typed (and a struct cannot be asked for a missing field): no static claim
	}
	if !cs.refWell && !c03CallsNonBuiltin(cs.src) {
		// accepted although the documented rules (with undefined variables allowed) give it no type: the same
		// attribution as in strict mode
		violateKeyed16(c, Violation{What: "an expression that the reference typing rules reject is accepted by Compile", Key: "c03:ill-typed-accepted:" + c03IllKey(cs.refClass), Input: in,
			Expect: "Compile rejects", Got: "accepted"})
		return
	}
	if !cs.static && !c03CallsNonBuiltin(cs.src) {
		return // an interface-typed (or nil-typed) sub-expression: no static claim
	}
	tree, _ := parser.Parse(cs.src)
	cfg := conf.New(cs.env.Val)
	cfg.Strict = false
	ty, terr := checker.Check(tree, cfg)
	if terr != nil || ty == nil || ty.Kind() == reflect.Interface {
		return
	}
	rv := compileRunOpts(cs.src, cs.env.Val, opts)
	c.R.Count("nonstrict:typed-runs", 1)
	if !rv.ran {
		if runErrClass(rv.rerr) == "type" {
			// attribute the failure to a listed finding before falling back to the generic key
			key := "c03:non-strict-typed-map:type-error"
			switch {
			case strings.Contains(rv.rerr, "cannot get") || strings.Contains(rv.rerr, "reflect.Value.Call") || c03CallsNonBuiltin(cs.src):
				key = "c03:non-strict:undefined-function-call" // a call of a name that is no function of the environment
			case strings.Contains(cs.src, "[") && (strings.Contains(rv.rerr, "invalid operation: int(") || strings.Contains(rv.rerr, "MapIndex")):
				key = "c03:ill-typed-accepted:bad-index" // IndexNode accepts any integer or string index whatever the container
			case strings.Contains(rv.rerr, "reflect: Call using"):
				key = "c03:ill-typed-accepted:retyped-non-literal-argument"
			}
			violateKeyed16(c, Violation{What: "a program accepted over a typed map environment with undefined variables allowed fails at run time for a type reason", Key: key, Input: in,
				Expect: "success or a value-dependent failure (static type " + ty.String() + ")", Got: rv.rerr})
		} else if runErrClass(rv.rerr) == "unknown" {
			c.R.Mismatch("c03/run-error-class", cs.src, "", rv.rerr)
		}
		return
	}
	if cs.expect == 0 && (rv.out == nil || reflect.TypeOf(rv.out) != ty) {
		violateKeyed16(c, Violation{What: "the result's dynamic type differs from the type the checker reported (typed map environment, undefined variables allowed)", Key: "c03:dynamic-type-differs:" + c03DynKey(cs.src), Input: in,
			Expect: "a value of type " + ty.String(), Got: fmt.Sprintf("%T", rv.out)})
	}
}

// c03CallsNonBuiltin: does the source call a name (not a method, not a builtin)?  Over a typed map
// environment without function-typed elements every such call is a call of an undefined function, whose
// arguments the checker does not even visit.
func c03CallsNonBuiltin(src string) bool {
	for i := 0; i < len(src); i++ {
		if src[i] != '(' || i == 0 {
			continue
		}
		j := i
		for j > 0 && (src[j-1] == '_' || src[j-1] >= '0' && src[j-1] <= '9' || src[j-1] >= 'a' && src[j-1] <= 'z' || src[j-1] >= 'A' && src[j-1] <= 'Z') {
			j--
		}
		name := src[j:i]
		if name == "" || exprReserved[name] || (j > 0 && src[j-1] == '.') {
			continue
		}
		return true
	}
	return false
}

// c03PtrScalarEq: the checker accepts `PI == I` because it dereferences the operand types (isComparable);
// the VM compares the pointer with the number, so the answer is false even when *PI equals I.
func c03PtrScalarEq(c *Ctx) {
	env := popIface(EnvScalars{}).(EnvScalars)
	i, str := env.I, env.Str
	env.PI, env.PStr = &i, &str
	for _, src := range []string{"PI == I", "I == PI", "PStr == Str", "PI in [I]", "not (PI != I)"} {
		rv := compileRunOpts(src, env, []expr.Option{expr.Env(env), expr.Optimize(false)})
		c.R.Case("ptr-scalar-eq|"+src, true)
		if rv.ran && rv.out != true {
			violateKeyed16(c, Violation{What: "comparing a pointer-to-scalar member with an equal scalar is accepted (the checker dereferences the operand types) and answers false (the VM compares the pointer itself)",
				Key: "c03:static-program-type-error:pointer-to-scalar-operand", Input: c03Input{"EnvScalars/PI=&I", src, "none", ""}, Expect: "true", Got: fmt.Sprint(rv.out)})
		}
	}
}

// c03Synthetic: trees the parser never builds (a Patch visitor or the optimizer can): builtins with a
// wrong number of arguments, unknown builtins and operators, a ConstantNode, `#` outside a closure.
// Tie only: model vs checker.Check on the same tree.
func c03Synthetic(c *Ctx, e zooEnv) {
	id := func(n string) ast.Node { return &ast.IdentifierNode{Value: n} }
	in := func(v int) ast.Node { return &ast.IntegerNode{Value: v} }
	cl := func(n ast.Node) ast.Node { return &ast.ClosureNode{Node: n} }
	trees := []func() ast.Node{
		func() ast.Node { return &ast.BuiltinNode{Name: "len", Arguments: []ast.Node{id("Ints"), id("Ints")}} },
		func() ast.Node { return &ast.BuiltinNode{Name: "len", Arguments: nil} },
		func() ast.Node { return &ast.BuiltinNode{Name: "len", Arguments: []ast.Node{id("Nope"), id("Ints")}} },
		func() ast.Node { return &ast.BuiltinNode{Name: "all", Arguments: []ast.Node{id("Ints")}} },
		func() ast.Node {
			return &ast.BuiltinNode{Name: "all", Arguments: []ast.Node{id("Ints"), cl(&ast.BoolNode{Value: true}), in(1)}}
		},
		func() ast.Node { return &ast.BuiltinNode{Name: "count", Arguments: nil} },
		func() ast.Node { return &ast.BuiltinNode{Name: "foo", Arguments: []ast.Node{id("Ints"), cl(in(1))}} },
		func() ast.Node { return &ast.BuiltinNode{Name: "foo", Arguments: []ast.Node{id("Ints")}} },
		func() ast.Node { return &ast.BuiltinNode{Name: "filter", Arguments: []ast.Node{id("Ints"), in(1)}} },
		func() ast.Node { return &ast.BuiltinNode{Name: "map", Arguments: []ast.Node{in(1), cl(in(1))}} },
		func() ast.Node { return &ast.ConstantNode{Value: 1} },
		func() ast.Node {
			return &ast.BinaryNode{Operator: "+", Left: &ast.ConstantNode{Value: 1}, Right: in(2)}
		},
		func() ast.Node {
			return &ast.BinaryNode{Operator: "+", Left: &ast.ConstantNode{Value: "s"}, Right: in(2)}
		},
		func() ast.Node { return &ast.BinaryNode{Operator: "^^", Left: in(1), Right: in(2)} },
		func() ast.Node { return &ast.UnaryNode{Operator: "~", Node: in(1)} },
		func() ast.Node { return &ast.PointerNode{} },
		func() ast.Node { return &ast.BinaryNode{Operator: "+", Left: &ast.PointerNode{}, Right: id("Nope")} },
		func() ast.Node { return &ast.PairNode{Key: in(1), Value: in(2)} },
		func() ast.Node { return &ast.ClosureNode{Node: &ast.NilNode{}} },
	}
	var reqs []string
	var reals []string
	for _, mk := range trees {
		reqs = append(reqs, L(A("c03-check"), A(c03Model()), envSx(e.Val), SBool(true), A("none"), nodeSx(mk(), false)).String())
		real := ""
		func() {
			defer func() {
				if r := recover(); r != nil {
					real = "(panic)"
				}
			}()
			tree := &parser.Tree{Node: mk(), Source: file.NewSource("synthetic")}
			ty, err := checker.Check(tree, conf.New(e.Val))
			if err != nil {
				es := errSx(err)
				line, col := es.List[1], es.List[2]
				if line.Atom == "-1" || strings.HasPrefix(err.Error(), "expected ") {
					real = L(A("err"), A("-1"), A("-1"), A(errClassOf(err.Error())), canonTy(nodeSx(tree.Node, true))).String()
				} else {
					real = L(A("err"), line, col, A(errClassOf(es.List[3].Str())), canonTy(nodeSx(tree.Node, true))).String()
				}
				return
			}
			real = L(A("ok"), cty(ty), canonTy(nodeSx(tree.Node, true))).String()
		}()
		reals = append(reals, real)
	}
	resp, err := c.AskAll(reqs)
	if err != nil {
		c.R.Mismatch("driver", "c03-check (synthetic)", err.Error(), "")
		return
	}
	for i := range reqs {
		c.R.Case(fmt.Sprintf("synthetic|%d", i), true)
		c.R.Count("synthetic-trees", 1)
		model := resp[i]
		if sx, perr := ParseSx(model); perr == nil {
			model = canonTy(sx).String()
		}
		if model != reals[i] {
			c.R.Mismatch("c03/check-synthetic", fmt.Sprintf("tree #%d %s", i, nodeSx(trees[i](), false).String()), model, reals[i])
		}
	}
}

func c03Oracle(c *Ctx, cs c03Case) {
	in := c03Input{cs.env.Name, cs.src, c03Expects[cs.expect].name, cs.fault}
	opts := []expr.Option{expr.Env(cs.env.Val), expr.Optimize(false)}
	if cs.expect != 0 {
		opts = append(opts, c03Expects[cs.expect].opt())
	}
	var cerr error
	panicked := ""
	func() {
		defer func() {
			if r := recover(); r != nil {
				panicked = fmt.Sprint(r)
			}
		}()
		_, err := expr.Compile(cs.src, opts...)
		cerr = err
	}()
	if panicked != "" {
		key := "c03:compile-panics"
		if strings.Contains(panicked, "nil pointer") && cs.expect == 1 {
			key = "c03:asbool-on-nil-type-panics"
		} else if strings.Contains(panicked, "FuncOf") || strings.Contains(panicked, "interface conversion") {
			key = "c03:closure-with-nil-typed-body-panics"
		}
		violateKeyed16(c, Violation{What: "expr.Compile panics instead of returning an error", Key: key, Input: in, Expect: "an error or a program", Got: firstLine16(panicked)})
		return
	}
	if cs.fault != "" {
		// (b) a single-fault mutant must be rejected
		if cerr == nil {
			violateKeyed16(c, Violation{What: "an expression that violates a documented typing rule is accepted by Compile", Key: "c03:ill-typed-accepted:" + cs.fault, Input: in,
				Expect: "Compile rejects (" + cs.fault + ")", Got: "accepted"})
		} else {
			c.R.Count("oracle:mutants-rejected", 1)
		}
		return
	}
	if cerr == nil && !cs.refWell {
		// accepted although the reference rules give it no type (arbitrary trees; the deliberate mutants are handled above)
		violateKeyed16(c, Violation{What: "an expression that the reference typing rules reject is accepted by Compile", Key: "c03:ill-typed-accepted:" + c03IllKey(cs.refClass), Input: in,
			Expect: "Compile rejects", Got: "accepted"})
		return
	}
	if cerr != nil || !cs.static {
		if cerr != nil && cs.goal != nil && cs.expect == 0 {
			// a generated well-typed expression is rejected: the generator or the reference rules are off
			c.R.Mismatch("c03/well-typed-rejected", cs.env.Name+" | "+cs.src, "accepted by the reference rules", firstLine16(cerr.Error()))
		}
		if cerr == nil && strings.Contains(cs.src, "(") {
			// not "statically typed" in the property's sense (some type is an interface), but one failure is
			// independent of every value: the VM's fast-call path asserting a function type the checker
			// did not establish
			if rv := compileRunOpts(cs.src, cs.env.Val, opts); !rv.ran && strings.Contains(rv.rerr, "not func(...interface {}) interface {}") {
				violateKeyed16(c, Violation{What: "a call the checker marked as fast fails in the VM: the function is not exactly a func(...interface{}) interface{}", Key: "c03:fast-call-on-inexact-func-type", Input: in,
					Expect: "the call succeeds", Got: rv.rerr})
			}
		}
		return
	}
	// (a) accepted, statically typed: run
	tree, _ := parser.Parse(cs.src)
	cfg := conf.New(cs.env.Val)
	ty, _ := checker.Check(tree, cfg)
	rv := compileRunOpts(cs.src, cs.env.Val, opts)
	c.R.Count("oracle:static-runs", 1)
	if !rv.ran {
		switch runErrClass(rv.rerr) {
		case "value":
			c.R.Count("oracle:value-dependent-failures", 1)
		case "type":
			violateKeyed16(c, Violation{What: "an accepted, statically typed program fails at run time for a type reason", Key: "c03:static-program-type-error:" + c03TypeErrKey(cs.src, rv.rerr), Input: in,
				Expect: "success or a value-dependent failure", Got: rv.rerr})
		default:
			c.R.Mismatch("c03/run-error-class", cs.src, "", rv.rerr)
		}
		return
	}
	// dynamic type of the result
	switch cs.expect {
	case 0:
		if ty != nil && ty.Kind() != reflect.Interface && (rv.out == nil || reflect.TypeOf(rv.out) != ty) {
			dk := c03DynKey(cs.src)
			if ty.Kind() == reflect.Ptr && rv.out != nil && reflect.TypeOf(rv.out) == ty.Elem() && strings.Contains(cs.src, ":") {
				dk = "slice-through-pointer"
			}
			violateKeyed16(c, Violation{What: "the result's dynamic type differs from the type the checker reported", Key: "c03:dynamic-type-differs:" + dk, Input: in,
				Expect: "a value of type " + ty.String(), Got: fmt.Sprintf("%T", rv.out)})
		}
	default:
		want := c03Expects[cs.expect].kind
		if rv.out == nil || reflect.TypeOf(rv.out).Kind() != want || reflect.TypeOf(rv.out).PkgPath() != "" {
			violateKeyed16(c, Violation{What: "the result under As* is not exactly of the requested kind", Key: "c03:as-kind-not-exact", Input: in,
				Expect: want.String(), Got: fmt.Sprintf("%T", rv.out)})
		}
	}
}

// c03IllKey names an accepted reference-ill-typed expression by the reference rule that rejects it
func c03IllKey(refClass string) string {
	switch refClass {
	case "bad-index":
		return "bad-index"
	case "bad-argument":
		return "int-literal-to-non-numeric-param"
	case "bad-map-key":
		return "map-literal-key"
	case "not-sliceable":
		return "slice-of-map"
	case "mismatch-binary":
		return "in-map-key"
	}
	return refClass
}

// c03IfaceArith: `combined(interface{}, int)` is `int` (typeWeight of interface{} is 0), so arithmetic
// with an interface-typed operand is reported with the other operand's numeric type although the value
// may be of any numeric kind.  Such programs are not "statically typed" in the property's sense (an
// operand has interface type), but the checker makes a static claim about them; the probes compare it
// with what the VM yields.
func c03IfaceArith(c *Ctx) {
	env := popIface(EnvScalars{}).(EnvScalars)
	env.Any = 1.5
	env.Anys = []interface{}{1.5, 2}
	for _, src := range []string{"Any * 1", "Any + I", "Anys[0] * 2", "I64 - Any", "(Any * 1) == 1", "filter(map(Anys, {# * 1}), {# in 1..3})"} {
		tree, err := parser.Parse(src)
		if err != nil {
			c.R.Mismatch("generator", src, "", err.Error())
			continue
		}
		ty, cerr := checker.Check(tree, conf.New(env))
		rv := compileRunOpts(src, env, []expr.Option{expr.Env(env)})
		c.R.Case("ifacearith|"+src, true)
		in := c03Input{"EnvScalars/Any=1.5", src, "none", ""}
		if cerr != nil || !rv.accepted {
			continue
		}
		want := "(no static claim)"
		if ty != nil {
			want = ty.String()
		}
		switch {
		case !rv.ran && runErrClass(rv.rerr) == "type":
			violateKeyed16(c, Violation{What: "arithmetic with an interface-typed operand is given the other operand's numeric type (combined(interface{}, int) = int); type-directed code then fails or changes results", Key: "c03:dynamic-type-differs:arith-with-interface-operand", Input: in,
				Expect: "no type error (static type " + want + ")", Got: rv.rerr})
		case rv.ran && ty != nil && ty.Kind() != reflect.Interface && ty.Kind() != reflect.Slice && rv.out != nil && reflect.TypeOf(rv.out) != ty:
			violateKeyed16(c, Violation{What: "arithmetic with an interface-typed operand is given the other operand's numeric type (combined(interface{}, int) = int); type-directed code then fails or changes results", Key: "c03:dynamic-type-differs:arith-with-interface-operand", Input: in,
				Expect: "a value of type " + want, Got: fmt.Sprintf("%T (%v)", rv.out, rv.out)})
		case rv.ran && src == "filter(map(Anys, {# * 1}), {# in 1..3})":
			// the in-range rewrite fires on the (wrong) static type int: Eval (no types) yields [2]
			ev, _ := expr.Eval(src, env)
			if fmt.Sprint(ev) != fmt.Sprint(rv.out) {
				violateKeyed16(c, Violation{What: "arithmetic with an interface-typed operand is given the other operand's numeric type (combined(interface{}, int) = int); type-directed code then fails or changes results", Key: "c03:dynamic-type-differs:arith-with-interface-operand", Input: in,
					Expect: fmt.Sprintf("%v (as expr.Eval)", ev), Got: fmt.Sprint(rv.out)})
			}
		}
	}
}

func c03DynKey(src string) string {
	switch {
	case strings.Contains(src, "filter("):
		return "filter-static-slice"
	case strings.Contains(src, "map("):
		return "map-static-slice"
	}
	return "other"
}

// a pointer to a scalar in an operator's / conversion's failure message: `*int + int`, `float64(*int)`,
// `interface {} is *string, not string`
var c03PtrScalarRe = regexp.MustCompile(`\*(u?int(8|16|32|64)?|float(32|64)|string|bool)\b`)

func c03TypeErrKey(src, rerr string) string {
	switch {
	case c03PtrScalarRe.MatchString(rerr):
		return "pointer-to-scalar-operand"
	case strings.Contains(rerr, "interface conversion") && strings.Contains(rerr, "not string") && strings.Contains(src, "{"):
		return "map-literal-key"
	case strings.Contains(rerr, "cannot slice"):
		return "slice-of-map"
	case strings.Contains(rerr, "MapIndex") && strings.Contains(src, " in "):
		return "in-map-key"
	case strings.Contains(rerr, "interface conversion"):
		return "interface-conversion"
	case strings.Contains(rerr, "reflect: Call using"):
		return "retyped-non-literal-argument"
	case strings.Contains(rerr, "slice of unaddressable array"):
		return "slice-of-array"
	case strings.Contains(rerr, "invalid argument for len (type *"):
		return "len-of-pointer-to-collection"

	}
	// not one of the known classes: the raw message is part of the key, so that a sweep shows what it is
	return "other:" + firstLine16(rerr)
}

func compileRunOpts(src string, env interface{}, opts []expr.Option) (rv realVerdict) {
	defer func() {
		if r := recover(); r != nil {
			rv.rerr = fmt.Sprintf("PANIC %v", r)
		}
	}()
	prog, err := expr.Compile(src, opts...)
	if err != nil {
		rv.cerr = err.Error()
		return
	}
	rv.accepted = true
	out, rerr := expr.Run(prog, env)
	if rerr != nil {
		rv.rerr = firstLine16(rerr.Error())
		return
	}
	rv.ran, rv.out = true, out
	return
}

var _ = rand.Int

// c03DirectiveNilPaths: result directives on statically typed programs whose value is nil on one path — a nil-safe
// member chain through a nil pointer (`P?.Total`: every operand statically typed, static type exactly int64) and a
// conditional with a nil branch.  Whenever the run succeeds the result must be exactly of the requested kind; a nil
// failure is value-dependent and allowed.  Real code only (seed c03_7: the compiler skipped the cast epilogue when the
// root's static kind already matched the directive, so these runs succeeded with an untyped nil).
func c03DirectiveNilPaths(c *Ctx) {
	type inner struct {
		Total int64
		Ratio float64
		Ok    bool
		Next  *inner
	}
	type env struct {
		P, Q *inner
		B    bool
		I64  int64
		F64  float64
	}
	full := &inner{Total: 7, Ratio: 2.5, Ok: true}
	envs := []env{{P: nil, Q: full, B: false, I64: 3, F64: 1.5}, {P: full, Q: &inner{Next: nil}, B: true, I64: 3, F64: 1.5}}
	probes := []struct {
		src string
		ex  int
	}{
		{"P?.Total", 2}, {"P?.Ratio", 3}, {"P?.Ok", 1}, {"Q?.Next?.Total", 2}, {"Q.Next?.Ratio", 3}, {"P?.Next?.Ok", 1},
		{"B ? I64 : nil", 2}, {"B ? nil : I64", 2}, {"B ? F64 : nil", 3}, {"B ? nil : F64", 3}, {"B ? B : nil", 1}, {"B ? nil : B", 1},
		{"B ? P?.Total : Q?.Total", 2}, {"(B ? P : Q)?.Ratio", 3},
	}
	for ei, e := range envs {
		for _, pr := range probes {
			for _, optimize := range []bool{false, true} {
				opts := []expr.Option{expr.Env(e), expr.Optimize(optimize), c03Expects[pr.ex].opt()}
				rv := compileRunOpts(pr.src, e, opts)
				c.R.Count("directive-nil-paths", 1)
				if !rv.ran || rv.rerr != "" {
					continue
				}
				want := c03Expects[pr.ex].kind
				if rv.out == nil || reflect.TypeOf(rv.out).Kind() != want || reflect.TypeOf(rv.out).PkgPath() != "" {
					key := "c03:as-kind-not-exact:" + c03Expects[pr.ex].name + ":nil-safe-chain"
					if strings.Contains(pr.src, "nil") {
						key = "c03:as-kind-not-exact:" + c03Expects[pr.ex].name + ":nil-literal-branch"
					}
					violateKeyed16(c, Violation{What: "a successful run under As* returns a value that is not exactly of the requested kind (nil path)", Key: key,
						Input:  map[string]string{"expr": pr.src, "directive": c03Expects[pr.ex].name, "env": fmt.Sprintf("#%d P nil=%v B=%v", ei, e.P == nil, e.B), "optimize": fmt.Sprint(optimize)},
						Expect: want.String(), Got: fmt.Sprintf("%T (%v)", rv.out, rv.out)})
				}
			}
		}
	}
	if c.R.Counters["directive-nil-paths"] == 0 {
		c.R.Mismatch("generator", "directive-nil-paths", "no probe ran", "")
	}
}
