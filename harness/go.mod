module verifharness

go 1.13

require github.com/antonmedv/expr v0.0.0

replace github.com/antonmedv/expr => /repo
