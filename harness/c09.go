package main

// C09 — Compile and Run are pure and deterministic.
//
// Oracle (metamorphic, on the real code): the same source compiled K times with the same option values —
// in this process and in a fresh process — yields the same bytecode, constants and locations; a run changes
// neither the program, nor the environment, nor the sample environment given to Compile (deep snapshots,
// slices rendered up to their capacity); a second run on the same and on a deep-copied environment gives
// the same outcome.
// Correspondence (tie of the Lean loop models of Props/C09.lean to the code): conf.CreateTypesTable, (*conf.Config).Check and the compiler's constant pool are compared with the Lean
// models, which are fed the map entries in a *shuffled* order.

import (
	"bufio"
	"bytes"
	"encoding/hex"
	"fmt"
	"math"
	"os"
	"os/exec"
	"reflect"
	"sort"
	"strings"

	"github.com/antonmedv/expr"
	"github.com/antonmedv/expr/conf"
	"github.com/antonmedv/expr/vm"
)

func init() {
	props["C09"] = runC09
	// hidden sub-command: compile (config, source) pairs from stdin in a fresh process and print a digest of each program
	if len(os.Args) > 1 && os.Args[1] == "__c09child" {
		c09Child()
		os.Exit(0)
	}
}

func c09Digest(cfg *fxConfig, opts []expr.Option, src string) string {
	p, err, pan := fxCompile(src, opts)
	if pan != "" {
		return "PANIC"
	}
	if err != nil {
		return "ERR:" + fxHash(err.Error())
	}
	return fxHash(fxProgCanon(p))
}

func c09Child() {
	cfgs := map[string][]expr.Option{}
	sc := bufio.NewScanner(os.Stdin)
	sc.Buffer(make([]byte, 1<<20), 1<<26)
	w := bufio.NewWriter(os.Stdout)
	defer w.Flush()
	for sc.Scan() {
		parts := strings.SplitN(sc.Text(), "\t", 2)
		if len(parts) != 2 {
			fmt.Fprintln(w, "BAD")
			continue
		}
		cfg := fxConfigByName(parts[0])
		if cfg == nil {
			fmt.Fprintln(w, "BADCFG")
			continue
		}
		opts, ok := cfgs[cfg.Name]
		if !ok {
			opts = cfg.Build(cfg.SampleEnv())
			cfgs[cfg.Name] = opts
		}
		src, _ := hex.DecodeString(parts[1])
		fmt.Fprintln(w, c09Digest(cfg, opts, string(src)))
	}
}

// opcodes with a 2-byte operand: index into the constant pool / plain argument
var c09ConstOps = map[byte]bool{vm.OpPush: true, vm.OpFetch: true, vm.OpFetchNilSafe: true, vm.OpFetchMap: true,
	vm.OpMatchesConst: true, vm.OpProperty: true, vm.OpPropertyNilSafe: true, vm.OpCall: true, vm.OpCallFast: true,
	vm.OpMethod: true, vm.OpMethodNilSafe: true, vm.OpStore: true, vm.OpLoad: true, vm.OpInc: true}
var c09ArgOps = map[byte]bool{vm.OpJump: true, vm.OpJumpIfTrue: true, vm.OpJumpIfFalse: true, vm.OpJumpBackward: true, vm.OpCast: true}

// c09ConstRefs: constant indices in bytecode order; ok=false when the walk does not end exactly at the end
func c09ConstRefs(p *vm.Program) (refs []int, hasScope bool, ok bool) {
	b := p.Bytecode
	i := 0
	for i < len(b) {
		op := b[i]
		i++
		if op == vm.OpBegin {
			hasScope = true
		}
		if c09ConstOps[op] || c09ArgOps[op] {
			if i+1 >= len(b) {
				return nil, hasScope, false
			}
			a := int(b[i]) | int(b[i+1])<<8
			i += 2
			if c09ConstOps[op] {
				if a >= len(p.Constants) {
					return nil, hasScope, false
				}
				refs = append(refs, a)
			}
		}
	}
	return refs, hasScope, i == len(b)
}

func c09Hashable(v interface{}) bool {
	if v == nil {
		return false
	}
	switch reflect.TypeOf(v).Kind() {
	case reflect.Slice, reflect.Map:
		return false
	}
	if f, ok := v.(float64); ok && math.IsNaN(f) {
		return false
	}
	return true
}

func runC09(c *Ctx) {
	r := c.R
	r.Rule = "generated sources (9 result types, depth 1..5, every production of the zoo grammar) x 11 option sets (Env struct/map/none, Optimize off, AllowUndefinedVariables, Operator, ConstExpr, AsBool/AsInt64/AsFloat64), each compiled K times with the same option values in-process and once in a fresh process; every compiled program run on 2 environments with deep snapshots of program, environment and sample environment before/after, then re-run on the same and on a deep-copied environment; non-trivial = compiles and has >= 1 constant and >= 2 instructions; distinct by (option set, source)"
	K := 3
	nSrc, depth := 450, 4
	if c.Thorough() {
		K, nSrc, depth = 6, 6000, 5
	}
	cfgs := fxConfigs()
	type built struct {
		cfg    fxConfig
		sample interface{}
		snap0  string
		opts   []expr.Option
	}
	var bs []*built
	for _, cfg := range cfgs {
		s := cfg.SampleEnv()
		b := &built{cfg: cfg, sample: s, snap0: fxSnap(s, true)}
		b.opts = cfg.Build(s)
		bs = append(bs, b)
	}
	plain, used1 := fxSources(c.Rng, nSrc, depth, false)
	withOps, used2 := fxSources(c.Rng, nSrc/3, depth, true)
	for k, v := range used1 {
		r.Count("rule:"+k, v)
	}
	for k, v := range used2 {
		r.Count("rule:"+k, v)
	}
	// hand-written sources: ambiguous embedded field, constant-heavy, shared constants from ConstExpr
	extra := []struct {
		Src string
		T   fxType
	}{
		{"Shared", fxStr}, {"Shared + S", fxStr}, {"BaseI + B2", fxInt},
		{`[1,2,3,1,2,3][I % 6] + 1 + 2 + 3 + 1`, fxInt}, {`"a" + S + "a" + T + "b" + "a"`, fxStr},
		{`Upper("abc") + Upper("abc") + Upper(S)`, fxStr}, {`Fib(10) + Fib(10) + Fib(11)`, fxInt},
		{`I in [1,2,3] and J in [1,2,3] and S in ["a","b"] and T in ["a","b"]`, fxBool},
		{`S matches "^a" and T matches "^a" and S matches "b$"`, fxBool},
		{`len(1..50) + len(1..50)`, fxInt}, {`map(1..3, {# * 2})`, fxAnyT}, {`{a: 1, b: [1,2], c: {d: "x"}}`, fxMapT},
		{`V1 + V2 + V1`, fxVecT}, {`0.5 + 0.5 + 1.5 + .5`, fxFloat}, {`nil`, fxAnyT}, {`PIn`, fxAnyT}, {`MS`, fxMapT},
	}
	type item struct {
		b   *built
		src string
		t   fxType
	}
	var items []item
	for _, b := range bs {
		srcs := plain
		if b.cfg.Ops {
			srcs = append(append([]struct {
				Src string
				T   fxType
			}{}, plain[:len(plain)/2]...), withOps...)
		}
		for _, s := range srcs {
			if b.cfg.Accepts(s.T) {
				items = append(items, item{b, s.Src, s.T})
			}
		}
		for _, s := range extra {
			if b.cfg.Accepts(s.T) {
				items = append(items, item{b, s.Src, s.T})
			}
		}
	}
	// ---- in-process determinism, purity of runs ----
	digests := make([]string, len(items))
	var poolReqs []string
	var poolWant [][]int
	var poolKeys []string
	for idx, it := range items {
		key := it.b.cfg.Name + " | " + it.src
		var progs []*vm.Program
		var canon []string
		for k := 0; k < K; k++ {
			p, err, pan := fxCompile(it.src, it.b.opts)
			switch {
			case pan != "":
				canon = append(canon, "PANIC") // C04's business; here only determinism matters
			case err != nil:
				canon = append(canon, "ERR:"+err.Error())
			default:
				canon = append(canon, fxProgCanon(p))
				progs = append(progs, p)
			}
		}
		for k := 1; k < K; k++ {
			if canon[k] != canon[0] {
				what, kk := "the same source and options compiled to different programs", "c09:compile-differs"
				if strings.HasPrefix(canon[0], "ERR:") || strings.HasPrefix(canon[k], "ERR:") {
					what, kk = "the same source and options gave different compile outcomes", "c09:compile-error-differs"
				}
				r.Violate(Violation{What: what, Key: kk, Input: map[string]string{"config": it.b.cfg.Name, "source": it.src},
					Expect: canon[0], Got: canon[k]})
				break
			}
		}
		digests[idx] = fxHash(canon[0])
		if strings.HasPrefix(canon[0], "ERR:") {
			digests[idx] = "ERR:" + fxHash(strings.TrimPrefix(canon[0], "ERR:"))
			r.Count("compile-errors", 1)
		}
		if canon[0] == "PANIC" {
			digests[idx] = "PANIC"
			r.Count("compile-panics(see C04)", 1)
		}
		if len(progs) == 0 {
			r.Case(key, false)
			continue
		}
		p := progs[0]
		r.Case(key, len(p.Constants) >= 1 && len(p.Bytecode) >= 2)
		r.Count("compiled", 1)
		r.Count("config:"+it.b.cfg.Name, 1)
		// constant pool against the Lean model (programs without scopes: references appear in makeConstant order)
		if refs, hasScope, ok := c09ConstRefs(p); !ok {
			r.Mismatch("c09-bytecode-walk", key, "bytecode walk ends at the end of the program", "operand table out of date")
		} else if !hasScope && len(refs) > 0 && len(poolReqs) < 4000 {
			intern := map[interface{}]int{}
			next := 0
			idOf := map[int]int{} // constant index -> interned id
			var req []*Sx
			bad := false
			for _, ci := range refs {
				v := p.Constants[ci]
				h := c09Hashable(v)
				id, seen := idOf[ci]
				if !seen {
					if h {
						func() {
							defer func() {
								if recover() != nil {
									bad = true
								}
							}()
							if j, ok := intern[v]; ok {
								id = j
							} else {
								id = next
								next++
								intern[v] = id
							}
						}()
					} else {
						id = next
						next++
					}
					idOf[ci] = id
				}
				req = append(req, L(SInt(int64(id)), SBool(h)))
			}
			if !bad {
				want := make([]int, len(p.Constants))
				complete := true
				for i := range p.Constants {
					id, ok := idOf[i]
					if !ok {
						complete = false // constant never referenced: only `count`/`size` style pre-made constants, which need scopes
					}
					want[i] = id
				}
				if complete {
					poolReqs = append(poolReqs, T("c09-pool", req...).String())
					poolWant = append(poolWant, want)
					poolKeys = append(poolKeys, key)
				} else {
					r.Mismatch("c09-pool", key, "every constant of a scope-free program is referenced", "unreferenced constant")
				}
			}
		}
		// purity and repeatability of runs
		for variant := 0; variant < 2; variant++ {
			env := it.b.cfg.RunEnv(variant)
			snapE := fxSnap(env, true)
			snapP := fxSnap(p, true)
			out1 := fxRun(p, env)
			if s := fxSnap(env, true); s != snapE {
				r.Violate(Violation{What: "a run modified the environment", Key: "c09:env-modified",
					Input: map[string]string{"config": it.b.cfg.Name, "source": it.src}, Expect: c09Diff(snapE, s, true), Got: c09Diff(snapE, s, false)})
			}
			if s := fxSnap(p, true); s != snapP {
				r.Violate(Violation{What: "a run modified the program", Key: "c09:program-modified",
					Input: map[string]string{"config": it.b.cfg.Name, "source": it.src}, Expect: c09Diff(snapP, s, true), Got: c09Diff(snapP, s, false)})
			}
			out2 := fxRun(p, env)
			env2 := fxDeepCopy(env)
			if fxSnap(env2, false) != fxSnap(env, false) {
				r.Mismatch("c09-deepcopy", key, "deep copy equals the original", "harness deep copy differs")
			}
			out3 := fxRun(p, env2)
			out4 := fxRun(progs[len(progs)-1], env)
			for i, o := range []string{out2, out3, out4} {
				if o != out1 {
					r.Violate(Violation{What: [...]string{"a second run on the same environment gave a different outcome",
						"a run on an equal (deep-copied) environment gave a different outcome",
						"an identically compiled program gave a different outcome"}[i], Key: "c09:rerun-differs",
						Input: map[string]string{"config": it.b.cfg.Name, "source": it.src, "env-variant": fmt.Sprint(variant)}, Expect: out1, Got: o})
				}
			}
			if strings.HasPrefix(out1, "ERR:") {
				r.Count("run-errors", 1)
			} else if strings.HasPrefix(out1, "PANIC:") {
				r.Count("run-panics(see C04)", 1)
			} else {
				r.Count("run-ok", 1)
			}
		}
	}
	for _, b := range bs {
		if s := fxSnap(b.sample, true); s != b.snap0 {
			r.Violate(Violation{What: "Compile or Run modified the sample environment given to expr.Env", Key: "c09:sample-env-modified",
				Input: b.cfg.Name, Expect: c09Diff(b.snap0, s, true), Got: c09Diff(b.snap0, s, false)})
		}
	}
	// ---- fresh process ----
	self, err := os.Executable()
	if err != nil {
		r.Mismatch("c09-child", "os.Executable", err.Error(), "")
	} else {
		step := 1
		if !c.Thorough() && len(items) > 3000 {
			step = len(items) / 3000
		}
		var in bytes.Buffer
		var sel []int
		for i := 0; i < len(items); i += step {
			sel = append(sel, i)
			fmt.Fprintf(&in, "%s\t%s\n", items[i].b.cfg.Name, hex.EncodeToString([]byte(items[i].src)))
		}
		nproc := 2
		if c.Thorough() {
			nproc = 4
		}
		// the second (fourth) fresh process compiles the same (config, source) pairs in the REVERSE order: a compile
		// whose outcome depends on what the process compiled before (a process-wide cache of parsed trees, of
		// resolved overloads, …) then differs from this process, which went config by config (seed c09_6)
		inLines := strings.Split(strings.TrimRight(in.String(), "\n"), "\n")
		var rev bytes.Buffer
		for j := len(inLines) - 1; j >= 0; j-- {
			rev.WriteString(inLines[j] + "\n")
		}
		for pi := 0; pi < nproc; pi++ {
			reversed := pi%2 == 1
			cmd := exec.Command(self, "__c09child")
			cmd.Stdin = bytes.NewReader(in.Bytes())
			if reversed {
				cmd.Stdin = bytes.NewReader(rev.Bytes())
			}
			var so, se bytes.Buffer
			cmd.Stdout, cmd.Stderr = &so, &se
			if err := cmd.Run(); err != nil {
				r.Mismatch("c09-child", "fresh process", "exit 0", err.Error()+": "+se.String())
				break
			}
			lines := strings.Split(strings.TrimRight(so.String(), "\n"), "\n")
			if len(lines) != len(sel) {
				r.Mismatch("c09-child", "fresh process", fmt.Sprint(len(sel), " digests"), fmt.Sprint(len(lines), " lines"))
				break
			}
			if reversed {
				for a, b := 0, len(lines)-1; a < b; a, b = a+1, b-1 {
					lines[a], lines[b] = lines[b], lines[a]
				}
				r.Count("cross-process-reversed-order", len(lines))
			}
			for j, i := range sel {
				r.Count("cross-process-compared", 1)
				if lines[j] != digests[i] && reversed {
					r.Violate(Violation{What: "a fresh process that compiled the same pairs in the reverse order compiled this source and options to a different program: the outcome of Compile depends on what was compiled before", Key: "c09:compile-depends-on-history",
						Input: map[string]string{"config": items[i].b.cfg.Name, "source": items[i].src}, Expect: digests[i], Got: lines[j]})
				} else if lines[j] != digests[i] {
					r.Violate(Violation{What: "a fresh process compiled the same source and options to a different program", Key: "c09:cross-process-differs",
						Input: map[string]string{"config": items[i].b.cfg.Name, "source": items[i].src}, Expect: digests[i], Got: lines[j]})
				}
			}
		}
	}
	// ---- correspondence with the Lean loop models ----
	if resp, err := c.AskAll(poolReqs); err != nil {
		r.Mismatch("driver", "c09-pool", err.Error(), "")
	} else {
		for i, line := range resp {
			want := make([]string, len(poolWant[i]))
			for j, id := range poolWant[i] {
				want[j] = fmt.Sprint(id)
			}
			w := "(" + strings.Join(want, " ") + ")"
			r.Count("pool-compared", 1)
			if line != w {
				r.Mismatch("c09-pool", poolKeys[i], line, w)
			}
		}
	}
	c09LoopModels(c)
	c09ConfigCheckOrder(c)
	for _, must := range []string{"compiled", "run-ok", "run-errors", "compile-errors", "cross-process-compared", "pool-compared", "fields-table-compared", "typesmap-compared", "check-compared"} {
		if r.Counters[must] == 0 {
			r.Mismatch("generator", must, "counter must be non-zero", "0")
		}
	}
}

// c09Diff shows the neighbourhood of the first difference of two snapshots
func c09Diff(a, b string, first bool) string {
	i := 0
	for i < len(a) && i < len(b) && a[i] == b[i] {
		i++
	}
	lo := i - 60
	if lo < 0 {
		lo = 0
	}
	s := a
	if !first {
		s = b
	}
	hi := i + 80
	if hi > len(s) {
		hi = len(s)
	}
	if lo > len(s) {
		lo = len(s)
	}
	return "…" + s[lo:hi] + "…"
}

// ---- Lean loop models vs the real table builders and Config.Check ----

var c09Names = []string{"A", "B", "C", "D", "E", "F"}
var c09Types = []reflect.Type{reflect.TypeOf(0), reflect.TypeOf(""), reflect.TypeOf(true), reflect.TypeOf(1.5), reflect.TypeOf([]int{})}

func c09LoopModels(c *Ctx) {
	r := c.R
	n := 150
	if c.Thorough() {
		n = 3000
	}
	var reqs []string
	var want []string
	var keys []string
	add := func(req *Sx, w, key string) {
		reqs = append(reqs, req.String())
		want = append(want, w)
		keys = append(keys, key)
	}
	render := func(tbl conf.TypesTable, names []string) string {
		var parts []string
		for _, k := range names {
			tag, ok := tbl[k]
			switch {
			case !ok:
				parts = append(parts, "("+k+" none)")
			case tag.Ambiguous:
				parts = append(parts, "("+k+" ambiguous)")
			default:
				parts = append(parts, "("+k+" "+SStr(tag.Type.String()).String()+")")
			}
		}
		return "(" + strings.Join(parts, " ") + ")"
	}
	// conf.FieldsFromStruct no longer iterates over a map (it walks reflect field indices): only repeatability is checked
	for i := 0; i < n/3; i++ {
		var fields []reflect.StructField
		for _, nm := range c09Names {
			if c.Rng.Intn(2) == 0 {
				fields = append(fields, reflect.StructField{Name: nm, Type: c09Types[c.Rng.Intn(len(c09Types))]})
			}
		}
		embT := reflect.StructOf(fields)
		var st reflect.Type
		func() {
			defer func() { recover() }()
			st = reflect.StructOf([]reflect.StructField{{Name: "Z", Type: c09Types[0]}, {Name: "Emb", Type: embT, Anonymous: true}})
		}()
		if st == nil {
			continue
		}
		a := render(conf.FieldsFromStruct(st), append([]string{"Z", "Emb"}, c09Names...))
		for k := 0; k < 5; k++ {
			if b := render(conf.FieldsFromStruct(st), append([]string{"Z", "Emb"}, c09Names...)); a != b {
				r.Violate(Violation{What: "conf.FieldsFromStruct built different tables for the same type", Key: "c09:fields-table-differs", Input: st.String(), Expect: a, Got: b})
			}
		}
		r.Count("fields-table-compared", 1)
		r.Case("fields:"+st.String(), len(fields) > 0)
	}
	for i := 0; i < n; i++ {
		env := map[string]interface{}{}
		var ents []*Sx
		for _, nm := range c09Names {
			if c.Rng.Intn(3) > 0 {
				t := c09Types[c.Rng.Intn(len(c09Types))]
				env[nm] = reflect.Zero(t).Interface()
				ents = append(ents, L(A(nm), SStr(t.String())))
			}
		}
		c.Rng.Shuffle(len(ents), func(a, b int) { ents[a], ents[b] = ents[b], ents[a] })
		tbl := conf.CreateTypesTable(env)
		q := make([]*Sx, len(c09Names))
		for j, nm := range c09Names {
			q[j] = A(nm)
		}
		add(T("c09-typesmap", T("emb", ents...), T("query", q...)), render(tbl, c09Names), fmt.Sprint("typesmap:", len(env), ":", i))
		r.Count("typesmap-compared", 1)
		r.Case(fmt.Sprint("typesmap:", i), len(env) > 1)
	}
	// Config.Check
	fnZoo := map[string]interface{}{
		"good2": func(a, b int) int { return 0 }, "good2s": func(a, b string) bool { return true },
		"one": func(a int) int { return 0 }, "three": func(a, b, c int) int { return 0 },
		"noOut": func(a, b int) {}, "twoOut": func(a, b int) (int, int) { return 0, 0 }, "notFn": 42,
	}
	fnNames := []string{"good2", "good2s", "one", "three", "noOut", "twoOut", "notFn", "absent"}
	for i := 0; i < n; i++ {
		cfg := conf.New(fnZoo)
		cfg.Operators = conf.OperatorsTable{}
		var ops []*Sx
		for _, op := range []string{"+", "-", "*", "=="} {
			if c.Rng.Intn(2) == 0 {
				continue
			}
			var fns []string
			for k := c.Rng.Intn(3); k >= 0; k-- {
				f := fnNames[c.Rng.Intn(len(fnNames))]
				if c.Rng.Intn(3) > 0 {
					f = fnNames[c.Rng.Intn(2)] // mostly valid
				}
				fns = append(fns, f)
			}
			cfg.Operators[op] = fns
			e := []*Sx{SStr(op)}
			for _, f := range fns {
				e = append(e, A(f))
			}
			ops = append(ops, L(e...))
		}
		var cf []*Sx
		for _, nm := range []string{"good2", "one", "notFn"} {
			if c.Rng.Intn(3) == 0 {
				cfg.ConstExprFns[nm] = reflect.ValueOf(fnZoo[nm])
				cf = append(cf, L(A(nm), SBool(reflect.ValueOf(fnZoo[nm]).Kind() == reflect.Func)))
			}
		}
		deferred := "no"
		if c.Rng.Intn(6) == 0 {
			cfg.Error(fmt.Errorf("deferred"))
			deferred = "yes"
		}
		c.Rng.Shuffle(len(ops), func(a, b int) { ops[a], ops[b] = ops[b], ops[a] })
		c.Rng.Shuffle(len(cf), func(a, b int) { cf[a], cf[b] = cf[b], cf[a] })
		got := "ok"
		func() {
			defer func() {
				if rec := recover(); rec != nil {
					got = "panic"
				}
			}()
			if cfg.Check() != nil {
				got = "err"
			}
		}()
		isfunc := []*Sx{A("good2"), A("good2s"), A("one"), A("three"), A("noOut"), A("twoOut")}
		goodsig := []*Sx{A("good2"), A("good2s"), A("noOut")} // NumIn == 2 and NumOut == 1 … noOut has NumOut 0
		goodsig = []*Sx{A("good2"), A("good2s")}
		add(T("c09-check", T("ops", ops...), T("isfunc", isfunc...), T("goodsig", goodsig...), T("cfns", cf...), T("deferred", A(deferred))), got, fmt.Sprint("check:", i))
		r.Count("check-compared", 1)
		r.Case(fmt.Sprint("check:", cfg.Operators, len(cf), deferred), len(ops) > 0)
	}
	resp, err := c.AskAll(reqs)
	if err != nil {
		r.Mismatch("driver", "c09 loop models", err.Error(), "")
		return
	}
	for i := range resp {
		if resp[i] != want[i] {
			r.Mismatch("c09-loop-model", keys[i]+" "+reqs[i], resp[i], want[i])
		}
	}
}

// c09ConfigCheckOrder: observation, not a violation — with two invalid Operator options the *text* of the
// error depends on Go's map iteration order (Props/C09.lean, config_check_error_choice_depends_on_order);
// error versus success never does.
func c09ConfigCheckOrder(c *Ctx) {
	r := c.R
	env := fxNewEnv(0)
	opts := []expr.Option{expr.Env(env), expr.Operator("+", "Nope1"), expr.Operator("-", "Nope2"), expr.Operator("*", "Nope3")}
	texts := map[string]int{}
	for i := 0; i < 200; i++ {
		p, err, pan := fxCompile("I + J", opts)
		if pan != "" {
			texts["PANIC"]++
			continue
		}
		if err == nil || p != nil {
			r.Violate(Violation{What: "Compile with invalid Operator options succeeded on some iteration orders", Key: "c09:config-check-verdict-differs",
				Input: "I + J with Operator(+,Nope1) Operator(-,Nope2) Operator(*,Nope3)", Expect: "an error every time", Got: "success"})
			return
		}
		texts[err.Error()]++
	}
	var ks []string
	for k := range texts {
		ks = append(ks, k)
	}
	sort.Strings(ks)
	r.Count("config-check-distinct-error-texts", len(ks))
	r.Note("observation (not a violation of C09): Compile with three invalid Operator options returned %d distinct error texts over 200 calls (map iteration order in conf.(*Config).Check): %v", len(ks), ks)
}
