package main

// C11 — parsing follows the documented precedence and associativity.
//
// (i) Correspondence: the executable Lean model of parser.go (`parse` stage of the driver) and the
//     real parser.Parse are run on the same token lists (lexed by the real lexer): all token
//     sequences up to a length bound over several alphabets, printed random trees, mutated printed
//     trees.  Compared: the tree with all locations, or the error position.
// (ii) Property oracle on the real code: a tree generator over all node forms (canonical trees of
//     DESIGN Appendix B), a printer written from the documented table (Props/C11.lean `Ref.*`, NOT
//     from the parser) with three parenthesis policies and random whitespace; the real parser must
//     give the tree back.

import (
	"fmt"
	"math"
	"regexp"
	"sort"
	"strconv"
	"strings"
	"time"

	"github.com/antonmedv/expr/ast"
	"github.com/antonmedv/expr/file"
	"github.com/antonmedv/expr/parser"
	"github.com/antonmedv/expr/parser/lexer"
)

// ---------------------------------------------------------------------------------------------
// the documented table (reference; mirrored by hand in lean/ExprModel/Props/C11.lean, `Ref`)

type refOp struct {
	prec  int
	right bool
}

var refUnary = map[string]int{"not": 50, "!": 50, "-": 500, "+": 500}

var refBinary = map[string]refOp{
	"or": {10, false}, "||": {10, false}, "and": {15, false}, "&&": {15, false},
	"==": {20, false}, "!=": {20, false}, "<": {20, false}, ">": {20, false}, ">=": {20, false}, "<=": {20, false},
	"not in": {20, false}, "in": {20, false}, "matches": {20, false}, "contains": {20, false},
	"startsWith": {20, false}, "endsWith": {20, false},
	"..": {25, false}, "+": {30, false}, "-": {30, false}, "*": {60, false}, "/": {60, false}, "%": {60, false},
	"**": {70, true},
}

var refBuiltins = map[string]int{"len": 1, "all": 2, "none": 2, "any": 2, "one": 2, "filter": 2, "map": 2, "count": 2}

func sortedKeys11(m interface{}) []string {
	var out []string
	switch mm := m.(type) {
	case map[string]int:
		for k := range mm {
			out = append(out, k)
		}
	case map[string]refOp:
		for k := range mm {
			out = append(out, k)
		}
	}
	sort.Strings(out)
	return out
}

// ---------------------------------------------------------------------------------------------
// running the real parser and the model

type parseOutcome struct {
	s    string // (ok tree) | (err line col) | (panic ..)
	tree ast.Node
	msg  string
}

func implParse(src string) (out parseOutcome) {
	defer func() {
		if r := recover(); r != nil {
			out = parseOutcome{s: "(panic)", msg: fmt.Sprint(r)}
		}
	}()
	tree, err := parser.Parse(src)
	if err != nil {
		if fe, ok := err.(*file.Error); ok {
			return parseOutcome{s: T("err", SInt(int64(fe.Line)), SInt(int64(fe.Column))).String(), msg: fe.Message}
		}
		return parseOutcome{s: "(err -1 -1)", msg: err.Error()}
	}
	return parseOutcome{s: T("ok", nodeSx(tree.Node, false)).String(), tree: tree.Node}
}

// modelRequest lexes src with the real lexer and builds the `(parse …)` request; ok=false on a lexer error.
func modelRequest(src string) (string, bool) {
	toks, err := lexer.Lex(file.NewSource(src))
	if err != nil {
		return "", false
	}
	floats := []*Sx{A("floats")}
	badre := []*Sx{A("badre")}
	seenF, seenR := map[string]bool{}, map[string]bool{}
	for _, t := range toks {
		switch t.Kind {
		case lexer.Number:
			v := strings.Replace(t.Value, "_", "", -1)
			// oracle for strconv.ParseFloat, keyed by the text handed to it (underscores removed)
			if strings.ContainsAny(v, ".eE") && !seenF[v] {
				seenF[v] = true
				f, err := strconv.ParseFloat(v, 64)
				if err != nil {
					floats = append(floats, L(SStr(v), A("err")))
				} else {
					floats = append(floats, L(SStr(v), SUint(math.Float64bits(f))))
				}
			}
		case lexer.String:
			if !seenR[t.Value] {
				seenR[t.Value] = true
				if _, err := regexp.Compile(t.Value); err != nil {
					badre = append(badre, SStr(t.Value))
				}
			}
		}
	}
	return T("parse", tokensSx(toks), L(floats...), L(badre...)).String(), true
}

// correspond runs model and code on every source; returns the number of accepted inputs.
func (c *Ctx) correspond(stage string, srcs []string) int {
	r := c.R
	var lines []string
	var kept []string
	for _, s := range srcs {
		req, ok := modelRequest(s)
		if !ok {
			r.Count(stage+":lex-error", 1)
			continue
		}
		lines = append(lines, req)
		kept = append(kept, s)
	}
	resp, err := c.AskAll(lines)
	if err != nil {
		r.Mismatch("driver", stage, err.Error(), "")
		return 0
	}
	accepted := 0
	done := make(chan struct{})
	go func() {
		defer close(done)
		for i, s := range kept {
			impl := implParse(s)
			r.Case(stage+":"+s, len(s) > 1)
			if impl.tree != nil {
				accepted++
				r.Count(stage+":accepted", 1)
			} else {
				r.Count(stage+":rejected", 1)
			}
			if impl.s != resp[i] {
				r.Mismatch(stage, s, resp[i], impl.s+" "+impl.msg)
			}
			c.refCompare(stage, s, impl)
			if impl.tree != nil {
				c.eraseCheck(s, impl.tree)
			}
		}
	}()
	select {
	case <-done:
	case <-time.After(20 * time.Minute):
		r.Mismatch(stage, "batch", "", "(timeout)")
	}
	return accepted
}

// all sequences over `alpha` of length 1..n, joined by blanks
func sequences(alpha []string, n int) []string {
	var out []string
	var rec func(prefix []string, k int)
	rec = func(prefix []string, k int) {
		if len(prefix) > 0 {
			out = append(out, strings.Join(prefix, " "))
		}
		if k == 0 {
			return
		}
		for _, a := range alpha {
			rec(append(prefix, a), k-1)
		}
	}
	rec(nil, n)
	return out
}

// ---------------------------------------------------------------------------------------------
// tree generator (canonical trees, Appendix B)

type gen struct {
	c *Ctx
}

var identPool = []string{"a", "b", "c", "foo", "bar_1", "$x", "_y", "lenx", "nilly", "trueish", "notx", "inner"}
var funcPool = []string{"f", "g", "call_1", "lens", "maps"}
var memberPool = []string{"x", "y", "Field", "name_1", "in", "matches", "and", "true", "nil", "len", "contains"}
var stringPool = []string{"", "s", "abc", "a b", "it's", "say \"hi\"", "back\\slash", "tab\there", "nl\nx", "^a.*b$", "[0-9]+", "(", "x)", "?.", "äö", "#", "{k: v}"}
var regexPool = []string{"^a.*b$", "[0-9]+", "abc", "", "a|b", "\\d+"}

func (g *gen) pick(xs []string) string { return xs[g.c.Rng.Intn(len(xs))] }

func (g *gen) leaf(cd int) ast.Node {
	switch k := g.c.Rng.Intn(9); {
	case k == 0:
		return &ast.NilNode{}
	case k == 1:
		return &ast.BoolNode{Value: g.c.Rng.Intn(2) == 0}
	case k == 2:
		vals := []int{0, 1, 2, 7, 42, 1000000, math.MaxInt32, math.MaxInt64}
		return &ast.IntegerNode{Value: vals[g.c.Rng.Intn(len(vals))]}
	case k == 3:
		vals := []float64{0, 0.5, 1.5, 3.14159, 1e10, 2.5e-7, 1e100, math.MaxFloat64, 5e-324}
		return &ast.FloatNode{Value: vals[g.c.Rng.Intn(len(vals))]}
	case k == 4:
		return &ast.StringNode{Value: g.pick(stringPool)}
	case k == 5 && cd > 0:
		return &ast.PointerNode{}
	default:
		return &ast.IdentifierNode{Value: g.pick(identPool)}
	}
}

func (g *gen) list(depth, cd, max int) []ast.Node {
	n := g.c.Rng.Intn(max + 1)
	out := make([]ast.Node, 0, n)
	for i := 0; i < n; i++ {
		out = append(out, g.expr(depth, cd))
	}
	return out
}

var binKeys = sortedKeys11(refBinary)
var unKeys = sortedKeys11(refUnary)
var builtinKeys = sortedKeys11(refBuiltins)

// expr generates a canonical tree of height ≤ depth at closure depth cd
func (g *gen) expr(depth, cd int) ast.Node {
	if depth <= 1 {
		return g.leaf(cd)
	}
	d := depth - 1
	switch k := g.c.Rng.Intn(20); k {
	case 0, 1:
		return &ast.UnaryNode{Operator: g.pick(unKeys), Node: g.expr(d, cd)}
	case 2, 3, 4, 5, 6:
		op := g.pick(binKeys)
		l := g.expr(d, cd)
		if op == "matches" {
			var r ast.Node
			var re *regexp.Regexp
			if g.c.Rng.Intn(3) > 0 {
				s := g.pick(regexPool)
				r = &ast.StringNode{Value: s}
				re = regexp.MustCompile(s)
			} else {
				r = g.expr(d, cd)
				if s, ok := r.(*ast.StringNode); ok {
					var err error
					re, err = regexp.Compile(s.Value)
					if err != nil {
						s.Value = "abc"
						re = regexp.MustCompile("abc")
					}
				}
			}
			return &ast.MatchesNode{Regexp: re, Left: l, Right: r}
		}
		return &ast.BinaryNode{Operator: op, Left: l, Right: g.expr(d, cd)}
	case 7:
		c := g.expr(d, cd)
		if g.c.Rng.Intn(4) == 0 {
			return &ast.ConditionalNode{Cond: c, Exp1: c, Exp2: g.expr(d, cd)}
		}
		return &ast.ConditionalNode{Cond: c, Exp1: g.expr(d, cd), Exp2: g.expr(d, cd)}
	case 8, 9:
		ns := g.c.Rng.Intn(3) == 0
		return &ast.PropertyNode{Node: g.base(d, cd, ns), Property: g.pick(memberPool), NilSafe: ns}
	case 10:
		ns := g.c.Rng.Intn(3) == 0
		return &ast.MethodNode{Node: g.base(d, cd, ns), Method: g.pick(memberPool), Arguments: g.list(d, cd, 3), NilSafe: ns}
	case 11:
		return &ast.IndexNode{Node: g.base(d, cd, false), Index: g.expr(d, cd)}
	case 12:
		s := &ast.SliceNode{Node: g.base(d, cd, false)}
		if g.c.Rng.Intn(2) == 0 {
			s.From = g.expr(d, cd)
		}
		if g.c.Rng.Intn(2) == 0 {
			s.To = g.expr(d, cd)
		}
		return s
	case 13:
		return &ast.FunctionNode{Name: g.pick(funcPool), Arguments: g.list(d, cd, 3)}
	case 14, 15:
		name := g.pick(builtinKeys)
		if refBuiltins[name] == 1 {
			return &ast.BuiltinNode{Name: name, Arguments: []ast.Node{g.expr(d, cd)}}
		}
		return &ast.BuiltinNode{Name: name, Arguments: []ast.Node{g.expr(d, cd), &ast.ClosureNode{Node: g.expr(d, cd+1)}}}
	case 16:
		return &ast.ArrayNode{Nodes: g.list(d, cd, 3)}
	case 17:
		n := g.c.Rng.Intn(4)
		m := &ast.MapNode{Pairs: []ast.Node{}}
		for i := 0; i < n; i++ {
			var key ast.Node
			if g.c.Rng.Intn(3) == 0 {
				key = g.expr(d, cd)
			} else {
				key = &ast.StringNode{Value: g.pick([]string{"k", "key_2", "12", "1.5", "a b", "", "true", "x"})}
			}
			m.Pairs = append(m.Pairs, &ast.PairNode{Key: key, Value: g.expr(d, cd)})
		}
		return m
	default:
		return g.leaf(cd)
	}
}

// base generates the object of a member access / index; an identifier directly under `?.` gets NilSafe
func (g *gen) base(depth, cd int, nilsafeLink bool) ast.Node {
	n := g.expr(depth, cd)
	if id, ok := n.(*ast.IdentifierNode); ok && nilsafeLink && g.c.Rng.Intn(4) > 0 {
		id.NilSafe = true
	}
	return n
}

// ---------------------------------------------------------------------------------------------
// printer (reference omission rule of Appendix B)

const (
	polMinimal = iota
	polFull
	polRandom
)

const (
	fNone  = -1 // no binary operator and no `?` follows
	fQuest = -2 // the text is the condition of a conditional: `?` follows
)

type printer struct {
	c       *Ctx
	policy  int
	variety bool // use alternative spellings (`?:`, `.x` shorthand, hex, identifier map keys …)
}

func (p *printer) extra(n ast.Node) int {
	if id, ok := n.(*ast.IdentifierNode); ok && id.NilSafe {
		return 0 // see probe c11:paren-ident-nilsafe
	}
	switch p.policy {
	case polFull:
		return 1
	case polRandom:
		switch k := p.c.Rng.Intn(8); {
		case k == 0:
			return 1
		case k == 1:
			return 2
		}
	}
	return 0
}

func quoteStr(s string, q byte) string {
	var b strings.Builder
	b.WriteByte(q)
	for i := 0; i < len(s); i++ {
		ch := s[i]
		switch {
		case ch == '\\':
			b.WriteString("\\\\")
		case ch == q:
			b.WriteByte('\\')
			b.WriteByte(q)
		case ch == '\n':
			b.WriteString("\\n")
		case ch == '\t':
			b.WriteString("\\t")
		case ch == '\r':
			b.WriteString("\\r")
		default:
			b.WriteByte(ch)
		}
	}
	b.WriteByte(q)
	return b.String()
}

func (p *printer) str(s string) string {
	if p.variety && p.c.Rng.Intn(2) == 0 {
		return quoteStr(s, '\'')
	}
	return quoteStr(s, '"')
}

func fmtFloat(v float64) string {
	s := strconv.FormatFloat(v, 'g', -1, 64)
	if !strings.ContainsAny(s, ".eE") {
		s += ".0"
	}
	return s
}

func (p *printer) intLit(v int) string {
	if p.variety {
		switch p.c.Rng.Intn(6) {
		case 0:
			return fmt.Sprintf("0x%x", v)
		case 1:
			if v >= 1000 {
				s := strconv.Itoa(v)
				return s[:len(s)-3] + "_" + s[len(s)-3:]
			}
		}
	}
	return strconv.Itoa(v)
}

func isIdentLike(s string) bool {
	if s == "" {
		return false
	}
	for i, r := range s {
		alpha := r == '_' || r == '$' || (r >= 'a' && r <= 'z') || (r >= 'A' && r <= 'Z')
		if !(alpha || (i > 0 && r >= '0' && r <= '9')) {
			return false
		}
	}
	switch s {
	case "not", "in", "or", "and", "matches", "contains", "startsWith", "endsWith":
		return false
	}
	return true
}

func isNumLike(s string) bool {
	if s == "" {
		return false
	}
	for _, r := range s {
		if r < '0' || r > '9' {
			return false
		}
	}
	return true
}

func binInfo(n ast.Node) (string, refOp, ast.Node, ast.Node, bool) {
	switch b := n.(type) {
	case *ast.BinaryNode:
		return b.Operator, refBinary[b.Operator], b.Left, b.Right, true
	case *ast.MatchesNode:
		return "matches", refBinary["matches"], b.Left, b.Right, true
	}
	return "", refOp{}, nil, nil, false
}

// needParens: the documented omission rule in context (p, f)
func needParens(n ast.Node, prec, f int) bool {
	if _, op, _, _, ok := binInfo(n); ok {
		return op.prec < prec
	}
	switch u := n.(type) {
	case *ast.UnaryNode:
		return f >= 0 && f >= refUnary[u.Operator]
	case *ast.ConditionalNode:
		return !(prec == 0 && f == fNone)
	}
	return false
}

// expr prints n in context (prec, f)
func (p *printer) expr(n ast.Node, prec, f int) []string {
	k := p.extra(n)
	if k == 0 && needParens(n, prec, f) {
		k = 1
	}
	if k == 0 {
		return p.body(n, prec, f)
	}
	out := []string{}
	for i := 0; i < k; i++ {
		out = append(out, "(")
	}
	out = append(out, p.body(n, 0, fNone)...)
	for i := 0; i < k; i++ {
		out = append(out, ")")
	}
	return out
}

func (p *printer) commaList(ns []ast.Node) []string {
	var out []string
	for i, a := range ns {
		if i > 0 {
			out = append(out, ",")
		}
		out = append(out, p.expr(a, 0, fNone)...)
	}
	return out
}

func postfixable(n ast.Node) bool {
	switch n.(type) {
	case *ast.IdentifierNode, *ast.FunctionNode, *ast.BuiltinNode, *ast.ArrayNode, *ast.MapNode, *ast.PointerNode,
		*ast.PropertyNode, *ast.MethodNode, *ast.IndexNode, *ast.SliceNode:
		return true
	}
	return false
}

// base prints the object of a postfix link; member links pass the link's NilSafe flag.
// Returns the tokens and the sticky nil-safe state in force after them.
func (p *printer) base(x ast.Node, member, s bool) ([]string, bool) {
	if postfixable(x) && p.extra(x) == 0 {
		toks, ns := p.chain(x)
		ok := true
		if member && ns && !s {
			ok = false // the chain is already nil-safe, a plain link must restart it
		}
		if id, isId := x.(*ast.IdentifierNode); isId {
			if member && id.NilSafe != s {
				ok = false
			}
			if !member && id.NilSafe {
				ok = false
			}
		}
		if ok {
			return toks, ns
		}
	}
	k := p.extra(x)
	if k == 0 {
		k = 1
	}
	out := []string{}
	for i := 0; i < k; i++ {
		out = append(out, "(")
	}
	out = append(out, p.body(x, 0, fNone)...)
	for i := 0; i < k; i++ {
		out = append(out, ")")
	}
	return out, false
}

func (p *printer) link(ns, s bool) (string, bool) {
	if ns {
		// already sticky: both spellings give a nil-safe link (the reference printer writes `?.`)
		if p.variety && p.c.Rng.Intn(2) == 0 {
			return ".", true
		}
		return "?.", true
	}
	if s {
		return "?.", true
	}
	return ".", false
}

// chain prints a postfix-able primary bare and returns the sticky state after it
func (p *printer) chain(n ast.Node) ([]string, bool) {
	switch x := n.(type) {
	case *ast.PropertyNode:
		if _, isPtr := x.Node.(*ast.PointerNode); isPtr && !x.NilSafe && p.variety && p.c.Rng.Intn(2) == 0 {
			return []string{".", x.Property}, false // `.name` shorthand for `#.name`
		}
		toks, ns := p.base(x.Node, true, x.NilSafe)
		l, ns2 := p.link(ns, x.NilSafe)
		return append(toks, l, x.Property), ns2
	case *ast.MethodNode:
		toks, ns := p.base(x.Node, true, x.NilSafe)
		l, ns2 := p.link(ns, x.NilSafe)
		toks = append(toks, l, x.Method, "(")
		toks = append(toks, p.commaList(x.Arguments)...)
		return append(toks, ")"), ns2
	case *ast.IndexNode:
		toks, ns := p.base(x.Node, false, false)
		toks = append(toks, "[")
		toks = append(toks, p.expr(x.Index, 0, fNone)...)
		return append(toks, "]"), ns
	case *ast.SliceNode:
		toks, ns := p.base(x.Node, false, false)
		toks = append(toks, "[")
		if x.From != nil {
			toks = append(toks, p.expr(x.From, 0, fNone)...)
		}
		toks = append(toks, ":")
		if x.To != nil {
			toks = append(toks, p.expr(x.To, 0, fNone)...)
		}
		return append(toks, "]"), ns
	}
	return p.body(n, 0, fNone), false
}

func (p *printer) body(n ast.Node, prec, f int) []string {
	if opName, op, l, r, ok := binInfo(n); ok {
		lp, rp := op.prec, op.prec+1
		if op.right {
			lp, rp = op.prec+1, op.prec
		}
		out := p.expr(l, lp, op.prec)
		out = append(out, opName)
		return append(out, p.expr(r, rp, f)...)
	}
	switch x := n.(type) {
	case *ast.NilNode:
		return []string{"nil"}
	case *ast.BoolNode:
		if x.Value {
			return []string{"true"}
		}
		return []string{"false"}
	case *ast.IntegerNode:
		return []string{p.intLit(x.Value)}
	case *ast.FloatNode:
		return []string{fmtFloat(x.Value)}
	case *ast.StringNode:
		return []string{p.str(x.Value)}
	case *ast.IdentifierNode:
		return []string{x.Value}
	case *ast.PointerNode:
		return []string{"#"}
	case *ast.UnaryNode:
		ff := f
		if ff == fQuest {
			ff = fNone
		}
		return append([]string{x.Operator}, p.expr(x.Node, refUnary[x.Operator], ff)...)
	case *ast.ConditionalNode:
		out := p.expr(x.Cond, 0, fQuest)
		if x.Exp1 == x.Cond && p.variety && p.c.Rng.Intn(2) == 0 {
			out = append(out, "?", ":")
			return append(out, p.expr(x.Exp2, 0, fNone)...)
		}
		out = append(out, "?")
		out = append(out, p.expr(x.Exp1, 0, fNone)...)
		out = append(out, ":")
		return append(out, p.expr(x.Exp2, 0, fNone)...)
	case *ast.PropertyNode, *ast.MethodNode, *ast.IndexNode, *ast.SliceNode:
		toks, _ := p.chain(n)
		return toks
	case *ast.FunctionNode:
		out := []string{x.Name, "("}
		out = append(out, p.commaList(x.Arguments)...)
		return append(out, ")")
	case *ast.BuiltinNode:
		out := []string{x.Name, "("}
		out = append(out, p.expr(x.Arguments[0], 0, fNone)...)
		if len(x.Arguments) == 2 {
			out = append(out, ",", "{")
			out = append(out, p.expr(x.Arguments[1].(*ast.ClosureNode).Node, 0, fNone)...)
			out = append(out, "}")
		}
		return append(out, ")")
	case *ast.ArrayNode:
		out := []string{"["}
		out = append(out, p.commaList(x.Nodes)...)
		if len(x.Nodes) > 0 && p.variety && p.c.Rng.Intn(4) == 0 {
			out = append(out, ",")
		}
		return append(out, "]")
	case *ast.MapNode:
		out := []string{"{"}
		for i, pn := range x.Pairs {
			pair := pn.(*ast.PairNode)
			if i > 0 {
				out = append(out, ",")
			}
			if s, ok := pair.Key.(*ast.StringNode); ok && !(p.policy != polMinimal && p.c.Rng.Intn(4) == 0) {
				switch {
				case p.variety && isIdentLike(s.Value) && p.c.Rng.Intn(2) == 0:
					out = append(out, s.Value)
				case p.variety && isNumLike(s.Value) && p.c.Rng.Intn(2) == 0:
					out = append(out, s.Value)
				default:
					out = append(out, p.str(s.Value))
				}
			} else {
				out = append(out, "(")
				out = append(out, p.body(pair.Key, 0, fNone)...)
				out = append(out, ")")
			}
			out = append(out, ":")
			out = append(out, p.expr(pair.Value, 0, fNone)...)
		}
		if len(x.Pairs) > 0 && p.variety && p.c.Rng.Intn(4) == 0 {
			out = append(out, ",")
		}
		return append(out, "}")
	}
	panic(fmt.Sprintf("c11 printer: %T", n))
}

// ---------------------------------------------------------------------------------------------
// whitespace (reference rule: blanks are needed only where two tokens would otherwise fuse)

func wordy(r byte) bool {
	return r == '_' || r == '$' || (r >= '0' && r <= '9') || (r >= 'a' && r <= 'z') || (r >= 'A' && r <= 'Z') || r >= 0x80
}

// c11AnySpace: the shape of lexer.acceptWord found in the source by the translator (driver stage `(acceptword)`):
// true = `not` and `in` may be separated by any white space and `in` ends at any non-alphanumeric rune.
var c11AnySpace bool

func c11InitAcceptWord(c *Ctx) {
	resp, err := c.AskAll([]string{"(acceptword)"})
	if err != nil {
		c.R.Mismatch("driver", "acceptword", err.Error(), "")
		return
	}
	m, perr := ParseSx(resp[0])
	if perr != nil || m.Tag() != "acceptword" || len(m.List) != 2 {
		c.R.Mismatch("driver", "acceptword", resp[0], "(acceptword <anySpace>)")
		return
	}
	c11AnySpace = m.List[1].Atom == "true"
	c.R.Note("lexer.acceptWord shape derived from the source: anySpace=%v", c11AnySpace)
}

func needSpace(a, b string) bool {
	la, fb := a[len(a)-1], b[0]
	if wordy(la) && wordy(fb) {
		return true
	}
	if a == "not in" && !c11AnySpace {
		return true // old acceptWord: the lexer requires a U+0020 or the end of input after `in` (Appendix B)
	}
	if len(a) == 1 && strings.IndexByte("&|!=*<>", la) >= 0 && strings.IndexByte("&|=*", fb) >= 0 {
		return true
	}
	if a == "?" && fb == '.' {
		return true
	}
	if (a == "." || a == "..") && (fb == '.' || (fb >= '0' && fb <= '9')) {
		return true
	}
	if a == "?." && (fb == '.' || fb == '?') {
		return true
	}
	if la >= '0' && la <= '9' && fb == '.' && b != ".." {
		return true
	}
	return false
}

// every rune of unicode.IsSpace occurs (the lexer's IsSpace is the documented white space rule)
var spaces = []string{" ", "  ", "\t", "\n", " \n ", "\r\n", "\u00a0 ", "\u2003", "\v", "\f", "\r", "\u0085", "\u1680", "\u2000", "\u2001", "\u2002",
	"\u2004", "\u2005", "\u2006", "\u2007", "\u2008", "\u2009", "\u200a", "\u2028", "\u2029", "\u202f", "\u205f", "\u3000", " \v ", "\f\t"}

func (c *Ctx) layout(toks []string, mode int) string {
	var b strings.Builder
	for i, t := range toks {
		if i > 0 {
			ns := needSpace(toks[i-1], t)
			switch {
			case mode == 0: // canonical: single blanks
				b.WriteByte(' ')
			case mode == 1: // tight
				if ns {
					b.WriteByte(' ')
				}
			default: // random
				if toks[i-1] == "not in" && !c11AnySpace {
					b.WriteByte(' ')
				}
				if ns || c.Rng.Intn(2) == 0 {
					if !(toks[i-1] == "not in") || c11AnySpace || c.Rng.Intn(2) == 0 {
						b.WriteString(spaces[c.Rng.Intn(len(spaces))])
					}
				}
			}
		} else if mode == 2 && c.Rng.Intn(3) == 0 {
			b.WriteString(spaces[c.Rng.Intn(len(spaces))])
		}
		if t == "not in" && mode == 2 && c11AnySpace {
			// fixed acceptWord: any non-empty run of white space between the two words
			b.WriteString("not" + spaces[c.Rng.Intn(len(spaces))] + "in")
			c.R.Count("layout:not-in-any-space", 1)
		} else {
			b.WriteString(t)
		}
	}
	if mode == 2 && c.Rng.Intn(3) == 0 {
		b.WriteString(spaces[c.Rng.Intn(len(spaces))])
	}
	return b.String()
}

// ---------------------------------------------------------------------------------------------
// structural comparison (locations and types ignored)

func stripMeta(s *Sx) *Sx {
	if !s.IsL {
		return s
	}
	out := make([]*Sx, 0, len(s.List))
	for i, x := range s.List {
		if i == 1 && x.IsL && len(x.List) == 4 && !x.List[0].IsL && x.List[0].Atom == "@" {
			continue
		}
		out = append(out, stripMeta(x))
	}
	return L(out...)
}

func shape(n ast.Node) string { return stripMeta(nodeSx(n, false)).String() }

func constructKey(n ast.Node) string {
	name := fmt.Sprintf("%T", n)
	name = strings.TrimSuffix(strings.TrimPrefix(name, "*ast."), "Node")
	switch x := n.(type) {
	case *ast.BinaryNode:
		return "binary:" + strings.Replace(x.Operator, " ", "_", -1)
	case *ast.UnaryNode:
		return "unary:" + x.Operator
	}
	return strings.ToLower(name)
}

func countKinds(r *Report, n ast.Node) {
	if n == nil {
		return
	}
	r.Count("kind:"+constructKey(n), 1)
	switch x := n.(type) {
	case *ast.UnaryNode:
		countKinds(r, x.Node)
	case *ast.BinaryNode:
		countKinds(r, x.Left)
		countKinds(r, x.Right)
	case *ast.MatchesNode:
		countKinds(r, x.Left)
		countKinds(r, x.Right)
	case *ast.PropertyNode:
		countKinds(r, x.Node)
	case *ast.IndexNode:
		countKinds(r, x.Node)
		countKinds(r, x.Index)
	case *ast.SliceNode:
		countKinds(r, x.Node)
		if x.From != nil {
			countKinds(r, x.From)
		}
		if x.To != nil {
			countKinds(r, x.To)
		}
	case *ast.MethodNode:
		countKinds(r, x.Node)
		for _, a := range x.Arguments {
			countKinds(r, a)
		}
	case *ast.FunctionNode:
		for _, a := range x.Arguments {
			countKinds(r, a)
		}
	case *ast.BuiltinNode:
		for _, a := range x.Arguments {
			countKinds(r, a)
		}
	case *ast.ClosureNode:
		countKinds(r, x.Node)
	case *ast.ConditionalNode:
		countKinds(r, x.Cond)
		countKinds(r, x.Exp1)
		countKinds(r, x.Exp2)
	case *ast.ArrayNode:
		for _, a := range x.Nodes {
			countKinds(r, a)
		}
	case *ast.MapNode:
		for _, a := range x.Pairs {
			countKinds(r, a)
		}
	case *ast.PairNode:
		countKinds(r, x.Key)
		countKinds(r, x.Value)
	}
}

// ---------------------------------------------------------------------------------------------
// exhaustive small trees over a reduced operator alphabet (one operator per level / associativity)

func smallTrees(depth int, binOps, unOps []string) []ast.Node {
	id := func(s string) ast.Node { return &ast.IdentifierNode{Value: s} }
	if depth <= 1 {
		return []ast.Node{id("a")}
	}
	sub := smallTrees(depth-1, binOps, unOps)
	out := []ast.Node{id("a")}
	for _, o := range binOps {
		for _, l := range sub {
			for _, r := range sub {
				if o == "matches" {
					out = append(out, &ast.MatchesNode{Left: l, Right: r})
				} else {
					out = append(out, &ast.BinaryNode{Operator: o, Left: l, Right: r})
				}
			}
		}
	}
	for _, o := range unOps {
		for _, x := range sub {
			out = append(out, &ast.UnaryNode{Operator: o, Node: x})
		}
	}
	for _, x := range sub {
		out = append(out, &ast.PropertyNode{Node: x, Property: "p"})
		out = append(out, &ast.PropertyNode{Node: x, Property: "p", NilSafe: true})
		for _, y := range sub {
			out = append(out, &ast.IndexNode{Node: x, Index: y})
		}
	}
	if depth <= 3 {
		for _, x := range sub {
			for _, y := range sub {
				for _, z := range sub {
					if depth == 3 && len(sub) > 20 {
						// keep the cube small: at least one leaf among the three
						if x != sub[0] && y != sub[0] && z != sub[0] {
							continue
						}
					}
					out = append(out, &ast.ConditionalNode{Cond: x, Exp1: y, Exp2: z})
				}
			}
		}
	}
	return out
}

// ---------------------------------------------------------------------------------------------
// tie of the two reference printers: the Go printer with the minimal policy and no alternative spellings
// must produce the token list of the Lean `print` (the printer of theorem parse_print) on the same tree

func (c *Ctx) printerTie(trees []ast.Node) {
	r := c.R
	var lines []string
	for _, t := range trees {
		lines = append(lines, T("pprint", nodeSx(t, false)).String())
	}
	resp, err := c.AskAll(lines)
	if err != nil {
		r.Mismatch("driver", "pprint", err.Error(), "")
		return
	}
	for i, t := range trees {
		pr := &printer{c: c, policy: polMinimal}
		src := strings.Join(pr.expr(t, 0, fNone), " ")
		toks, err := lexer.Lex(file.NewSource(src))
		if err != nil {
			r.Mismatch("pprint", src, resp[i], "lexer: "+err.Error())
			continue
		}
		var sb strings.Builder
		sb.WriteString("(toks")
		afterLink := false
		for _, tk := range toks {
			if tk.Kind == lexer.EOF {
				break
			}
			kind, val := string(tk.Kind), tk.Value
			if afterLink && tk.Kind == lexer.Operator {
				kind = "Identifier" // keyword member names are identifier tokens in the token-level printer
			}
			if tk.Kind == lexer.Number && strings.ContainsAny(val, ".eE") {
				f, _ := strconv.ParseFloat(val, 64)
				val = "f" + strconv.FormatUint(math.Float64bits(f), 10)
			}
			sb.WriteString(" (" + kind + " " + SStr(val).String() + ")")
			afterLink = tk.Kind == lexer.Operator && (tk.Value == "." || tk.Value == "?.")
		}
		sb.WriteString(")")
		r.Case("pprint:"+src, true)
		r.Count("pprint", 1)
		if sb.String() != resp[i] {
			r.Mismatch("pprint", src, resp[i], sb.String())
		}
	}
}

func (c *Ctx) oracleCheck(t ast.Node, pr *printer, mode int, what string) (string, []string) {
	r := c.R
	toks := pr.expr(t, 0, fNone)
	src := c.layout(toks, mode)
	want := shape(t)
	got := implParse(src)
	r.Case("oracle:"+src, true)
	r.Count("oracle:"+what, 1)
	if got.tree == nil {
		r.Violate(Violation{What: "printed tree rejected by the parser", Key: "c11:reject:" + constructKey(t),
			Input: src, Expect: want, Got: got.s + " " + got.msg})
		return src, toks
	}
	if g := shape(got.tree); g != want {
		key := "c11:tree:" + constructKey(t)
		// name the whitespace case separately: the same tokens with single blanks parse correctly
		if mode != 0 {
			if alt := implParse(strings.Join(toks, " ")); alt.tree != nil && shape(alt.tree) == want {
				key = "c11:whitespace:" + constructKey(t)
			}
		}
		r.Violate(Violation{What: "parse(print(t)) differs from t", Key: key, Input: src, Expect: want, Got: g})
	}
	return src, toks
}

func runC11(c *Ctx) {
	r := c.R
	r.Rule = "correspondence: all token sequences up to length n over 9 alphabets (operators, brackets, identifiers, literals; n = 4-5 quick, 5-7 thorough), printed random trees and token-mutated printed trees, Lean model vs parser.Parse on tree with locations / error position, and parser.Parse vs an independent stratified-grammar reference parser (accept/reject and tree) on the same inputs; Lean print vs the Go reference printer token by token; oracle: exhaustive trees of height <= 3 over one operator per precedence level and random canonical trees of height <= 6 over all node forms, printed by the documented omission rule with minimal / full / random parentheses and canonical / tight / random whitespace, parser.Parse(print t) = t ignoring locations; non-trivial = more than one token; distinct by source text"

	c11InitAcceptWord(c)

	// ---- (i) exhaustive token sequences
	type alpha struct {
		name   string
		toks   []string
		nq, nt int
	}
	alphas := []alpha{
		{"arith", []string{"a", "1", "+", "*", "**", "-", "(", ")"}, 5, 6},
		{"logic", []string{"a", "not", "and", "==", "!", "in", "not in", "(", ")"}, 4, 6},
		{"cond", []string{"a", "?", ":", "+", "(", ")", "not"}, 5, 7},
		{"postfix", []string{"a", ".", "?.", "[", "]", ":", "b", "(", ")", "1", "-"}, 4, 6},
		{"call", []string{"f", "len", "all", "(", ")", ",", "{", "}", "#", ".", "a"}, 4, 6},
		// word operators in member-name position: `a.not`, `a.in`, `a.matches(b)` are names, the merged token `not in` is not
		{"members", []string{"a", ".", "?.", "not", "in", "not in", "matches", "or", "(", ")", "[", "1"}, 4, 5},
		{"coll", []string{"[", "]", "{", "}", ",", ":", "a", "1", "'s'", "(", ")"}, 4, 6},
		{"lit", []string{"'x'", "'['", "matches", "true", "nil", "1.5", "0x1F", "a", "(", ")", "9223372036854775808", "=", ".."}, 4, 5},
		// string literals whose CONTENT spells an operator: operands, never operators (seed c11_7 looked the token's value
		// up in the operator tables without asking for its kind)
		{"opstrings", []string{"a", "'-'", "'+'", "'not'", "\"and\"", "'!'", "'**'", "'in'", "+", "1", "(", ")"}, 4, 5},
	}
	for _, a := range alphas {
		n := a.nq
		if c.Thorough() {
			n = a.nt
		}
		acc := c.correspond("seq:"+a.name, sequences(a.toks, n))
		if acc == 0 {
			r.Mismatch("generator", "seq:"+a.name, "no accepted input", "")
		}
	}

	// ---- (ii) oracle on printed trees; the printed texts also feed the correspondence
	g := &gen{c}
	var printed []string
	var tokLists [][]string
	binLevel := []string{"or", "and", "==", "..", "+", "*", "**"}
	small := smallTrees(3, binLevel, []string{"not", "-"})
	if c.Thorough() {
		small = append(small, smallTrees(3, []string{"||", "&&", "<", "in", "matches", "-", "/", "%", "**"}, []string{"!", "+"})...)
	}
	for i, t := range small {
		for pol := polMinimal; pol <= polRandom; pol++ {
			if pol != polMinimal && !c.Thorough() && i%3 != 0 {
				continue
			}
			pr := &printer{c: c, policy: pol}
			src, toks := c.oracleCheck(t, pr, 0, "small")
			if pol == polMinimal {
				printed = append(printed, src)
				if i%7 == 0 {
					tokLists = append(tokLists, toks)
				}
			}
		}
	}
	// every pair of binary operators, both nestings; every unary over/under every binary
	a, b, cc := &ast.IdentifierNode{Value: "a"}, &ast.IdentifierNode{Value: "b"}, &ast.IdentifierNode{Value: "c"}
	mkBin := func(o string, l, rr ast.Node) ast.Node {
		if o == "matches" {
			return &ast.MatchesNode{Left: l, Right: rr}
		}
		return &ast.BinaryNode{Operator: o, Left: l, Right: rr}
	}
	var pairs []ast.Node
	for _, o1 := range binKeys {
		for _, o2 := range binKeys {
			pairs = append(pairs, mkBin(o1, mkBin(o2, a, b), cc), mkBin(o1, a, mkBin(o2, b, cc)))
		}
		for _, u := range unKeys {
			pairs = append(pairs, &ast.UnaryNode{Operator: u, Node: mkBin(o1, a, b)}, mkBin(o1, &ast.UnaryNode{Operator: u, Node: a}, b),
				mkBin(o1, a, &ast.UnaryNode{Operator: u, Node: b}))
			for _, o2 := range binKeys {
				// unary in the middle: a o1 (u b) o2 c, the `a * not b * c` shape
				pairs = append(pairs, mkBin(o2, mkBin(o1, a, &ast.UnaryNode{Operator: u, Node: b}), cc))
			}
		}
	}
	for _, t := range pairs {
		for pol := polMinimal; pol <= polFull; pol++ {
			src, _ := c.oracleCheck(t, &printer{c: c, policy: pol}, 0, "pairs")
			if pol == polMinimal {
				printed = append(printed, src)
			}
		}
	}
	nRandom := 4000
	if c.Thorough() {
		nRandom = 60000
	}
	var tieTrees []ast.Node
	tieTrees = append(tieTrees, small...)
	tieTrees = append(tieTrees, pairs...)
	for i := 0; i < nRandom; i++ {
		depth := 2 + c.Rng.Intn(5)
		t := g.expr(depth, 0)
		countKinds(r, t)
		tieTrees = append(tieTrees, t)
		pol := i % 3
		pr := &printer{c: c, policy: pol, variety: i%2 == 1}
		src, toks := c.oracleCheck(t, pr, i%3, "random")
		printed = append(printed, src)
		if i%2 == 0 {
			tokLists = append(tokLists, toks)
		}
	}
	for _, k := range []string{"nil", "bool", "integer", "float", "string", "identifier", "pointer", "matches", "property", "method",
		"index", "slice", "function", "builtin", "closure", "conditional", "array", "map", "pair"} {
		if r.Counters["kind:"+k] == 0 {
			r.Mismatch("generator", k, "node kind never generated", "")
		}
	}
	for _, k := range binKeys {
		if k != "matches" && r.Counters["kind:binary:"+strings.Replace(k, " ", "_", -1)] == 0 {
			r.Mismatch("generator", k, "binary operator never generated", "")
		}
	}
	for _, k := range unKeys {
		if r.Counters["kind:unary:"+k] == 0 {
			r.Mismatch("generator", k, "unary operator never generated", "")
		}
	}

	// ---- probes: known oddities, each with its own stable key
	c.probes()

	// ---- the Lean reference printer and the Go reference printer agree
	c.printerTie(tieTrees)

	// ---- (i) continued: printed trees and their mutations through the model
	if c.correspond("printed", printed) == 0 {
		r.Mismatch("generator", "printed", "no accepted input", "")
	}
	var mutated []string
	for _, toks := range tokLists {
		if len(toks) < 2 {
			continue
		}
		for k := 0; k < 3; k++ {
			m := append([]string{}, toks...)
			i := c.Rng.Intn(len(m))
			switch c.Rng.Intn(3) {
			case 0:
				m = append(m[:i], m[i+1:]...)
			case 1:
				m = append(m[:i+1], m[i:]...)
			default:
				j := c.Rng.Intn(len(m))
				m[i], m[j] = m[j], m[i]
			}
			if len(m) > 0 {
				mutated = append(mutated, strings.Join(m, " "))
			}
		}
	}
	c.correspond("mutated", mutated)
	if r.Counters["mutated:rejected"] == 0 {
		r.Mismatch("generator", "mutated", "no rejected input", "")
	}
}

// probes: inputs where redundant parentheses / whitespace are known or suspected to matter.
// `same`: the property requires equal trees (a difference is a violation with its own key);
// `oddity`: Appendix B documents that the two texts differ (the reference grammar follows the code there);
// the probe pins that reading, so that a change of behaviour is noticed.
func (c *Ctx) probes() {
	r := c.R
	out := func(s string) string {
		a := implParse(s)
		if a.tree != nil {
			return shape(a.tree)
		}
		return a.s
	}
	same := func(key, what, s1, s2 string) {
		r.Case("probe:"+s1+" vs "+s2, true)
		r.Count("probes", 1)
		if sa, sb := out(s1), out(s2); sa != sb {
			r.Violate(Violation{What: what, Key: key, Input: map[string]string{"plain": s1, "variant": s2}, Expect: sa, Got: sb})
		}
	}
	oddity := func(name, s1, s2 string) {
		r.Case("probe:"+s1+" vs "+s2, true)
		r.Count("probes", 1)
		if sa, sb := out(s1), out(s2); sa == sb {
			r.Mismatch("probe", name, "Appendix B: "+s1+" and "+s2+" differ", "same outcome "+sa)
		} else {
			r.Count("oddity:"+name, 1)
		}
	}
	same("c11:paren-ident-nilsafe", "redundant parentheses around an identifier before ?. clear IdentifierNode.NilSafe", "a?.b", "(a)?.b")
	same("c11:paren-ident-nilsafe", "redundant parentheses around an identifier before ?. clear IdentifierNode.NilSafe", "a?.b()", "(a)?.b()")
	same("c11:paren-primary", "redundant parentheses around a primary change the tree", "a.b", "(a).b")
	same("c11:paren-primary", "redundant parentheses around a primary change the tree", "f(a)[0]", "((f((a))))[(0)]")
	same("c11:paren-primary", "redundant parentheses around a primary change the tree", "a?.b?.c", "(a?.b)?.c")
	// a parenthesised map key is a full expression that merely STARTS with a parenthesis
	same("c11:paren-map-key", "a map key starting with a parenthesis is not parsed as a full expression", "{(a ? b : c): d}", "{(a) ? b : c: d}")
	same("c11:paren-map-key", "a map key starting with a parenthesis is not parsed as a full expression", "{(a ?: b): c}", "{(a) ?: b: c}")
	same("c11:paren-map-key", "a map key starting with a parenthesis is not parsed as a full expression", "{(a + 1): 2}", "{(a) + 1: 2}")
	same("c11:paren-map-key", "a map key starting with a parenthesis is not parsed as a full expression", "{(a.b not in c): 2}", "{(a).b not in c: 2}")
	same("c11:whitespace", "whitespace changes the tree", "a?.b", " a ?. b ")
	same("c11:whitespace", "whitespace changes the tree", "a ? b : c", "a\n?\tb\r\n:c")
	same("c11:whitespace", "whitespace changes the tree", "a not in b", "a  not   in b")
	oddity("literal-postfix", "(\"abc\")[0]", "\"abc\"[0]")
	oddity("literal-postfix", "(1).x", "1 .x")
	oddity("literal-postfix", "(true).x", "true.x")
	oddity("unary-literal-postfix", "-(1[0])", "-1[0]")
	// `not in` is one token only when `not` and `in` are separated by U+0020 blanks and `in` is followed by U+0020 or
	// the end of the input (lexer.acceptWord): any other white space between or after makes the text a syntax error -
	// white space DOES change the outcome there (listed finding)
	same("c11:whitespace:not-in", "white space other than U+0020 inside / after `not in` changes the outcome", "a not in b", "a not\tin b")
	same("c11:whitespace:not-in", "white space other than U+0020 inside / after `not in` changes the outcome", "a not in b", "a not in\nb")
	same("c11:whitespace:not-in", "white space other than U+0020 inside / after `not in` changes the outcome", "a not in [b]", "a not in[b]")
	oddity("nilsafe-sticky", "(a?.b).c", "a?.b.c")
	oddity("unary-swallows", "a * (not b) * c", "a * not b * c")
}

func init() { props["C11"] = runC11 }
