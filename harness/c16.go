package main

// C16 — names the checker accepts are exactly those the VM resolves.
//
// Correspondence (tie): conf.CreateTypesTable, the checker's verdicts on identifiers / calls / members,
// the run-time result of fetching them, docgen's variable list, and reflect's own resolution
// (FieldByName, method sets) are compared with the Lean model (`Defects.asIs`) on every zoo type.
// Oracle (property, on the real code only): for every member name and near-miss name,
//   accepted by Compile  =>  Run on a fully populated value succeeds and yields a value of the checker's type;
//   exported member that Go resolves unambiguously (struct environments) => accepted;
//   docgen.CreateDoc(env).Variables lists exactly the accepted top-level names (+ operators, builtins).

import (
	"encoding/json"
	"fmt"
	"math/rand"
	"os"
	"os/exec"
	"reflect"
	"runtime/debug"
	"sort"
	"strings"
	"unicode"

	"github.com/antonmedv/expr"
	"github.com/antonmedv/expr/checker"
	"github.com/antonmedv/expr/conf"
	"github.com/antonmedv/expr/docgen"
	"github.com/antonmedv/expr/parser"
)

func init() {
	props["C16"] = runC16
	props["C16-cyclic-probe"] = func(c *Ctx) { c16CyclicProbe() }
	props["C16-history-probe"] = func(c *Ctx) { c16HistoryProbe() }
}

var keyedCount = map[string]int{}

// violateKeyed16 records at most 8 violations per key (the report keeps 200 in all), so that a frequent
// class cannot crowd out a rare one; the total per key is kept as a counter.
func violateKeyed16(c *Ctx, v Violation) {
	c.R.Count("violations:"+v.Key, 1)
	keyedCount[v.Key]++
	if keyedCount[v.Key] <= 8 {
		c.R.Violate(v)
	}
}

// c16Model: the model variant the real code is tied to.  `asis` = the flags of /repo's current HEAD
// (`Defects.asIs`); for a self-test against a copy of the pinned snapshot (before the fix: commits) use
// VERIF_REPO=<copy> VERIF_C16_MODEL=aswas bin/check C16, which ties the code to `Defects.asWas`.
func c16Model() string {
	if m := os.Getenv("VERIF_C16_MODEL"); m == "aswas" || m == "repaired" {
		return m
	}
	return "asis"
}

// ZCyc embeds a pointer to itself: legal Go, and conf.FieldsFromStruct recurses through it without end.
type ZCyc struct {
	Name string
	*ZCyc
}

// c16CyclicProbe runs in a child process (a stack overflow is fatal, not a panic).
func c16CyclicProbe() {
	debug.SetMaxStack(16 << 20) // fail fast: the recursion is unbounded
	env := ZCyc{Name: "a"}
	env.ZCyc = &env
	_, err := expr.Compile("Name", expr.Env(env))
	fmt.Println("compiled:", err)
	os.Exit(0)
}

func c16CyclicEmbedding(c *Ctx) {
	cmd := exec.Command(os.Args[0], "C16-cyclic-probe")
	cmd.Env = append(os.Environ(), "GOMAXPROCS=1", "GODEBUG=")
	out, err := cmd.CombinedOutput()
	c.R.Case("cyclic-pointer-embedding", true)
	if err != nil {
		msg := firstLine16(string(out))
		if i := strings.Index(string(out), "fatal error:"); i >= 0 {
			msg = firstLine16(string(out)[i:])
		}
		violateKeyed16(c, Violation{What: "an environment struct that embeds a pointer to itself crashes the process in conf.FieldsFromStruct (unbounded recursion)",
			Key: "c16:cyclic-pointer-embedding-stack-overflow", Input: c16Input{"ZCyc", "main.ZCyc (struct { Name string; *ZCyc })", "Name", "Name"},
			Expect: "Compile returns (Name resolves to the field at depth 0)", Got: msg})
	}
}

// ---- history independence
//
// conf.CreateTypesTable, docgen.CreateDoc and Compile must be functions of their argument, not of what the
// process did before.  For every struct type of the zoo, used by value (T) and by pointer (*T), a child
// process works through the four steps  a b a b  with (a, b) = (T, *T) in one child and (*T, T) in the
// other, and prints for each step: the types table, docgen's variables, and for every member name the
// verdict of Compile and of Run (on a populated value of THAT kind) for `name` and `name(args)`.
// The parent requires every step of a kind to print what the FIRST step of the child that starts with
// that kind printed (a fresh state), ties each table to the Lean model (which has no state), and applies
// the property's oracle to every step: accepted  =>  Run succeeds.

type c16HistStep struct {
	Env    string            `json:"env"`  // shape name, "*" prefix for the pointer kind
	Step   int               `json:"step"` // 0..3
	Table  string            `json:"table"`
	Doc    string            `json:"doc"`
	Probes map[string]string `json:"probes"` // expression -> verdict
	Bad    []string          `json:"bad"`    // accepted but not resolvable: "expr: run error"
}

func c16HistoryEnvs() []interface{} {
	shapes := zooShapes()
	rng := rand.New(rand.NewSource(16))
	for i := 0; i < 12; i++ {
		shapes = append(shapes, reflect.Zero(randomStructType(rng, 3)).Interface())
	}
	return shapes
}

func c16HistVerdict(rv realVerdict) string {
	switch {
	case !rv.accepted:
		return "rejected: " + rv.cerr
	case !rv.ran:
		return "accepted " + rv.ty.String() + ", run fails: " + rv.rerr
	}
	return "accepted " + fmt.Sprint(rv.ty) + ", runs"
}

func c16HistoryStep(name string, step int, env interface{}) c16HistStep {
	st := c16HistStep{Env: name, Step: step, Probes: map[string]string{}}
	func() {
		defer func() {
			if r := recover(); r != nil {
				st.Table = fmt.Sprintf("PANIC %v", r)
			}
		}()
		st.Table = realTableCanon(conf.CreateTypesTable(env))
	}()
	func() {
		defer func() {
			if r := recover(); r != nil {
				st.Doc = fmt.Sprintf("PANIC %v", r)
			}
		}()
		doc := docgen.CreateDoc(env)
		var vs []string
		for id, v := range doc.Variables {
			vs = append(vs, string(id)+":"+string(v.Kind))
		}
		sort.Strings(vs)
		st.Doc = strings.Join(vs, " ")
	}()
	set := map[string]bool{"Nope": true}
	t := reflect.TypeOf(env)
	collectNames(t, set, 0)
	if t.Kind() != reflect.Ptr {
		collectNames(reflect.PtrTo(t), set, 0) // the pointer-receiver methods too
	}
	for _, n := range sortedKeys(set) {
		if !validIdent(n) {
			continue
		}
		rv := compileRun16(n, env)
		st.Probes[n] = c16HistVerdict(rv)
		if rv.accepted && !rv.ran {
			st.Bad = append(st.Bad, n+": "+rv.rerr)
		}
		src, cv := tryCalls(n, env, "unknown func")
		st.Probes[src] = c16HistVerdict(cv)
		if cv.accepted && !cv.ran && !strings.Contains(cv.rerr, "PANIC") {
			st.Bad = append(st.Bad, src+": "+cv.rerr)
		}
	}
	return st
}

// c16HistoryProbe (child process): VERIF_C16_ORDER = "vp" (value first) or "pv" (pointer first)
func c16HistoryProbe() {
	ptrFirst := os.Getenv("VERIF_C16_ORDER") == "pv"
	enc := json.NewEncoder(os.Stdout)
	for _, s := range c16HistoryEnvs() {
		n := reflect.TypeOf(s).Name()
		if n == "" {
			n = reflect.TypeOf(s).String()
		}
		for step := 0; step < 4; step++ {
			usePtr := (step%2 == 1) != ptrFirst
			// a freshly populated value each time: only the library may carry state over
			if usePtr {
				enc.Encode(c16HistoryStep("*"+n, step, popPtr(s)))
			} else {
				enc.Encode(c16HistoryStep(n, step, popIface(s)))
			}
		}
	}
	os.Exit(0)
}

func c16History(c *Ctx) {
	run := func(order string) ([]c16HistStep, error) {
		cmd := exec.Command(os.Args[0], "C16-history-probe")
		cmd.Env = append(os.Environ(), "VERIF_C16_ORDER="+order)
		var stderr strings.Builder
		cmd.Stderr = &stderr
		out, err := cmd.Output()
		if err != nil {
			return nil, fmt.Errorf("%v: %s", err, firstLine16(stderr.String()))
		}
		var steps []c16HistStep
		dec := json.NewDecoder(strings.NewReader(string(out)))
		for dec.More() {
			var st c16HistStep
			if err := dec.Decode(&st); err != nil {
				return nil, err
			}
			steps = append(steps, st)
		}
		return steps, nil
	}
	vp, err1 := run("vp")
	pv, err2 := run("pv")
	if err1 != nil || err2 != nil {
		c.R.Mismatch("c16/history-child", "child process", "", fmt.Sprint(err1, " ", err2))
		return
	}
	// the fresh results: step 0 of the child that starts with that kind
	fresh := map[string]c16HistStep{}
	for _, st := range vp {
		if st.Step == 0 {
			fresh[st.Env] = st
		}
	}
	for _, st := range pv {
		if st.Step == 0 {
			fresh[st.Env] = st
		}
	}
	// the model's tables
	var reqs []string
	var envNames []string
	for _, s := range c16HistoryEnvs() {
		n := reflect.TypeOf(s).Name()
		if n == "" {
			n = reflect.TypeOf(s).String()
		}
		envNames = append(envNames, n, "*"+n)
		reqs = append(reqs, L(A("c16-table"), A(c16Model()), envSx(popIface(s))).String())
		reqs = append(reqs, L(A("c16-table"), A(c16Model()), envSx(popPtr(s))).String())
	}
	resp, err := c.AskAll(reqs)
	if err != nil {
		c.R.Mismatch("driver", "c16-table (history)", err.Error(), "")
		return
	}
	model := map[string]string{}
	for i, n := range envNames {
		model[n] = modelTableCanon(resp[i])
	}
	diffKeys := func(a, b map[string]string) string {
		var ks []string
		for k, v := range a {
			if b[k] != v {
				ks = append(ks, fmt.Sprintf("%s: %q vs %q", k, v, b[k]))
			}
		}
		sort.Strings(ks)
		if len(ks) > 3 {
			ks = ks[:3]
		}
		return strings.Join(ks, "; ")
	}
	for oi, steps := range [][]c16HistStep{vp, pv} {
		order := []string{"value-then-pointer", "pointer-then-value"}[oi]
		for _, st := range steps {
			c.R.Case("history|"+order+"|"+st.Env+"|"+fmt.Sprint(st.Step), true)
			c.R.Count("history:steps", 1)
			in := c16Input{st.Env, st.Env, fmt.Sprintf("%s, step %d", order, st.Step), ""}
			f := fresh[st.Env]
			if st.Table != model[st.Env] {
				c.R.Mismatch("c16/table-history", st.Env+" "+order+" step "+fmt.Sprint(st.Step), model[st.Env], st.Table)
			}
			if st.Table != f.Table {
				violateKeyed16(c, Violation{What: "conf.CreateTypesTable depends on the calls made before (the table of an environment differs from the one a fresh process builds)",
					Key: "c16:history-dependent:types-table", Input: in, Expect: f.Table, Got: st.Table})
			}
			if st.Doc != f.Doc {
				violateKeyed16(c, Violation{What: "docgen.CreateDoc depends on the calls made before", Key: "c16:history-dependent:docgen", Input: in, Expect: f.Doc, Got: st.Doc})
			}
			if d := diffKeys(st.Probes, f.Probes); d != "" {
				violateKeyed16(c, Violation{What: "the verdict of Compile / Run on a member depends on the calls made before", Key: "c16:history-dependent:compile", Input: in,
					Expect: "the verdicts of a fresh process", Got: d})
			}
			for _, b := range st.Bad {
				if !c16KnownUnresolvable(b) {
					violateKeyed16(c, Violation{What: "a name accepted by Compile is not resolvable at run time on a populated value of that environment kind", Key: "c16:history-dependent:accepted-not-resolvable",
						Input: in, Expect: "Run succeeds", Got: b})
				}
			}
		}
	}
	if c.R.Counters["history:steps"] < 100 {
		c.R.Mismatch("generator", "history:steps", "", "too few history steps")
	}
}

// c16KnownUnresolvable: run failures that are not resolution failures (the call itself fails)
func c16KnownUnresolvable(b string) bool {
	return !(strings.Contains(b, "cannot get") || strings.Contains(b, "cannot fetch") || strings.Contains(b, "cannot call") || strings.Contains(b, "undefined"))
}

// c16NilSafe: CreateTypesTable(nil) is no table; `a?.b` / `a?.b()` on a receiver that has no such member
// (or is nil) yields nil at run time instead of failing — the run-time half of "accepted => resolvable"
// for the nil-safe forms the checker accepts.
func c16NilSafe(c *Ctx, envs []zooEnv) {
	func() {
		real := ""
		defer func() {
			if r := recover(); r != nil {
				real = fmt.Sprintf("PANIC %v", r)
			}
			c.R.Case("table|nil environment", true)
			if real != "nil" {
				c.R.Mismatch("c16/table", "nil environment", "nil", real)
			}
		}()
		real = realTableCanon(conf.CreateTypesTable(nil))
	}()
	var mapEnv, nested interface{}
	for _, e := range envs {
		if e.Name == "map[string]interface{}" {
			mapEnv = e.Val
		}
		if e.Name == "EnvNested" {
			nested = e.Val
		}
	}
	type probe struct {
		env interface{}
		src string
	}
	probes := []probe{
		// (a receiver that is nil, or a non-indexable value without that member; a string or slice receiver
		// is indexed instead and a non-nil receiver of a nil-safe call must have the method: the dynamic
		// value decides, no static claim)
		{mapEnv, "nilv?.x"}, {mapEnv, "nilv?.Foo()"}, {mapEnv, "nilv?.x?.y"}, {mapEnv, "a?.x"},
		{mapEnv, "st?.Nope"}, {mapEnv, "m?.nope?.deeper"}, {mapEnv, "nope?.x"},
		{nested, "I?.x"}, {nested, "MA?.nope?.deeper"}, {nested, "MA.nope?.Foo()"},
	}
	// members of type pointer-to-function, reached directly, through `?.`, through a map environment
	for _, p := range []probe{{nested, "Fn.PF(1)"}, {nested, "Fn?.PF(1)"}, {nested, "PFn?.PF(1)"}, {nested, "PFn.PPF(1)"},
		{mapEnv, "pf(1)"}, {mapEnv, "fns.PF(1)"}, {mapEnv, "fns?.PPF(1)"}} {
		if p.env == nil {
			break
		}
		rv := compileRun16(p.src, p.env)
		c.R.Case("ptrfunc|"+p.src, true)
		c.R.Count("ptrfunc:probes", 1)
		if rv.accepted && !rv.ran {
			violateKeyed16(c, Violation{What: "a member of type pointer-to-function is accepted as callable (isFuncType dereferences) but FetchFn hands the pointer to reflect's Call", Key: "c16:accepted-not-resolvable:pointer-to-func",
				Input: c16Input{fmt.Sprintf("%T", p.env), fmt.Sprintf("%T", p.env), p.src, p.src}, Expect: "the call succeeds", Got: rv.rerr})
		} else if !rv.accepted {
			c.R.Mismatch("c16/ptrfunc", p.src, "accepted", rv.cerr)
		}
	}
	for _, p := range probes {
		if p.env == nil {
			c.R.Mismatch("generator", "nil-safe probes", "", "environment missing from the zoo")
			return
		}
		rv := compileRun16(p.src, p.env)
		c.R.Case("nilsafe|"+p.src, true)
		c.R.Count("nilsafe:probes", 1)
		if !rv.accepted {
			c.R.Mismatch("c16/nilsafe", p.src, "accepted (receiver of interface or nil type)", rv.cerr)
			continue
		}
		if !rv.ran || rv.out != nil {
			violateKeyed16(c, Violation{What: "a nil-safe member access accepted by the checker does not resolve to nil at run time", Key: "c16:nil-safe-access-not-resolvable",
				Input: c16Input{fmt.Sprintf("%T", p.env), fmt.Sprintf("%T", p.env), p.src, p.src}, Expect: "nil", Got: fmt.Sprintf("ran=%v out=%v err=%s", rv.ran, rv.out, rv.rerr)})
		}
	}
}

// c16DocTypes: docgen.CreateDoc(env).Types documents every defined struct type reachable from the
// environment with its members.  For each of them: a documented member resolves in Go (an exported,
// unambiguous field, or a method of T or *T) and is not protobuf bookkeeping (`XXX_…`, which docgen
// leaves out on purpose); and every exported field that Go resolves, except `XXX_…`, is documented.
// (Top-level names are not filtered: docgen lists `XXX_…` variables, as the checker accepts them.)
func c16DocTypes(c *Ctx, envs []zooEnv) {
	for _, e := range envs {
		et := reflect.TypeOf(e.Val)
		base := et
		if base.Kind() == reflect.Ptr {
			base = base.Elem()
		}
		if base.Kind() != reflect.Struct || base.Name() == "" {
			continue
		}
		var doc *docgen.Context
		func() {
			defer func() { recover() }()
			doc = docgen.CreateDoc(e.Val)
		}()
		if doc == nil {
			continue
		}
		// the defined struct types reachable from the environment, by name
		byName := map[string]reflect.Type{}
		var walk func(t reflect.Type, d int)
		walk = func(t reflect.Type, d int) {
			if t == nil || d > 8 {
				return
			}
			switch t.Kind() {
			case reflect.Ptr, reflect.Slice, reflect.Array:
				walk(t.Elem(), d+1)
			case reflect.Map:
				walk(t.Key(), d+1)
				walk(t.Elem(), d+1)
			case reflect.Func:
				for i := 0; i < t.NumIn(); i++ {
					walk(t.In(i), d+1)
				}
				for i := 0; i < t.NumOut(); i++ {
					walk(t.Out(i), d+1)
				}
			case reflect.Struct:
				if t.Name() != "" {
					if _, seen := byName[t.Name()]; seen {
						return
					}
					byName[t.Name()] = t
				}
				for i := 0; i < t.NumField(); i++ {
					walk(t.Field(i).Type, d+1)
				}
				for _, mt := range []reflect.Type{t, reflect.PtrTo(t)} {
					for i := 0; i < mt.NumMethod(); i++ {
						walk(mt.Method(i).Type, d+1)
					}
				}
			}
		}
		walk(base, 0)
		for tn, dt := range doc.Types {
			t, ok := byName[string(tn)]
			if !ok || dt.Kind != "struct" {
				continue
			}
			c.R.Case("doctype|"+e.Name+"|"+string(tn), true)
			c.R.Count("doc:types", 1)
			in := c16Input{e.Name, t.String(), "docgen type " + string(tn), string(tn)}
			for id := range dt.Fields {
				name := string(id)
				sf, isField := t.FieldByName(name)
				_, m1 := t.MethodByName(name)
				_, m2 := reflect.PtrTo(t).MethodByName(name)
				resolves := (isField && sf.PkgPath == "") || m1 || m2
				if strings.HasPrefix(name, "XXX_") || !resolves {
					violateKeyed16(c, Violation{What: "docgen documents a member of a type that does not resolve in Go (ambiguous or unexported) or that is protobuf bookkeeping", Key: "c16:docgen-type-member-not-resolvable",
						Input: in, Expect: "only exported unambiguous fields and methods, no XXX_ names", Got: name})
				}
			}
			for _, n := range sortedKeys(func() map[string]bool { m := map[string]bool{}; collectNames(t, m, 0); return m }()) {
				sf, isField := t.FieldByName(n)
				if !isField || sf.PkgPath != "" || strings.HasPrefix(n, "XXX_") {
					continue
				}
				if _, listed := dt.Fields[docgen.Identifier(n)]; !listed {
					violateKeyed16(c, Violation{What: "docgen omits an exported field of a documented type that Go (and the checker) resolve", Key: "c16:docgen-type-member-missing",
						Input: in, Expect: n + " documented", Got: "absent"})
				}
			}
		}
	}
	if c.R.Counters["doc:types"] < 20 {
		c.R.Mismatch("generator", "doc:types", "", "too few documented types checked")
	}
}

var exprReserved = map[string]bool{
	"true": true, "false": true, "nil": true, "not": true, "in": true, "and": true, "or": true,
	"matches": true, "contains": true, "startsWith": true, "endsWith": true,
	"len": true, "all": true, "none": true, "any": true, "one": true, "filter": true, "map": true, "count": true,
}

func validIdent(s string) bool {
	if s == "" || exprReserved[s] {
		return false
	}
	for i, r := range s {
		if r == '_' || unicode.IsLetter(r) || (i > 0 && unicode.IsDigit(r)) {
			continue
		}
		return false
	}
	return true
}

func nearMisses(n string) []string {
	if n == "" {
		return nil
	}
	rs := []rune(n)
	out := []string{n + "x", "X" + n}
	if len(rs) > 1 {
		out = append(out, string(rs[:len(rs)-1]))
	}
	if unicode.IsUpper(rs[0]) {
		out = append(out, string(unicode.ToLower(rs[0]))+string(rs[1:]))
	} else {
		out = append(out, string(unicode.ToUpper(rs[0]))+string(rs[1:]))
	}
	return out
}

// collectNames gathers every field and method name reachable through embedding (any depth, both
// exported and unexported), as candidates for the probes.
func collectNames(t reflect.Type, into map[string]bool, depth int) {
	if t == nil || depth > 6 {
		return
	}
	for i := 0; i < t.NumMethod(); i++ {
		into[t.Method(i).Name] = true
	}
	if t.Kind() == reflect.Ptr {
		collectNames(t.Elem(), into, depth+1)
		return
	}
	if t.Kind() == reflect.Struct {
		for i := 0; i < t.NumField(); i++ {
			f := t.Field(i)
			into[f.Name] = true
			if f.Anonymous {
				collectNames(f.Type, into, depth+1)
			}
		}
	}
}

// occurrences counts the fields named name in the tree of embedded structs.
func occurrences(t reflect.Type, name string, depth int) int {
	if t == nil || depth > 6 {
		return 0
	}
	if t.Kind() == reflect.Ptr {
		t = t.Elem()
	}
	if t.Kind() != reflect.Struct {
		return 0
	}
	n := 0
	for i := 0; i < t.NumField(); i++ {
		f := t.Field(i)
		if f.Name == name {
			n++
		}
		if f.Anonymous {
			n += occurrences(f.Type, name, depth+1)
		}
	}
	return n
}

type realVerdict struct {
	accepted bool
	ty       reflect.Type
	cerr     string
	ran      bool
	out      interface{}
	rerr     string
}

func compileRun16(src string, env interface{}) (rv realVerdict) {
	defer func() {
		if r := recover(); r != nil {
			rv.cerr = fmt.Sprintf("PANIC %v", r)
			rv.accepted = false
		}
	}()
	tree, err := parser.Parse(src)
	if err != nil {
		rv.cerr = "parse: " + err.Error()
		return
	}
	ty, cerr := checker.Check(tree, conf.New(env))
	prog, err := expr.Compile(src, expr.Env(env), expr.Optimize(false))
	if (err == nil) != (cerr == nil) {
		rv.cerr = fmt.Sprintf("INCONSISTENT check=%v compile=%v", cerr, err)
		return
	}
	if err != nil {
		rv.cerr = firstLine16(err.Error())
		return
	}
	rv.accepted = true
	rv.ty = ty
	out, rerr := expr.Run(prog, env)
	if rerr != nil {
		rv.rerr = firstLine16(rerr.Error())
		return
	}
	rv.ran = true
	rv.out = out
	return
}

func firstLine16(s string) string {
	if i := strings.IndexByte(s, '\n'); i >= 0 {
		return s[:i]
	}
	return s
}

// valueHasType: is the run's result a value of the type the checker reported?
func valueHasType(out interface{}, ty reflect.Type) bool {
	if ty == nil {
		return out == nil
	}
	if out == nil {
		switch ty.Kind() {
		case reflect.Ptr, reflect.Map, reflect.Slice, reflect.Func, reflect.Interface, reflect.Chan:
			return true
		}
		return false
	}
	return reflect.TypeOf(out).AssignableTo(ty)
}

func argFor(t reflect.Type) (string, bool) {
	if _, ok := numKindName[t.Kind()]; ok && t.PkgPath() == "" {
		if t.Kind() == reflect.Float32 || t.Kind() == reflect.Float64 {
			return "1.5", true
		}
		return "1", true
	}
	switch t.Kind() {
	case reflect.String:
		if t.PkgPath() == "" {
			return `"s"`, true
		}
	case reflect.Bool:
		if t.PkgPath() == "" {
			return "true", true
		}
	case reflect.Interface:
		if t.NumMethod() == 0 {
			return "1", true
		}
	}
	return "", false
}

// callArgs renders an argument list for a callable of type ft (skip receivers).
func callArgs(ft reflect.Type, skip int) (string, bool) {
	if ft.Kind() != reflect.Func {
		return "", ft.Kind() == reflect.Interface
	}
	var args []string
	for i := skip; i < ft.NumIn(); i++ {
		pt := ft.In(i)
		if ft.IsVariadic() && i == ft.NumIn()-1 {
			pt = pt.Elem()
		}
		a, ok := argFor(pt)
		if !ok {
			return "", false
		}
		args = append(args, a)
	}
	return strings.Join(args, ", "), true
}

// tryCalls compiles prefix(args) for a few argument lists and returns the first one the compiler accepts;
// otherwise the verdict of the first list whose error is the resolution error `marker`, else of `()`.
func tryCalls(prefix string, env interface{}, marker string) (string, realVerdict) {
	var first realVerdict
	firstSrc := ""
	for i, args := range []string{"", "1", `"s"`, "1, 1", `1, "s"`, "true", "1.5"} {
		src := prefix + "(" + args + ")"
		cv := compileRun16(src, env)
		if cv.accepted || strings.Contains(cv.cerr, marker) {
			return src, cv
		}
		if i == 0 {
			first, firstSrc = cv, src
		}
	}
	return firstSrc, first
}

func envSx(env interface{}) *Sx {
	t := reflect.TypeOf(env)
	out := []*Sx{A("env"), tySx(t)}
	v := reflect.ValueOf(env)
	if v.Kind() == reflect.Map {
		type kv struct {
			k string
			t *Sx
		}
		var kvs []kv
		for _, key := range v.MapKeys() {
			if key.Kind() != reflect.String {
				continue
			}
			val := v.MapIndex(key)
			kvs = append(kvs, kv{key.String(), tySx(reflect.TypeOf(val.Interface()))})
		}
		sort.Slice(kvs, func(i, j int) bool { return kvs[i].k < kvs[j].k })
		for _, e := range kvs {
			out = append(out, L(SStr(e.k), e.t))
		}
	}
	return L(out...)
}

// canonTy replaces defined types by their names: (named n ms u) and (ref n) both become (T n), so that
// recursive types (cut by `ref` in the serialisation) compare equal however deep they were expanded.
func canonTy(s *Sx) *Sx {
	if !s.IsL {
		return s
	}
	if (s.Tag() == "named" || s.Tag() == "ref") && len(s.List) >= 2 {
		return L(A("T"), s.List[1])
	}
	out := make([]*Sx, len(s.List))
	for i, x := range s.List {
		out[i] = canonTy(x)
	}
	return L(out...)
}

func cty(t reflect.Type) *Sx { return canonTy(tySx(t)) }

func tableCanon(rows []string) string {
	sort.Strings(rows)
	return strings.Join(rows, " ")
}

func realTableCanon(tbl conf.TypesTable) string {
	if tbl == nil {
		return "nil"
	}
	var rows []string
	for n, tag := range tbl {
		rows = append(rows, L(SStr(n), cty(tag.Type), SBool(tag.Method), SBool(tag.Ambiguous)).String())
	}
	return tableCanon(rows)
}

func modelTableCanon(resp string) string {
	sx, err := ParseSx(resp)
	if err != nil {
		return "unparsable: " + resp
	}
	if !sx.IsL {
		return sx.Atom
	}
	var rows []string
	for _, r := range sx.List[1:] {
		rows = append(rows, canonTy(r).String())
	}
	return tableCanon(rows)
}

// c16Probe is one (environment, expression) probe of a top-level name or a nested member.
type c16Probe struct {
	env      zooEnv
	src      string
	name     string       // the member name probed
	call     bool         // called as function / method
	recvPath string       // "" for top-level, else the expression of the receiver
	recvType reflect.Type // static Go type of the receiver (env type for top level)
}

func describeGo(t reflect.Type, name string) (fieldFound, exported bool, ftype reflect.Type, depth int, methodFound bool, mtype reflect.Type, occ int) {
	base := t
	if base.Kind() == reflect.Ptr {
		base = base.Elem()
	}
	if base.Kind() == reflect.Struct {
		if sf, ok := base.FieldByName(name); ok {
			fieldFound, exported, ftype, depth = true, sf.PkgPath == "", sf.Type, len(sf.Index)-1
		}
		occ = occurrences(base, name, 0)
	}
	if m, ok := t.MethodByName(name); ok {
		methodFound, mtype = true, m.Type
	}
	return
}

func runC16(c *Ctx) {
	c.R.Rule = "a case = one (environment type, name or near-miss name, use as identifier/call/member); non-trivial when the name exists somewhere in the type (any depth) or the checker accepts it"
	nRandom := 60
	if c.Thorough() {
		nRandom = 1500
	}
	envs := zooEnvs(c.Rng, nRandom)

	// the model variant `asis` is derived from the source (Types/SrcDefects.lean over Gen/NameFetch.lean)
	if resp, err := c.AskAll([]string{"(c16-srcflags)"}); err == nil && len(resp) == 1 {
		c.R.Note("name-resolution switches derived from the source (ptrFuncNotFetched ptrIfaceFuncNotFetched fetchFnNoUnwrap fetchDerefOnce methodAsValue): %s", resp[0])
	} else {
		c.R.Mismatch("driver", "c16-srcflags", fmt.Sprint(err), "")
	}

	// ---------------------------------------------------------------- 0. history independence (child processes)
	c16History(c)

	// ---------------------------------------------------------------- 1. tables, method sets, FieldByName
	var reqs []string
	type tblCase struct {
		env  zooEnv
		real string
	}
	var tcs []tblCase
	for _, e := range envs {
		var real string
		func() {
			defer func() {
				if r := recover(); r != nil {
					real = fmt.Sprintf("PANIC %v", r)
				}
			}()
			real = realTableCanon(conf.CreateTypesTable(e.Val))
		}()
		tcs = append(tcs, tblCase{e, real})
		reqs = append(reqs, L(A("c16-table"), A(c16Model()), envSx(e.Val)).String())
		reqs = append(reqs, L(A("c16-table"), A(c16Model()+"-rev"), envSx(e.Val)).String())
	}
	resp, err := c.AskAll(reqs)
	if err != nil {
		c.R.Mismatch("driver", "c16-table", err.Error(), "")
		return
	}
	for i, tc := range tcs {
		m := modelTableCanon(resp[2*i])
		mr := modelTableCanon(resp[2*i+1])
		c.R.Count("tables", 1)
		if m != tc.real {
			c.R.Mismatch("c16/table", tc.env.Name+" "+reflect.TypeOf(tc.env.Val).String(), m, tc.real)
		}
		if m != mr {
			c.R.Mismatch("c16/table-order", tc.env.Name, m, mr)
		}
	}

	// method sets of every defined type reachable from the zoo, as T and *T
	seenT := map[reflect.Type]bool{}
	var mtypes []reflect.Type
	var walk func(t reflect.Type, d int)
	walk = func(t reflect.Type, d int) {
		if t == nil || d > 6 || seenT[t] {
			return
		}
		seenT[t] = true
		mtypes = append(mtypes, t)
		switch t.Kind() {
		case reflect.Ptr, reflect.Slice, reflect.Array:
			walk(t.Elem(), d+1)
		case reflect.Map:
			walk(t.Key(), d+1)
			walk(t.Elem(), d+1)
		case reflect.Struct:
			walk(reflect.PtrTo(t), d+1)
			for i := 0; i < t.NumField(); i++ {
				walk(t.Field(i).Type, d+1)
			}
		}
	}
	for _, e := range envs {
		walk(reflect.TypeOf(e.Val), 0)
	}
	reqs = reqs[:0]
	for _, t := range mtypes {
		reqs = append(reqs, L(A("c16-mset"), tySx(t)).String())
	}
	resp, err = c.AskAll(reqs)
	if err != nil {
		c.R.Mismatch("driver", "c16-mset", err.Error(), "")
		return
	}
	nonEmptySets := 0
	for i, t := range mtypes {
		var rows []string
		for j := 0; j < t.NumMethod(); j++ {
			m := t.Method(j)
			rows = append(rows, L(SStr(m.Name), cty(m.Type)).String())
		}
		if len(rows) > 0 {
			nonEmptySets++
		}
		real := tableCanon(rows)
		sx, perr := ParseSx(resp[i])
		model := "unparsable " + resp[i]
		if perr == nil && sx.IsL {
			var mrows []string
			for _, r := range sx.List {
				mrows = append(mrows, canonTy(r).String())
			}
			model = tableCanon(mrows)
		}
		c.R.Count("method-sets", 1)
		if model != real {
			c.R.Mismatch("c16/mset", t.String(), model, real)
		}
	}
	if nonEmptySets < 10 {
		c.R.Mismatch("generator", "method sets", "", fmt.Sprintf("only %d non-empty method sets", nonEmptySets))
	}

	// ---------------------------------------------------------------- 2. top-level names
	type nameCase struct {
		env   zooEnv
		names []string
	}
	var ncs []nameCase
	reqs = reqs[:0]
	for _, e := range envs {
		set := map[string]bool{"Nope": true, "x": true}
		t := reflect.TypeOf(e.Val)
		collectNames(t, set, 0)
		v := reflect.ValueOf(e.Val)
		if v.Kind() == reflect.Map {
			for _, k := range v.MapKeys() {
				if k.Kind() == reflect.String {
					set[k.String()] = true
				}
			}
		}
		for _, n := range sortedKeys(set) {
			for _, nm := range nearMisses(n) {
				set[nm] = true
			}
		}
		var names []string
		for _, n := range sortedKeys(set) {
			if validIdent(n) {
				names = append(names, n)
			}
		}
		ncs = append(ncs, nameCase{e, names})
		req := []*Sx{A("c16-names"), A(c16Model()), envSx(e.Val)}
		for _, n := range names {
			req = append(req, SStr(n))
		}
		reqs = append(reqs, L(req...).String())
	}
	resp, err = c.AskAll(reqs)
	if err != nil {
		c.R.Mismatch("driver", "c16-names", err.Error(), "")
		return
	}
	for i, nc := range ncs {
		sx, perr := ParseSx(resp[i])
		if perr != nil || !sx.IsL || len(sx.List) != len(nc.names) {
			c.R.Mismatch("c16/names", nc.env.Name, resp[i], "unparsable or wrong length")
			continue
		}
		c16TopLevel(c, nc.env, nc.names, sx.List)
	}

	// the repaired model must satisfy the property on the same probes (guards the theorem statements:
	// a failure here means `Defects.repaired` is not a repair)
	for i := range reqs {
		reqs[i] = strings.Replace(reqs[i], "(c16-names "+c16Model()+" ", "(c16-names repaired ", 1)
	}
	resp, err = c.AskAll(reqs)
	if err != nil {
		c.R.Mismatch("driver", "c16-names repaired", err.Error(), "")
		return
	}
	for i, nc := range ncs {
		sx, perr := ParseSx(resp[i])
		if perr != nil || !sx.IsL || len(sx.List) != len(nc.names) {
			c.R.Mismatch("c16/repaired-model", nc.env.Name, resp[i], "unparsable or wrong length")
			continue
		}
		t := reflect.TypeOf(nc.env.Val)
		isStructEnv := t.Kind() == reflect.Struct || (t.Kind() == reflect.Ptr && t.Elem().Kind() == reflect.Struct)
		for j, name := range nc.names {
			row := sx.List[j].List // name ident func fetch fetchfn reflfield doc
			bad := ""
			identOk, funcOk := row[1].Tag() == "ok", row[2].Tag() == "ok"
			if identOk && !(row[3].Tag() == "ok" && row[3].List[1].String() == row[1].List[1].String()) {
				bad = "identifier accepted but fetch differs"
			}
			if funcOk && row[2].List[1].Tag() == "func" && row[4].Tag() != "ok" {
				bad = "function accepted but not callable"
			}
			if isStructEnv && row[5].Tag() == "found" && row[5].List[2].Atom == "true" && !identOk && !funcOk {
				bad = "exported field resolved by Go is rejected"
			}
			if (row[6].Atom == "true") != (identOk || funcOk || exprReserved[name]) {
				bad = "doc differs from accepted names"
			}
			c.R.Count("repaired-model-checks", 1)
			if bad != "" {
				c.R.Mismatch("c16/repaired-model", nc.env.Name+" "+name, sx.List[j].String(), bad)
			}
		}
	}

	// ---------------------------------------------------------------- 3. nested members
	c16Nested(c, envs)

	// ---------------------------------------------------------------- 4. cyclic embedding (child process)
	c16CyclicEmbedding(c)

	// ---------------------------------------------------------------- 5. no environment; nil-safe access at run time
	c16NilSafe(c, envs)

	// ---------------------------------------------------------------- 6. docgen: the fields of the documented types
	c16DocTypes(c, envs)

	for _, k := range []string{"ident:accepted", "ident:rejected", "call:accepted", "member:accepted", "member:rejected", "membercall:accepted"} {
		if c.R.Counters[k] == 0 {
			c.R.Mismatch("generator", k, "", "counter is zero")
		}
	}
}

// dynFuncType: the type of the function held in the interface-typed struct field `name`, if any.
func dynFuncType(env interface{}, name string) reflect.Type {
	if !holdsFunc(env, name) {
		return nil
	}
	v := reflect.ValueOf(env)
	for v.Kind() == reflect.Ptr {
		v = v.Elem()
	}
	f := v.FieldByName(name)
	for f.Kind() == reflect.Ptr {
		f = f.Elem()
	}
	return f.Elem().Type()
}

// memberField: the struct field `name` of env (through embedding), if any
func memberField(env interface{}, name string) (reflect.Value, bool) {
	v := reflect.ValueOf(env)
	for v.Kind() == reflect.Ptr {
		if v.IsNil() {
			return reflect.Value{}, false
		}
		v = v.Elem()
	}
	if v.Kind() != reflect.Struct {
		return reflect.Value{}, false
	}
	f := v.FieldByName(name)
	return f, f.IsValid()
}

// nilPtrMember: the member is a nil pointer — calling through it fails for a value-dependent reason
func nilPtrMember(env interface{}, name string) bool {
	f, ok := memberField(env, name)
	for ok && f.Kind() == reflect.Ptr {
		if f.IsNil() {
			return true
		}
		f = f.Elem()
	}
	return false
}

// ptrToIfaceFunc: the member is a (non-nil) pointer to an interface holding a function
func ptrToIfaceFunc(env interface{}, name string) bool {
	f, ok := memberField(env, name)
	if !ok || f.Kind() != reflect.Ptr {
		return false
	}
	for f.Kind() == reflect.Ptr && !f.IsNil() {
		f = f.Elem()
	}
	return f.Kind() == reflect.Interface && !f.IsNil() && f.Elem().Kind() == reflect.Func
}

// holdsFunc: does the struct field `name` of env (through embedding) hold a function in an interface?
func holdsFunc(env interface{}, name string) bool {
	v := reflect.ValueOf(env)
	for v.Kind() == reflect.Ptr {
		v = v.Elem()
	}
	if v.Kind() != reflect.Struct {
		return false
	}
	f := v.FieldByName(name)
	for f.IsValid() && f.Kind() == reflect.Ptr && !f.IsNil() {
		f = f.Elem()
	}
	return f.IsValid() && f.Kind() == reflect.Interface && !f.IsNil() && f.Elem().Kind() == reflect.Func
}

// methodOccurs: is there a method of that name on some embedded type (any depth, value or pointer)?
func methodOccurs(t reflect.Type, name string) bool {
	set := map[string]bool{}
	var rec func(t reflect.Type, d int)
	rec = func(t reflect.Type, d int) {
		if d > 6 {
			return
		}
		if t.Kind() == reflect.Ptr {
			t = t.Elem()
		}
		for _, x := range []reflect.Type{t, reflect.PtrTo(t)} {
			for i := 0; i < x.NumMethod(); i++ {
				set[x.Method(i).Name] = true
			}
		}
		if t.Kind() == reflect.Struct {
			for i := 0; i < t.NumField(); i++ {
				if f := t.Field(i); f.Anonymous {
					rec(f.Type, d+1)
				}
			}
		}
	}
	rec(t, 0)
	return set[name]
}

type c16Input struct {
	Env  string `json:"env"`
	Type string `json:"go_type"`
	Expr string `json:"expr"`
	Name string `json:"name"`
}

func c16TopLevel(c *Ctx, e zooEnv, names []string, rows []*Sx) {
	t := reflect.TypeOf(e.Val)
	isStructEnv := t.Kind() == reflect.Struct || (t.Kind() == reflect.Ptr && t.Elem().Kind() == reflect.Struct)
	var doc *docgen.Context
	docErr := ""
	func() {
		defer func() {
			if r := recover(); r != nil {
				docErr = fmt.Sprintf("PANIC %v", r)
			}
		}()
		doc = docgen.CreateDoc(e.Val)
	}()
	tbl := conf.CreateTypesTable(e.Val)
	for i, name := range names {
		row := rows[i].List // name ident func fetch fetchfn reflfield doc
		in := c16Input{e.Name, t.String(), name, name}
		fieldFound, exported, ftype, depth, methodFound, _, occ := describeGo(t, name)
		rv := compileRun16(name, e.Val)
		_, inTable := tbl[name]
		c.R.Case(e.Name+"|"+name, occ > 0 || methodFound || rv.accepted || inTable)

		// ---- tie: model vs code
		mIdent := canonTy(row[1]).String()
		realIdent := "unknown"
		switch {
		case rv.accepted:
			realIdent = L(A("ok"), cty(rv.ty)).String()
		case strings.Contains(rv.cerr, "ambiguous identifier"):
			realIdent = "ambiguous"
		case strings.Contains(rv.cerr, "unknown name"):
			realIdent = "unknown"
		case strings.Contains(rv.cerr, "can only be called"):
			realIdent = "method-value"
		default:
			realIdent = "other: " + rv.cerr
		}
		if mIdent != realIdent {
			c.R.Mismatch("c16/ident-verdict", in.Env+" "+name, mIdent, realIdent)
		}
		if rv.accepted {
			c.R.Count("ident:accepted", 1)
			mFetch := row[3]
			if rv.ran != mFetch.IsL {
				c.R.Mismatch("c16/ident-run", in.Env+" "+name, mFetch.String(), fmt.Sprintf("ran=%v err=%s", rv.ran, rv.rerr))
			}
		} else {
			c.R.Count("ident:rejected", 1)
		}
		if isStructEnv {
			mf := canonTy(row[5]).String()
			rf := "none"
			if fieldFound {
				rf = L(A("found"), cty(ftype), SBool(exported)).String()
			}
			if mf == "ambiguous" {
				if occ < 2 {
					c.R.Mismatch("c16/reflfield", in.Env+" "+name, mf, fmt.Sprintf("occurrences=%d", occ))
				}
				mf = "none"
			}
			if mf != rf {
				c.R.Mismatch("c16/reflfield", in.Env+" "+name, mf, rf)
			}
		}
		if doc != nil {
			_, inDoc := doc.Variables[docgen.Identifier(name)]
			if (row[6].Atom == "true") != inDoc {
				c.R.Mismatch("c16/doc", in.Env+" "+name, row[6].Atom, fmt.Sprint(inDoc))
			}
			// ---- oracle: doc lists exactly the accepted names (accepted as identifier, or as function name:
			// `name()` is not refused as an unknown function)
			acc := rv.accepted
			if !acc {
				fv := compileRun16(name+"()", e.Val)
				acc = fv.accepted || !(strings.Contains(fv.cerr, "unknown func") || strings.Contains(fv.cerr, "ambiguous"))
			}
			if inDoc != acc {
				key := "c16:doc-lists-unaccepted-name"
				if acc {
					key = "c16:doc-omits-accepted-name"
				}
				violateKeyed16(c, Violation{What: "docgen.CreateDoc(env).Variables differs from the names the checker accepts", Key: key, Input: in,
					Expect: fmt.Sprintf("listed=%v", acc), Got: fmt.Sprintf("listed=%v (compile: %s)", inDoc, rv.cerr)})
			}
		} else if i == 0 {
			violateKeyed16(c, Violation{What: "docgen.CreateDoc panics on a map environment holding a nil value (nil reflect.Type in docgen.use)", Key: "c16:docgen-panics-on-nil-entry", Input: in, Expect: "a Context", Got: docErr})
		}

		// ---- oracle: accepted => resolvable with the assumed type
		if rv.accepted && !rv.ran {
			key, what := "c16:accepted-identifier-not-fetchable", "identifier accepted by the checker cannot be fetched at run time"
			switch {
			case fieldFound && !exported:
				key, what = "c16:unexported-field-accepted", "unexported field accepted by the checker is not fetchable at run time"
			case !fieldFound && occ >= 2:
				key, what = "c16:ambiguous-field-accepted", "field that Go finds ambiguous is accepted by the checker"
			case !fieldFound && methodFound:
				key, what = "c16:method-accepted-as-identifier", "method name accepted as a plain identifier cannot be fetched at run time"
			case t.Kind() == reflect.Map && t.Key().Kind() == reflect.String && t.Key() != reflect.TypeOf(""):
				key, what = "c16:defined-string-key-map-env", "names of a map environment whose key type is a defined string type are accepted but cannot be fetched"
			}
			violateKeyed16(c, Violation{What: what, Key: key, Input: in, Expect: "run succeeds with a value of type " + fmt.Sprint(rv.ty), Got: rv.rerr})
		}
		if rv.accepted && rv.ran && !valueHasType(rv.out, rv.ty) {
			key := "c16:identifier-type-differs"
			if methodFound && fieldFound {
				key = "c16:method-shadows-promoted-field"
			}
			violateKeyed16(c, Violation{What: "the value fetched at run time does not have the type the checker assumed", Key: key, Input: in,
				Expect: "value of type " + fmt.Sprint(rv.ty), Got: fmt.Sprintf("%T", rv.out)})
		}
		// ---- oracle: Go resolves an exported member unambiguously => accepted (struct environments)
		// (when a method of the same name is in the method set, Go's selector denotes the method, not the field)
		if isStructEnv && fieldFound && exported && !methodFound && !rv.accepted {
			key, what := "c16:resolvable-field-rejected", "exported field that Go resolves is rejected by the checker"
			if strings.Contains(rv.cerr, "ambiguous") {
				if depth == 0 {
					key, what = "c16:outer-field-shadowing-embedded-marked-ambiguous", "a struct's own field that shadows a field of an embedded struct is reported ambiguous"
				} else {
					key, what = "c16:shallower-embedded-field-marked-ambiguous", "a promoted field that Go resolves by depth is reported ambiguous"
				}
			}
			violateKeyed16(c, Violation{What: what, Key: key, Input: in, Expect: "accepted with type " + fmt.Sprint(ftype), Got: rv.cerr})
		}

		// ---- calls
		var ft reflect.Type
		skip := 0
		switch {
		case methodFound:
			m, _ := t.MethodByName(name)
			ft, skip = m.Type, 1
		case inTable && tbl[name].Type != nil:
			ft = tbl[name].Type
			if tbl[name].Method {
				skip = 1
			}
		case fieldFound:
			ft = ftype
		}
		if ft == nil {
			// a name Go does not resolve, called as a function: must be rejected
			src, cv := tryCalls(name, e.Val, "unknown func")
			if (row[2].Atom == "none") != strings.Contains(cv.cerr, "unknown func") {
				c.R.Mismatch("c16/func-verdict", in.Env+" "+src, row[2].String(), fmt.Sprintf("accepted=%v err=%s", cv.accepted, cv.cerr))
			}
			if cv.accepted && !cv.ran {
				violateKeyed16(c, Violation{What: "call of a name that does not resolve is accepted", Key: "c16:unresolvable-call-accepted", Input: c16Input{e.Name, t.String(), src, name}, Expect: "rejected", Got: cv.rerr})
			}
			continue
		}
		for ft.Kind() == reflect.Ptr {
			ft = ft.Elem()
		}
		args, ok := callArgs(ft, skip)
		if dft := dynFuncType(e.Val, name); ok && ft.Kind() == reflect.Interface && dft != nil {
			args, ok = callArgs(dft, 0)
		}
		if !ok {
			c.R.Count("call:skipped-no-args", 1)
			continue
		}
		src := name + "(" + args + ")"
		cin := c16Input{e.Name, t.String(), src, name}
		cv := compileRun16(src, e.Val)
		mFunc := row[2]
		unknownFunc := strings.Contains(cv.cerr, "unknown func")
		if mFunc.IsL == unknownFunc {
			c.R.Mismatch("c16/func-verdict", in.Env+" "+src, mFunc.String(), fmt.Sprintf("accepted=%v err=%s", cv.accepted, cv.cerr))
		}
		callable := ft.Kind() == reflect.Func && ft.NumOut() == 1 || ft.Kind() == reflect.Interface
		if cv.accepted {
			c.R.Count("call:accepted", 1)
			mFetchFn := row[4]
			// a slot of interface type holding a non-function: whether the call works is a matter of the
			// dynamic value, not of name resolution
			dynamicOnly := ft.Kind() == reflect.Interface && isStructEnv && dynFuncType(e.Val, name) == nil
			if nilPtrMember(e.Val, name) {
				// a nil *func member: the call fails whatever the checker said; value-dependent
				c.R.Count("call:nil-pointer-member", 1)
				continue
			}
			if !dynamicOnly && cv.ran != mFetchFn.IsL {
				c.R.Mismatch("c16/call-run", in.Env+" "+src, mFetchFn.String(), fmt.Sprintf("ran=%v err=%s", cv.ran, cv.rerr))
			}
			if !cv.ran {
				key, what := "c16:accepted-function-not-callable", "function name accepted by the checker cannot be called at run time"
				switch {
				case fieldFound && !exported:
					key, what = "c16:unexported-func-field-accepted", "unexported func-typed field accepted by the checker cannot be called at run time"
				case strings.Contains(cv.rerr, "Call on ptr Value"):
					key, what = "c16:accepted-not-resolvable:pointer-to-func", "a member of type pointer-to-function is accepted as callable (isFuncType dereferences) but FetchFn hands the pointer to reflect's Call"
				case t.Kind() == reflect.Map && t.Elem().Kind() != reflect.Interface:
					key, what = "c16:func-in-typed-map-not-callable", "function held in a map environment with a non-interface element type is accepted but FetchFn cannot call it"
				case ft.Kind() == reflect.Interface && ptrToIfaceFunc(e.Val, name):
					key, what = "c16:accepted-not-resolvable:pointer-to-interface-holding-func", "function held in an interface behind a pointer member (*interface{}) is accepted as callable (isFuncType dereferences), but FetchFn stops at the interface value and reflect's Call refuses it"
				case ft.Kind() == reflect.Interface && holdsFunc(e.Val, name):
					key, what = "c16:func-in-interface-field-not-callable", "function held in a struct field of interface type is accepted as callable, but FetchFn returns the interface-kinded field and reflect's Call refuses it"
				case ft.Kind() == reflect.Interface:
					key, what = "c16:interface-member-called", "member of interface type holding a non-function accepted as callable (dynamic; not a name-resolution fault)"
				}
				if key != "c16:interface-member-called" {
					violateKeyed16(c, Violation{What: what, Key: key, Input: cin, Expect: "call succeeds", Got: cv.rerr})
				}
			} else if !valueHasType(cv.out, cv.ty) {
				violateKeyed16(c, Violation{What: "the call's result does not have the type the checker assumed", Key: "c16:call-type-differs", Input: cin,
					Expect: "value of type " + fmt.Sprint(cv.ty), Got: fmt.Sprintf("%T", cv.out)})
			}
		} else if isStructEnv && callable && (methodFound || (fieldFound && exported)) {
			key, what := "c16:resolvable-function-rejected", "callable exported member that Go resolves is rejected by the checker"
			if strings.Contains(cv.cerr, "ambiguous") {
				key = "c16:outer-field-shadowing-embedded-marked-ambiguous"
			}
			violateKeyed16(c, Violation{What: what, Key: key, Input: cin, Expect: "accepted", Got: cv.cerr})
		}
	}
}

// c16Nested probes `F.name` and `F.name(args)` for the members F of struct environments (two levels).
func c16Nested(c *Ctx, envs []zooEnv) {
	type memCase struct {
		env   zooEnv
		path  string
		rt    reflect.Type
		names []string
	}
	var mcs []memCase
	var reqs []string
	for _, e := range envs {
		t := reflect.TypeOf(e.Val)
		base := t
		if base.Kind() == reflect.Ptr {
			base = base.Elem()
		}
		type recv struct {
			path string
			t    reflect.Type
		}
		var recvs []recv
		if base.Kind() == reflect.Struct {
			for i := 0; i < base.NumField(); i++ {
				f := base.Field(i)
				if f.PkgPath != "" {
					continue
				}
				if sf, ok := base.FieldByName(f.Name); !ok || sf.Type != f.Type {
					continue
				}
				recvs = append(recvs, recv{f.Name, f.Type})
			}
		} else if base.Kind() == reflect.Map && base.Key() == reflect.TypeOf("") {
			v := reflect.ValueOf(e.Val)
			for _, k := range v.MapKeys() {
				val := v.MapIndex(k).Interface()
				if val != nil && base.Elem().Kind() != reflect.Interface {
					recvs = append(recvs, recv{k.String(), reflect.TypeOf(val)})
				}
			}
		}
		// second level: members of struct-typed members
		n1 := len(recvs)
		for _, r := range recvs[:n1] {
			rb := r.t
			for rb.Kind() == reflect.Ptr {
				rb = rb.Elem()
			}
			if rb.Kind() != reflect.Struct {
				continue
			}
			for i := 0; i < rb.NumField(); i++ {
				f := rb.Field(i)
				if f.PkgPath != "" || f.Anonymous {
					continue
				}
				fb := f.Type
				for fb.Kind() == reflect.Ptr {
					fb = fb.Elem()
				}
				if sf, ok := rb.FieldByName(f.Name); ok && sf.Type == f.Type && fb.Kind() == reflect.Struct {
					recvs = append(recvs, recv{r.path + "." + f.Name, f.Type})
				}
			}
		}
		for _, r := range recvs {
			if !validIdent(strings.Split(r.path, ".")[0]) {
				continue
			}
			// the receiver itself must compile and run (otherwise the probe says nothing about the member)
			if rv := compileRun16(r.path, e.Val); !rv.accepted || !rv.ran {
				continue
			}
			set := map[string]bool{"Nope": true, "k": true}
			collectNames(r.t, set, 0)
			for _, n := range sortedKeys(set) {
				for _, nm := range nearMisses(n) {
					set[nm] = true
				}
			}
			var names []string
			for _, n := range sortedKeys(set) {
				if validIdent(n) {
					names = append(names, n)
				}
			}
			mcs = append(mcs, memCase{e, r.path, r.t, names})
			req := []*Sx{A("c16-member"), A(c16Model()), tySx(r.t)}
			for _, n := range names {
				req = append(req, SStr(n))
			}
			reqs = append(reqs, L(req...).String())
		}
	}
	resp, err := c.AskAll(reqs)
	if err != nil {
		c.R.Mismatch("driver", "c16-member", err.Error(), "")
		return
	}
	for i, mc := range mcs {
		sx, perr := ParseSx(resp[i])
		if perr != nil || !sx.IsL || len(sx.List) != len(mc.names) {
			c.R.Mismatch("c16/member", mc.env.Name+" "+mc.path, resp[i], "unparsable or wrong length")
			continue
		}
		for j, name := range mc.names {
			c16Member(c, mc.env, mc.path, mc.rt, name, sx.List[j].List)
		}
	}
	// the repaired model on the same member probes
	for i := range reqs {
		reqs[i] = strings.Replace(reqs[i], "(c16-member "+c16Model()+" ", "(c16-member repaired ", 1)
	}
	resp, err = c.AskAll(reqs)
	if err != nil {
		c.R.Mismatch("driver", "c16-member repaired", err.Error(), "")
		return
	}
	for i, mc := range mcs {
		sx, perr := ParseSx(resp[i])
		if perr != nil || !sx.IsL || len(sx.List) != len(mc.names) {
			c.R.Mismatch("c16/repaired-model", mc.env.Name+" "+mc.path, resp[i], "unparsable or wrong length")
			continue
		}
		base := mc.rt
		for base.Kind() == reflect.Ptr {
			base = base.Elem()
		}
		for j, name := range mc.names {
			row := sx.List[j].List // name fieldType methodType fetchTy fetchFnTy reflField
			bad := ""
			if base.Kind() != reflect.Interface {
				if row[1].Tag() == "ok" && !(row[3].Tag() == "ok" && row[3].List[1].String() == row[1].List[1].String()) {
					bad = "member accepted but fetch differs"
				}
				if row[2].Tag() == "ok" && base.Kind() != reflect.Map && row[2].List[1].Tag() == "func" && row[4].Tag() != "ok" {
					bad = "method accepted but not callable"
				}
				if mc.rt.Kind() != reflect.Ptr || mc.rt.Elem().Kind() != reflect.Ptr {
					if row[5].Tag() == "found" && row[5].List[2].Atom == "true" && row[1].Tag() != "ok" {
						bad = "exported member resolved by Go is rejected"
					}
				}
			}
			c.R.Count("repaired-model-checks", 1)
			if bad != "" {
				c.R.Mismatch("c16/repaired-model", mc.env.Name+" "+mc.path+"."+name+" : "+mc.rt.String(), sx.List[j].String(), bad)
			}
		}
	}
}

func c16Member(c *Ctx, e zooEnv, path string, rt reflect.Type, name string, row []*Sx) {
	// row: name fieldType methodType fetchTy fetchFnTy reflField
	src := path + "." + name
	in := c16Input{e.Name, rt.String(), src, name}
	fieldFound, exported, ftype, _, methodFound, _, occ := describeGo(rt, name)
	rv := compileRun16(src, e.Val)
	c.R.Case(e.Name+"|"+src, occ > 0 || methodFound || rv.accepted)
	base := rt
	for base.Kind() == reflect.Ptr {
		base = base.Elem()
	}

	// ---- tie
	realFT := "none"
	if rv.accepted {
		realFT = L(A("ok"), cty(rv.ty)).String()
	} else if !strings.Contains(rv.cerr, "has no field") {
		realFT = "other: " + rv.cerr
	}
	if canonTy(row[1]).String() != realFT {
		c.R.Mismatch("c16/fieldType", e.Name+" "+src+" : "+rt.String(), canonTy(row[1]).String(), realFT)
	}
	if rv.accepted {
		c.R.Count("member:accepted", 1)
		if rv.ran != row[3].IsL {
			c.R.Mismatch("c16/member-run", e.Name+" "+src+" : "+rt.String(), row[3].String(), fmt.Sprintf("ran=%v err=%s", rv.ran, rv.rerr))
		}
	} else {
		c.R.Count("member:rejected", 1)
	}
	if rt.Kind() == reflect.Struct || (rt.Kind() == reflect.Ptr && rt.Elem().Kind() == reflect.Struct) {
		mf := canonTy(row[5]).String()
		rf := "none"
		if fieldFound {
			rf = L(A("found"), cty(ftype), SBool(exported)).String()
		}
		if mf == "ambiguous" {
			mf = "none"
		}
		if mf != rf {
			c.R.Mismatch("c16/reflfield", e.Name+" "+src, mf, rf)
		}
	}

	// ---- oracle (a receiver of interface type carries no static claim: every name is accepted and the
	// dynamic value decides; the property is about statically known members)
	if rv.accepted && !rv.ran && base.Kind() != reflect.Interface {
		key, what := "c16:accepted-member-not-fetchable", "member accepted by the checker cannot be fetched at run time"
		switch {
		case fieldFound && !exported:
			key, what = "c16:unexported-field-accepted", "unexported field accepted by the checker is not fetchable at run time"
		case base.Kind() == reflect.Struct && !fieldFound && occ >= 2:
			key, what = "c16:ambiguous-member-accepted", "member that Go finds ambiguous is accepted by the checker (depth-first search)"
		case rt.Kind() == reflect.Ptr && rt.Elem().Kind() != reflect.Struct:
			key, what = "c16:member-through-pointer-not-fetchable", "the checker dereferences every pointer level, fetch only one and only towards a struct: a member of a **struct or *map is accepted but not fetchable"
		case base.Kind() == reflect.Map:
			key, what = "c16:member-of-non-string-keyed-map-accepted", "member access on a map whose key type is not string is accepted"
		}
		violateKeyed16(c, Violation{What: what, Key: key, Input: in, Expect: "run succeeds with a value of type " + fmt.Sprint(rv.ty), Got: rv.rerr})
	}
	if rv.accepted && rv.ran && !valueHasType(rv.out, rv.ty) {
		violateKeyed16(c, Violation{What: "the checker's depth-first member search assumes another field than the one Go (and the VM) resolve", Key: "c16:member-type-depth-first-differs-from-go", Input: in,
			Expect: "value of type " + fmt.Sprint(rv.ty), Got: fmt.Sprintf("%T", rv.out)})
	}
	if base.Kind() == reflect.Struct && fieldFound && exported && !rv.accepted {
		violateKeyed16(c, Violation{What: "exported member that Go resolves is rejected by the checker", Key: "c16:resolvable-member-rejected", Input: in, Expect: "accepted with type " + fmt.Sprint(ftype), Got: rv.cerr})
	}

	// ---- method / func-member calls
	var ft reflect.Type
	skip := 0
	switch {
	case methodFound:
		m, _ := rt.MethodByName(name)
		ft = m.Type
		if rt.Kind() != reflect.Interface {
			skip = 1
		}
	case fieldFound:
		ft = ftype
	case rv.accepted && rv.ty != nil:
		ft = rv.ty
	}
	if ft == nil {
		// Go resolves neither a field nor a method of that name
		csrc, cv := tryCalls(src, e.Val, "has no method")
		if (row[2].Atom == "none") != strings.Contains(cv.cerr, "has no method") {
			c.R.Mismatch("c16/methodType", e.Name+" "+csrc+" : "+rt.String(), row[2].String(), fmt.Sprintf("accepted=%v err=%s", cv.accepted, cv.cerr))
		}
		if cv.accepted {
			c.R.Count("membercall:accepted", 1)
			if base.Kind() != reflect.Map && base.Kind() != reflect.Interface && cv.ran != row[4].IsL {
				c.R.Mismatch("c16/membercall-run", e.Name+" "+csrc+" : "+rt.String(), row[4].String(), fmt.Sprintf("ran=%v err=%s", cv.ran, cv.rerr))
			}
		}
		if cv.accepted && !cv.ran && base.Kind() != reflect.Interface && base.Kind() != reflect.Map {
			key, what := "c16:unresolvable-method-accepted", "method call on a name that does not resolve is accepted"
			if occ >= 2 || methodOccurs(rt, name) {
				key, what = "c16:ambiguous-method-accepted", "method or member that Go finds ambiguous (or that needs an addressable receiver) is accepted by the checker's depth-first search"
			}
			violateKeyed16(c, Violation{What: what, Key: key, Input: c16Input{e.Name, rt.String(), csrc, name}, Expect: "rejected", Got: cv.rerr})
		}
		return
	}
	for ft.Kind() == reflect.Ptr {
		ft = ft.Elem()
	}
	args, ok := callArgs(ft, skip)
	var recvVal interface{}
	if ft.Kind() == reflect.Interface {
		recvVal = compileRun16(path, e.Val).out
	}
	dynamicOnly := false
	if ok && ft.Kind() == reflect.Interface && recvVal != nil {
		if dft := dynFuncType(recvVal, name); dft != nil {
			args, ok = callArgs(dft, 0)
		} else {
			dynamicOnly = true // interface slot holding a non-function: a matter of the dynamic value
		}
	}
	if !ok {
		c.R.Count("membercall:skipped-no-args", 1)
		return
	}
	csrc := src + "(" + args + ")"
	cin := c16Input{e.Name, rt.String(), csrc, name}
	cv := compileRun16(csrc, e.Val)
	noMethod := strings.Contains(cv.cerr, "has no method")
	if row[2].IsL == noMethod {
		c.R.Mismatch("c16/methodType", e.Name+" "+csrc+" : "+rt.String(), row[2].String(), fmt.Sprintf("accepted=%v err=%s", cv.accepted, cv.cerr))
	}
	callable := ft.Kind() == reflect.Func && ft.NumOut() == 1
	recvOut := compileRun16(path, e.Val).out
	if cv.accepted && recvOut != nil && nilPtrMember(recvOut, name) {
		c.R.Count("membercall:nil-pointer-member", 1)
		return
	}
	if cv.accepted && !cv.ran && recvOut != nil && ptrToIfaceFunc(recvOut, name) {
		violateKeyed16(c, Violation{What: "function held in an interface behind a pointer member (*interface{}) is accepted as callable (isFuncType dereferences), but FetchFn stops at the interface value and reflect's Call refuses it",
			Key: "c16:accepted-not-resolvable:pointer-to-interface-holding-func", Input: cin, Expect: "call succeeds", Got: cv.rerr})
		return
	}
	if cv.accepted {
		c.R.Count("membercall:accepted", 1)
		if base.Kind() != reflect.Map && !dynamicOnly && cv.ran != row[4].IsL {
			c.R.Mismatch("c16/membercall-run", e.Name+" "+csrc+" : "+rt.String(), row[4].String(), fmt.Sprintf("ran=%v err=%s", cv.ran, cv.rerr))
		}
		if !cv.ran && ft.Kind() == reflect.Interface && !dynamicOnly && base.Kind() == reflect.Struct {
			violateKeyed16(c, Violation{What: "function held in a struct field of interface type is accepted as callable, but FetchFn returns the interface-kinded field and reflect's Call refuses it",
				Key: "c16:func-in-interface-field-not-callable", Input: cin, Expect: "call succeeds", Got: cv.rerr})
		}
		if !cv.ran && ft.Kind() == reflect.Func {
			key, what := "c16:accepted-method-not-callable", "method or func member accepted by the checker cannot be called at run time"
			switch {
			case fieldFound && !exported:
				key, what = "c16:unexported-func-field-accepted", "unexported func-typed field accepted by the checker cannot be called at run time"
			case strings.Contains(cv.rerr, "Call on ptr Value"):
				key, what = "c16:accepted-not-resolvable:pointer-to-func", "a member of type pointer-to-function is accepted as callable (isFuncType dereferences) but FetchFn hands the pointer to reflect's Call"
			case !methodFound && !fieldFound:
				key, what = "c16:ambiguous-method-accepted", "method that Go finds ambiguous (or that needs an addressable receiver) is accepted by the checker's depth-first search"
			}
			violateKeyed16(c, Violation{What: what, Key: key, Input: cin, Expect: "call succeeds", Got: cv.rerr})
		} else if cv.ran && !valueHasType(cv.out, cv.ty) {
			violateKeyed16(c, Violation{What: "the call's result does not have the type the checker assumed", Key: "c16:membercall-type-differs", Input: cin,
				Expect: "value of type " + fmt.Sprint(cv.ty), Got: fmt.Sprintf("%T", cv.out)})
		}
	} else if (base.Kind() == reflect.Struct || (base.Kind() == reflect.Interface && methodFound)) && callable && (methodFound || (fieldFound && exported)) {
		// (a method of an interface-typed receiver is statically known too: it has no receiver parameter)
		violateKeyed16(c, Violation{What: "callable exported member that Go resolves is rejected by the checker", Key: "c16:resolvable-method-rejected", Input: cin, Expect: "accepted", Got: cv.cerr})
	}
}
