package main

// C11 — an independent reference parser for the grammar of DESIGN Appendix B, written as a
// *stratified* recursive-descent grammar (one non-terminal per precedence level of the documented
// table `refBinary`/`refUnary`), not as a Pratt loop.  It decides for every token sequence which tree
// the reference grammar assigns to it, or that the grammar rejects it; the real parser is compared
// with it on accept/reject and on the tree (locations ignored).  This is a test, not a proof.

import (
	"regexp"
	"sort"
	"strconv"
	"strings"

	"github.com/antonmedv/expr/ast"
	"github.com/antonmedv/expr/file"
	"github.com/antonmedv/expr/parser/lexer"
)

func fileSource(s string) *file.Source { return file.NewSource(s) }

type refFail struct{ why string }

type refParser struct {
	toks   []lexer.Token
	pos    int
	depth  int
	levels []int // distinct binary precedences, ascending
}

func (p *refParser) fail(why string) { panic(refFail{why}) }

func (p *refParser) cur() lexer.Token { return p.toks[p.pos] }

func (p *refParser) adv() {
	if p.pos+1 >= len(p.toks) {
		p.fail("end of input")
	}
	p.pos++
}

func (p *refParser) is(kind lexer.Kind, v string) bool {
	t := p.cur()
	return t.Kind == kind && t.Value == v
}

func (p *refParser) expect(kind lexer.Kind, v string) {
	if !p.is(kind, v) {
		p.fail("expected " + v)
	}
	p.adv()
}

// refParse returns the tree of the reference grammar or ok=false
func refParse(toks []lexer.Token) (n ast.Node, ok bool, why string) {
	defer func() {
		if r := recover(); r != nil {
			if f, isF := r.(refFail); isF {
				n, ok, why = nil, false, f.why
				return
			}
			panic(r)
		}
	}()
	p := &refParser{toks: toks}
	seen := map[int]bool{}
	for _, o := range refBinary {
		if !seen[o.prec] {
			seen[o.prec] = true
			p.levels = append(p.levels, o.prec)
		}
	}
	sort.Ints(p.levels)
	n = p.expr0()
	if p.cur().Kind != lexer.EOF {
		p.fail("trailing tokens")
	}
	return n, true, ""
}

// expr0 := level(lowest) [ '?' ':' expr0 | '?' expr0 ':' expr0 ]
func (p *refParser) expr0() ast.Node {
	c := p.level(0)
	if p.is(lexer.Operator, "?") {
		p.adv()
		if p.is(lexer.Operator, ":") {
			p.adv()
			return &ast.ConditionalNode{Cond: c, Exp1: c, Exp2: p.expr0()}
		}
		e1 := p.expr0()
		p.expect(lexer.Operator, ":")
		return &ast.ConditionalNode{Cond: c, Exp1: e1, Exp2: p.expr0()}
	}
	return c
}

// levelFor: the stratum at which an operand that must bind at least as tightly as `prec` is parsed
func (p *refParser) levelFor(prec int) int {
	for i, l := range p.levels {
		if l >= prec {
			return i
		}
	}
	return len(p.levels)
}

func (p *refParser) mkBin(op string, l, r ast.Node) ast.Node {
	if op == "matches" {
		var re *regexp.Regexp
		if s, ok := r.(*ast.StringNode); ok {
			var err error
			re, err = regexp.Compile(s.Value)
			if err != nil {
				p.fail("bad regexp")
			}
		}
		return &ast.MatchesNode{Regexp: re, Left: l, Right: r}
	}
	return &ast.BinaryNode{Operator: op, Left: l, Right: r}
}

// level(i) := level(i+1) ( op_i level(i+1) )*      left-associative stratum
//           | level(i+1) [ op_i level(i) ]          right-associative stratum
func (p *refParser) level(i int) ast.Node {
	if i >= len(p.levels) {
		return p.primary()
	}
	left := p.level(i + 1)
	for {
		t := p.cur()
		op, ok := refBinary[t.Value]
		if t.Kind != lexer.Operator || !ok || op.prec != p.levels[i] {
			return left
		}
		p.adv()
		if op.right {
			return p.mkBin(t.Value, left, p.level(i))
		}
		left = p.mkBin(t.Value, left, p.level(i+1))
	}
}

func refValidName(t lexer.Token) bool {
	if t.Kind == lexer.Identifier {
		return true
	}
	if t.Kind != lexer.Operator || t.Value == "" {
		return false
	}
	for i, r := range t.Value {
		alpha := r == '_' || r == '$' || (r >= 'a' && r <= 'z') || (r >= 'A' && r <= 'Z') || r >= 0x80
		if !(alpha || (i > 0 && r >= '0' && r <= '9')) {
			return false
		}
	}
	return true
}

func (p *refParser) args() []ast.Node {
	p.expect(lexer.Bracket, "(")
	out := []ast.Node{}
	if !p.is(lexer.Bracket, ")") {
		out = append(out, p.expr0())
		for p.is(lexer.Operator, ",") {
			p.adv()
			out = append(out, p.expr0())
		}
	}
	p.expect(lexer.Bracket, ")")
	return out
}

func (p *refParser) postfix(n ast.Node) ast.Node {
	sticky := false
	for {
		t := p.cur()
		isPunct := t.Kind == lexer.Operator || t.Kind == lexer.Bracket
		switch {
		case isPunct && (t.Value == "." || t.Value == "?."):
			if t.Value == "?." {
				sticky = true
			}
			p.adv()
			name := p.cur()
			p.adv()
			if !refValidName(name) {
				p.fail("expected name")
			}
			if p.is(lexer.Bracket, "(") {
				n = &ast.MethodNode{Node: n, Method: name.Value, Arguments: p.args(), NilSafe: sticky}
			} else {
				n = &ast.PropertyNode{Node: n, Property: name.Value, NilSafe: sticky}
			}
		case isPunct && t.Value == "[":
			p.adv()
			var from, to ast.Node
			if p.is(lexer.Operator, ":") {
				p.adv()
				if !p.is(lexer.Bracket, "]") {
					to = p.expr0()
				}
				p.expect(lexer.Bracket, "]")
				n = &ast.SliceNode{Node: n, To: to}
				continue
			}
			from = p.expr0()
			if p.is(lexer.Operator, ":") {
				p.adv()
				if !p.is(lexer.Bracket, "]") {
					to = p.expr0()
				}
				p.expect(lexer.Bracket, "]")
				n = &ast.SliceNode{Node: n, From: from, To: to}
				continue
			}
			p.expect(lexer.Bracket, "]")
			n = &ast.IndexNode{Node: n, Index: from}
		default:
			return n
		}
	}
}

func (p *refParser) primary() ast.Node {
	t := p.cur()
	if pu, ok := refUnary[t.Value]; ok && t.Kind == lexer.Operator {
		p.adv()
		operand := p.level(p.levelFor(pu))
		// Appendix B: a postfix that follows a unary whose operand ends in a literal attaches to the unary
		return p.postfix(&ast.UnaryNode{Operator: t.Value, Node: operand})
	}
	if p.is(lexer.Bracket, "(") {
		p.adv()
		e := p.expr0()
		p.expect(lexer.Bracket, ")")
		return p.postfix(e)
	}
	if t.Kind == lexer.Operator && (t.Value == "#" || t.Value == ".") {
		if p.depth == 0 {
			p.fail("pointer outside closure")
		}
		if t.Value == "#" {
			p.adv()
		}
		return p.postfix(&ast.PointerNode{})
	}
	switch t.Kind {
	case lexer.Identifier:
		p.adv()
		switch t.Value {
		case "true":
			return &ast.BoolNode{Value: true}
		case "false":
			return &ast.BoolNode{Value: false}
		case "nil":
			return &ast.NilNode{}
		}
		if p.is(lexer.Bracket, "(") {
			if ar, ok := refBuiltins[t.Value]; ok {
				p.adv()
				args := []ast.Node{p.expr0()}
				if ar == 2 {
					p.expect(lexer.Operator, ",")
					p.expect(lexer.Bracket, "{")
					p.depth++
					body := p.expr0()
					p.depth--
					p.expect(lexer.Bracket, "}")
					args = append(args, &ast.ClosureNode{Node: body})
				}
				p.expect(lexer.Bracket, ")")
				return p.postfix(&ast.BuiltinNode{Name: t.Value, Arguments: args})
			}
			return p.postfix(&ast.FunctionNode{Name: t.Value, Arguments: p.args()})
		}
		return p.postfix(&ast.IdentifierNode{Value: t.Value, NilSafe: p.cur().Value == "?."})
	case lexer.Number:
		p.adv()
		v := strings.Replace(t.Value, "_", "", -1)
		switch {
		case strings.ContainsAny(v, "xX"):
			n, err := strconv.ParseInt(v, 0, 64)
			if err != nil {
				p.fail("bad hex literal")
			}
			return &ast.IntegerNode{Value: int(n)}
		case strings.ContainsAny(v, ".eE"):
			f, err := strconv.ParseFloat(v, 64)
			if err != nil {
				p.fail("bad float literal")
			}
			return &ast.FloatNode{Value: f}
		}
		n, err := strconv.ParseInt(v, 10, 64)
		if err != nil {
			p.fail("bad integer literal")
		}
		return &ast.IntegerNode{Value: int(n)}
	case lexer.String:
		p.adv()
		return &ast.StringNode{Value: t.Value}
	}
	if p.is(lexer.Bracket, "[") {
		p.adv()
		nodes := []ast.Node{}
		for !p.is(lexer.Bracket, "]") {
			if len(nodes) > 0 {
				p.expect(lexer.Operator, ",")
				if p.is(lexer.Bracket, "]") {
					break // one trailing comma
				}
			}
			nodes = append(nodes, p.expr0())
		}
		p.expect(lexer.Bracket, "]")
		return p.postfix(&ast.ArrayNode{Nodes: nodes})
	}
	if p.is(lexer.Bracket, "{") {
		p.adv()
		pairs := []ast.Node{}
		for !p.is(lexer.Bracket, "}") {
			if len(pairs) > 0 {
				p.expect(lexer.Operator, ",")
				if p.is(lexer.Bracket, "}") {
					break // one trailing comma
				}
			}
			var key ast.Node
			k := p.cur()
			switch {
			case k.Kind == lexer.Number || k.Kind == lexer.String || k.Kind == lexer.Identifier:
				key = &ast.StringNode{Value: k.Value}
				p.adv()
			case p.is(lexer.Bracket, "("):
				key = p.expr0()
			default:
				p.fail("bad map key")
			}
			p.expect(lexer.Operator, ":")
			pairs = append(pairs, &ast.PairNode{Key: key, Value: p.expr0()})
		}
		p.expect(lexer.Bracket, "}")
		return p.postfix(&ast.MapNode{Pairs: pairs})
	}
	p.fail("unexpected token " + t.Value)
	return nil
}

// refCompare checks one source text: the real parser against the reference grammar
func (c *Ctx) refCompare(stage, src string, got parseOutcome) {
	r := c.R
	toks, err := lexer.Lex(fileSource(src))
	if err != nil {
		return
	}
	want, ok, why := refParse(toks)
	r.Count("ref:"+stage, 1)
	switch {
	case ok && got.tree == nil:
		r.Violate(Violation{What: "the reference grammar accepts a token sequence that the parser rejects",
			Key: "c11:ref-accepts:" + constructKey(want), Input: src, Expect: shape(want), Got: got.s + " " + got.msg})
	case !ok && got.tree != nil:
		r.Violate(Violation{What: "the parser accepts a token sequence that the reference grammar rejects",
			Key: "c11:ref-rejects:" + constructKey(got.tree), Input: src, Expect: "rejected: " + why, Got: shape(got.tree)})
	case ok && shape(want) != shape(got.tree):
		r.Violate(Violation{What: "the parser's tree differs from the tree of the reference grammar",
			Key: "c11:ref-tree:" + constructKey(want), Input: src, Expect: shape(want), Got: shape(got.tree)})
	case ok:
		r.Count("ref:accepted", 1)
	default:
		r.Count("ref:rejected", 1)
	}
}

// eraseText mirrors `eraseText` of Props/C11.lean: parentheses and `#` dropped, `?.` read as `.`, kinds forgotten
func eraseText(toks []lexer.Token) []string {
	var out []string
	for _, t := range toks {
		if (t.Kind == lexer.Bracket && (t.Value == "(" || t.Value == ")")) || (t.Kind == lexer.Operator && t.Value == "#") {
			continue
		}
		if t.Value == "?." {
			out = append(out, ".")
		} else {
			out = append(out, t.Value)
		}
	}
	return out
}

// eraseCheck tests the statement `parse_erase_goal` of Props/C11.lean on one accepted input
func (c *Ctx) eraseCheck(src string, tree ast.Node) {
	r := c.R
	toks, err := lexer.Lex(fileSource(src))
	if err != nil {
		return
	}
	for i, t := range toks {
		if i+1 < len(toks) {
			n := toks[i+1]
			if t.Kind == lexer.Operator && t.Value == "?" && n.Kind == lexer.Operator && n.Value == ":" {
				r.Count("erase:skipped", 1)
				return
			}
			if t.Kind == lexer.Operator && t.Value == "," && n.Kind == lexer.Bracket && (n.Value == "]" || n.Value == "}") {
				r.Count("erase:skipped", 1)
				return
			}
		}
		if t.Kind == lexer.Number {
			plain := false
			if !strings.ContainsAny(t.Value, "xX_") {
				if strings.ContainsAny(t.Value, ".eE") {
					if f, err := strconv.ParseFloat(t.Value, 64); err == nil && fmtFloat(f) == t.Value {
						plain = true
					}
				} else if n, err := strconv.ParseInt(t.Value, 10, 64); err == nil && strconv.FormatInt(n, 10) == t.Value {
					plain = true
				}
			}
			if !plain {
				r.Count("erase:skipped", 1)
				return
			}
		}
	}
	pr := &printer{c: c, policy: polMinimal}
	printed := strings.Join(pr.expr(tree, 0, fNone), " ")
	ptoks, err := lexer.Lex(fileSource(printed))
	if err != nil {
		r.Mismatch("erase", src, "printed text does not lex", printed)
		return
	}
	a, b := strings.Join(eraseText(toks), "\x00"), strings.Join(eraseText(ptoks), "\x00")
	r.Count("erase:checked", 1)
	if a != b {
		r.Violate(Violation{What: "an accepted token list is not the minimal printing of its tree up to parentheses (parse_erase_goal)",
			Key: "c11:erase:" + constructKey(tree), Input: src, Expect: printed, Got: src})
	}
}
