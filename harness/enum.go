package main

// Exhaustive enumeration of small syntax trees, built directly as ast values: every node kind with every
// operator in every child slot over a fixed leaf alphabet.  Compositional stages (compiler, Spec) are
// exercised deterministically on these, independent of the random generator's distribution.

import (
	"regexp"

	"github.com/antonmedv/expr/ast"
	"github.com/antonmedv/expr/file"
)

var enumUnary = []string{"not", "!", "-", "+"}
var enumBinary = []string{"or", "||", "and", "&&", "==", "!=", "<", ">", ">=", "<=", "not in", "in", "contains", "startsWith", "endsWith", "..", "+", "-", "*", "/", "%", "**"}
var enumBuiltins = []string{"all", "none", "any", "one", "filter", "map", "count"}

type locGen struct{ n int }

func (l *locGen) next() file.Location {
	l.n++
	return file.Location{Line: 1 + l.n/40, Column: l.n % 40}
}

func setLoc(n ast.Node, l *locGen) ast.Node {
	n.SetLocation(l.next())
	return n
}

func enumLeaves(l *locGen, inClosure bool) []func() ast.Node {
	out := []func() ast.Node{
		func() ast.Node { return setLoc(&ast.NilNode{}, l) },
		func() ast.Node { return setLoc(&ast.IdentifierNode{Value: "I"}, l) },
		func() ast.Node { return setLoc(&ast.IdentifierNode{Value: "Ints"}, l) },
		func() ast.Node { return setLoc(&ast.IdentifierNode{Value: "S"}, l) },
		func() ast.Node { return setLoc(&ast.IdentifierNode{Value: "B"}, l) },
		func() ast.Node { return setLoc(&ast.IdentifierNode{Value: "Missing", NilSafe: true}, l) },
		func() ast.Node { return setLoc(&ast.IntegerNode{Value: 2}, l) },
		func() ast.Node { return setLoc(&ast.IntegerNode{Value: 0}, l) },
		func() ast.Node { return setLoc(&ast.FloatNode{Value: 1.5}, l) },
		func() ast.Node { return setLoc(&ast.BoolNode{Value: true}, l) },
		func() ast.Node { return setLoc(&ast.BoolNode{Value: false}, l) },
		func() ast.Node { return setLoc(&ast.StringNode{Value: "a"}, l) },
		func() ast.Node { return setLoc(&ast.StringNode{Value: "^a"}, l) }, // same text as the regexp pattern used below
		func() ast.Node { return setLoc(&ast.IdentifierNode{Value: "Z"}, l) },  // nil at run time
		func() ast.Node { return setLoc(&ast.ConstantNode{Value: []int{1, 2, 3}}, l) },
		func() ast.Node { return setLoc(&ast.ConstantNode{Value: map[int]struct{}{2: {}}}, l) },
	}
	if inClosure {
		out = append(out, func() ast.Node { return setLoc(&ast.PointerNode{}, l) })
	}
	return out
}

// EnumTrees returns every tree of the given depth (1 = leaves) whose children are drawn from `kids`
// (constructors of the lower level); `stride` thins the binary/ternary products deterministically.
func EnumTrees(l *locGen, kids []func() ast.Node, inClosure bool, stride int) []func() ast.Node {
	var out []func() ast.Node
	add := func(f func() ast.Node) { out = append(out, f) }
	cnt := 0
	take := func() bool { cnt++; return stride <= 1 || cnt%stride == 0 }
	for _, k := range kids {
		k := k
		for _, op := range enumUnary {
			op := op
			add(func() ast.Node { return setLoc(&ast.UnaryNode{Operator: op, Node: k()}, l) })
		}
		add(func() ast.Node { return setLoc(&ast.PropertyNode{Node: k(), Property: "X"}, l) })
		add(func() ast.Node { return setLoc(&ast.PropertyNode{Node: k(), Property: "a", NilSafe: true}, l) })
		add(func() ast.Node { return setLoc(&ast.BuiltinNode{Name: "len", Arguments: []ast.Node{k()}}, l) })
		add(func() ast.Node { return setLoc(&ast.FunctionNode{Name: "Id", Arguments: []ast.Node{k()}}, l) })
		add(func() ast.Node { return setLoc(&ast.FunctionNode{Name: "Fast", Arguments: []ast.Node{k(), k()}, Fast: true}, l) })
		add(func() ast.Node { return setLoc(&ast.FunctionNode{Name: "Inc", Arguments: []ast.Node{k()}}, l) })
		add(func() ast.Node { return setLoc(&ast.MethodNode{Node: setLoc(&ast.IdentifierNode{Value: "M"}, l), Method: "f", Arguments: []ast.Node{k()}, NilSafe: true}, l) })
		add(func() ast.Node { return setLoc(&ast.MethodNode{Node: k(), Method: "f", Arguments: []ast.Node{}, NilSafe: false}, l) })
		add(func() ast.Node { return setLoc(&ast.ArrayNode{Nodes: []ast.Node{k()}}, l) })
		add(func() ast.Node { return setLoc(&ast.SliceNode{Node: k()}, l) })
		add(func() ast.Node {
			return setLoc(&ast.MapNode{Pairs: []ast.Node{setLoc(&ast.PairNode{Key: setLoc(&ast.StringNode{Value: "k"}, l), Value: k()}, l)}}, l)
		})
		add(func() ast.Node {
			return setLoc(&ast.MapNode{Pairs: []ast.Node{setLoc(&ast.PairNode{Key: k(), Value: setLoc(&ast.IntegerNode{Value: 1}, l)}, l)}}, l)
		})
		add(func() ast.Node {
			return setLoc(&ast.MatchesNode{Regexp: regexp.MustCompile("^a"), Left: k(), Right: setLoc(&ast.StringNode{Value: "^a"}, l)}, l)
		})
		for _, k2 := range kids {
			k2 := k2
			for _, op := range enumBinary {
				op := op
				if take() {
					add(func() ast.Node { return setLoc(&ast.BinaryNode{Operator: op, Left: k(), Right: k2()}, l) })
				}
			}
			if take() {
				add(func() ast.Node { return setLoc(&ast.MatchesNode{Left: k(), Right: k2()}, l) })
			}
			if take() {
				add(func() ast.Node { return setLoc(&ast.IndexNode{Node: k(), Index: k2()}, l) })
			}
			if take() {
				add(func() ast.Node { return setLoc(&ast.SliceNode{Node: k(), From: k2()}, l) })
			}
			if take() {
				add(func() ast.Node { return setLoc(&ast.SliceNode{Node: k(), To: k2()}, l) })
			}
			if take() {
				add(func() ast.Node { return setLoc(&ast.ArrayNode{Nodes: []ast.Node{k(), k2()}}, l) })
			}
			if take() {
				add(func() ast.Node { return setLoc(&ast.FunctionNode{Name: "Add", Arguments: []ast.Node{k(), k2()}}, l) })
			}
			for _, b := range enumBuiltins {
				b := b
				if take() {
					add(func() ast.Node {
						return setLoc(&ast.BuiltinNode{Name: b, Arguments: []ast.Node{k(), setLoc(&ast.ClosureNode{Node: k2()}, l)}}, l)
					})
				}
			}
			if take() {
				add(func() ast.Node {
					return setLoc(&ast.MapNode{Pairs: []ast.Node{
						setLoc(&ast.PairNode{Key: setLoc(&ast.StringNode{Value: "k"}, l), Value: k()}, l),
						setLoc(&ast.PairNode{Key: setLoc(&ast.StringNode{Value: "k"}, l), Value: k2()}, l)}}, l)
				})
			}
			if take() {
				add(func() ast.Node { return setLoc(&ast.ConditionalNode{Cond: k(), Exp1: k2(), Exp2: k()}, l) })
			}
			if take() {
				add(func() ast.Node { return setLoc(&ast.ConditionalNode{Cond: k2(), Exp1: k2(), Exp2: k()}, l) })
			}
			if take() {
				add(func() ast.Node { return setLoc(&ast.SliceNode{Node: setLoc(&ast.IdentifierNode{Value: "Ints"}, l), From: k(), To: k2()}, l) })
			}
		}
	}
	return out
}
