package main

// Defined (named) scalar types — `type Color string`, `type Level int`, time.Weekday — are outside the value
// universe of the Lean models (whose scalars are the predeclared kinds).  This file is the real-code side only: a
// small environment whose members have defined types and a fixed list of probe expressions, evaluated in every
// compilation mode, with the property oracles of C02 / C03 / C13 / C15 applied to the outcomes (search for a
// failing input; nothing here is a theorem).  Added after seed c15_6 (OpEqualInt / OpEqualString unwrapping
// operands of defined types) slipped through: kind-directed instruction selection and kind-directed optimizer
// guards look at reflect.Kind, which a defined type shares with its underlying predeclared type.

import (
	"fmt"
	"strings"
	"time"

	"github.com/antonmedv/expr"
	"github.com/antonmedv/expr/file"
)

type dzColor string
type dzLevel int
type dzRatio float64
type dzFlag bool

type dzEnv struct {
	Color, Shade dzColor
	Name         string
	Level, Rank  dzLevel
	N            int
	Day          time.Weekday
	Ratio        dzRatio
	F            float64
	Flag         dzFlag
	B            bool
	Colors       []dzColor
	Levels       []dzLevel
	Names        []string
	Ns           []int
}

func dzEnvs() []dzEnv {
	return []dzEnv{
		{Color: "red", Shade: "red", Name: "red", Level: 3, Rank: 3, N: 3, Day: time.Wednesday, Ratio: 1.5, F: 1.5, Flag: true, B: true,
			Colors: []dzColor{"red", "blue"}, Levels: []dzLevel{1, 3}, Names: []string{"red", "x"}, Ns: []int{3, 4}},
		{Color: "red", Shade: "blue", Name: "", Level: 0, Rank: 7, N: 7, Day: time.Sunday, Ratio: 0, F: 0, Flag: false, B: true,
			Colors: nil, Levels: []dzLevel{0}, Names: nil, Ns: []int{0}},
	}
}

func (e dzEnv) asMap() map[string]interface{} {
	return map[string]interface{}{"Color": e.Color, "Shade": e.Shade, "Name": e.Name, "Level": e.Level, "Rank": e.Rank, "N": e.N,
		"Day": e.Day, "Ratio": e.Ratio, "F": e.F, "Flag": e.Flag, "B": e.B, "Colors": e.Colors, "Levels": e.Levels, "Names": e.Names, "Ns": e.Ns}
}

var dzProbes = []string{
	`Color == "red"`, `"red" == Color`, `Color == Name`, `Color == Shade`, `Color != "red"`, `Color != Shade`,
	`Level == 3`, `3 == Level`, `Level == N`, `Level == Rank`, `Level != 3`, `Day == 3`, `Day == Level`, `Day == N`,
	`Ratio == 1.5`, `Ratio == F`, `Flag == true`, `Flag == B`, `Flag and B`, `not Flag`, `Flag ? 1 : 2`,
	`Level + 1`, `Level < 4`, `Level >= Rank`, `Color + "x"`, `-Level`, `Level * N`,
	`Color in ["red", "green"]`, `Color not in ["red"]`, `Level in [3, 4]`, `Level not in [1, 2]`, `Day in [3]`,
	`Level in 1..5`, `Level not in 1..5`, `Day in 0..6`, `Rank in 1..3`,
	`Color in Colors`, `Level in Levels`, `Name in Colors`, `N in Levels`, `Color in Names`, `Level in Ns`,
	`any(Colors, {# == "red"})`, `any(Colors, {# == Color})`, `count(Levels, {# == 3})`, `filter(Levels, {# == Level})`,
	`all(Levels, {# in 0..9})`, `map(Colors, {# == Shade})`, `len(Colors) == len(Names)`,
	`Color matches "^r"`, `Color contains "e"`, `Color startsWith "r"`, `{a: Color}.a == "red"`, `[Level][0] == 3`,
	`Levels[0] == 1`, `Colors[0] == "red"`, `Levels[Level - Level]`, `Ns[Level]`, `Color[0:1]`,
}

type dzOutcome struct {
	mode     string
	compiled bool
	val      string
	err      string
	loc      file.Location
	hasLoc   bool
}

func dzRun(mode, src string, env interface{}, opts ...expr.Option) (o dzOutcome) {
	o.mode = mode
	defer func() {
		if r := recover(); r != nil {
			o.err = fmt.Sprint("PANIC: ", r)
		}
	}()
	var v interface{}
	var err error
	if mode == "eval" || mode == "eval-map" {
		o.compiled = true
		v, err = expr.Eval(src, env)
	} else {
		p, cerr := expr.Compile(src, opts...)
		if cerr != nil {
			o.err = cerr.Error()
			return
		}
		o.compiled = true
		v, err = expr.Run(p, env)
	}
	if err != nil {
		o.err = err.Error()
		if fe, ok := err.(*file.Error); ok {
			o.loc, o.hasLoc = fe.Location, true
		}
		return
	}
	o.val = valSx(v).String()
	return
}

func dzIsTypeError(msg string) bool {
	for _, s := range []string{"interface conversion", "invalid operation", "reflect.Value.", "reflect:", "not assignable", "PANIC"} {
		if strings.Contains(msg, s) {
			return true
		}
	}
	return false
}

// definedTypeProbe applies the oracle of property prop (C02, C03, C13 or C15) to the defined-type probes.
func definedTypeProbe(c *Ctx, prop string) {
	r := c.R
	for ei, e := range dzEnvs() {
		m := e.asMap()
		for _, src := range dzProbes {
			outs := []dzOutcome{
				dzRun("eval", src, e),
				dzRun("eval-map", src, m),
				dzRun("compile-noenv", src, e, expr.Optimize(false)),
				dzRun("env-struct", src, e, expr.Env(e), expr.Optimize(false)),
				dzRun("env-struct+optimizer", src, e, expr.Env(e), expr.Optimize(true)),
				dzRun("env-ptr", src, &e, expr.Env(&e), expr.Optimize(false)),
				dzRun("env-map", src, m, expr.Env(m), expr.Optimize(false)),
				dzRun("env-map+optimizer", src, m, expr.Env(m), expr.Optimize(true)),
			}
			r.Count("defined-type-probes", 1)
			in := map[string]string{"expr": src, "env": fmt.Sprintf("defined-type environment #%d (%+v)", ei, e)}
			cls := dzClass(src)
			switch prop {
			case "C15":
				var first *dzOutcome
				for i := range outs {
					o := &outs[i]
					if !o.compiled || o.err != "" {
						continue
					}
					if first == nil {
						first = o
						continue
					}
					if o.val != first.val {
						r.Violate(Violation{What: "variants with and without type information return different values (defined scalar types)",
							Key: "c15:defined-type:" + cls, Input: in, Expect: first.mode + " = " + first.val, Got: o.mode + " = " + o.val})
						break
					}
				}
			case "C03":
				for _, o := range outs {
					if strings.HasPrefix(o.mode, "env-") && o.compiled && o.err != "" && dzIsTypeError(o.err) {
						r.Violate(Violation{What: "a program the checker accepts fails at run time with a type error (defined scalar types)",
							Key: "c03:defined-type:" + cls, Input: in, Expect: "rejected at compile time, or a run without type errors", Got: o.mode + ": " + dzFirstLine(o.err)})
						break
					}
				}
			case "C02":
				for _, pair := range [][2]int{{3, 4}, {6, 7}} {
					a, b := outs[pair[0]], outs[pair[1]]
					if a.compiled != b.compiled || (a.err == "") != (b.err == "") || (a.err == "" && c15ElemTag.ReplaceAllString(a.val, "(arr ") != c15ElemTag.ReplaceAllString(b.val, "(arr ")) {
						r.Violate(Violation{What: "Optimize(true) and Optimize(false) disagree (defined scalar types)",
							Key: "c02:defined-type:" + cls, Input: in, Expect: a.mode + " = " + a.val + dzFirstLine(a.err), Got: b.mode + " = " + b.val + dzFirstLine(b.err)})
						break
					}
				}
			case "C13":
				nl := strings.Count(src, "\n") + 1
				for _, o := range outs {
					if o.compiled && o.err != "" && o.hasLoc && (o.loc.Line < 1 || o.loc.Line > nl || o.loc.Column > len([]rune(src))) {
						r.Violate(Violation{What: "a run-time error is reported without a position inside the source (defined scalar types)",
							Key: "c13:defined-type:unlocated:" + cls, Input: in, Expect: "a location on line 1.." + fmt.Sprint(nl), Got: fmt.Sprintf("%s: %d:%d %s", o.mode, o.loc.Line, o.loc.Column, dzFirstLine(o.err))})
						break
					}
				}
			}
		}
	}
	if r.Counters["defined-type-probes"] == 0 {
		r.Mismatch("generator", "defined-type-probes", "no probe ran", "")
	}
}

func dzFirstLine(s string) string {
	if i := strings.IndexByte(s, '\n'); i >= 0 {
		return s[:i]
	}
	return s
}

// dzClass names the mechanism a probe exercises (stable part of the violation key).
func dzClass(src string) string {
	switch {
	case strings.Contains(src, ".."):
		return "in-range"
	case strings.Contains(src, " in [") || strings.Contains(src, " not in ["):
		return "in-array-literal"
	case strings.Contains(src, " in "):
		return "in-collection"
	case strings.Contains(src, "=="):
		return "equality"
	case strings.Contains(src, "!="):
		return "inequality"
	case strings.Contains(src, "Flag"):
		return "bool-operand"
	case strings.Contains(src, "matches") || strings.Contains(src, "contains") || strings.Contains(src, "startsWith") || strings.Contains(src, "endsWith") || strings.Contains(src, `+ "`):
		return "string-operator"
	case strings.ContainsAny(src, "+-*/<>%"):
		return "arithmetic"
	case strings.Contains(src, "[Level"):
		return "index-operand"
	}
	return "other"
}
