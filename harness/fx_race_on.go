//go:build race

package main

const c08RaceEnabled = true
