package main

// S-expressions: the line protocol shared with the Lean model driver (lean/ExprModel/Base/Sexp.lean).

import (
	"encoding/hex"
	"fmt"
	"strconv"
	"strings"
)

type Sx struct {
	Atom string
	List []*Sx
	IsL  bool
}

func A(s string) *Sx          { return &Sx{Atom: s} }
func L(xs ...*Sx) *Sx         { return &Sx{List: xs, IsL: true} }
func T(tag string, xs ...*Sx) *Sx { return &Sx{List: append([]*Sx{A(tag)}, xs...), IsL: true} }
func SStr(s string) *Sx {
	if s == "" {
		return A("-")
	}
	return A(hex.EncodeToString([]byte(s)))
}
func SInt(n int64) *Sx   { return A(strconv.FormatInt(n, 10)) }
func SUint(n uint64) *Sx { return A(strconv.FormatUint(n, 10)) }
func SBool(b bool) *Sx {
	if b {
		return A("true")
	}
	return A("false")
}

func (s *Sx) String() string {
	var sb strings.Builder
	s.write(&sb)
	return sb.String()
}

func (s *Sx) write(sb *strings.Builder) {
	if !s.IsL {
		sb.WriteString(s.Atom)
		return
	}
	sb.WriteByte('(')
	for i, x := range s.List {
		if i > 0 {
			sb.WriteByte(' ')
		}
		x.write(sb)
	}
	sb.WriteByte(')')
}

func ParseSx(in string) (*Sx, error) {
	p := &sxParser{s: in}
	x, err := p.parse()
	if err != nil {
		return nil, err
	}
	return x, nil
}

type sxParser struct {
	s string
	i int
}

func (p *sxParser) ws() {
	for p.i < len(p.s) && (p.s[p.i] == ' ' || p.s[p.i] == '\n' || p.s[p.i] == '\t' || p.s[p.i] == '\r') {
		p.i++
	}
}

func (p *sxParser) parse() (*Sx, error) {
	p.ws()
	if p.i >= len(p.s) {
		return nil, fmt.Errorf("sexp: unexpected end")
	}
	if p.s[p.i] == '(' {
		p.i++
		out := &Sx{IsL: true}
		for {
			p.ws()
			if p.i >= len(p.s) {
				return nil, fmt.Errorf("sexp: unclosed list")
			}
			if p.s[p.i] == ')' {
				p.i++
				return out, nil
			}
			x, err := p.parse()
			if err != nil {
				return nil, err
			}
			out.List = append(out.List, x)
		}
	}
	if p.s[p.i] == ')' {
		return nil, fmt.Errorf("sexp: unexpected )")
	}
	j := p.i
	for j < len(p.s) && !strings.ContainsRune(" ()\n\t\r", rune(p.s[j])) {
		j++
	}
	a := p.s[p.i:j]
	p.i = j
	return A(a), nil
}

func (s *Sx) Tag() string {
	if s.IsL && len(s.List) > 0 && !s.List[0].IsL {
		return s.List[0].Atom
	}
	return ""
}

func (s *Sx) Str() string {
	if s.Atom == "-" {
		return ""
	}
	b, err := hex.DecodeString(s.Atom)
	if err != nil {
		return "<badhex:" + s.Atom + ">"
	}
	return string(b)
}
