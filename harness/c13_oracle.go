package main

func c13Oracle(c *Ctx) {}
