package main

// C13 (ii)/(iii): single-fault and single-failure oracles on the real code alone.
//
// A small typed generator builds a well-typed expression over c13Env as a tree, prints it as a token
// list and lays the tokens out with random blanks, tabs, LF and CRLF between them; string literals and
// identifiers carry 2/3/4-byte runes.  While laying out, the rune offset, line and column of every
// token are computed by the documented rule (c13LcOf), independently of the library.
//
// WHICH TOKEN IS "THE OCCURRENCE" (from the property text: "an unknown name, a type mismatch at one
// operator, a syntax error at one token … a run fails at a single failing operation … the reported
// line and column identify exactly that occurrence"; the column convention is the 0-based column of
// the FIRST rune of the token):
//
//   compile time
//     unknown-ident        the unknown identifier
//     unknown-field        the unknown field name (the name after the dot)
//     unknown-method       the unknown method name
//     unknown-func         the unknown function name
//     binop-operand        the operator whose operand has the wrong type
//     unop-operand         the unary operator
//     arg-type             the offending argument (a leaf: its only token)
//     cond-nonbool         the condition (a leaf: its only token)
//     const-div-zero       the `/` or `%` operator dividing two literals
//   syntax
//     illegal-char         the illegal character
//     bad-number           the malformed number (its first rune … its first illegal rune)
//     unexpected-token     the token that cannot start an operand
//     wrong-closer         the wrong closing bracket
//     unclosed-at-eof      the end of input (the last rune or the position just after it)
//     bad-escape           the escape sequence (its backslash or the character after it)
//     unterminated-string  the literal's opening quote, or the place where it breaks off (its last rune,
//                          or the newline / the end of input right after it)
//   run time (one failing operation, everything else succeeds or is guarded)
//     div-zero, dyn-binop, dyn-in, bad-regex         the operator
//     dyn-unop                                      the unary operator
//     index-range, slice-range                      the `[`
//     nil-field, any-field, nil-method, method-panic  the member name
//     func-panic, dyn-len, dyn-builtin-coll, closure-nonbool   the function / builtin name
//     cond-nonbool-rt                               the `?` of that conditional or its condition
//
// Every reported location must also lie inside the source, and the snippet must be that source line.

import (
	"encoding/json"
	"fmt"
	"math/rand"
	"os"
	"sort"
	"strings"

	"github.com/antonmedv/expr"
	"github.com/antonmedv/expr/file"
	"github.com/antonmedv/expr/parser"
	"github.com/antonmedv/expr/vm"
)

// ---- environment -------------------------------------------------------------------------------

type c13Inner struct {
	Name  string
	Größe int
	Tags  []string
	Next  *c13Inner
}

func (c13Inner) Twice(n int) int { return 2 * n }
func (c13Inner) Boom() int       { panic("boom") }

type c13Env struct {
	A, B, C, Z, Big, Neg int
	X, Y            float64
	S, T            string
	Ünï             string
	Ok, No          bool
	Arr             []int
	Strs            []string
	In              c13Inner
	P               *c13Inner
	Any             interface{}
	AnyI            interface{}
	Re              string
}

func (c13Env) Add(a, b int) int      { return a + b }
func (c13Env) Upper(s string) string { return strings.ToUpper(s) }
func (c13Env) Boom(n int) int        { panic("boom") }

func c13MakeEnv() c13Env {
	return c13Env{A: 5, B: 3, C: 11, Z: 0, Big: 99, Neg: -3, X: 1.5, Y: 2.25, S: "straße", T: "tok", Ünï: "ünï",
		Ok: true, No: false, Arr: []int{4, 8, 15, 16, 23}, Strs: []string{"a", "é", "漢"},
		In: c13Inner{Name: "inner", Größe: 7, Tags: []string{"t"}}, P: nil, Any: "text", AnyI: 7, Re: "("}
}

// ---- trees and tokens --------------------------------------------------------------------------

type c13Tok struct {
	text      string
	kind      byte // 'w' word/number, 's' string, 'o' symbol operator, '(' opener, ')' closer, ',' comma, '.' dot
	off       int
	line, col int
}

type c13Node struct {
	k    string // lit id ptr bin un cond call method field index slice array builtin closure
	typ  string // int float str bool ints strs inner any
	text string
	kids []*c13Node
	def  *c13Tok // defining token (set by the printer)
	qtok *c13Tok // `?` of a conditional
	open bool    // printed in an "open" position (no parentheses needed)
}

var c13Prec = map[string]int{
	"or": 10, "||": 10, "and": 15, "&&": 15,
	"==": 20, "!=": 20, "<": 20, ">": 20, "<=": 20, ">=": 20, "in": 20, "not in": 20, "matches": 20,
	"contains": 20, "startsWith": 20, "endsWith": 20, "..": 25, "+": 30, "-": 30, "*": 60, "/": 60, "%": 60, "**": 70,
}

type c13Gen struct {
	rng   *rand.Rand
	depth int // closure depth (for `#`)
	kw    bool // keyword-prefix mode (names are printed through c13KwAlias)
	noArr int // > 0 while generating the collection of a builtin: an array literal is []interface{} and would make `#` untyped
}

// coll generates the collection argument of a builtin ([]int for the checker, so that `#` is an int)
func (g *c13Gen) coll(d int) *c13Node {
	g.noArr++
	n := g.gen("ints", d)
	g.noArr--
	return n
}

func (g *c13Gen) pick(xs ...string) string { return xs[g.rng.Intn(len(xs))] }

func c13Lit(typ, text string) *c13Node { return &c13Node{k: "lit", typ: typ, text: text} }
func c13Id(typ, name string) *c13Node  { return &c13Node{k: "id", typ: typ, text: name} }
func c13Bin(typ, op string, l, r *c13Node) *c13Node {
	return &c13Node{k: "bin", typ: typ, text: op, kids: []*c13Node{l, r}}
}
func c13Un(typ, op string, x *c13Node) *c13Node { return &c13Node{k: "un", typ: typ, text: op, kids: []*c13Node{x}} }
func c13Cond(typ string, c, a, b *c13Node) *c13Node {
	return &c13Node{k: "cond", typ: typ, kids: []*c13Node{c, a, b}}
}
func c13CallN(typ, name string, args ...*c13Node) *c13Node {
	return &c13Node{k: "call", typ: typ, text: name, kids: args}
}
func c13Method(typ string, recv *c13Node, name string, args ...*c13Node) *c13Node {
	return &c13Node{k: "method", typ: typ, text: name, kids: append([]*c13Node{recv}, args...)}
}
func c13Field(typ string, recv *c13Node, name string) *c13Node {
	return &c13Node{k: "field", typ: typ, text: name, kids: []*c13Node{recv}}
}
func c13Index(typ string, recv, i *c13Node) *c13Node {
	return &c13Node{k: "index", typ: typ, kids: []*c13Node{recv, i}}
}
func c13Slice(typ string, recv, from, to *c13Node) *c13Node {
	return &c13Node{k: "slice", typ: typ, kids: []*c13Node{recv, from, to}}
}
func c13Array(typ string, xs ...*c13Node) *c13Node { return &c13Node{k: "array", typ: typ, kids: xs} }
func c13Builtin(typ, name string, args ...*c13Node) *c13Node {
	return &c13Node{k: "builtin", typ: typ, text: name, kids: args}
}
func c13Closure(body *c13Node) *c13Node { return &c13Node{k: "closure", typ: "fn", kids: []*c13Node{body}} }

var c13StrBodies = []string{"a", "hé", "漢字", "x😀y", "ß", "t t", "", "q→", "naïve", "𝔘"}

func (g *c13Gen) strLit() *c13Node {
	q := g.pick("'", "\"")
	body := c13StrBodies[g.rng.Intn(len(c13StrBodies))]
	if g.rng.Intn(6) == 0 {
		body += g.pick("\\n", "\\t", "\\\\", "\\u00e9", "\\x41")
	}
	return c13Lit("str", q+body+q)
}

func (g *c13Gen) intLit() *c13Node { return c13Lit("int", fmt.Sprint(1+g.rng.Intn(98))) }

// leaf of a given type (never fails at run time)
func (g *c13Gen) leaf(typ string) *c13Node {
	switch typ {
	case "int":
		if g.depth > 0 && g.rng.Intn(3) == 0 {
			return &c13Node{k: "ptr", typ: "int", text: "#"}
		}
		if g.rng.Intn(2) == 0 {
			return g.intLit()
		}
		return c13Id("int", g.pick("A", "B", "C"))
	case "float":
		if g.rng.Intn(2) == 0 {
			return c13Lit("float", g.pick("1.5", "0.25", "2e3", "10.0"))
		}
		return c13Id("float", g.pick("X", "Y"))
	case "str":
		if g.rng.Intn(2) == 0 {
			return g.strLit()
		}
		return c13Id("str", g.pick("S", "T", "Ünï"))
	case "bool":
		if g.rng.Intn(3) == 0 {
			return c13Lit("bool", g.pick("true", "false"))
		}
		return c13Id("bool", g.pick("Ok", "No"))
	case "ints":
		return c13Id("ints", "Arr")
	case "strs":
		return c13Id("strs", "Strs")
	}
	panic("leaf " + typ)
}

// gen builds a well-typed expression of static type typ that cannot fail at run time.
func (g *c13Gen) gen(typ string, d int) *c13Node {
	if d <= 0 {
		return g.leaf(typ)
	}
	r := g.rng.Intn(12)
	switch typ {
	case "int":
		switch r {
		case 0, 1:
			return c13Bin("int", g.pick("+", "-", "*"), g.gen("int", d-1), g.gen("int", d-1))
		case 2:
			return c13Bin("int", g.pick("/", "%"), g.gen("int", d-1), g.pick2(g.intLit(), c13Id("int", "B")))
		case 3:
			return c13Un("int", "-", g.gen("int", d-1))
		case 4:
			return c13Cond("int", g.gen("bool", d-1), g.gen("int", d-1), g.gen("int", d-1))
		case 5:
			return c13CallN("int", "Add", g.gen("int", d-1), g.gen("int", d-1))
		case 6:
			return c13Method("int", c13Id("inner", "In"), "Twice", g.gen("int", d-1))
		case 7:
			return c13Field("int", c13Id("inner", "In"), "Größe")
		case 8:
			return c13Index("int", c13Id("ints", "Arr"), c13Lit("int", fmt.Sprint(g.rng.Intn(5))))
		case 9:
			if g.rng.Intn(2) == 0 {
				return c13Builtin("int", "len", g.gen("str", d-1))
			}
			return c13Builtin("int", "len", g.gen("ints", d-1))
		case 10:
			return c13Builtin("int", "count", g.coll(d-1), g.closureOf("bool", d-1))
		}
	case "float":
		switch r {
		case 0, 1, 2:
			return c13Bin("float", g.pick("+", "-", "*", "/"), g.gen("float", d-1), g.pick2(g.gen("float", d-1), g.intLit()))
		case 3:
			return c13Cond("float", g.gen("bool", d-1), g.gen("float", d-1), g.gen("float", d-1))
		case 4:
			return c13Un("float", "-", g.gen("float", d-1))
		case 5:
			return c13Bin("float", "**", g.leaf("int"), g.leaf("int"))
		}
	case "str":
		switch r {
		case 0, 1, 2:
			return c13Bin("str", "+", g.gen("str", d-1), g.gen("str", d-1))
		case 3:
			return c13CallN("str", "Upper", g.gen("str", d-1))
		case 4:
			return c13Field("str", c13Id("inner", "In"), "Name")
		case 5:
			return c13Index("str", c13Id("strs", "Strs"), c13Lit("int", fmt.Sprint(g.rng.Intn(3))))
		case 6:
			return c13Cond("str", g.gen("bool", d-1), g.gen("str", d-1), g.gen("str", d-1))
		}
	case "bool":
		switch r {
		case 0:
			return c13Bin("bool", g.pick("<", ">", "<=", ">=", "==", "!="), g.gen("int", d-1), g.gen("int", d-1))
		case 1:
			return c13Bin("bool", g.pick("and", "or", "&&", "||"), g.gen("bool", d-1), g.gen("bool", d-1))
		case 2:
			if g.kw && g.rng.Intn(3) > 0 {
				return c13Un("bool", "not", g.leaf("bool"))
			}
			return c13Un("bool", g.pick("not", "!"), g.gen("bool", d-1))
		case 3:
			return c13Bin("bool", g.pick("in", "not in"), g.gen("int", d-1), g.gen("ints", d-1))
		case 4:
			return c13Bin("bool", g.pick("contains", "startsWith", "endsWith"), g.gen("str", d-1), g.gen("str", d-1))
		case 5:
			return c13Bin("bool", "matches", g.gen("str", d-1), c13Lit("str", g.pick("'^a.*'", "\"é+\"", "'[0-9]'")))
		case 6:
			return c13Builtin("bool", g.pick("all", "any", "none", "one"), g.coll(d-1), g.closureOf("bool", d-1))
		case 7:
			return c13Cond("bool", g.gen("bool", d-1), g.gen("bool", d-1), g.gen("bool", d-1))
		case 8:
			return c13Bin("bool", g.pick("in", "not in"), g.gen("int", d-1), c13Bin("ints", "..", g.intLit(), g.intLit()))
		case 9:
			return c13Bin("bool", g.pick("<", ">"), g.gen("float", d-1), g.gen("float", d-1))
		case 10:
			return c13Bin("bool", g.pick("==", "!="), g.gen("str", d-1), g.gen("str", d-1))
		}
	case "ints":
		switch r {
		case 0, 1:
			return c13Builtin("ints", "filter", g.coll(d-1), g.closureOf("bool", d-1))
		case 2:
			return c13Builtin("ints", "map", g.coll(d-1), g.closureOf("int", d-1))
		case 3:
			return c13Bin("ints", "..", g.intLit(), g.gen("int", d-1))
		case 4:
			return c13Slice("ints", c13Id("ints", "Arr"), c13Lit("int", "1"), c13Lit("int", "3"))
		case 5:
			if g.noArr == 0 {
				return c13Array("ints", g.gen("int", d-1), g.gen("int", d-1), g.gen("int", d-1))
			}
		}
	case "strs":
		if r < 3 {
			return c13Field("strs", c13Id("inner", "In"), "Tags")
		}
	}
	return g.leaf(typ)
}

func (g *c13Gen) pick2(a, b *c13Node) *c13Node {
	if g.rng.Intn(2) == 0 {
		return a
	}
	return b
}

func (g *c13Gen) closureOf(typ string, d int) *c13Node {
	g.depth++
	var body *c13Node
	if typ == "bool" {
		body = c13Bin("bool", g.pick("<", ">", "!=", "=="), &c13Node{k: "ptr", typ: "int", text: "#"}, g.gen("int", d))
		if g.rng.Intn(3) == 0 {
			body = c13Bin("bool", g.pick("and", "or"), body, g.gen("bool", d))
		}
	} else {
		body = c13Bin("int", g.pick("+", "*", "-"), &c13Node{k: "ptr", typ: "int", text: "#"}, g.gen("int", d))
	}
	g.depth--
	return c13Closure(body)
}

// ---- printing ----------------------------------------------------------------------------------

type c13Printer struct {
	toks []*c13Tok
	rng  *rand.Rand
	kw   bool // keyword-prefix mode: every name is printed through c13KwAlias (the env is c13KwEnv)
}

// In keyword-prefix mode every variable and function is spelled with a name that begins with (or is a
// keyword operator plus a suffix of) one of the word operators in / not / or / and / matches / contains /
// startsWith / endsWith.  The lexer looks ahead after `not` for the word `in` and classifies words by
// exact match only; a position slip on those paths shows as a wrong column of every later token.
var c13KwAlias = map[string]string{
	"A": "index", "B": "in_var", "C": "order", "Z": "notes", "Big": "android", "Neg": "inNeg",
	"X": "matchesX", "Y": "containsY", "S": "startsWithS", "T": "endsWithT", "Ünï": "inÜnï",
	"Ok": "inStock", "No": "note", "Arr": "inArr", "Strs": "orders", "In": "inner", "P": "notP", "Re": "orRe",
	"Add": "andAdd", "Upper": "inUpper", "Boom": "orBoom",
}

// c13KwDyn: the interface-typed values live in a map so that their static type stays interface{}
var c13KwDyn = map[string]string{"Any": "note", "AnyI": "index"}

func c13KwEnv() map[string]interface{} {
	e := c13MakeEnv()
	return map[string]interface{}{
		"index": e.A, "in_var": e.B, "order": e.C, "notes": e.Z, "android": e.Big, "inNeg": e.Neg,
		"matchesX": e.X, "containsY": e.Y, "startsWithS": e.S, "endsWithT": e.T, "inÜnï": e.Ünï,
		"inStock": e.Ok, "note": e.No, "inArr": e.Arr, "orders": e.Strs, "inner": e.In, "notP": e.P, "orRe": e.Re,
		"andAdd": func(a, b int) int { return a + b }, "inUpper": strings.ToUpper,
		"orBoom": func(n int) int { panic("boom") },
		"dyn": map[string]interface{}{"note": e.Any, "index": e.AnyI},
	}
}

func (p *c13Printer) name(s string) string {
	if p.kw {
		if a, ok := c13KwAlias[s]; ok {
			return a
		}
	}
	return s
}

func (p *c13Printer) tok(text string, kind byte) *c13Tok {
	t := &c13Tok{text: text, kind: kind}
	p.toks = append(p.toks, t)
	return t
}

func c13IsWordOp(op string) bool {
	c := op[0]
	return (c >= 'a' && c <= 'z')
}

func (p *c13Printer) opTok(op string) *c13Tok {
	if c13IsWordOp(op) {
		return p.tok(op, 'w')
	}
	return p.tok(op, 'o')
}

func c13IsPrimary(n *c13Node) bool {
	switch n.k {
	case "bin", "un", "cond":
		return false
	}
	return true
}

// emitOpen prints n where no parentheses are ever needed (top level, argument, element, branch …)
func (p *c13Printer) emitOpen(n *c13Node) {
	if !c13IsPrimary(n) && p.rng.Intn(5) == 0 {
		p.paren(n)
		return
	}
	p.emit(n)
}

func (p *c13Printer) paren(n *c13Node) {
	p.tok("(", '(')
	p.emit(n)
	p.tok(")", ')')
}

func (p *c13Printer) operand(n *c13Node, parentPrec int, right, rightAssoc bool) {
	need := false
	switch n.k {
	case "cond":
		need = true
	case "bin":
		pc := c13Prec[n.text]
		if pc < parentPrec {
			need = true
		} else if pc == parentPrec {
			need = right != rightAssoc
		}
	case "un":
		// a unary operator binds tighter than what follows only up to its own precedence: keep it simple
		need = n.text == "not" || n.text == "!" || right
	}
	if !need && !c13IsPrimary(n) && p.rng.Intn(6) == 0 {
		need = true
	}
	if need {
		p.paren(n)
	} else {
		p.emit(n)
	}
}

func (p *c13Printer) recv(n *c13Node) {
	if c13IsPrimary(n) {
		p.emit(n)
	} else {
		p.paren(n)
	}
}

func (p *c13Printer) args(xs []*c13Node) {
	p.tok("(", '(')
	for i, a := range xs {
		if i > 0 {
			p.tok(",", ',')
		}
		p.emitOpen(a)
	}
	p.tok(")", ')')
}

func (p *c13Printer) emit(n *c13Node) {
	switch n.k {
	case "lit":
		if n.typ == "str" {
			n.def = p.tok(n.text, 's')
		} else {
			n.def = p.tok(n.text, 'w')
		}
	case "id":
		if m, ok := c13KwDyn[n.text]; ok && p.kw {
			p.tok("dyn", 'w')
			p.tok(".", '.')
			n.def = p.tok(m, 'w')
		} else {
			n.def = p.tok(p.name(n.text), 'w')
		}
	case "ptr":
		n.def = p.tok("#", 'o')
	case "bin":
		pp := c13Prec[n.text]
		ra := n.text == "**"
		p.operand(n.kids[0], pp, false, ra)
		n.def = p.opTok(n.text)
		p.operand(n.kids[1], pp, true, ra)
	case "un":
		n.def = p.opTok(n.text)
		if c13IsPrimary(n.kids[0]) {
			p.emit(n.kids[0])
		} else {
			p.paren(n.kids[0])
		}
	case "cond":
		c := n.kids[0]
		if c.k == "cond" {
			p.paren(c)
		} else {
			p.emitOpen(c)
		}
		n.qtok = p.tok("?", 'o')
		p.emitOpen(n.kids[1])
		p.tok(":", 'o')
		p.emitOpen(n.kids[2])
	case "call":
		n.def = p.tok(p.name(n.text), 'w')
		p.args(n.kids)
	case "method":
		p.recv(n.kids[0])
		p.tok(".", '.')
		n.def = p.tok(n.text, 'w')
		p.args(n.kids[1:])
	case "field":
		p.recv(n.kids[0])
		p.tok(".", '.')
		n.def = p.tok(n.text, 'w')
	case "index":
		p.recv(n.kids[0])
		n.def = p.tok("[", '(')
		p.emitOpen(n.kids[1])
		p.tok("]", ')')
	case "slice":
		p.recv(n.kids[0])
		n.def = p.tok("[", '(')
		if n.kids[1] != nil {
			p.emitOpen(n.kids[1])
		}
		p.tok(":", 'o')
		if n.kids[2] != nil {
			p.emitOpen(n.kids[2])
		}
		p.tok("]", ')')
	case "array":
		n.def = p.tok("[", '(')
		for i, a := range n.kids {
			if i > 0 {
				p.tok(",", ',')
			}
			p.emitOpen(a)
		}
		p.tok("]", ')')
	case "builtin":
		n.def = p.tok(n.text, 'w')
		p.args(n.kids)
	case "closure":
		n.def = p.tok("{", '(')
		p.emitOpen(n.kids[0])
		p.tok("}", ')')
	default:
		panic("emit " + n.k)
	}
}

var c13Blanks = []string{" ", " ", " ", "  ", "\t", "\n", "\n  ", " \n", "\r\n", "\n\t"}

// layout joins the tokens with random white space and fills in offsets, lines and columns
func c13Layout(toks []*c13Tok, rng *rand.Rand, multiline bool, kw bool) string {
	var sb []rune
	blank := func(must bool) {
		if !must && rng.Intn(3) > 0 {
			return
		}
		b := " "
		if kw {
			// 1..3 blanks, mostly on the same line: a column slip is visible only further right on the line
			b = ""
			for i, n := 0, 1+rng.Intn(3); i < n; i++ {
				b += []string{" ", " ", " ", " ", "\t", "\t", "\n"}[rng.Intn(7)]
			}
			if !multiline {
				b = strings.Replace(b, "\n", " ", -1)
			}
		} else if multiline {
			b = c13Blanks[rng.Intn(len(c13Blanks))]
		} else if rng.Intn(4) == 0 {
			b = "  "
		}
		sb = append(sb, []rune(b)...)
	}
	if rng.Intn(5) == 0 {
		blank(true)
	}
	for i, t := range toks {
		if i > 0 {
			prev := toks[i-1]
			loose := strings.IndexByte("().,", prev.kind) >= 0 || strings.IndexByte("().,", t.kind) >= 0
			// a dot must not follow a number, `?` must not be followed by `.`: those pairs always get a blank
			if prev.text == "?" || t.text == "?" || t.text == ":" || prev.text == ":" {
				loose = false
			}
			if prev.text == "not in" {
				// the lexer recognises `not in` only when a blank (U+0020) or the end of input follows
				sb = append(sb, ' ')
				if rng.Intn(3) == 0 {
					blank(true)
				}
			} else {
				blank(!loose)
			}
		}
		t.off = len(sb)
		sb = append(sb, []rune(t.text)...)
	}
	if rng.Intn(4) == 0 {
		blank(true)
	}
	for _, t := range toks {
		t.line, t.col = c13LcOf(sb, t.off)
	}
	return string(sb)
}

// ---- helpers for the oracle --------------------------------------------------------------------

type c13Pos struct{ line, col int }

func c13PosOfTok(t *c13Tok) c13Pos { return c13Pos{t.line, t.col} }

func c13SrcLine(src string, line int) (string, bool) {
	ls := strings.Split(src, "\n")
	if line < 1 || line > len(ls) {
		return "", false
	}
	return ls[line-1], true
}

func c13InSource(src string, line, col int) bool {
	l, ok := c13SrcLine(src, line)
	return ok && col >= 0 && col <= len([]rune(l))
}

type c13Report struct {
	api      string
	err      error
	panicked bool
}

func c13Call(api string, f func() error) (rep c13Report) {
	rep.api = api
	defer func() {
		if r := recover(); r != nil {
			rep.panicked = true
			rep.err = fmt.Errorf("PANIC: %v", r)
		}
	}()
	rep.err = f()
	return
}

func c13DescribeErr(err error) string {
	if err == nil {
		return "no error"
	}
	if fe, ok := err.(*file.Error); ok {
		return fmt.Sprintf("*file.Error at %d:%d (0-based column) message %q snippet %q", fe.Line, fe.Column, fe.Message, fe.Snippet)
	}
	return fmt.Sprintf("%T without location: %q", err, err.Error())
}

type c13Case struct {
	kind   string
	src    string
	accept []c13Pos // acceptable positions of "the occurrence"
	what   string   // description of the occurrence
}

// judge compares one returned error with the expectation; returns the key of the deviation ("" if none)
func (o *c13Orc) judge(cs *c13Case, rep c13Report) {
	r := o.c.R
	r.Count("oracle:"+rep.api, 1)
	want := []string{}
	for _, a := range cs.accept {
		want = append(want, fmt.Sprintf("%d:%d", a.line, a.col))
	}
	in := map[string]interface{}{"kind": cs.kind, "api": rep.api, "source": cs.src, "occurrence": cs.what, "accept": want, "kwenv": o.kw}
	expect := "a *file.Error located at " + strings.Join(want, " or ") + " (line:0-based column of " + cs.what + "), inside the source, snippet = that source line"
	viol := func(key, what string) {
		o.keys[key]++
		if o.keys[key] <= 3 {
			r.Violate(Violation{What: what, Key: key, Input: in, Expect: expect, Got: c13DescribeErr(rep.err)})
		}
	}
	if rep.panicked {
		viol("c13:panic:"+cs.kind, "panic instead of a located error")
		return
	}
	if rep.err == nil {
		// the fault did not make this API fail: a generator problem, not a property violation
		r.Mismatch("generator", fmt.Sprintf("%s %s %q", cs.kind, rep.api, cs.src), "the injected fault must make the call fail", "no error")
		return
	}
	fe, ok := rep.err.(*file.Error)
	if !ok {
		if strings.HasPrefix(rep.err.Error(), "expected ") && strings.Contains(rep.api, "+As") {
			viol("c13:expect-masks-located-error", "AsBool/AsInt64/AsFloat64: the located type error is replaced by the unlocated \"expected …\" error")
		} else {
			viol("c13:unlocated:"+cs.kind, "error without location")
		}
		return
	}
	got := c13Pos{fe.Line, fe.Column}
	hit := false
	for _, a := range cs.accept {
		if a == got {
			hit = true
		}
	}
	if !hit {
		switch {
		case got.line == 0 && got.col == 0 && (cs.kind == "cond-nonbool-rt"):
			viol("c13:conditional-no-location", "run-time failure of a conditional's condition is reported at 0:0 (ConditionalNode has no location)")
		case got.line == 0 && got.col == 0:
			viol("c13:zero-location:"+cs.kind, "error reported at 0:0, outside the source")
		case o.isLexAfter(cs, got):
			viol("c13:lexer-error-after-char", "lexer error located one rune after the offending character")
		default:
			viol("c13:wrong-position:"+cs.kind, "reported position is not the fault's position")
		}
		return
	}
	// location inside the source
	if !c13InSource(cs.src, fe.Line, fe.Column) {
		viol("c13:outside-source:"+cs.kind, "reported location lies outside the source")
		return
	}
	// snippet = the source line (tabs shown as blanks), optionally followed by the indicator line
	line, _ := c13SrcLine(cs.src, fe.Line)
	rendered := "\n | " + strings.Replace(line, "\t", " ", -1)
	if !strings.HasPrefix(fe.Snippet, rendered) {
		if fe.Snippet == "" {
			if len(line) != len([]rune(line)) {
				// the candidate defect "Bind leaves the snippet unset on a line with multi-byte runes": it does
				// NOT occur — Bind sets the bare line and only omits the indicator line (see Props/C13
				// bind_no_indicator_on_multibyte and the bind correspondence); the key is kept so that it would show
				viol("c13:snippet-missing-on-multibyte-line", "no snippet on a line with multi-byte runes")
			} else {
				viol("c13:snippet-missing", "no snippet although the line exists")
			}
		} else {
			viol("c13:snippet-not-the-line", "snippet is not the source line the error names")
		}
		return
	}
	rest := fe.Snippet[len(rendered):]
	caret := "\n | " + strings.Repeat(".", fe.Column) + "^"
	switch rest {
	case caret:
		r.Count("snippet:with-caret", 1)
	case "":
		r.Count("snippet:line-only", 1)
		multi := false
		for i, ch := range []rune(line) {
			if i <= fe.Column && ch >= 0x80 {
				multi = true
			}
		}
		if !multi {
			viol("c13:caret-missing-on-ascii-prefix", "no indicator line although no multi-byte rune precedes the column")
		}
	default:
		viol("c13:indicator-misplaced", "indicator line does not put the caret under the reported column")
	}
	// the rendered message carries line:col+1
	if !strings.Contains(rep.err.Error(), fmt.Sprintf("(%d:%d)", fe.Line, fe.Column+1)) {
		viol("c13:format", "Error() does not show line:column+1")
	}
}

// isLexAfter: the reported position is exactly one rune after an accepted position on the same line,
// or the start of the next line when the accepted position is a newline (lexer.error uses l.loc,
// the location AFTER the rune just consumed)
func (o *c13Orc) isLexAfter(cs *c13Case, got c13Pos) bool {
	if !o.lexKinds[cs.kind] {
		return false
	}
	runes := []rune(cs.src)
	for k := 0; k < len(runes); k++ {
		l, c := c13LcOf(runes, k)
		for _, a := range cs.accept {
			if a.line == l && a.col == c {
				l2, c2 := c13LcOf(runes, k+1)
				if got.line == l2 && got.col == c2 {
					return true
				}
			}
		}
	}
	return false
}

type c13Orc struct {
	c        *Ctx
	keys     map[string]int
	lexKinds map[string]bool
	env      interface{} // the environment of the current mode: c13Env, or c13KwEnv() in keyword-prefix mode
	kw       bool
	locAsks  []c13LocAsk // single-failure programs handed to the instrumented reference evaluator (c13_specloc.go)
}

func (o *c13Orc) setMode(kw bool) {
	o.kw = kw
	if kw {
		o.env = c13KwEnv()
	} else {
		o.env = c13MakeEnv()
	}
}

// ---- collecting nodes --------------------------------------------------------------------------

func c13Walk(n *c13Node, f func(*c13Node)) {
	if n == nil {
		return
	}
	f(n)
	for _, k := range n.kids {
		c13Walk(k, f)
	}
}

func c13Collect(root *c13Node, pred func(*c13Node) bool) []*c13Node {
	var out []*c13Node
	c13Walk(root, func(n *c13Node) {
		if pred(n) {
			out = append(out, n)
		}
	})
	return out
}

func (o *c13Orc) choose(rng *rand.Rand, xs []*c13Node) *c13Node {
	if len(xs) == 0 {
		return nil
	}
	// prefer the root region now and then so that faults at the outermost operator are covered
	if rng.Intn(4) == 0 {
		return xs[0]
	}
	return xs[rng.Intn(len(xs))]
}

var c13UnknownNames = []string{"Zzq", "Ünbekannt", "missing_1", "Größe2", "naïveName"}
var c13KwUnknownNames = []string{"inUnknown", "notThere", "orelse", "index9", "andMore", "matchesNothing", "containsZ", "in_"}

// inject mutates the tree for a checker-level fault; returns the node whose token is the occurrence
// and a description, or nil when the tree offers no place for this kind.
func (o *c13Orc) inject(kind string, root *c13Node, g *c13Gen) (*c13Node, string) {
	rng := g.rng
	unknown := c13UnknownNames[rng.Intn(len(c13UnknownNames))]
	if o.kw {
		unknown = c13KwUnknownNames[rng.Intn(len(c13KwUnknownNames))]
	}
	switch kind {
	case "unknown-ident":
		n := o.choose(rng, c13Collect(root, func(n *c13Node) bool { return n.k == "id" }))
		if n == nil {
			return nil, ""
		}
		n.text = unknown
		return n, "the unknown identifier " + unknown
	case "unknown-field":
		n := o.choose(rng, c13Collect(root, func(n *c13Node) bool { return n.k == "field" }))
		if n == nil {
			return nil, ""
		}
		n.text = unknown
		return n, "the unknown field name " + unknown
	case "unknown-method":
		n := o.choose(rng, c13Collect(root, func(n *c13Node) bool { return n.k == "method" }))
		if n == nil {
			return nil, ""
		}
		n.text = unknown
		return n, "the unknown method name " + unknown
	case "unknown-func":
		n := o.choose(rng, c13Collect(root, func(n *c13Node) bool { return n.k == "call" }))
		if n == nil {
			return nil, ""
		}
		n.text = unknown
		return n, "the unknown function name " + unknown
	case "binop-operand":
		n := o.choose(rng, c13Collect(root, func(n *c13Node) bool {
			if n.k != "bin" {
				return false
			}
			switch n.text {
			case "-", "*", "/", "%", "<", ">", "<=", ">=", "and", "or", "&&", "||", "contains", "startsWith", "endsWith", "matches", "..", "**":
				return true
			case "+":
				return n.typ == "int" || n.typ == "float"
			}
			return false
		}))
		if n == nil {
			return nil, ""
		}
		side := rng.Intn(2)
		if n.text == "matches" {
			side = 0
		}
		var bad *c13Node
		switch n.text {
		case "and", "or", "&&", "||", "contains", "startsWith", "endsWith", "matches":
			bad = g.pick2(g.intLit(), c13Id("int", g.pick("A", "B")))
		default:
			bad = g.pick2(g.strLit(), c13Id("str", g.pick("S", "T", "Ünï")))
		}
		n.kids[side] = bad
		return n, "the operator " + n.text + " whose operand has the wrong type"
	case "unop-operand":
		n := o.choose(rng, c13Collect(root, func(n *c13Node) bool { return n.k == "un" }))
		if n == nil {
			return nil, ""
		}
		if n.text == "-" {
			n.kids[0] = g.pick2(g.strLit(), c13Id("str", "S"))
		} else {
			n.kids[0] = g.pick2(g.intLit(), c13Id("int", "A"))
		}
		return n, "the unary operator " + n.text
	case "arg-type":
		n := o.choose(rng, c13Collect(root, func(n *c13Node) bool {
			return (n.k == "call" && n.text == "Add") || (n.k == "method" && n.text == "Twice")
		}))
		if n == nil {
			return nil, ""
		}
		bad := g.pick2(g.strLit(), c13Id("str", g.pick("S", "Ünï")))
		if rng.Intn(3) == 0 {
			bad = c13Id("bool", "Ok")
		}
		n.kids[len(n.kids)-1-rng.Intn(len(n.kids)-c13BoolInt(n.k == "method"))] = bad
		return bad, "the wrongly typed argument " + bad.text
	case "cond-nonbool":
		n := o.choose(rng, c13Collect(root, func(n *c13Node) bool { return n.k == "cond" }))
		if n == nil {
			return nil, ""
		}
		bad := g.pick2(g.intLit(), c13Id("int", g.pick("A", "C")))
		if rng.Intn(3) == 0 {
			bad = c13Id("str", "Ünï")
		}
		n.kids[0] = bad
		return bad, "the non-bool condition " + bad.text
	case "const-div-zero":
		n := o.choose(rng, c13Collect(root, func(n *c13Node) bool { return n.k == "bin" && (n.text == "/" || n.text == "%") && n.typ == "int" }))
		if n == nil {
			return nil, ""
		}
		n.kids[0], n.kids[1] = g.intLit(), c13Lit("int", "0")
		return n, "the operator " + n.text + " dividing a literal by the literal 0"
	}
	panic("inject " + kind)
}

func c13BoolInt(b bool) int {
	if b {
		return 1
	}
	return 0
}

// ---- compile-time oracle -----------------------------------------------------------------------

var c13CheckKinds = []string{"unknown-ident", "unknown-field", "unknown-method", "unknown-func", "binop-operand", "unop-operand", "arg-type", "cond-nonbool", "const-div-zero"}
var c13SyntaxKinds = []string{"illegal-char", "bad-number", "unexpected-token", "wrong-closer", "unclosed-at-eof", "bad-escape", "unterminated-string"}

func (o *c13Orc) asOption(typ string) (expr.Option, string) {
	switch typ {
	case "bool":
		return expr.AsBool(), "AsBool"
	case "int":
		return expr.AsInt64(), "AsInt64"
	case "float":
		return expr.AsFloat64(), "AsFloat64"
	}
	return nil, ""
}

// kwPrefix puts, in keyword-prefix mode, `not <name> ? x : root` or `8 not in <name> ? x : root` in
// front of the expression (both conditions are false: root is what gets evaluated), so that the fault
// lies to the right of the lexer's `not` look-ahead, often on the same line
func (o *c13Orc) kwPrefix(root *c13Node, g *c13Gen) *c13Node {
	if !o.kw || g.rng.Intn(3) == 0 {
		return root
	}
	switch root.typ {
	case "int", "float", "str", "bool", "ints", "strs":
	default:
		return root
	}
	var c *c13Node
	if g.rng.Intn(2) == 0 {
		c = c13Un("bool", "not", c13Id("bool", "Ok"))
	} else {
		c = c13Bin("bool", "not in", c13Lit("int", "8"), c13Id("ints", "Arr"))
	}
	return c13Cond(root.typ, c, g.leaf(root.typ), root)
}

// noteKw counts, in keyword-prefix mode, where the keyword-prefixed names stand and whether the fault
// lies on or to the right of one on the same line
func (o *c13Orc) noteKw(toks []*c13Tok, accept []c13Pos) {
	if !o.kw {
		return
	}
	r := o.c.R
	isKwName := func(t *c13Tok) bool {
		if t.kind != 'w' {
			return false
		}
		if _, op := c13Prec[t.text]; op || t.text == "not" {
			return false
		}
		for _, k := range []string{"in", "not", "or", "and", "matches", "contains", "startsWith", "endsWith"} {
			if strings.HasPrefix(t.text, k) {
				return true
			}
		}
		return false
	}
	for i, t := range toks {
		if !isKwName(t) {
			continue
		}
		if i > 0 {
			switch prev := toks[i-1]; {
			case prev.text == "not":
				r.Count("kw:name-after-not", 1)
			case prev.text == "not in":
				r.Count("kw:name-after-not-in", 1)
			case prev.kind == 'w' && c13Prec[prev.text] > 0:
				r.Count("kw:name-after-word-operator", 1)
			}
		}
		for _, a := range accept {
			if a.line == t.line && a.col >= t.col {
				r.Count("kw:fault-right-of-keyword-name", 1)
				break
			}
		}
	}
}

func (o *c13Orc) noteSource(src string) {
	r := o.c.R
	multi := len(src) != len([]rune(src))
	lines := strings.Count(src, "\n") + 1
	r.Case("expr:"+src, multi || lines > 1)
	if multi {
		r.Count("expr:multibyte", 1)
	}
	if lines > 1 {
		r.Count("expr:multiline", 1)
	}
}

func (o *c13Orc) checkerFault(kind string, seed int64) bool {
	r := o.c.R
	rng := rand.New(rand.NewSource(seed))
	g := &c13Gen{rng: rng, kw: o.kw}
	typ := g.pick("int", "bool", "str", "float", "int", "bool")
	root := g.gen(typ, 1+rng.Intn(4))
	// baseline: the unmodified expression must compile
	pb := &c13Printer{rng: rand.New(rand.NewSource(seed + 1)), kw: o.kw}
	pb.emitOpen(root)
	base := c13Layout(pb.toks, rand.New(rand.NewSource(seed+2)), true, o.kw)
	bprog, err := expr.Compile(base, expr.Env(o.env))
	if err == nil {
		starts := map[c13Pos]bool{}
		for _, t := range pb.toks {
			starts[c13PosOfTok(t)] = true
		}
		o.locMap(&c13Case{kind: "baseline", src: base}, bprog, starts, "baseline")
	}
	if err != nil {
		r.Count("gen:baseline-rejected", 1)
		if r.Counters["gen:baseline-rejected"] <= 3 {
			r.Note("baseline rejected: %q: %v", base, err)
		}
		return false
	}
	r.Count("gen:baseline-ok", 1)
	occ, what := o.inject(kind, root, g)
	if occ == nil {
		return false
	}
	rootTyp := root.typ
	root = o.kwPrefix(root, g)
	p := &c13Printer{rng: rand.New(rand.NewSource(seed + 3)), kw: o.kw}
	p.emitOpen(root)
	src := c13Layout(p.toks, rand.New(rand.NewSource(seed+4)), rng.Intn(5) > 0, o.kw)
	cs := &c13Case{kind: kind, src: src, accept: []c13Pos{c13PosOfTok(occ.def)}, what: what}
	o.noteSource(src)
	o.noteKw(p.toks, cs.accept)
	r.Count("fault:"+kind, 1)
	env := o.env
	o.judge(cs, c13Call("Compile", func() error { _, err := expr.Compile(src, expr.Env(env)); return err }))
	if kind != "const-div-zero" {
		o.judge(cs, c13Call("Compile+Optimize(false)", func() error { _, err := expr.Compile(src, expr.Env(env), expr.Optimize(false)); return err }))
	}
	if opt, name := o.asOption(rootTyp); opt != nil {
		o.judge(cs, c13Call("Compile+"+name, func() error { _, err := expr.Compile(src, expr.Env(env), opt); return err }))
		r.Count("fault-with-expect:"+kind, 1)
	}
	return true
}

// syntaxFault edits the token list of a well-formed expression
func (o *c13Orc) syntaxFault(kind string, seed int64) bool {
	r := o.c.R
	rng := rand.New(rand.NewSource(seed))
	g := &c13Gen{rng: rng, kw: o.kw}
	typ := g.pick("int", "bool", "str", "float")
	root := o.kwPrefix(g.gen(typ, 1+rng.Intn(4)), g)
	p := &c13Printer{rng: rand.New(rand.NewSource(seed + 3)), kw: o.kw}
	p.emitOpen(root)
	toks := p.toks
	cs := &c13Case{kind: kind}
	var accept func() []c13Pos
	insertAt := func(i int, t *c13Tok) {
		toks = append(toks[:i], append([]*c13Tok{t}, toks[i:]...)...)
	}
	switch kind {
	case "illegal-char":
		ch := g.pick("@", "`", "~", "^", ";", "\\", "€", "§", "😀")
		t := &c13Tok{text: ch, kind: 'o'}
		insertAt(rng.Intn(len(toks)+1), t)
		cs.what = "the illegal character " + ch
		accept = func() []c13Pos { return []c13Pos{c13PosOfTok(t)} }
	case "bad-number":
		var nums []*c13Tok
		for _, t := range toks {
			if t.kind == 'w' && t.text[0] >= '0' && t.text[0] <= '9' && !strings.ContainsAny(t.text, ".e") {
				nums = append(nums, t)
			}
		}
		if len(nums) == 0 {
			return false
		}
		t := nums[rng.Intn(len(nums))]
		good := len([]rune(t.text))
		suffix := g.pick("ab", "x", "é", "_z")
		if suffix == "_z" || t.text == "0" && suffix == "x" {
			good++ // `_` is a digit separator, `0x` a hex prefix: the first illegal rune comes one later
		}
		if t.text == "0" && suffix == "x" {
			suffix = "xg"
		}
		t.text += suffix
		cs.what = "the malformed number " + t.text
		accept = func() []c13Pos {
			var out []c13Pos
			for i := 0; i <= good; i++ {
				out = append(out, c13Pos{t.line, t.col + i})
			}
			return out
		}
	case "unexpected-token":
		var ops []int
		for i, t := range toks {
			if _, ok := c13Prec[t.text]; ok && t.text != "not in" {
				ops = append(ops, i)
			}
		}
		if len(ops) == 0 {
			return false
		}
		i := ops[rng.Intn(len(ops))]
		bad := g.pick("*", "/", "%", "==", ",", ")", "]", "}", "<=", "and", "in")
		kindB := byte('o')
		if c13IsWordOp(bad) {
			kindB = 'w'
		}
		t := &c13Tok{text: bad, kind: kindB}
		insertAt(i+1, t)
		cs.what = "the token " + bad + " that cannot start an operand"
		accept = func() []c13Pos { return []c13Pos{c13PosOfTok(t)} }
	case "wrong-closer":
		var cl []*c13Tok
		for _, t := range toks {
			if t.text == ")" || t.text == "]" {
				cl = append(cl, t)
			}
		}
		if len(cl) == 0 {
			return false
		}
		t := cl[rng.Intn(len(cl))]
		if t.text == ")" {
			t.text = g.pick("]", "}")
		} else {
			t.text = g.pick(")", "}")
		}
		cs.what = "the wrong closing bracket " + t.text
		accept = func() []c13Pos { return []c13Pos{c13PosOfTok(t)} }
	case "unclosed-at-eof":
		open := g.pick("(", "[")
		insertAt(0, &c13Tok{text: open, kind: '('})
		cs.what = "the end of input, where the closing bracket of " + open + " is missing"
		accept = func() []c13Pos {
			runes := []rune(cs.src)
			var out []c13Pos
			if len(runes) > 0 {
				l, c := c13LcOf(runes, len(runes)-1)
				out = append(out, c13Pos{l, c})
			}
			l, c := c13LcOf(runes, len(runes))
			return append(out, c13Pos{l, c})
		}
	case "bad-escape":
		var strs []*c13Tok
		for _, t := range toks {
			if t.kind == 's' {
				strs = append(strs, t)
			}
		}
		if len(strs) == 0 {
			return false
		}
		t := strs[rng.Intn(len(strs))]
		rs := []rune(t.text)
		// keep existing escapes intact: insert right after the opening quote or right before the closing one
		at := 1
		if rng.Intn(2) == 0 {
			at = len(rs) - 1
		}
		esc := g.pick("\\q", "\\z", "\\é", "\\8")
		t.text = string(rs[:at]) + esc + string(rs[at:])
		cs.what = "the invalid escape sequence " + esc
		accept = func() []c13Pos { return []c13Pos{{t.line, t.col + at}, {t.line, t.col + at + 1}} }
	case "unterminated-string":
		var last *c13Tok
		for _, t := range toks {
			if t.kind == 's' {
				last = t
			}
		}
		if last == nil {
			return false
		}
		rs := []rune(last.text)
		last.text = string(rs[:len(rs)-1])
		cs.what = "the unterminated string literal (its opening quote, its last rune, or the newline / end of input where it breaks off)"
		accept = func() []c13Pos {
			out := []c13Pos{c13PosOfTok(last)}
			runes := []rune(cs.src)
			k := last.off
			for k < len(runes) && runes[k] != '\n' {
				k++
			}
			l, c := c13LcOf(runes, k)
			out = append(out, c13Pos{l, c})
			if k-1 > last.off { // the last rune of the broken literal
				l, c = c13LcOf(runes, k-1)
				out = append(out, c13Pos{l, c})
			}
			return out
		}
	}
	cs.src = c13Layout(toks, rand.New(rand.NewSource(seed+4)), rng.Intn(5) > 0, o.kw)
	if kind == "unterminated-string" {
		// the literal must not be closed by a later quote on the same line
		var last *c13Tok
		for _, t := range toks {
			if t.kind == 's' {
				last = t
			}
		}
		runes := []rune(cs.src)
		q := runes[last.off]
		for k := last.off + 1; k < len(runes) && runes[k] != '\n'; k++ {
			if runes[k] == q || runes[k] == '\\' {
				return false
			}
		}
	}
	cs.accept = accept()
	o.noteSource(cs.src)
	o.noteKw(toks, cs.accept)
	r.Count("fault:"+kind, 1)
	src, env := cs.src, o.env
	o.judge(cs, c13Call("Parse", func() error { _, err := parser.Parse(src); return err }))
	o.judge(cs, c13Call("Compile", func() error { _, err := expr.Compile(src, expr.Env(env)); return err }))
	o.judge(cs, c13Call("Eval", func() error { _, err := expr.Eval(src, env); return err }))
	return true
}

// ---- run-time oracle ---------------------------------------------------------------------------

var c13RunKinds = []string{"div-zero", "index-range", "slice-range", "nil-field", "nil-method", "any-field", "func-panic", "method-panic",
	"cond-nonbool-rt", "dyn-binop", "dyn-unop", "dyn-in", "dyn-len", "dyn-builtin-coll", "closure-nonbool", "bad-regex"}

// failing atom: returns (node, occurrence nodes accepted, description); typ is its static type for wrapping
func (o *c13Orc) failingAtom(kind string, g *c13Gen) (*c13Node, func() []c13Pos, string) {
	one := func(n *c13Node) func() []c13Pos { return func() []c13Pos { return []c13Pos{c13PosOfTok(n.def)} } }
	switch kind {
	case "div-zero":
		n := c13Bin("int", g.pick("/", "%"), g.gen("int", 1), c13Id("int", "Z"))
		return n, one(n), "the operator " + n.text + " dividing by zero"
	case "index-range":
		n := c13Index("int", c13Id("ints", "Arr"), c13Id("int", "Big"))
		return n, one(n), "the [ of the out-of-range index"
	case "slice-range":
		if g.rng.Intn(2) == 0 {
			n := c13Slice("ints", c13Id("any", "AnyI"), c13Lit("int", "1"), c13Lit("int", "2"))
			return n, one(n), "the [ of the slice of an int"
		}
		n := c13Slice("ints", c13Id("ints", "Arr"), c13Id("int", "Neg"), c13Lit("int", "2"))
		return n, one(n), "the [ of the slice with a negative bound"
	case "nil-field":
		n := c13Field("str", c13Id("inner", "P"), "Name")
		return n, one(n), "the field name Name fetched from the nil pointer P"
	case "nil-method":
		n := c13Method("int", c13Id("inner", "P"), "Twice", g.intLit())
		return n, one(n), "the method name Twice called on the nil pointer P"
	case "any-field":
		n := c13Field("any", c13Id("any", "Any"), "Foo")
		return n, one(n), "the field name Foo fetched from a string"
	case "func-panic":
		n := c13CallN("int", "Boom", g.gen("int", 1))
		return n, one(n), "the name of the panicking function Boom"
	case "method-panic":
		n := c13Method("int", c13Id("inner", "In"), "Boom")
		return n, one(n), "the name of the panicking method Boom"
	case "cond-nonbool-rt":
		c := c13Id("any", "AnyI")
		t := g.pick("int", "str")
		n := c13Cond(t, c, g.gen(t, 1), g.gen(t, 1))
		return n, func() []c13Pos { return []c13Pos{c13PosOfTok(n.qtok), c13PosOfTok(c.def)} }, "the ? of the conditional whose condition is not a bool (or that condition)"
	case "dyn-binop":
		op := g.pick("+", "-", "*", "<", ">=", "and", "or", "..", "contains")
		t := "int"
		other := g.gen("int", 1)
		switch op {
		case "<", ">=":
			t = "bool"
		case "and", "or":
			t = "bool"
			other = g.gen("bool", 1)
		case "..":
			t = "ints"
		case "contains":
			t = "bool"
			other = c13Id("any", "AnyI")
			n := c13Bin(t, op, other, g.gen("str", 1))
			return n, one(n), "the operator contains applied to a non-string"
		}
		n := c13Bin(t, op, c13Id("any", "Any"), other)
		return n, one(n), "the operator " + op + " applied to a string and a number"
	case "dyn-unop":
		if g.rng.Intn(2) == 0 {
			n := c13Un("int", "-", c13Id("any", "Any"))
			return n, one(n), "the unary - applied to a string"
		}
		n := c13Un("bool", g.pick("not", "!"), c13Id("any", "AnyI"))
		return n, one(n), "the unary not applied to an int"
	case "dyn-in":
		// (the in-range rewrite of `x in 1..3` is type-guarded since fix 072d9f0 and cannot fail any more)
		n := c13Bin("bool", g.pick("in", "not in"), g.gen("int", 1), c13Id("any", "AnyI"))
		return n, one(n), "the operator " + n.text + " whose right operand is an int, not a collection"
	case "dyn-len":
		n := c13Builtin("int", "len", c13Id("any", "AnyI"))
		return n, one(n), "the builtin name len applied to an int"
	case "dyn-builtin-coll":
		g.depth++
		body := c13Bin("bool", ">", &c13Node{k: "ptr", typ: "int", text: "#"}, g.intLit())
		g.depth--
		n := c13Builtin("bool", g.pick("all", "any", "none"), c13Id("any", "AnyI"), c13Closure(body))
		return n, one(n), "the builtin name " + n.text + " applied to an int"
	case "closure-nonbool":
		name := g.pick("filter", "all", "count", "one")
		t := map[string]string{"filter": "ints", "all": "bool", "count": "int", "one": "bool"}[name]
		n := c13Builtin(t, name, c13Id("ints", "Arr"), c13Closure(c13Id("any", "AnyI")))
		return n, one(n), "the builtin name " + name + " whose closure yields a non-bool"
	case "bad-regex":
		n := c13Bin("bool", "matches", g.gen("str", 1), c13Id("str", "Re"))
		return n, one(n), "the operator matches with an invalid dynamic pattern"
	}
	panic("atom " + kind)
}

// decoy: an expression of the given type that would fail if it were evaluated
func (o *c13Orc) decoy(typ string, g *c13Gen) *c13Node {
	switch typ {
	case "int":
		switch g.rng.Intn(4) {
		case 0:
			return c13Bin("int", "/", g.intLit(), c13Id("int", "Z"))
		case 1:
			return c13Index("int", c13Id("ints", "Arr"), c13Id("int", "Big"))
		case 2:
			return c13CallN("int", "Boom", g.intLit())
		}
		return c13Method("int", c13Id("inner", "In"), "Boom")
	case "bool":
		if g.rng.Intn(2) == 0 {
			return c13Bin("bool", ">", c13Bin("int", "%", g.intLit(), c13Id("int", "Z")), g.intLit())
		}
		return c13Bin("bool", "matches", c13Id("str", "S"), c13Id("str", "Re"))
	case "str":
		return c13Field("str", c13Id("inner", "P"), "Name")
	}
	return nil
}

// guardDecoys sprinkles guarded failing operations over the tree: `No and <decoy>`, `Ok or <decoy>`,
// `Ok ? x : <decoy>`, `No ? <decoy> : x`
func (o *c13Orc) guarded(n *c13Node, g *c13Gen) *c13Node {
	d := o.decoy(n.typ, g)
	if d == nil {
		return n
	}
	o.c.R.Count("rt:decoys", 1)
	switch {
	case n.typ == "bool" && g.rng.Intn(2) == 0:
		if g.rng.Intn(2) == 0 {
			return c13Bin("bool", "or", c13Bin("bool", "and", c13Id("bool", "No"), d), n)
		}
		return c13Bin("bool", "and", c13Bin("bool", "or", c13Id("bool", "Ok"), d), n)
	case g.rng.Intn(2) == 0:
		return c13Cond(n.typ, c13Id("bool", "Ok"), n, d)
	default:
		return c13Cond(n.typ, c13Id("bool", "No"), d, n)
	}
}

// wrap embeds n (evaluated for sure) into a larger well-typed expression
func (o *c13Orc) wrap(n *c13Node, g *c13Gen) *c13Node {
	filler := func(typ string) *c13Node {
		f := g.gen(typ, 1)
		if g.rng.Intn(2) == 0 {
			f = o.guarded(f, g)
		}
		return f
	}
	t := n.typ
	if t == "any" {
		t = g.pick("int", "str")
	}
	r := g.rng.Intn(8)
	switch t {
	case "int":
		switch r {
		case 0:
			return c13Bin("int", g.pick("+", "-", "*"), n, filler("int"))
		case 1:
			return c13Bin("int", g.pick("+", "*"), filler("int"), n)
		case 2:
			return c13CallN("int", "Add", filler("int"), n)
		case 3:
			return c13Bin("bool", g.pick("<", ">", "=="), n, filler("int"))
		case 4:
			return c13Cond("int", c13Id("bool", "Ok"), n, filler("int"))
		case 5:
			return c13Cond("int", c13Id("bool", "No"), filler("int"), n)
		case 6:
			g.depth++
			body := c13Bin("int", "+", &c13Node{k: "ptr", typ: "int", text: "#"}, n)
			g.depth--
			return c13Builtin("ints", "map", c13Id("ints", "Arr"), c13Closure(body))
		case 7:
			return c13Array("ints", filler("int"), n, filler("int"))
		}
	case "bool":
		switch r {
		case 0:
			return c13Bin("bool", g.pick("and", "or", "&&"), n, filler("bool"))
		case 1:
			return c13Bin("bool", "and", c13Id("bool", "Ok"), n)
		case 2:
			return c13Bin("bool", "or", c13Id("bool", "No"), n)
		case 3:
			return c13Un("bool", "not", n)
		case 4:
			tt := g.pick("int", "str")
			return c13Cond(tt, n, filler(tt), filler(tt))
		case 5:
			g.depth++
			body := c13Bin("bool", "and", c13Bin("bool", ">", &c13Node{k: "ptr", typ: "int", text: "#"}, c13Lit("int", "0")), n)
			g.depth--
			return c13Builtin("bool", "all", c13Id("ints", "Arr"), c13Closure(body))
		case 6:
			return c13Array("ints", n, filler("bool"))
		case 7:
			return c13Bin("bool", "==", n, filler("bool"))
		}
	case "str":
		switch r {
		case 0, 1:
			return c13Bin("str", "+", n, filler("str"))
		case 2:
			return c13Bin("str", "+", filler("str"), n)
		case 3:
			return c13CallN("str", "Upper", n)
		case 4:
			return c13Bin("bool", g.pick("contains", "startsWith"), n, filler("str"))
		case 5:
			return c13Builtin("int", "len", n)
		case 6:
			return c13Cond("str", c13Id("bool", "Ok"), n, filler("str"))
		case 7:
			return c13Bin("bool", "==", n, filler("str"))
		}
	case "ints":
		switch r {
		case 0, 1, 2:
			return c13Builtin("int", "len", n)
		case 3, 4:
			return c13Index("int", n, c13Lit("int", "0"))
		case 5:
			return c13Bin("bool", "in", filler("int"), n)
		default:
			g.depth++
			body := c13Bin("bool", ">", &c13Node{k: "ptr", typ: "int", text: "#"}, c13Lit("int", "0"))
			g.depth--
			return c13Builtin("ints", "filter", n, c13Closure(body))
		}
	}
	return n
}

func (o *c13Orc) runtimeFault(kind string, seed int64) bool {
	r := o.c.R
	rng := rand.New(rand.NewSource(seed))
	g := &c13Gen{rng: rng, kw: o.kw}
	atom, accept, what := o.failingAtom(kind, g)
	root := atom
	for i, n := 0, rng.Intn(4); i < n; i++ {
		root = o.wrap(root, g)
	}
	root = o.kwPrefix(root, g)
	p := &c13Printer{rng: rand.New(rand.NewSource(seed + 3)), kw: o.kw}
	p.emitOpen(root)
	src := c13Layout(p.toks, rand.New(rand.NewSource(seed+4)), rng.Intn(5) > 0, o.kw)
	cs := &c13Case{kind: kind, src: src, accept: accept(), what: what}
	env := o.env
	// the typed pipeline must accept the program: it is well typed by construction
	prog, cerr := expr.Compile(src, expr.Env(env))
	if cerr != nil {
		r.Count("rt:compile-rejected", 1)
		if r.Counters["rt:compile-rejected"] <= 3 {
			r.Note("run-time program rejected at compile time: %q: %v", src, cerr)
		}
		return false
	}
	o.noteSource(src)
	o.noteKw(p.toks, cs.accept)
	r.Count("fault:"+kind, 1)
	tokStarts := map[c13Pos]bool{}
	for _, t := range p.toks {
		tokStarts[c13PosOfTok(t)] = true
	}
	o.locMap(cs, prog, tokStarts, "optimized")
	run := func(api string, f func() error) { o.judge(cs, c13Call(api, f)) }
	run("Compile+Run", func() error { _, err := expr.Run(prog, env); return err })
	run("Eval", func() error { _, err := expr.Eval(src, env); return err })
	o.askSpecLoc(kind, src)
	if p2, err := expr.Compile(src, expr.Env(env), expr.Optimize(false)); err == nil {
		o.locMap(cs, p2, tokStarts, "unoptimized")
		run("Compile+Optimize(false)+Run", func() error { _, err := expr.Run(p2, env); return err })
	}
	return true
}

// askSpecLoc: the same single-failure program under expr.Eval (no checker: the tree as parsed) vs Spec.runLoc.
// Programs that call a method of the environment (the model's world knows the zoo functions only), match a
// regular expression outside the model's sub-language, or run in the keyword-prefix environment are left out.
func (o *c13Orc) askSpecLoc(kind, src string) {
	r := o.c.R
	if o.kw {
		return
	}
	for _, w := range []string{"Add", "Upper", "Boom", "Twice", "matches"} {
		if strings.Contains(src, w) {
			r.Count("specloc:oracle-skipped", 1)
			return
		}
	}
	tree, err := parser.Parse(src)
	if err != nil {
		return
	}
	treeSx := nodeSx(tree.Node, true).String()
	rep := c13Call("Eval", func() error { _, err := expr.Eval(src, o.env); return err })
	a := c13LocAsk{what: "specloc-oracle", input: kind + ": " + src, line: c13LocLine(vm.MemoryBudget, asIs.RangeSigned, "_", o.env, treeSx)}
	if rep.panicked {
		return
	}
	if rep.err != nil {
		fe, ok := rep.err.(*file.Error)
		if !ok {
			return
		}
		a.realErr, a.class, a.row, a.col = true, classifyRunErr(rep.err), fe.Line, fe.Column
	}
	o.locAsks = append(o.locAsks, a)
}

// locMap: every entry of program.Locations is the start of a token of the source (the location map
// of compiler.emit); entries at 0:0 are counted (they are what a failure at that opcode would report)
func (o *c13Orc) locMap(cs *c13Case, prog *vm.Program, tokStarts map[c13Pos]bool, mode string) {
	r := o.c.R
	offs := make([]int, 0, len(prog.Locations))
	for off := range prog.Locations {
		offs = append(offs, off)
	}
	sort.Ints(offs)
	for _, off := range offs {
		loc := prog.Locations[off]
		r.Count("locmap:entries", 1)
		if loc.Line == 0 && loc.Column == 0 {
			r.Count("locmap:zero-entries:"+mode, 1)
			continue
		}
		if off < 0 || off >= len(prog.Bytecode) {
			r.Mismatch("locmap", cs.src, "key is a bytecode offset", fmt.Sprintf("key %d, %d bytes", off, len(prog.Bytecode)))
		}
		if !tokStarts[c13Pos{loc.Line, loc.Column}] {
			o.keys["c13:locmap-not-a-token"]++
			if o.keys["c13:locmap-not-a-token"] <= 3 {
				r.Violate(Violation{What: "an entry of program.Locations is not the start of a token of the source", Key: "c13:locmap-not-a-token",
					Input: map[string]interface{}{"source": cs.src, "offset": off}, Expect: "the position of a token", Got: fmt.Sprintf("%d:%d", loc.Line, loc.Column)})
			}
		}
	}
}

// ---- fixed witnesses of the deviations known from reading (must be re-found by the search too) ---

func (o *c13Orc) fixed() {
	env := o.env
	one := func(kind, src, what string, accept []c13Pos, api string, f func() error) {
		cs := &c13Case{kind: kind, src: src, accept: accept, what: what}
		o.judge(cs, c13Call(api, f))
	}
	one("cond-nonbool-rt", "1 ? 2 : 3", "the ? of the conditional (or its condition 1)", []c13Pos{{1, 2}, {1, 0}}, "Eval",
		func() error { _, err := expr.Eval("1 ? 2 : 3", nil); return err })
	one("illegal-char", "1 @ 2", "the illegal character @", []c13Pos{{1, 2}}, "Parse",
		func() error { _, err := parser.Parse("1 @ 2"); return err })
	one("binop-operand", "1 + 'a'", "the operator +", []c13Pos{{1, 2}}, "Compile+AsBool",
		func() error { _, err := expr.Compile("1 + 'a'", expr.Env(env), expr.AsBool()); return err })
}

// c13RunAPI runs one entry point by the name used in the reports
func (o *c13Orc) runAPI(api, src string) c13Report {
	env := o.env
	compileRun := func(opts ...expr.Option) func() error {
		return func() error {
			p, err := expr.Compile(src, append([]expr.Option{expr.Env(env)}, opts...)...)
			if err != nil {
				return err
			}
			_, err = expr.Run(p, env)
			return err
		}
	}
	compile := func(opts ...expr.Option) func() error {
		return func() error {
			_, err := expr.Compile(src, append([]expr.Option{expr.Env(env)}, opts...)...)
			return err
		}
	}
	switch api {
	case "Parse":
		return c13Call(api, func() error { _, err := parser.Parse(src); return err })
	case "Eval":
		return c13Call(api, func() error { _, err := expr.Eval(src, env); return err })
	case "Compile":
		return c13Call(api, compile())
	case "Compile+Optimize(false)":
		return c13Call(api, compile(expr.Optimize(false)))
	case "Compile+AsBool":
		return c13Call(api, compile(expr.AsBool()))
	case "Compile+AsInt64":
		return c13Call(api, compile(expr.AsInt64()))
	case "Compile+AsFloat64":
		return c13Call(api, compile(expr.AsFloat64()))
	case "Compile+Run":
		return c13Call(api, compileRun())
	case "Compile+Optimize(false)+Run":
		return c13Call(api, compileRun(expr.Optimize(false)))
	}
	return c13Report{api: api, err: fmt.Errorf("unknown api %s", api), panicked: true}
}

// replay re-runs the input of a recorded counterexample (replays/C13/cex-*.json)
func (o *c13Orc) replay(path string) {
	r := o.c.R
	b, err := os.ReadFile(path)
	if err != nil {
		r.Mismatch("replay", path, "readable replay file", err.Error())
		return
	}
	var doc struct {
		Violation struct {
			Input struct {
				Kind, Api, Source, Occurrence string
				Kwenv                         bool
				Accept                        []string
			} `json:"input"`
		} `json:"violation"`
	}
	if err := json.Unmarshal(b, &doc); err != nil || doc.Violation.Input.Source == "" && doc.Violation.Input.Api == "" {
		r.Mismatch("replay", path, "a C13 counterexample", fmt.Sprint(err))
		return
	}
	in := doc.Violation.Input
	cs := &c13Case{kind: in.Kind, src: in.Source, what: in.Occurrence}
	for _, a := range in.Accept {
		var p c13Pos
		fmt.Sscanf(a, "%d:%d", &p.line, &p.col)
		cs.accept = append(cs.accept, p)
	}
	o.noteSource(cs.src)
	o.setMode(in.Kwenv)
	o.judge(cs, o.runAPI(in.Api, in.Source))
}

func c13Oracle(c *Ctx) {
	r := c.R
	o := &c13Orc{c: c, keys: map[string]int{}, env: c13MakeEnv(),
		lexKinds: map[string]bool{"illegal-char": true, "bad-number": true, "bad-escape": true, "unterminated-string": true}}
	if c.Replay != "" {
		o.replay(c.Replay)
		return
	}
	o.fixed()
	per := 40
	if c.Thorough() {
		per = 1500
	}
	seed := func() int64 { return c.Rng.Int63() }
	for _, kw := range []bool{false, true} {
		o.setMode(kw)
		want := per
		if kw {
			want = per / 2 // the same kinds again with every name spelled with a keyword-operator prefix
		}
		runKind := func(f func(string, int64) bool, kinds []string) {
			for _, k := range kinds {
				for n, tries := 0, 0; n < want && tries < want*20; tries++ {
					if f(k, seed()) {
						n++
						if kw {
							r.Count("kw:cases", 1)
						}
					}
				}
			}
		}
		runKind(o.checkerFault, c13CheckKinds)
		runKind(o.syntaxFault, c13SyntaxKinds)
		runKind(o.runtimeFault, c13RunKinds)
	}
	o.setMode(false)
	if n := c13LocJudge(c, o.locAsks); n == 0 {
		r.Mismatch("generator", "specloc-oracle", "single-failure programs compared with Spec.runLoc", "0")
	} else {
		r.Count("specloc:oracle-failing", n)
	}
	// a silent generator regression must not look like a pass
	for _, k := range append(append(append([]string{}, c13CheckKinds...), c13SyntaxKinds...), c13RunKinds...) {
		if r.Counters["fault:"+k] < per/2 {
			r.Mismatch("generator", "fault:"+k, fmt.Sprintf("at least %d cases", per/2), fmt.Sprint(r.Counters["fault:"+k]))
		}
	}
	for _, k := range []string{"expr:multibyte", "expr:multiline", "rt:decoys", "snippet:with-caret", "snippet:line-only", "locmap:entries",
		"kw:cases", "kw:name-after-not", "kw:name-after-not-in", "kw:name-after-word-operator", "kw:fault-right-of-keyword-name"} {
		if r.Counters[k] == 0 {
			r.Mismatch("generator", k, "no case generated", "")
		}
	}
	if rej, ok := r.Counters["gen:baseline-rejected"], r.Counters["gen:baseline-ok"]; rej*5 > ok {
		r.Mismatch("generator", "baseline", "well-typed expressions compile", fmt.Sprintf("%d of %d rejected", rej, rej+ok))
	}
	if rej := r.Counters["rt:compile-rejected"]; rej*5 > per*len(c13RunKinds) {
		r.Mismatch("generator", "run-time programs", "well-typed programs compile", fmt.Sprintf("%d rejected", rej))
	}
	keys := make([]string, 0, len(o.keys))
	for k := range o.keys {
		keys = append(keys, k)
	}
	sort.Strings(keys)
	for _, k := range keys {
		r.Count("deviation:"+k, o.keys[k])
	}
}
