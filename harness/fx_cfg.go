package main

// Option sets used by the C09 / C08 harnesses: each is built once and the same option *values* are
// reused for every Compile call (concurrently in C08), which is what the properties quantify over.

import (
	"crypto/sha256"
	"encoding/hex"
	"fmt"
	"sort"
	"strings"

	"github.com/antonmedv/expr"
	"github.com/antonmedv/expr/vm"
)

type fxConfig struct {
	Name      string
	MapEnv    bool
	Ops       bool                   // overloaded + available
	Accepts   func(t fxType) bool    // which result types the option set makes sense for
	Build     func(sample interface{}) []expr.Option
	SampleEnv func() interface{}
}

func fxStructSample() interface{} { return fxNewEnv(0) }
func fxMapSample() interface{}    { return fxNewMapEnv(0) }
func fxAnyType(fxType) bool       { return true }

func fxConfigs() []fxConfig {
	return []fxConfig{
		{Name: "env-struct", Accepts: fxAnyType, SampleEnv: fxStructSample,
			Build: func(s interface{}) []expr.Option { return []expr.Option{expr.Env(s)} }},
		{Name: "env-struct-noopt", Accepts: fxAnyType, SampleEnv: fxStructSample,
			Build: func(s interface{}) []expr.Option { return []expr.Option{expr.Env(s), expr.Optimize(false)} }},
		{Name: "env-map", MapEnv: true, Accepts: fxAnyType, SampleEnv: fxMapSample,
			Build: func(s interface{}) []expr.Option { return []expr.Option{expr.Env(s)} }},
		{Name: "env-map-undef", MapEnv: true, Accepts: fxAnyType, SampleEnv: fxMapSample,
			Build: func(s interface{}) []expr.Option {
				return []expr.Option{expr.Env(s), expr.AllowUndefinedVariables()}
			}},
		{Name: "noenv", Accepts: fxAnyType, SampleEnv: func() interface{} { return nil },
			Build: func(s interface{}) []expr.Option { return nil }},
		{Name: "env-struct-operator", Ops: true, Accepts: fxAnyType, SampleEnv: fxStructSample,
			Build: func(s interface{}) []expr.Option { return []expr.Option{expr.Env(s), expr.Operator("+", "VAdd")} }},
		{Name: "env-struct-constexpr", Accepts: fxAnyType, SampleEnv: fxStructSample,
			Build: func(s interface{}) []expr.Option {
				return []expr.Option{expr.Env(s), expr.ConstExpr("Upper"), expr.ConstExpr("Fib")}
			}},
		{Name: "env-map-constexpr-operator", MapEnv: true, Ops: true, Accepts: fxAnyType, SampleEnv: fxMapSample,
			Build: func(s interface{}) []expr.Option {
				return []expr.Option{expr.Env(s), expr.ConstExpr("Fib"), expr.Operator("+", "VAdd"), expr.Optimize(true)}
			}},
		{Name: "as-bool", Accepts: func(t fxType) bool { return t == fxBool }, SampleEnv: fxStructSample,
			Build: func(s interface{}) []expr.Option { return []expr.Option{expr.Env(s), expr.AsBool()} }},
		{Name: "as-int64", Accepts: func(t fxType) bool { return t == fxInt }, SampleEnv: fxStructSample,
			Build: func(s interface{}) []expr.Option { return []expr.Option{expr.Env(s), expr.AsInt64()} }},
		{Name: "as-float64", Accepts: func(t fxType) bool { return t == fxFloat || t == fxInt }, SampleEnv: fxStructSample,
			Build: func(s interface{}) []expr.Option { return []expr.Option{expr.Env(s), expr.AsFloat64()} }},
	}
}

func fxConfigByName(n string) *fxConfig {
	for _, c := range fxConfigs() {
		if c.Name == n {
			cc := c
			return &cc
		}
	}
	return nil
}

// run-time environment matching a config (fresh value each call)
func (c *fxConfig) RunEnv(variant int) interface{} {
	if c.MapEnv {
		return fxNewMapEnv(variant)
	}
	return fxNewEnv(variant)
}

// fxProgCanon: bytecode, constants (typed, maps sorted, regexps by pattern), locations, source text
func fxProgCanon(p *vm.Program) string {
	if p == nil {
		return "nil-program"
	}
	var sb strings.Builder
	sb.WriteString("bytes=" + hex.EncodeToString(p.Bytecode) + "\nconsts=")
	for i, c := range p.Constants {
		fmt.Fprintf(&sb, "[%d]%s\n", i, fxSnapNoCap(c))
	}
	offs := make([]int, 0, len(p.Locations))
	for o := range p.Locations {
		offs = append(offs, o)
	}
	sort.Ints(offs)
	sb.WriteString("locs=")
	for _, o := range offs {
		l := p.Locations[o]
		fmt.Fprintf(&sb, "%d@%d:%d ", o, l.Line, l.Column)
	}
	if p.Source != nil {
		sb.WriteString("\nsrc=" + p.Source.Content())
	}
	return sb.String()
}

// fxSnapNoCap: snapshot for comparing *values* (capacity of slices is an allocation detail, not part of the value)
func fxSnapNoCap(v interface{}) string {
	s := fxSnap(v, false)
	// drop "cap=N" annotations and the beyond-len elements are zero values of fresh allocations: keep them (deterministic)
	return s
}

func fxHash(s string) string {
	h := sha256.Sum256([]byte(s))
	return hex.EncodeToString(h[:8])
}

// fxOutcome: canonical rendering of a run result
func fxOutcome(v interface{}, err error) string {
	if err != nil {
		return "ERR:" + err.Error()
	}
	return "OK:" + fxSnap(v, false)
}

// fxRun runs a program under recover (a panic escaping vm.Run is an outcome of its own)
func fxRun(p *vm.Program, env interface{}) (out string) {
	defer func() {
		if r := recover(); r != nil {
			out = fmt.Sprintf("PANIC:%v", r)
		}
	}()
	v, err := expr.Run(p, env)
	return fxOutcome(v, err)
}

func fxCompile(src string, opts []expr.Option) (p *vm.Program, err error, panicked string) {
	defer func() {
		if r := recover(); r != nil {
			panicked = fmt.Sprintf("%v", r)
		}
	}()
	p, err = expr.Compile(src, opts...)
	return
}
