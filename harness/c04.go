package main

// C04 — Failures are returned as errors, never as panics.
//
// Outcome class (ok / error / PANIC / TIMEOUT) of parser.Parse, expr.Compile, expr.Eval, expr.Run on the real
// code, each call in its own goroutine under recover with a 5 s deadline, for: random byte strings (valid and
// invalid UTF-8) up to 64 KiB, grammatical seeds and their byte/token mutations, nesting bombs (in a child
// process: a Go stack overflow is fatal and would take the harness down), the full option matrix
// {Env(struct|map|nil|none)} x AllowUndefinedVariables x Optimize x As* x Operator(valid|missing|ill-shaped|
// non-function) x ConstExpr(valid|missing|non-function|panicking) x Patch(8 node-replacing visitors), and
// environments with nil, wrongly typed and panicking members.  Also checked: error => nil program / value;
// no error => the program is usable (vm.Run on it does not panic).
// A PANIC / TIMEOUT / shape failure is a Violation of the property itself; its key is built from the first
// library frame on the panicking stack and a normalised message, so it is stable across inputs.

import (
	"bufio"
	"bytes"
	"encoding/hex"
	"encoding/json"
	"fmt"
	"os"
	"os/exec"
	"path/filepath"
	"reflect"
	"regexp"
	"runtime/debug"
	"sort"
	"strconv"
	"strings"
	"sync"
	"syscall"
	"time"
	"unicode/utf8"

	"github.com/antonmedv/expr"
	"github.com/antonmedv/expr/parser"
	"github.com/antonmedv/expr/vm"
)

func init() {
	props["C04"] = runC04
	if len(os.Args) > 1 && os.Args[1] == "__c04child" {
		c04Child()
		os.Exit(0)
	}
}

type c04Out struct {
	Class string // ok | error | PANIC | TIMEOUT
	Val   interface{}
	Err   error
	Msg   string // panic message
	Frame string // first library frame below the panic
}

var c04Deadline = 5 * time.Second

// c04Call runs f in its own goroutine under recover with a deadline
func c04Call(f func() (interface{}, error)) c04Out { return c04CallD(f, c04Deadline) }

func c04CallD(f func() (interface{}, error), deadline time.Duration) c04Out {
	ch := make(chan c04Out, 1)
	go func() {
		defer func() {
			if r := recover(); r != nil {
				ch <- c04Out{Class: "PANIC", Msg: fmt.Sprint(r), Frame: c04TopFrame(string(debug.Stack()))}
			}
		}()
		v, err := f()
		if err != nil {
			ch <- c04Out{Class: "error", Val: v, Err: err}
		} else {
			ch <- c04Out{Class: "ok", Val: v}
		}
	}()
	t := time.NewTimer(deadline)
	defer t.Stop()
	select {
	case o := <-ch:
		return o
	case <-t.C:
		return c04Out{Class: "TIMEOUT"}
	}
}

// c04TopFrame: the first github.com/antonmedv/expr function below the panic in a stack dump
func c04TopFrame(stack string) string {
	lines := strings.Split(stack, "\n")
	seenPanic := false
	for _, l := range lines {
		if strings.HasPrefix(l, "panic(") {
			seenPanic = true
			continue
		}
		if seenPanic && strings.HasPrefix(l, "github.com/antonmedv/expr") {
			f := strings.TrimPrefix(l, "github.com/antonmedv/expr/")
			f = strings.TrimPrefix(f, "github.com/antonmedv/expr.")
			if i := strings.LastIndex(f, "("); i > 0 {
				f = f[:i]
			}
			if !strings.Contains(f, ".") {
				f = "expr." + f
			}
			return f
		}
	}
	return "no-library-frame"
}

var (
	c04Quoted  = regexp.MustCompile(`"[^"]*"|` + "`[^`]*`")
	c04MainTy  = regexp.MustCompile(`\*?main\.[A-Za-z0-9_]+`)
	c04Numbers = regexp.MustCompile(`0x[0-9a-f]+|\d+`)
	c04NonWord = regexp.MustCompile(`[^A-Za-z]+`)
)

// c04MsgClass normalises a panic message: quoted text, harness type names, numbers and punctuation removed
func c04MsgClass(msg string) string {
	if i := strings.Index(msg, " from "); i > 0 {
		msg = msg[:i] // `cannot get "x" from <type of the environment>`
	}
	s := c04Quoted.ReplaceAllString(msg, "")
	s = c04MainTy.ReplaceAllString(s, "T")
	s = c04Numbers.ReplaceAllString(s, "")
	s = strings.Trim(c04NonWord.ReplaceAllString(s, "-"), "-")
	if len(s) > 60 {
		s = s[:60]
	}
	return strings.ToLower(s)
}

func c04Key(o c04Out) string {
	if o.Class == "TIMEOUT" {
		return "c04:timeout"
	}
	return "c04:panic:" + o.Frame + ":" + c04MsgClass(o.Msg)
}

func c04Show(s string) string {
	if len(s) > 300 {
		return fmt.Sprintf("%q… (%d bytes, hex of first 64: %s)", s[:120], len(s), hex.EncodeToString([]byte(s[:64])))
	}
	if !utf8.ValidString(s) {
		return fmt.Sprintf("%q (hex %s)", s, hex.EncodeToString([]byte(s)))
	}
	return s
}

// a call that missed the 5 s deadline while the pool was busy; re-run alone before it counts as a hang
type c04Retry struct {
	api, src, opts, env string
	f                   func() (interface{}, error)
}

type c04Run struct {
	c       *Ctx
	mu      sync.Mutex
	retries []c04Retry
	// one violation per key, keeping the shortest input
	best map[string]Violation
	size map[string]int
	// runs one source ("hex:<source>") or one named bomb in the child process; set by c04RunBombs
	runChild func(only string) (finished []string, diedAt string, diedMsg string)
}

func (h *c04Run) violate(key, what, api, src, opts, env, expect, got string) {
	h.c.R.Count("violating-inputs:"+key, 1)
	h.mu.Lock()
	defer h.mu.Unlock()
	sz := len(src) + len(opts)
	if old, ok := h.size[key]; ok && old <= sz {
		return
	}
	h.size[key] = sz
	h.best[key] = Violation{What: what, Key: key, Input: map[string]string{"api": api, "source": c04Show(src), "source_hex": hex.EncodeToString([]byte(src)), "options": opts, "env": env}, Expect: expect, Got: got}
}

func isNilValue(v interface{}) bool {
	if v == nil {
		return true
	}
	rv := reflect.ValueOf(v)
	switch rv.Kind() {
	case reflect.Ptr, reflect.Map, reflect.Slice, reflect.Interface, reflect.Func, reflect.Chan:
		return rv.IsNil()
	}
	return false
}

// checkF: like check, but a TIMEOUT is first re-tried alone (the machine may simply be busy)
func (h *c04Run) checkF(api, src, opts, env string, f func() (interface{}, error)) c04Out {
	o := c04Call(f)
	if o.Class == "TIMEOUT" {
		h.mu.Lock()
		h.retries = append(h.retries, c04Retry{api, src, opts, env, f})
		h.mu.Unlock()
		h.c.R.Count("deadline-missed-under-load(retried alone)", 1)
		return o
	}
	h.check(api, src, opts, env, o)
	return o
}

// check one API outcome: class and result shape
func (h *c04Run) check(api, src, opts, env string, o c04Out) {
	r := h.c.R
	r.Count("class:"+api+":"+o.Class, 1)
	switch o.Class {
	case "PANIC":
		h.violate(c04Key(o), "a panic escaped "+api, api, src, opts, env, "a result or a non-nil error", "panic: "+o.Msg+" (in "+o.Frame+")")
	case "TIMEOUT":
		h.violate("c04:timeout:"+api, api+" did not return within the deadline", api, src, opts, env, "a result or an error within 5 s", "still running")
	case "error":
		if !isNilValue(o.Val) {
			h.violate("c04:shape:"+api+":value-with-error", api+" returned a non-nil value together with an error", api, src, opts, env, "nil value when err != nil", fmt.Sprintf("%T with error %v", o.Val, o.Err))
		}
	case "ok":
		if api == "expr.Compile" || api == "parser.Parse" {
			if isNilValue(o.Val) {
				h.violate("c04:shape:"+api+":nil-without-error", api+" returned nil without an error", api, src, opts, env, "a usable result when err == nil", "nil, nil")
			}
		}
	}
}

// compileAndRun: Compile with the options, check the outcome, then run the program on several environments
func (h *c04Run) compileAndRun(src string, o c04Opts, envs []struct {
	Name string
	Env  interface{}
}) {
	optStr := o.String()
	out := h.checkF("expr.Compile", src, optStr, "", func() (interface{}, error) {
		p, err := expr.Compile(src, o.Build()...)
		if p == nil { // avoid a typed nil in the interface
			return nil, err
		}
		return p, err
	})
	h.c.R.Case("compile|"+optStr+"|"+src, out.Class == "ok" || out.Class == "error")
	if out.Class != "ok" {
		return
	}
	p, _ := out.Val.(*vm.Program)
	if p == nil {
		return
	}
	for _, e := range envs {
		e := e
		h.checkF("expr.Run", src, optStr, e.Name, func() (interface{}, error) { return expr.Run(p, e.Env) })
	}
}

func (h *c04Run) parseAndEval(src string, envs []struct {
	Name string
	Env  interface{}
}) {
	h.checkF("parser.Parse", src, "", "", func() (interface{}, error) {
		t, err := parser.Parse(src)
		if t == nil {
			return nil, err
		}
		return t, err
	})
	h.c.R.Case("parse|"+src, len(src) > 0)
	for _, e := range envs {
		e := e
		h.checkF("expr.Eval", src, "", e.Name, func() (interface{}, error) { return expr.Eval(src, e.Env) })
	}
}

func c04Child() {
	// nesting bombs in a separate process: prints "<name>\t<api>\t<class>\t<frame>\t<msg>" per call
	c04Deadline = 120 * time.Second // sequential, alone: only a real hang takes this long
	limit := 64 * 1024
	w := bufio.NewWriter(os.Stdout)
	defer w.Flush()
	only := ""
	full := true
	if len(os.Args) > 2 {
		full = os.Args[2] == "thorough"
	}
	if len(os.Args) > 3 {
		only = os.Args[3]
	}
	env := c04NewEnv()
	big := map[string]bool{"jump-too-far": true, "open-paren": true, "paren-balanced": true, "minus": true, "dot-chain": true, "binary-chain": true, "invalid-utf8": true}
	// a wrapped-around size must fail as an allocation error at once, not fill the machine's memory
	syscall.Setrlimit(syscall.RLIMIT_AS, &syscall.Rlimit{Cur: 12 << 30, Max: 12 << 30})
	bombs := c04Bombs(limit)
	if strings.HasPrefix(only, "hex:") {
		// one explicit source (an input the coverage-guided search blamed for the death of its worker)
		b, _ := hex.DecodeString(strings.TrimPrefix(only, "hex:"))
		bombs = []struct{ Name, Src string }{{"fuzz-input", string(b)}}
		only = ""
		full = true
	} else if !full {
		// quick tier: 64 KiB for the constructs that recurse, 6 KiB for the rest (error formatting is quadratic in the line length)
		small := c04Bombs(4 * 1024)
		for i := range bombs {
			if !big[bombs[i].Name] {
				bombs[i] = small[i]
			}
		}
	}
	for _, b := range bombs {
		if only != "" && b.Name != only {
			continue
		}
		emit := func(api string, o c04Out) {
			shape := ""
			if o.Class == "error" && !isNilValue(o.Val) {
				shape = "value-with-error"
			}
			fmt.Fprintf(w, "%s\t%s\t%s\t%s\t%s\t%s\n", b.Name, api, o.Class, o.Frame, hex.EncodeToString([]byte(o.Msg)), shape)
			w.Flush()
		}
		fmt.Fprintf(w, "%s\tstart\t\t\t\t\n", b.Name)
		w.Flush()
		src := b.Src
		emit("parser.Parse", c04Call(func() (interface{}, error) {
			t, err := parser.Parse(src)
			if t == nil {
				return nil, err
			}
			return t, err
		}))
		if full || !big[b.Name] || b.Name == "jump-too-far" {
			emit("expr.Eval", c04Call(func() (interface{}, error) { return expr.Eval(src, env) }))
		}
		optSets := []c04Opts{{Env: 1}, {Env: 2, Undef: true, NoOpt: true}, {Env: 0}, {Env: 1, Patch: 3, CE: 1, Op: 1}}
		if !full {
			optSets = optSets[1:2]
		}
		for _, o := range optSets {
			co := c04Call(func() (interface{}, error) {
				p, err := expr.Compile(src, o.Build()...)
				if p == nil {
					return nil, err
				}
				return p, err
			})
			emit("expr.Compile", co)
			if p, ok := co.Val.(*vm.Program); ok && p != nil && co.Class == "ok" {
				emit("expr.Run", c04Call(func() (interface{}, error) { return expr.Run(p, env) }))
			}
		}
	}
}

// c04Replay re-runs the single input of a replay file written by bin/check (replays/C04/cex-*.json)
func c04Replay(c *Ctx, h *c04Run) {
	r := c.R
	raw, err := os.ReadFile(c.Replay)
	if err != nil && !strings.HasPrefix(c.Replay, "/") {
		raw, err = os.ReadFile("../" + c.Replay) // bin/check runs the harness from harness/
	}
	if err != nil {
		r.Mismatch("replay", c.Replay, "readable replay file", err.Error())
		return
	}
	var f struct {
		Violation struct {
			Key   string            `json:"key"`
			Input map[string]string `json:"input"`
		} `json:"violation"`
	}
	if err := json.Unmarshal(raw, &f); err != nil || f.Violation.Input == nil {
		r.Mismatch("replay", c.Replay, "a counterexample replay with an input record", fmt.Sprint(err))
		return
	}
	in := f.Violation.Input
	srcB, _ := hex.DecodeString(in["source_hex"])
	src := string(srcB)
	if in["source_hex"] == "" {
		src = in["source"]
	}
	var o c04Opts
	optStr := in["options"]
	if strings.HasPrefix(optStr, "nesting bomb ") {
		for _, b := range c04Bombs(64 * 1024) {
			if b.Name == strings.TrimPrefix(optStr, "nesting bomb ") {
				src = b.Src
			}
		}
		o = c04Opts{Env: 2, Undef: true, NoOpt: true}
	} else {
		for _, cand := range c04AllOpts() {
			if cand.String() == optStr {
				o = cand
			}
		}
	}
	envs := c04RunEnvs()
	switch in["api"] {
	case "parser.Parse", "expr.Eval":
		h.parseAndEval(src, envs)
	default:
		h.compileAndRun(src, o, envs)
	}
	r.Note("replayed %s on %s with %s", in["api"], c04Show(src), o.String())
	for _, rt := range h.retries {
		h.check(rt.api, rt.src, rt.opts, rt.env, c04CallD(rt.f, 120*time.Second))
	}
	for _, v := range h.best {
		r.Violate(v)
	}
}

func runC04(c *Ctx) {
	r := c.R
	r.Rule = "outcome class of parser.Parse / expr.Compile / expr.Eval / expr.Run under recover + 5 s deadline for: systematic enumerations (every escape introducer x 0..9 following digits x both quotes x closed/extended/unterminated, alone and embedded; number-token stems x tails; word-operator prefixes and extensions in every operand position; int32/int64 boundary literals incl. hex and overflowing folds in 22 operator/range/index/slice templates x 6 option sets), 200 hand-written failure-mode sources and the zoo generator's sources, their byte/token mutations, random byte strings up to 64 KiB (random bytes, ASCII, multi-plane UTF-8, token soup), 31 nesting bombs of 64 KiB and 11 allocation bombs (sizes that wrap around the int range) in a child process, the full 7680-element option matrix x 4 sources plus random option subsets on every stream, 12 run-time environments (nil, zero, wrongly typed, panicking members); plus the C12 lexer correspondence (Lean lexer model, proved total) on ~50 000 of these strings; non-trivial = non-empty input that reached an outcome; distinct by (api, options, source)"
	h := &c04Run{c: c, best: map[string]Violation{}, size: map[string]int{}}
	if c.Replay != "" {
		c04Replay(c, h)
		return
	}
	nMut, nRand, nGen := 1000, 450, 200
	if c.Thorough() {
		nMut, nRand, nGen = 60000, 20000, 5000
	}
	envs := c04RunEnvs()
	fewEnvs := envs[:5]
	// work queue executed by a pool (each call still has its own goroutine + deadline)
	type job func()
	jobs := make(chan job, 1024)
	var wg sync.WaitGroup
	workers := 8
	for i := 0; i < workers; i++ {
		wg.Add(1)
		go func() {
			defer wg.Done()
			for j := range jobs {
				j()
			}
		}()
	}
	// 1. hand-written sources: every source x a spread of option sets x all environments; Parse + Eval on all envs
	baseOpts := []c04Opts{{Env: 1}, {Env: 2}, {Env: 0}, {Env: 3}, {Env: 1, NoOpt: true}, {Env: 2, Undef: true}, {Env: 1, As: 1}, {Env: 1, As: 2}, {Env: 1, As: 3},
		{Env: 2, As: 1}, {Env: 0, As: 1}, {Env: 1, Op: 1}, {Env: 1, Op: 5}, {Env: 2, Op: 5, Undef: true}, {Env: 1, CE: 1}, {Env: 1, CE: 4}, {Env: 1, Patch: 1}, {Env: 1, Patch: 2}, {Env: 1, Patch: 3}, {Env: 1, Patch: 4},
		{Env: 1, Patch: 5}, {Env: 1, Patch: 6}, {Env: 1, Patch: 7}, {Env: 2, Patch: 1, NoOpt: true}, {Env: 0, Patch: 1}}
	gen, _ := fxSources(c.Rng, nGen, 4, false)
	var seeds []string
	seeds = append(seeds, c04Sources...)
	seeds = append(seeds, c08Fixed...)
	for _, g := range gen {
		seeds = append(seeds, g.Src)
	}
	handEnvs := envs
	if !c.Thorough() {
		handEnvs = envs[:6]
	}
	for _, src := range c04Sources {
		src := src
		jobs <- func() { h.parseAndEval(src, envs) }
		for _, o := range baseOpts {
			o := o
			jobs <- func() { h.compileAndRun(src, o, handEnvs) }
		}
	}
	r.Count("stream:hand-written", len(c04Sources))
	for i, g := range gen {
		src := g.Src
		o := c04RandOpts(c.Rng)
		if i%2 == 0 {
			o = baseOpts[i%len(baseOpts)]
		}
		jobs <- func() { h.parseAndEval(src, fewEnvs[:2]); h.compileAndRun(src, o, fewEnvs) }
	}
	r.Count("stream:generated", len(gen))
	// 1b. systematic enumerations: truncated escapes, number-token stems, keyword prefixes (token level), and
	// integer literals at the int32/int64 boundaries in every operand position (with the optimizer on and off)
	tokOpts := []c04Opts{{Env: 0}, {Env: 2, Undef: true}, {Env: 1}, {Env: 2, NoOpt: true}}
	var lexProbe []string
	for name, list := range map[string][]string{"escapes": c04EscapeEnum(c.Thorough()), "numbers": c04NumberEnum(), "keywords": c04KeywordEnum()} {
		for i, src := range list {
			src, o, evalToo := src, tokOpts[i%len(tokOpts)], i%4 == 0
			jobs <- func() {
				if evalToo {
					h.parseAndEval(src, fewEnvs[:1])
				} else {
					h.parseAndEval(src, nil)
				}
				h.compileAndRun(src, o, fewEnvs[:1])
			}
		}
		lexProbe = append(lexProbe, list...)
		r.Count("stream:enum-"+name, len(list))
	}
	bndOpts := []c04Opts{{Env: 1}, {Env: 1, NoOpt: true}, {Env: 2, Undef: true}, {Env: 0}, {Env: 1, As: 2}, {Env: 1, Patch: 3}}
	if c.Thorough() {
		bndOpts = baseOpts
	}
	bnd := c04BoundaryEnum(c.Thorough())
	for _, src := range bnd {
		for _, o := range bndOpts {
			src, o := src, o
			jobs <- func() { h.compileAndRun(src, o, fewEnvs[:1]) }
		}
	}
	r.Count("stream:enum-boundaries", len(bnd))
	// 2. the full option matrix on a few sources that reach every stage
	matrixSrc := []string{`nil`, `I + 1`, `Upper("a") + S`, `all(Ints, {# > 0}) ? [1, 2][0] : Add(I, J)`}
	all := c04AllOpts()
	if !c.Thorough() {
		// quick tier: all option subsets on one source, every 4th (staggered) on the others
		for si, src := range matrixSrc {
			for oi, o := range all {
				if si != 1 && oi%8 != si {
					continue
				}
				src, o := src, o
				jobs <- func() { h.compileAndRun(src, o, fewEnvs[:1]) }
				r.Count("stream:option-matrix", 1)
			}
		}
	} else {
		for _, src := range append(matrixSrc, `NilPtr?.N`, `PanicCE(1) + Fib`, `I in [1,2,3] and S matches "a"`, `{a: 1}.a + len("x")`) {
			for _, o := range all {
				src, o := src, o
				jobs <- func() { h.compileAndRun(src, o, fewEnvs) }
				r.Count("stream:option-matrix", 1)
			}
		}
	}
	// 3. mutations of grammatical seeds
	for i := 0; i < nMut; i++ {
		src := c04Mutate(c.Rng, seeds[c.Rng.Intn(len(seeds))])
		if c.Rng.Intn(4) == 0 {
			src = c04Mutate(c.Rng, src)
		}
		o := c04RandOpts(c.Rng)
		if len(src) <= 512 {
			lexProbe = append(lexProbe, src)
		}
		jobs <- func() { h.parseAndEval(src, fewEnvs[:1]); h.compileAndRun(src, o, fewEnvs[:3]) }
	}
	r.Count("stream:mutations", nMut)
	// 4. random byte strings up to 64 KiB
	for i := 0; i < nRand; i++ {
		n := c.Rng.Intn(40)
		switch {
		case i%150 == 0 || (c.Thorough() && i%50 == 0):
			n = 64*1024 - c.Rng.Intn(16)
		case i%10 == 0:
			n = c.Rng.Intn(4096)
		}
		src := c04RandomBytes(c.Rng, n)
		if len(src) > 64*1024 {
			src = src[:64*1024]
		}
		o := c04RandOpts(c.Rng)
		if !utf8.ValidString(src) {
			r.Count("inputs:invalid-utf8", 1)
		}
		if len(src) > 60000 {
			r.Count("inputs:near-64KiB", 1)
		}
		if len(src) <= 512 {
			lexProbe = append(lexProbe, src)
		}
		jobs <- func() { h.parseAndEval(src, fewEnvs[:1]); h.compileAndRun(src, o, fewEnvs[:2]) }
	}
	r.Count("stream:random-bytes", nRand)
	close(jobs)
	// 5. nesting bombs in a child process (runs while the pool drains)
	c04RunBombs(h)
	// 6. the adversarial strings through the lexer correspondence of C12: the Lean lexer model is proved total
	// (C12.lex_total), so a panic or any other deviation of lexer.Lex shows as a model/implementation disagreement
	c04LexCorrespondence(h, append(lexProbe, c04Sources...))
	wg.Wait()
	// calls that missed the deadline while 8 workers were busy: once more, alone, with a long deadline
	slowCount, slowest, slowestWhat := 0, 0.0, ""
	for i, rt := range h.retries {
		if i >= 40 {
			r.Note("%d further deadline misses not re-tried", len(h.retries)-40)
			break
		}
		t0 := time.Now()
		o := c04CallD(rt.f, 120*time.Second)
		if o.Class != "TIMEOUT" {
			if d := time.Since(t0).Seconds(); d > slowest {
				slowest, slowestWhat = d, rt.api+" on "+c04Show(rt.src)
			}
			slowCount++
		}
		h.check(rt.api, rt.src, rt.opts, rt.env, o)
	}
	if slowCount > 0 {
		r.Note("%d calls missed the 5 s deadline while the pool was busy and terminated when re-run alone (slowest %.1fs: %s)", slowCount, slowest, slowestWhat)
	}
	if c.Thorough() {
		c04NativeFuzz(h)
	}
	// misuse of the API surface itself
	h.check("expr.Run", "(nil program)", "", "nil", c04Call(func() (interface{}, error) { return expr.Run(nil, nil) }))
	h.check("expr.Eval", "1", "", "expr.Env(option) passed as env", c04Call(func() (interface{}, error) { return expr.Eval("1", expr.Env(nil)) }))

	keys := make([]string, 0, len(h.best))
	for k := range h.best {
		keys = append(keys, k)
	}
	sort.Strings(keys)
	for _, k := range keys {
		r.Violate(h.best[k])
	}
	for _, must := range []string{"class:parser.Parse:ok", "class:parser.Parse:error", "class:expr.Compile:ok", "class:expr.Compile:error", "class:expr.Eval:ok", "class:expr.Eval:error",
		"class:expr.Run:ok", "class:expr.Run:error", "inputs:invalid-utf8", "inputs:near-64KiB", "bombs:completed", "stream:option-matrix", "lex-correspondence:compared", "stream:enum-escapes", "stream:enum-boundaries"} {
		if r.Counters[must] == 0 {
			r.Mismatch("generator", must, "counter must be non-zero", "0")
		}
	}
}

func c04RunBombs(h *c04Run) {
	r := h.c.R
	self, err := os.Executable()
	if err != nil {
		r.Mismatch("c04-child", "os.Executable", err.Error(), "")
		return
	}
	bombs := c04Bombs(64 * 1024)
	srcOf := map[string]string{}
	for _, b := range bombs {
		srcOf[b.Name] = b.Src
	}
	// runChild runs the child on all bombs (only == "") or on one; returns the bombs it finished and, when the
	// process died, the bomb it was working on
	runChild := func(only string) (finished []string, diedAt string, diedMsg string) {
		args := []string{"__c04child", h.c.Tier}
		if only != "" {
			args = append(args, only)
		}
		if strings.HasPrefix(only, "hex:") {
			b, _ := hex.DecodeString(strings.TrimPrefix(only, "hex:"))
			srcOf["fuzz-input"] = string(b)
		}
		cmd := exec.Command(self, args...)
		var so, se bytes.Buffer
		cmd.Stdout, cmd.Stderr = &so, &se
		done := make(chan error, 1)
		go func() { done <- cmd.Run() }()
		var runErr error
		select {
		case runErr = <-done:
		case <-time.After(1800 * time.Second):
			cmd.Process.Kill()
			runErr = fmt.Errorf("child killed after 1800 s")
		}
		current := ""
		for _, line := range strings.Split(so.String(), "\n") {
			f := strings.Split(line, "\t")
			if len(f) < 6 {
				continue
			}
			name, api, class, frame := f[0], f[1], f[2], f[3]
			if api == "start" {
				if current != "" {
					finished = append(finished, current)
				}
				current = name
				continue
			}
			msg, _ := hex.DecodeString(f[4])
			o := c04Out{Class: class, Frame: frame, Msg: string(msg)}
			r.Count("class:"+api+":"+class, 1)
			r.Case("bomb|"+name+"|"+api, true)
			switch class {
			case "PANIC":
				h.violate(c04Key(o), "a panic escaped "+api+" on a deeply nested input", api, srcOf[name], "nesting bomb "+name, "", "a result or a non-nil error", "panic: "+o.Msg)
			case "TIMEOUT":
				h.violate("c04:timeout:"+api+":"+name, api+" did not return within the deadline on a 64 KiB input", api, srcOf[name], "nesting bomb "+name, "", "a result or an error within 5 s", "still running")
			}
			if f[5] != "" {
				h.violate("c04:shape:"+api+":"+f[5], api+" returned a value together with an error", api, srcOf[name], "nesting bomb "+name, "", "nil value with error", f[5])
			}
		}
		if runErr == nil {
			if current != "" {
				finished = append(finished, current)
			}
			return finished, "", ""
		}
		first := strings.SplitN(strings.TrimSpace(se.String()), "\n", 2)[0]
		if current == "" {
			current = "(before the first bomb)"
		}
		return finished, current, runErr.Error() + ": " + first
	}
	h.runChild = runChild
	pending := map[string]bool{}
	for _, b := range bombs {
		pending[b.Name] = true
	}
	finished, diedAt, msg := runChild("")
	handle := func(finished []string, diedAt, msg string) {
		for _, n := range finished {
			if pending[n] {
				delete(pending, n)
				r.Count("bombs:completed", 1)
			}
		}
		if diedAt != "" {
			if _, ok := srcOf[diedAt]; !ok {
				r.Mismatch("c04-child", "nesting bombs", "child runs", msg)
				return
			}
			// a fatal runtime error (Go stack overflow, out of memory) cannot be recovered by anybody
			h.violate("c04:fatal:"+diedAt, "the process died (unrecoverable runtime error) on a 64 KiB input", "process", srcOf[diedAt], "nesting bomb "+diedAt, "", "a result or a non-nil error", msg)
			delete(pending, diedAt)
		}
	}
	handle(finished, diedAt, msg)
	if diedAt != "" {
		var rest []string
		for n := range pending {
			rest = append(rest, n)
		}
		sort.Strings(rest)
		for _, n := range rest {
			handle(runChild(n))
		}
	}
}

// c04NativeFuzz: coverage-guided mutation (go test -fuzz, offline) as an additional search in the thorough tier
func c04NativeFuzz(h *c04Run) {
	r := h.c.R
	h.mu.Lock()
	var known []string
	for k := range h.best {
		known = append(known, k)
	}
	h.mu.Unlock()
	sort.Strings(known)
	os.RemoveAll("testdata/fuzz/FuzzC04")
	args := []string{"test", "-tags", "verif", "-vet=off", "-run", "^$", "-fuzz", "^FuzzC04$", "-fuzztime", "150s"}
	if vr := os.Getenv("VERIF_REPO"); vr != "" {
		if rp, _ := filepath.EvalSymlinks(vr); rp != "/repo" && rp != "" {
			if self, err := os.Executable(); err == nil {
				args = append(args, "-modfile="+filepath.Join(filepath.Dir(self), "go.alt.mod"))
			}
		}
	}
	args = append(args, ".")
	cmd := exec.Command("go", args...)
	cmd.Env = append(os.Environ(), "C04_FUZZ_IGNORE="+strings.Join(known, ","))
	var out bytes.Buffer
	cmd.Stdout, cmd.Stderr = &out, &out
	err := cmd.Run()
	text := out.String()
	if m := regexp.MustCompile(`execs: (\d+)`).FindAllStringSubmatch(text, -1); len(m) > 0 {
		var n int
		fmt.Sscan(m[len(m)-1][1], &n)
		r.Count("fuzz:execs", n)
	}
	if err == nil {
		r.Note("go test -fuzz FuzzC04 ran 150 s without finding a new failing input (search only; %d keys ignored)", len(known))
		return
	}
	km := regexp.MustCompile(`KEY=(\S+) API=(\S+) SRCHEX=(\S+) OPTS=(.*?)(?: MSG=(.*))?\n`).FindStringSubmatch(text)
	if km == nil {
		// the fuzzing worker itself died (fatal runtime error: out of memory, stack overflow): the engine names the
		// input it blames; replay it alone in the child process to confirm
		if fm := regexp.MustCompile(`Failing input written to (testdata/fuzz/FuzzC04/\w+)`).FindStringSubmatch(text); fm != nil && h.runChild != nil {
			if data, rerr := os.ReadFile(fm[1]); rerr == nil {
				if sm := regexp.MustCompile(`(?m)^string\((".*")\)$`).FindStringSubmatch(string(data)); sm != nil {
					if src, uerr := strconv.Unquote(sm[1]); uerr == nil {
						_, diedAt, msg := h.runChild("hex:" + hex.EncodeToString([]byte(src)))
						if diedAt != "" {
							h.violate("c04:fatal:fuzz-input", "the process died (unrecoverable runtime error) on an input found by go test -fuzz", "process", src, "", "", "a result or a non-nil error", msg)
							os.RemoveAll("testdata/fuzz/FuzzC04")
							return
						}
						// the engine kills a worker whose single execution takes longer than its own limit (a slow but
						// terminating input on a loaded machine): alone, under the property's deadline, the input is fine -
						// the search is inconclusive, which is not a broken tie
						r.Note("go test -fuzz lost a worker on %q; replayed alone in the child process the input returns within the deadline without a fatal error (search inconclusive)", src)
						r.Count("fuzz:lost-worker-replayed-ok", 1)
						os.RemoveAll("testdata/fuzz/FuzzC04")
						return
					}
				}
			}
		}
		r.Mismatch("c04-fuzz", "go test -fuzz", "runs", fxTail(text, 1500))
		return
	}
	src := ""
	if km[3] != "-" {
		b, _ := hex.DecodeString(km[3])
		src = string(b)
	}
	h.violate(km[1], "go test -fuzz found an input on which "+km[2]+" fails", km[2], src, km[4], "", "a result or a non-nil error", km[5])
	os.RemoveAll("testdata/fuzz/FuzzC04")
}

// c04LexCorrespondence compares lexer.Lex with the Lean lexer model (driver stage `lex`, shared with C12) on
// the adversarial inputs of this check.  Inputs that are not valid UTF-8 are outside the model's domain.
func c04LexCorrespondence(h *c04Run, srcs []string) {
	r := h.c.R
	seen := map[string]bool{}
	var in []string
	for _, s := range srcs {
		if !seen[s] && utf8.ValidString(s) && len(s) <= 512 {
			seen[s] = true
			in = append(in, s)
		}
	}
	lines := make([]string, len(in))
	for i, s := range in {
		lines[i] = T("lex", SStr(s)).String()
	}
	resp, err := h.c.AskAll(lines)
	if err != nil {
		r.Mismatch("driver", "c04 lex correspondence", err.Error(), "")
		return
	}
	for i, s := range in {
		model := resp[i]
		if strings.HasSuffix(model, " rawbyte)") || model == "(bad-request)" {
			r.Count("lex-correspondence:outside-model", 1)
			continue
		}
		impl, _ := realLex(s)
		r.Count("lex-correspondence:compared", 1)
		if impl != model {
			r.Count("lex-correspondence:disagree", 1)
			if strings.HasPrefix(impl, "(panic") {
				msg := strings.TrimSuffix(strings.TrimPrefix(impl, "(panic "), ")")
				if u, err := strconv.Unquote(msg); err == nil {
					msg = u
				}
				h.violate("c04:panic:lexer.Lex:"+c04MsgClass(msg), "lexer.Lex panics where the (total) lexer model returns", "lexer.Lex", s, "", "", model, "panic: "+msg)
			} else {
				r.Mismatch("c04-lex", fmt.Sprintf("%q", s), model, impl)
			}
		}
	}
}
