package main

// C17 — Operator overloading is equivalent to calling the function.
//
// (i)  correspondence: the tree after the real compiler.PatchOperators (on type-checked trees) vs the
//      Lean model `patchOperators` over the walker table regenerated from ast/visitor.go, and vs the
//      Lean Spec `explicitCallForm` (oracle: an occurrence that should have been rewritten and was not);
// (ii) metamorphic oracle on the real library: operator form vs explicit-call form of the same typed
//      expression, compiled with expr.Operator(…) and run on the same environment, at every position;
//      non-fitting operand types keep the built-in meaning; ill-shaped / missing functions are rejected
//      by expr.Compile with an error.

import (
	"fmt"
	"reflect"
	"sort"
	"strings"

	"github.com/antonmedv/expr"
	"github.com/antonmedv/expr/ast"
	"github.com/antonmedv/expr/checker"
	"github.com/antonmedv/expr/compiler"
	"github.com/antonmedv/expr/conf"
	"github.com/antonmedv/expr/parser"
)

type c17Vec struct{ X, Y int }

func (v c17Vec) Len() int { return v.X + v.Y }

type c17Dur int64
type c17Shape interface{ Area() int }
type c17Sq struct{ S int }

func (s c17Sq) Area() int { return s.S * s.S }

type c17Circ struct{ R int }

func (c c17Circ) Area() int { return 3 * c.R * c.R }

type c17Obj struct{}

func (c17Obj) Id(x interface{}) interface{} { return x }

type c17Amb1 struct{ Dup int }
type c17Amb2 struct{ Dup int }

type c17Env struct {
	c17Amb1
	c17Amb2
	A, B   c17Vec
	D1, D2 c17Dur
	S1     c17Sq
	C1     c17Circ
	I, J   int
	F      float64
	Str    string
	Str2   string
	Vs, Ws []c17Vec
	Obj    c17Obj
}

func (c17Env) AddVec(a, b c17Vec) c17Vec        { return c17Vec{a.X + b.X, a.Y + b.Y} }
func (c17Env) SubVec(a, b c17Vec) c17Vec        { return c17Vec{a.X - b.X, a.Y - b.Y} }
func (c17Env) OpVec(a, b c17Vec) c17Vec         { return c17Vec{a.X*10 + b.X, a.Y*10 + b.Y} }
func (c17Env) ScaleVec(a c17Vec, k int) c17Vec  { return c17Vec{a.X * k, a.Y * k} }
func (c17Env) AddVecInt(a c17Vec, k int) c17Vec { return c17Vec{a.X + k, a.Y + k} }
func (c17Env) EqVec(a, b c17Vec) bool           { return a.X == b.X } // deliberately not structural equality
func (c17Env) AddDur(a, b c17Dur) c17Dur        { return a + b + 1 }
func (c17Env) AreaSum(a, b c17Shape) int        { return a.Area() + b.Area() }
func (c17Env) AddAny(a, b interface{}) interface{} {
	return fmt.Sprintf("any(%v,%v)", a, b)
}
func (c17Env) ConcatVecs(a, b []c17Vec) []c17Vec { return append(append([]c17Vec{}, a...), b...) }
func (c17Env) MkVec(x, y int) c17Vec             { return c17Vec{x, y} }
func (c17Env) Norm(v c17Vec) int                 { return v.X*v.X + v.Y*v.Y }
func (c17Env) Id(x interface{}) interface{}      { return x }

// ill-shaped candidates
func (c17Env) One(a c17Vec) c17Vec                { return a }
func (c17Env) Three(a, b, c c17Vec) c17Vec        { return a }
func (c17Env) NoRet(a, b c17Vec)                  {}
func (c17Env) TwoRet(a, b c17Vec) (c17Vec, error) { return a, nil }
func (c17Env) Var1(a ...c17Vec) c17Vec            { return c17Vec{} }
func (c17Env) Var2(a c17Vec, b ...c17Vec) c17Vec  { return a }
func (c17Env) NoArgs() c17Vec                     { return c17Vec{} }

func c17StructEnv(seed int) c17Env {
	return c17Env{A: c17Vec{1 + seed, 2}, B: c17Vec{3, 4 + seed}, D1: c17Dur(5 + seed), D2: 7, S1: c17Sq{2 + seed}, C1: c17Circ{1},
		I: 3 + seed, J: 4, F: 1.5, Str: "ab", Str2: "cd", Vs: []c17Vec{{1, 1}, {2, 2 + seed}, {3, 3}}, Ws: []c17Vec{{9, 9}}, Obj: c17Obj{}}
}

// the same environment as a map of values and plain functions (Tag.Method = false)
func c17MapEnv(seed int) map[string]interface{} {
	e := c17StructEnv(seed)
	m := map[string]interface{}{}
	rv := reflect.ValueOf(e)
	rt := rv.Type()
	for i := 0; i < rt.NumField(); i++ {
		if !rt.Field(i).Anonymous {
			m[rt.Field(i).Name] = rv.Field(i).Interface()
		}
	}
	for i := 0; i < rt.NumMethod(); i++ {
		m[rt.Method(i).Name] = rv.Method(i).Interface()
	}
	return m
}

var (
	tVec    = reflect.TypeOf(c17Vec{})
	tDur    = reflect.TypeOf(c17Dur(0))
	tSq     = reflect.TypeOf(c17Sq{})
	tCirc   = reflect.TypeOf(c17Circ{})
	t17Int    = reflect.TypeOf(0)
	t17Bool   = reflect.TypeOf(true)
	tStr    = reflect.TypeOf("")
	tVecs   = reflect.TypeOf([]c17Vec{})
	t17Any    = reflect.TypeOf(new(interface{})).Elem()
	tEnvPtr = reflect.TypeOf(c17Env{})
)

// fits is the property's reading of "operand type matches the parameter".
func c17fits(l, p reflect.Type) bool {
	return l == p || (p.Kind() == reflect.Interface && (l == nil || l.Implements(p)))
}

// resolve picks the first candidate of the operator whose parameters fit (spec side, on the Go types).
func c17resolve(table map[string][]string, op string, l, r reflect.Type) (string, reflect.Type) {
	for _, fn := range table[op] {
		m, ok := tEnvPtr.MethodByName(fn)
		if !ok {
			continue
		}
		if c17fits(l, m.Type.In(1)) && c17fits(r, m.Type.In(2)) {
			return fn, m.Type.Out(0)
		}
	}
	return "", nil
}

type texp struct {
	op, call string
	t        reflect.Type
	nops     int // overloaded occurrences inside
}

func builtinResult(op string, l, r reflect.Type) reflect.Type {
	switch {
	case l == t17Int && r == t17Int && (op == "+" || op == "-" || op == "*"):
		return t17Int
	case l == t17Int && r == t17Int && op == "==":
		return t17Bool
	case l == tStr && r == tStr && op == "+":
		return tStr
	case l == tStr && r == tStr && op == "==":
		return t17Bool
	case l == tVec && r == tVec && op == "==":
		return t17Bool
	}
	return nil
}

type c17gen struct {
	c     *Ctx
	table map[string][]string
}

func (g *c17gen) atom(t reflect.Type) texp {
	pick := func(xs ...string) texp { s := xs[g.c.Rng.Intn(len(xs))]; return texp{s, s, t, 0} }
	switch t {
	case tVec:
		return pick("A", "B", "Vs[0]", "MkVec(I, 2)", "Ws[0]")
	case tDur:
		return pick("D1", "D2")
	case tSq:
		return pick("S1")
	case tCirc:
		return pick("C1")
	case t17Int:
		return pick("I", "J", "1", "2", "7")
	case tStr:
		return pick("Str", "Str2", "'s'")
	case tVecs:
		return pick("Vs", "Ws")
	case t17Bool:
		return pick("true", "I > 2")
	}
	return texp{"nil", "nil", nil, 0}
}

var c17types = []reflect.Type{tVec, tVec, tVec, tDur, tSq, tCirc, t17Int, t17Int, tStr, tVecs, tVecs}

// gen produces a typed expression in both forms; want == nil means any type.
func (g *c17gen) gen(depth int, want reflect.Type) texp {
	rng := g.c.Rng
	if want == nil {
		want = c17types[rng.Intn(len(c17types))]
	}
	if depth <= 0 {
		return g.atom(want)
	}
	for try := 0; try < 12; try++ {
		switch rng.Intn(9) {
		case 0, 1, 2, 3: // a binary operator occurrence producing `want` (overloaded or built-in)
			ops := []string{"+", "-", "*", "=="}
			op := ops[rng.Intn(len(ops))]
			lt := c17types[rng.Intn(len(c17types))]
			rt := c17types[rng.Intn(len(c17types))]
			if rng.Intn(2) == 0 {
				rt = lt
			}
			fn, out := c17resolve(g.table, op, lt, rt)
			if fn == "" {
				out = builtinResult(op, lt, rt)
			}
			if out != want {
				continue
			}
			l, r := g.gen(depth-1, lt), g.gen(depth-1, rt)
			e := texp{op: "(" + l.op + " " + op + " " + r.op + ")", t: out, nops: l.nops + r.nops}
			if fn != "" {
				e.call = fn + "(" + l.call + ", " + r.call + ")"
				e.nops++
			} else {
				e.call = "(" + l.call + " " + op + " " + r.call + ")"
			}
			return e
		case 4: // projections to int
			if want == t17Int {
				v := g.gen(depth-1, tVec)
				forms := []string{"%s.X", "%s.Len()", "Norm(%s)"}
				f := forms[rng.Intn(len(forms))]
				return texp{fmt.Sprintf(f, v.op), fmt.Sprintf(f, v.call), t17Int, v.nops}
			}
		case 5: // slices of []Vec: the sliced operand, from and to are all positions
			if want == tVecs {
				v := g.gen(depth-1, tVecs)
				i := g.gen(depth-1, t17Int)
				forms := []string{"%s[0:1]", "%s[1:]", "%s[:%s - %s]", "%s[%s - %s:]", "filter(%s, {#.X > 0})"}
				f := forms[rng.Intn(len(forms))]
				if strings.Count(f, "%s") == 3 {
					return texp{fmt.Sprintf(f, v.op, i.op, i.op), fmt.Sprintf(f, v.call, i.call, i.call), tVecs, v.nops + 2*i.nops}
				}
				return texp{fmt.Sprintf(f, v.op), fmt.Sprintf(f, v.call), tVecs, v.nops}
			}
		case 6: // index
			if want == tVec {
				v := g.gen(depth-1, tVecs)
				return texp{v.op + "[0]", v.call + "[0]", tVec, v.nops}
			}
		case 7: // conditional with equal branch types
			cnd := g.gen(depth-1, t17Bool)
			a, b := g.gen(depth-1, want), g.gen(depth-1, want)
			return texp{"(" + cnd.op + " ? " + a.op + " : " + b.op + ")", "(" + cnd.call + " ? " + a.call + " : " + b.call + ")", want, cnd.nops + a.nops + b.nops}
		case 8:
			if want == t17Bool {
				l, r := g.gen(depth-1, t17Int), g.gen(depth-1, t17Int)
				return texp{"(" + l.op + " < " + r.op + ")", "(" + l.call + " < " + r.call + ")", t17Bool, l.nops + r.nops}
			}
		}
	}
	return g.atom(want)
}

// top-level positions for an expression of any type (E) and, separately, for []Vec-typed ones (S)
var c17contexts = []string{
	"%s", "[%s]", "[1, %s][1]", "{k: %s}", "{k: %s}.k", "I > 0 ? %s : nil", "I < 0 ? nil : %s",
	"map(Vs, {%s})", "map(Vs, {[#, %s]})", "Id(%s)", "Obj.Id(%s)", "Id([%s, 1])", "[%s][0:1]", "[0, %s][1:]",
}
var c17sliceContexts = []string{"%s[0:1]", "%s[1:]", "%s[:1]", "len(%s[0:])", "map(%s[0:2], {#.X})", "%s[0:2][1:]", "%s[0]"}

var c17tables = []struct {
	name  string
	table map[string][]string
}{
	{"one-concrete", map[string][]string{"+": {"AddVec"}}},
	{"several-ops", map[string][]string{"+": {"AddVec"}, "-": {"SubVec"}, "*": {"ScaleVec"}, "==": {"EqVec"}}},
	{"several-candidates", map[string][]string{"+": {"AddVecInt", "AddVec", "AddDur", "ConcatVecs"}, "-": {"SubVec"}}},
	{"interface-params", map[string][]string{"+": {"AreaSum"}, "-": {"SubVec"}}},
	{"mixed", map[string][]string{"+": {"AddVec", "AreaSum", "ConcatVecs", "AddAny"}, "*": {"ScaleVec"}}},
	{"any-first", map[string][]string{"+": {"AddAny", "AddVec"}}},
	{"slices", map[string][]string{"+": {"ConcatVecs", "AddVec"}}},
}

func c17options(table map[string][]string) []expr.Option {
	var opts []expr.Option
	ops := make([]string, 0, len(table))
	for op := range table {
		ops = append(ops, op)
	}
	sort.Strings(ops)
	for _, op := range ops {
		opts = append(opts, expr.Operator(op, table[op]...))
	}
	return opts
}

func c17run(src string, env interface{}, opts ...expr.Option) (out string) {
	defer func() {
		if rec := recover(); rec != nil {
			out = "panic: " + fmt.Sprint(rec)
		}
	}()
	p, err := expr.Compile(src, append([]expr.Option{expr.Env(env)}, opts...)...)
	if err != nil {
		return "compile-error: " + strings.SplitN(err.Error(), "\n", 2)[0]
	}
	v, err := expr.Run(p, env)
	if err != nil {
		return "run-error: " + strings.SplitN(err.Error(), "\n", 2)[0]
	}
	return fmt.Sprintf("ok: %#v", v)
}

func errClass(s string) string {
	if i := strings.Index(s, ":"); i > 0 {
		return s[:i]
	}
	return s
}

// ---- (i) PatchOperators vs the model -----------------------------------------------------------

type tyReg struct {
	ids   map[reflect.Type]string
	order []reflect.Type
}

func (r *tyReg) key(t reflect.Type) string {
	if t == nil {
		return ""
	}
	if k, ok := r.ids[t]; ok {
		return k
	}
	k := fmt.Sprintf("t%d:%s", len(r.ids), t.String())
	r.ids[t] = k
	r.order = append(r.order, t)
	return k
}

func c17paramSx(reg *tyReg, p reflect.Type) *Sx {
	out := []*Sx{SStr(reg.key(p)), SBool(p.Kind() == reflect.Interface)}
	if p.Kind() == reflect.Interface {
		for _, t := range append([]reflect.Type{}, reg.order...) {
			if t.Implements(p) {
				out = append(out, SStr(reg.key(t)))
			}
		}
	}
	return L(out...)
}

func c17tableSx(reg *tyReg, config *conf.Config) *Sx {
	ops := make([]string, 0, len(config.Operators))
	for op := range config.Operators {
		ops = append(ops, op)
	}
	sort.Strings(ops)
	var rows []*Sx
	for _, op := range ops {
		row := []*Sx{SStr(op)}
		for _, fn := range config.Operators[op] {
			tag := config.Types[fn]
			off := 0
			if tag.Method {
				off = 1
			}
			row = append(row, L(SStr(fn), c17paramSx(reg, tag.Type.In(off)), c17paramSx(reg, tag.Type.In(off+1))))
		}
		rows = append(rows, L(row...))
	}
	return L(rows...)
}

type c17corr struct {
	src, tname string
	line       string
	got        string
	where      map[int]string
	after      ast.Node
	before     ast.Node
	table      map[string][]string
}

func c17prepare(src, tname string, table map[string][]string, env interface{}) (*c17corr, string) {
	config := conf.New(env)
	config.Operators = conf.OperatorsTable{}
	for op, fns := range table {
		config.Operators[op] = fns
	}
	if err := config.Check(); err != nil {
		return nil, "config: " + err.Error()
	}
	tree, err := parser.Parse(src)
	if err != nil {
		return nil, "parse: " + err.Error()
	}
	if _, err := checker.Check(tree, config); err != nil {
		return nil, "check: " + err.Error()
	}
	_, where, _ := number(tree.Node)
	reg := &tyReg{ids: map[reflect.Type]string{}}
	var tt []*Sx
	var rec func(n ast.Node)
	rec = func(n ast.Node) {
		tt = append(tt, L(SInt(int64(n.Location().Line)), SStr(reg.key(n.Type()))))
		for _, s := range reflSlots(n) {
			rec(s.get())
		}
	}
	rec(tree.Node)
	// parameter types must be registered before the implements lists are computed
	for _, fns := range config.Operators {
		for _, fn := range fns {
			tag := config.Types[fn]
			off := 0
			if tag.Method {
				off = 1
			}
			reg.key(tag.Type.In(off))
			reg.key(tag.Type.In(off + 1))
		}
	}
	before := nodeSx(tree.Node, true)
	tbl := c17tableSx(reg, config)
	cc := &c17corr{src: src, tname: tname, where: where, table: table}
	cc.line = L(A("STAGE"), tbl, L(tt...), before).String()
	cc.before = cloneTree(tree.Node)
	func() {
		defer func() {
			if r := recover(); r != nil {
				cc.got = "(panic " + SStr(fmt.Sprint(r)).String() + ")"
			}
		}()
		compiler.PatchOperators(&tree.Node, config)
		cc.got = "(ok " + nodeSx(tree.Node, true).String() + ")"
		cc.after = tree.Node
	}()
	return cc, ""
}

type visitedRec struct{ seen map[ast.Node]bool }

func (v *visitedRec) Enter(n *ast.Node) { v.seen[*n] = true }
func (v *visitedRec) Exit(*ast.Node)    {}

// missedSlot: the slot (Parent.Field) on the way to an occurrence that fits a candidate which ast.Walk
// does not get into ("" when every such occurrence is reached).
func missedSlot(before ast.Node, table map[string][]string) (res string) {
	defer func() {
		if recover() != nil {
			res = ""
		}
	}()
	rec := &visitedRec{map[ast.Node]bool{}}
	root := before
	ast.Walk(&root, rec)
	var find func(n ast.Node, at, missed string) string
	find = func(n ast.Node, at, missed string) string {
		if missed == "" && !rec.seen[n] {
			missed = at
		}
		if b, ok := n.(*ast.BinaryNode); ok && missed != "" {
			if fn, _ := c17resolve(table, b.Operator, b.Left.Type(), b.Right.Type()); fn != "" {
				return missed
			}
		}
		for _, s := range reflSlots(n) {
			if w := find(s.get(), kindOfNode(n)+"."+s.fname, missed); w != "" {
				return w
			}
		}
		return ""
	}
	return find(before, "root", "")
}

func (cc *c17corr) whereUnrewritten() string {
	if cc == nil || cc.after == nil {
		return "?"
	}
	if cc.before != nil {
		if w := missedSlot(cc.before, cc.table); w != "" {
			return w
		}
	}
	if w := firstUnrewritten(cc.after, cc.table, "root"); w != "" {
		return w
	}
	return "rewritten-differently"
}

// firstUnrewritten names the slot of the highest sub-tree in which occurrences that fit a candidate were
// left as operators and none was rewritten (the slot the patcher did not get into).
func firstUnrewritten(root ast.Node, table map[string][]string, at string) string {
	isFn := map[string]bool{}
	for _, fns := range table {
		for _, fn := range fns {
			isFn[fn] = true
		}
	}
	var count func(n ast.Node) (should, done int)
	count = func(n ast.Node) (should, done int) {
		switch x := n.(type) {
		case *ast.BinaryNode:
			if fn, _ := c17resolve(table, x.Operator, x.Left.Type(), x.Right.Type()); fn != "" {
				should++
			}
		case *ast.FunctionNode:
			if isFn[x.Name] {
				done++
			}
		}
		for _, s := range reflSlots(n) {
			a, b := count(s.get())
			should += a
			done += b
		}
		return
	}
	var find func(n ast.Node, at string) string
	find = func(n ast.Node, at string) string {
		should, done := count(n)
		if should == 0 {
			return ""
		}
		if done == 0 {
			return at
		}
		for _, s := range reflSlots(n) {
			if w := find(s.get(), kindOfNode(n)+"."+s.fname); w != "" {
				return w
			}
		}
		return at
	}
	return find(root, at)
}

func runC17(c *Ctx) {
	r := c.R
	loadReplayKey(c)
	r.Rule = "typed expressions generated in operator form and explicit-call form (Vec/Dur structs and named types, interface and interface{} parameters, []Vec operands so that overloaded results are sliced/indexed) x 7 overload tables (one/several operators and candidates) x 14+7 positions (root, array/slice/index operands, map values, branches, closure bodies, function and method arguments) x struct env (methods) and map env (functions) x optimizer on/off; PatchOperators output vs Lean model and vs Lean explicit-call form on the type-checked trees; every binary operator overloaded once; unfitting operand types vs built-in; ill-shaped and missing functions; non-trivial = at least one overloaded occurrence; distinct by (table, source, env)"
	structEnv := c17StructEnv(0)

	type pair struct {
		tname string
		table map[string][]string
		e     texp
		src   texp
		ctx   string
	}
	var pairs []pair
	per := 60
	if c.Thorough() {
		per = 600
	}
	for _, tb := range c17tables {
		g := &c17gen{c, tb.table}
		seen := map[string]bool{}
		for n := 0; n < per*6 && len(seen) < per; n++ {
			e := g.gen(1+c.Rng.Intn(3), nil)
			if seen[e.op] {
				continue
			}
			seen[e.op] = true
			ctxs := c17contexts
			if e.t == tVecs {
				ctxs = append(append([]string{}, c17contexts...), c17sliceContexts...)
			}
			for ci, cx := range ctxs {
				if !c.Thorough() && ci > 0 && c.Rng.Intn(3) != 0 {
					continue
				}
				pairs = append(pairs, pair{tb.name, tb.table, e,
					texp{fmt.Sprintf(cx, e.op), fmt.Sprintf(cx, e.call), nil, e.nops}, cx})
			}
		}
	}
	// hand-written pairs: the positions the property lists
	hand := []struct{ tname, op, call string }{
		{"one-concrete", "A + B", "AddVec(A, B)"},
		{"one-concrete", "A + B + A", "AddVec(AddVec(A, B), A)"},
		{"one-concrete", "(A + B).X", "AddVec(A, B).X"},
		{"one-concrete", "Vs[(A + B).X - 4:]", "Vs[AddVec(A, B).X - 4:]"},
		{"one-concrete", "Vs[:(A + B).X - 3]", "Vs[:AddVec(A, B).X - 3]"},
		{"one-concrete", "Vs[(A + B).X - 4]", "Vs[AddVec(A, B).X - 4]"},
		{"one-concrete", "map(Vs, {# + A})", "map(Vs, {AddVec(#, A)})"},
		{"one-concrete", "filter(Vs, {(# + A).X > 2})", "filter(Vs, {AddVec(#, A).X > 2})"},
		{"one-concrete", "Norm(A + B)", "Norm(AddVec(A, B))"},
		{"one-concrete", "(A + B).Len()", "AddVec(A, B).Len()"},
		{"one-concrete", "{k: A + B}", "{k: AddVec(A, B)}"},
		{"one-concrete", "I > 1 ? A + B : A", "I > 1 ? AddVec(A, B) : A"},
		{"one-concrete", "[A + B, A][0:1]", "[AddVec(A, B), A][0:1]"},
		{"slices", "(Vs + Ws)[0:1]", "ConcatVecs(Vs, Ws)[0:1]"},
		{"slices", "(Vs + Ws)[1:]", "ConcatVecs(Vs, Ws)[1:]"},
		{"slices", "(Vs + Ws)[:2]", "ConcatVecs(Vs, Ws)[:2]"},
		{"slices", "(Vs + Ws)[3]", "ConcatVecs(Vs, Ws)[3]"},
		{"slices", "len((Vs + Ws)[1:])", "len(ConcatVecs(Vs, Ws)[1:])"},
		{"slices", "map((Vs + Ws)[2:], {# + A})", "map(ConcatVecs(Vs, Ws)[2:], {AddVec(#, A)})"},
		{"slices", "(Vs + (Ws + Vs)[1:])[0:2]", "ConcatVecs(Vs, ConcatVecs(Ws, Vs)[1:])[0:2]"},
		{"slices", "(Vs[0:1] + Ws)[0:2][1:]", "ConcatVecs(Vs[0:1], Ws)[0:2][1:]"},
		{"interface-params", "S1 + C1", "AreaSum(S1, C1)"},
		{"interface-params", "(S1 + C1) + (C1 + S1)", "(AreaSum(S1, C1)) + (AreaSum(C1, S1))"},
		{"several-candidates", "A + 1", "AddVecInt(A, 1)"},
		{"several-candidates", "(A + 1) + (B + I)", "AddVec(AddVecInt(A, 1), AddVecInt(B, I))"},
		{"several-candidates", "D1 + D2", "AddDur(D1, D2)"},
		{"any-first", "1 + 2", "AddAny(1, 2)"},
		{"any-first", "A + B", "AddAny(A, B)"},
		{"mixed", "1 + 2", "AddAny(1, 2)"},
		{"mixed", "A + B", "AddVec(A, B)"},
		{"several-ops", "A == B", "EqVec(A, B)"},
		{"several-ops", "(A - B) * 2 == A", "EqVec(ScaleVec(SubVec(A, B), 2), A)"},
	}
	tableByName := map[string]map[string][]string{}
	for _, tb := range c17tables {
		tableByName[tb.name] = tb.table
	}
	var handPairs []pair
	for _, h := range hand {
		handPairs = append(handPairs, pair{h.tname, tableByName[h.tname], texp{h.op, h.call, nil, 1}, texp{h.op, h.call, nil, 1}, "hand"})
	}
	// the sliced operand first (smallest replay), then the other hand-written positions, then the generated ones
	sort.SliceStable(handPairs, func(i, j int) bool { return handPairs[i].tname == "slices" && handPairs[j].tname != "slices" })
	pairs = append(handPairs, pairs...)

	// (ii) metamorphic oracle
	skipped := 0
	var corrs []*c17corr
	for pi, p := range pairs {
		opts := c17options(p.table)
		for variant := 0; variant < 3; variant++ {
			var env interface{}
			optz := true
			switch variant {
			case 0:
				env = c17StructEnv(pi % 3)
			case 1:
				env = c17MapEnv(pi % 2)
			case 2:
				env = c17StructEnv(1)
				optz = false
			}
			want := c17run(p.src.call, env, expr.Optimize(optz))
			if !strings.HasPrefix(want, "ok") && !strings.HasPrefix(want, "run-error") {
				skipped++
				r.Count("call-form-rejected:"+errClass(want), 1)
				continue
			}
			got := c17run(p.src.op, env, append(opts, expr.Optimize(optz))...)
			r.Case(fmt.Sprintf("%s|%s|%d", p.tname, p.src.op, variant), p.src.nops > 0)
			r.Count("oracle-pairs", 1)
			if p.src.nops > 0 {
				r.Count("oracle-pairs-with-overload", 1)
			}
			same := got == want
			if strings.HasPrefix(want, "run-error") {
				same = errClass(got) == "run-error"
			}
			if !same {
				cc, _ := c17prepare(p.src.op, p.tname, p.table, env)
				where := cc.whereUnrewritten()
				violateKeyed(r, Violation{What: "operator form and explicit-call form evaluate differently (first occurrence left unrewritten at: " + where + ")",
					Key:    "c17:operator-vs-call:" + where,
					Input:  map[string]interface{}{"operator_form": p.src.op, "call_form": p.src.call, "overloads": p.table, "env": fmt.Sprintf("%T", env), "optimize": optz},
					Expect: want, Got: got})
			}
		}
		if cc, why := c17prepare(p.src.op, p.tname, p.table, structEnv); cc != nil {
			corrs = append(corrs, cc)
		} else {
			r.Count("corr-skipped:"+strings.SplitN(why, ":", 2)[0], 1)
		}
	}
	if r.Counters["oracle-pairs-with-overload"] < 500 {
		r.Mismatch("generator", "oracle", fmt.Sprintf("only %d pairs with an overloaded occurrence (skipped %d)", r.Counters["oracle-pairs-with-overload"], skipped), "")
	}

	// (i) correspondence with the model and the Spec
	var lines []string
	for _, cc := range corrs {
		lines = append(lines, strings.Replace(cc.line, "STAGE", "patchops", 1))
		lines = append(lines, strings.Replace(cc.line, "STAGE", "explicitform", 1))
	}
	resp, err := c.AskAll(lines)
	if err != nil {
		r.Mismatch("driver", "patchops", err.Error(), "")
		return
	}
	for i, cc := range corrs {
		model, spec := resp[2*i], resp[2*i+1]
		r.Case("patchops|"+cc.tname+"|"+cc.src, true)
		r.Count("patchops-compared", 1)
		if model != cc.got {
			r.Mismatch("patchops", cc.src+" "+lines[2*i], model, cc.got)
		}
		if spec != cc.got {
			where := cc.whereUnrewritten()
			violateKeyed(r, Violation{What: "the tree after compiler.PatchOperators is not the explicit-call form (occurrence fitting a candidate left as operator, or rewritten differently) at " + where,
				Key: "c17:occurrence-not-rewritten:" + where, Input: map[string]interface{}{"source": cc.src, "overloads": cc.table}, Expect: spec, Got: cc.got})
		}
	}
	if len(corrs) < 500 {
		r.Mismatch("generator", "patchops", fmt.Sprintf("only %d trees compared", len(corrs)), "")
	}

	c17EveryOperator(c)
	c17Builtin(c)
	c17Rejects(c)
}

// every binary operator of the language, mapped to OpVec(Vec, Vec), at the root and under a slice operand
func c17EveryOperator(c *Ctx) {
	r := c.R
	ops := []string{"or", "||", "and", "&&", "==", "!=", "<", ">", ">=", "<=", "not in", "in", "matches", "contains", "startsWith", "endsWith", "..", "+", "-", "*", "/", "%", "**"}
	env := c17StructEnv(0)
	for _, op := range ops {
		for _, shape := range []struct{ o, k string }{{"A %s B", "OpVec(A, B)"}, {"[A %s B, A][0]", "[OpVec(A, B), A][0]"}, {"map(Vs, {# %s A})[1]", "map(Vs, {OpVec(#, A)})[1]"}} {
			src := fmt.Sprintf(shape.o, op)
			want := c17run(shape.k, env)
			got := c17run(src, env, expr.Operator(op, "OpVec"))
			r.Case("every-op|"+src, true)
			r.Count("every-operator", 1)
			if got != want {
				violateKeyed(r, Violation{What: "operator " + op + " mapped to a function whose parameters fit the operands is not evaluated as the call",
					Key: "c17:operator-not-overloadable:" + op, Input: map[string]interface{}{"operator_form": src, "call_form": shape.k, "overloads": map[string][]string{op: {"OpVec"}}},
					Expect: want, Got: got})
			}
		}
	}
}

// occurrences whose operand types fit no candidate keep the built-in meaning (result or error alike)
func c17Builtin(c *Ctx) {
	r := c.R
	env := c17StructEnv(0)
	srcs := []string{"I + J", "1 + 2 * 3", "Str + Str2", "F + I", "I - J", "I * 2", "I == J", "Str == 'ab'", "A == B", "A == A",
		"A + I", "I + A", "A + Str", "S1 + I", "D1 + 1", "Vs + A", "nil + I", "[I + J, Str + 's'][0:1]", "map(Vs, {#.X + I})", "Vs[I - 2:][0].X + J",
		"A - B", "A * B", "D1 - D2", "I in [1, 2, 3]", "(I + J)..7", "1.5 + F", "-I + +J", "not (I == J)"}
	for _, tb := range c17tables {
		for _, src := range srcs {
			// only when nothing in the source is overloadable under this table: determined on the checked tree
			cc, _ := c17prepare(src, tb.name, tb.table, env)
			plain := c17run(src, env)
			if cc != nil && cc.after != nil && strings.Contains(cc.got, "(call ") {
				continue // some occurrence fits: not a built-in case
			}
			got := c17run(src, env, c17options(tb.table)...)
			r.Case("builtin|"+tb.name+"|"+src, true)
			r.Count("builtin-kept", 1)
			same := got == plain
			if !strings.HasPrefix(plain, "ok") {
				same = errClass(got) == errClass(plain)
			}
			if !same {
				violateKeyed(r, Violation{What: "an operator occurrence whose operand types fit no candidate does not keep its built-in meaning",
					Key: "c17:builtin-changed", Input: map[string]interface{}{"source": src, "overloads": tb.table}, Expect: plain, Got: got})
			}
		}
	}
	if r.Counters["builtin-kept"] < 60 {
		r.Mismatch("generator", "builtin", fmt.Sprintf("only %d built-in cases", r.Counters["builtin-kept"]), "")
	}
}

// an operator mapping that names a missing or ill-shaped function is rejected with an error
func c17Rejects(c *Ctx) {
	r := c.R
	type tc struct {
		name  string
		env   interface{}
		wantK string // ok | error
	}
	senv := c17StructEnv(0)
	menv := c17MapEnv(0)
	menv["NilValue"] = nil
	menv["NotFunc"] = 5
	menv["F1"] = func(a c17Vec) c17Vec { return a }
	menv["F3"] = func(a, b, c c17Vec) c17Vec { return a }
	menv["F0ret"] = func(a, b c17Vec) {}
	menv["F2ret"] = func(a, b c17Vec) (c17Vec, error) { return a, nil }
	menv["FV"] = func(a ...c17Vec) c17Vec { return c17Vec{} }
	cases := []tc{
		{"AddVec", senv, "ok"}, {"AddVec", menv, "ok"}, {"AreaSum", senv, "ok"}, {"AddAny", menv, "ok"},
		{"Nope", senv, "error"}, {"Nope", menv, "error"}, {"", senv, "error"},
		{"I", senv, "error"}, {"A", senv, "error"}, {"NotFunc", menv, "error"}, {"Vs", menv, "error"},
		{"One", senv, "error"}, {"Three", senv, "error"}, {"NoRet", senv, "error"}, {"TwoRet", senv, "error"}, {"Var1", senv, "error"}, {"NoArgs", senv, "error"},
		{"F1", menv, "error"}, {"F3", menv, "error"}, {"F0ret", menv, "error"}, {"F2ret", menv, "error"}, {"FV", menv, "error"},
		{"One", menv, "error"}, {"Three", menv, "error"}, {"NoRet", menv, "error"}, {"TwoRet", menv, "error"},
		{"Dup", senv, "error"},      // ambiguous embedded field: tag without type
		{"NilValue", menv, "error"}, // nil map value: tag without type
		{"Len", senv, "error"},      // a method of Vec, not of the environment
	}
	var lines []string
	for _, k := range cases {
		types := conf.CreateTypesTable(k.env)
		names := make([]string, 0, len(types))
		for n := range types {
			names = append(names, n)
		}
		sort.Strings(names)
		var tsx []*Sx
		for _, n := range names {
			tag := types[n]
			isF, ni, no := false, 0, 0
			if tag.Type != nil && tag.Type.Kind() == reflect.Func {
				isF, ni, no = true, tag.Type.NumIn(), tag.Type.NumOut()
			}
			tsx = append(tsx, L(SStr(n), SBool(tag.Type != nil), SBool(isF), SBool(tag.Method), SInt(int64(ni)), SInt(int64(no))))
		}
		lines = append(lines, T("configcheck", L(tsx...), L(L(SStr("+"), SStr("AddVec"), SStr(k.name)))).String())
	}
	resp, err := c.AskAll(lines)
	if err != nil {
		r.Mismatch("driver", "configcheck", err.Error(), "")
		return
	}
	for i, k := range cases {
		got := c17run("1", k.env, expr.Operator("+", "AddVec", k.name))
		cls := errClass(got)
		switch cls {
		case "compile-error":
			cls = "error"
		}
		r.Case("reject|"+k.name+fmt.Sprintf("|%T", k.env), true)
		r.Count("config-check", 1)
		// model correspondence
		mx, _ := ParseSx(resp[i])
		mcls := "?"
		if mx != nil {
			switch mx.Tag() {
			case "ok":
				mcls = "ok"
			case "missing", "badsig":
				mcls = "error"
			case "panic":
				mcls = "panic"
			}
		}
		if mcls != cls {
			r.Mismatch("configcheck", fmt.Sprintf("%s in %T", k.name, k.env), resp[i], got)
		}
		if cls != k.wantK {
			key := "c17:config-check:" + cls + "-instead-of-" + k.wantK
			violateKeyed(r, Violation{What: "an operator mapped to a missing or ill-shaped function must be rejected by expr.Compile with an error (and a well-shaped one accepted)",
				Key: key, Input: map[string]interface{}{"operator": "+", "function": k.name, "env": fmt.Sprintf("%T", k.env)}, Expect: k.wantK, Got: got})
		}
	}
}

func init() { props["C17"] = runC17 }
