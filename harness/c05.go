package main

func runC05(c *Ctx) {
	r := c.R
	r.Rule = "generated expressions (type-directed, all node kinds) x modes {Eval-like, Env struct/map, Optimize on/off, casts} x environments; compile model vs compiler.Compile byte for byte; VM model vs (*VM).Run"
	n := 3000
	if c.Thorough() {
		n = 40000
	}
	cases := GenCases(c, n, 4, allModes, nil)
	ok := CompileCorrespondence(c, cases)
	for _, cs := range cases {
		r.Case(cs.Src+"|"+cs.Mode.String(), len(cs.Src) > 6)
	}
	VMCorrespondence(c, ok, 1000)
}

func init() { props["C05"] = runC05 }
