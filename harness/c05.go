package main

// C05 — emitted bytecode is well-formed and stack-balanced.
//
//  (a) correspondence of the compile model and the VM model with the real code (shared stages);
//  (b) the kernel-checked-sound static checker `wfStatic` (Lean, driver stage `wfstatic`) is executed on
//      every program the REAL compiler produces in the run: a certificate check on the artefact itself,
//      independent of the compile model;
//  (c) after every real run on a caller-owned VM: a successful run must leave an empty stack and no open
//      scope; a pop of an empty stack / close of a missing scope is a violation;
//  (d) explicitly generated large programs: jump offsets just below / at / above 65535 for `?:`, and/or,
//      loop bodies (forward exit jump and backward jump), and programs with 65534…65537 distinct
//      constants.  An oversized program must be rejected by Compile or be well-formed and run correctly.
//      Their runs happen in a child process (a truncated backward jump loops forever with a growing stack).

import (
	"bytes"
	"context"
	"encoding/json"
	"fmt"
	"os"
	"os/exec"
	"reflect"
	"regexp"
	"runtime"
	"strings"
	"sync"
	"time"

	"github.com/antonmedv/expr/vm"
)

const c05KeyTrunc = "c05:jump-offset-truncated"

func runC05(c *Ctx) {
	r := c.R
	r.Rule = "generated expressions (type-directed, all node kinds) x modes {Eval-like, Env struct/map, Optimize on/off, casts} x environments: compile model vs compiler.Compile byte for byte, VM model vs (*VM).Run, Lean wfStatic on every real program, Program.Disassemble = the model's decoding (offsets, names, operands; no panic), Stack()/ScopeDepth() after every real run; plus generated large programs with jump offsets around 65535/65536 (?:, and/or, loop exit and backward jumps) and 65534..65537 distinct constants"
	if c.Replay != "" {
		if replayC05(c) {
			return
		}
	}
	n := 3000
	if c.Thorough() {
		n = 40000
	}
	t0 := time.Now()
	lap := func(what string) {
		r.Note("phase %s: %.1fs", what, time.Since(t0).Seconds())
		t0 = time.Now()
	}
	cases := GenCases(c, n, 4, allModes, nil)
	ok := CompileCorrespondence(c, cases)
	lap("compile correspondence")
	for _, cs := range cases {
		r.Case(cs.Src+"|"+cs.Mode.String(), len(cs.Src) > 6)
	}
	c05WfStaticReal(c, cases)
	c05Disassemble(c, cases)
	lap("wfStatic on real programs")
	res := VMCorrespondence(c, ok, 1000)
	// programs on which the compile model disagrees are still run and observed (independent of the model)
	inOk := map[*Case]bool{}
	for _, cs := range ok {
		inOk[cs] = true
	}
	old := vm.MemoryBudget
	vm.MemoryBudget = 1000
	for _, cs := range cases {
		if cs.B != nil && cs.B.Program != nil && !inOk[cs] {
			res = append(res, &VMResult{Case: cs, Real: RunReal(&vm.VM{}, cs.B.Program, envVal(cs), cs.Env)})
			r.Count("balance:unmodelled-runs", 1)
		}
	}
	vm.MemoryBudget = old
	c05BalanceCheck(c, res)
	lap("vm correspondence + balance")
	c05BigPrograms(c, c05BigSpecs(c.Thorough()))
	lap("large programs")
	for _, k := range []string{"wf:checked", "wf:jumps", "wf:scopes", "balance:ok-runs", "big:fits:ran", "big:oversize"} {
		if r.Counters[k] == 0 {
			r.Mismatch("generator", k, "counter must be non-zero", "0")
		}
	}
}

// ---------------------------------------------------------------- (b) wfStatic on real programs

type c05RealIns struct {
	Off int
	Op  byte
	Arg int
}

var c05OpHasArg = map[byte]bool{
	vm.OpPush: true, vm.OpFetch: true, vm.OpFetchNilSafe: true, vm.OpFetchMap: true, vm.OpJump: true, vm.OpJumpIfTrue: true,
	vm.OpJumpIfFalse: true, vm.OpJumpBackward: true, vm.OpMatchesConst: true, vm.OpProperty: true, vm.OpPropertyNilSafe: true,
	vm.OpCall: true, vm.OpCallFast: true, vm.OpMethod: true, vm.OpMethodNilSafe: true, vm.OpCast: true, vm.OpStore: true,
	vm.OpLoad: true, vm.OpInc: true,
}

func c05IsJump(op byte) bool {
	return op == vm.OpJump || op == vm.OpJumpIfTrue || op == vm.OpJumpIfFalse || op == vm.OpJumpBackward
}

// c05DecodeReal: a plain linear walk (coverage counters and generator sanity only; the verdict is Lean's)
func c05DecodeReal(p *vm.Program) []c05RealIns {
	var out []c05RealIns
	b := p.Bytecode
	for ip := 0; ip < len(b); {
		in := c05RealIns{Off: ip, Op: b[ip]}
		ip++
		if c05OpHasArg[in.Op] {
			if ip+1 >= len(b) {
				break
			}
			in.Arg = int(b[ip]) | int(b[ip+1])<<8
			ip += 2
		}
		out = append(out, in)
	}
	return out
}

func c05WfAsk(c *Ctx, progs []*vm.Program) ([]string, error) {
	lines := make([]string, len(progs))
	for i, p := range progs {
		lines[i] = T("wfstatic", programSx(p)).String()
	}
	return c.AskAll(lines)
}

func c05WfStaticReal(c *Ctx, cases []*Case) {
	r := c.R
	var progs []*vm.Program
	var idx []*Case
	for _, cs := range cases {
		if cs.B != nil && cs.B.Program != nil {
			progs = append(progs, cs.B.Program)
			idx = append(idx, cs)
		}
	}
	resp, err := c05WfAsk(c, progs)
	if err != nil {
		r.Mismatch("driver", "wfstatic", err.Error(), "")
		return
	}
	for i, cs := range idx {
		r.Count("wf:checked", 1)
		for _, in := range c05DecodeReal(cs.B.Program) {
			if c05IsJump(in.Op) {
				r.Count("wf:jumps", 1)
			}
			if in.Op == vm.OpBegin {
				r.Count("wf:scopes", 1)
			}
			if in.Op == vm.OpCast {
				r.Count("wf:casts", 1)
			}
		}
		if resp[i] == "true" {
			continue
		}
		m, perr := ParseSx(resp[i])
		if perr != nil || m.Tag() != "false" {
			r.Mismatch("wfstatic", cs.Src+" ["+cs.Mode.String()+"]", resp[i], "unexpected response")
			continue
		}
		reason := m.List[1].Atom
		r.Violate(Violation{
			What:   "the real compiler emitted a program the static checker rejects (" + reason + ")",
			Key:    "c05:wfstatic:" + reason,
			Input:  map[string]interface{}{"src": cs.Src, "mode": cs.Mode.String(), "bytecode": fmt.Sprintf("%x", cs.B.Program.Bytecode)},
			Expect: "wfStatic = true (decodes, operands in range and of the expected kind, jumps on boundaries, Begin/End nested)",
			Got:    resp[i],
		})
	}
}

// c05Disassemble: the library's own decoder (vm/program.go Disassemble) must decode every real program into the
// instructions the model's decoder finds: same offsets, names and operands, and it must not panic.
func c05Disassemble(c *Ctx, cases []*Case) {
	r := c.R
	var lines []string
	var idx []*Case
	for _, cs := range cases {
		if cs.B != nil && cs.B.Program != nil {
			q := *cs.B.Program
			q.Locations = nil
			lines = append(lines, T("disasm", programSx(&q)).String())
			idx = append(idx, cs)
		}
	}
	resp, err := c.AskAll(lines)
	if err != nil {
		r.Mismatch("driver", "disasm", err.Error(), "")
		return
	}
	for i, cs := range idx {
		real := func() (out string) {
			defer func() {
				if e := recover(); e != nil {
					out = fmt.Sprintf("(panic %v)", e)
				}
			}()
			var parts []string
			for _, ln := range strings.Split(cs.B.Program.Disassemble(), "\n") {
				if ln == "" {
					continue
				}
				f := strings.Split(ln, "\t")
				arg := "-"
				if len(f) > 2 {
					arg = f[2]
				}
				if len(f) < 2 {
					return "(unparsable " + ln + ")"
				}
				tgt := ""
				if strings.HasPrefix(f[1], "OpJump") && len(f) > 3 {
					tgt = " " + strings.Trim(f[3], "()") // the jump target printed in parentheses
				} else if len(f) > 3 {
					// a constant operand: the fourth column renders the constant it indexes
					var a int
					fmt.Sscan(f[2], &a)
					want := "<nil>"
					if a < len(cs.B.Program.Constants) {
						var k interface{} = cs.B.Program.Constants[a]
						if re, ok := k.(*regexp.Regexp); ok {
							k = re.String()
						}
						want = fmt.Sprintf("%#v", k)
					}
					if got := strings.Join(f[3:], "\t"); got != want {
						return "(constant column of " + f[1] + " " + f[2] + ": " + got + " instead of " + want + ")"
					}
				}
				parts = append(parts, "("+f[0]+" "+f[1]+" "+arg+tgt+")")
			}
			return "(ok " + strings.Join(parts, " ") + ")"
		}()
		if len(cs.B.Program.Bytecode) == 0 {
			real = "(ok)"
		}
		model := resp[i]
		if model == "(ok )" {
			model = "(ok)"
		}
		r.Count("disasm:compared", 1)
		if model != real {
			r.Mismatch("disasm", cs.Src+" ["+cs.Mode.String()+"]", model, real)
		}
	}
}

// ---------------------------------------------------------------- (c) stack / scope balance after real runs

func c05UnderflowMsg(err error) bool {
	if err == nil {
		return false
	}
	m := err.Error()
	return strings.Contains(m, "index out of range [-1]") || strings.Contains(m, "slice bounds out of range [:-1]")
}

func c05BalanceCheck(c *Ctx, res []*VMResult) {
	r := c.R
	for _, vr := range res {
		o := vr.Real
		in := map[string]interface{}{"src": vr.Case.Src, "mode": vr.Case.Mode.String(), "env": valSx(envVal(vr.Case)).String()}
		if o.Timeout {
			continue
		}
		if o.Err == nil {
			r.Count("balance:ok-runs", 1)
			if o.StackLen != 0 || o.Scopes != 0 {
				r.Violate(Violation{What: "a successful run left values on the stack or a loop scope open", Key: "c05:unbalanced-after-success",
					Input: in, Expect: "Stack() empty and ScopeDepth() = 0 after a successful run", Got: fmt.Sprintf("stack=%d scopes=%d", o.StackLen, o.Scopes)})
			}
			continue
		}
		r.Count("balance:err-runs", 1)
		if c05UnderflowMsg(o.Err) {
			r.Violate(Violation{What: "a run popped an empty evaluation stack (or closed a scope that was not open)", Key: "c05:stack-underflow",
				Input: in, Expect: "no run pops an empty stack", Got: o.Err.Error()})
		}
	}
}

// ---------------------------------------------------------------- (d) large programs

type c05BigSpec struct {
	Shape string `json:"shape"`
	T     int    `json:"t"` // the jump offset aimed at (jump shapes) / number of distinct constants (shape consts)
	Mode  Mode   `json:"mode"`
	B     bool   `json:"b"`
	I     int    `json:"i"`
	Ints  []int  `json:"ints"`
}

func (s c05BigSpec) String() string {
	return fmt.Sprintf("%s T=%d %s B=%v I=%d Ints=%v", s.Shape, s.T, s.Mode, s.B, s.I, s.Ints)
}

// balanced sum of n occurrences of `I` (4n-1 bytes of code: n OpFetch, n-1 OpAdd)
func c05SumSrc(sb *strings.Builder, n int) {
	if n == 1 {
		sb.WriteString("I")
		return
	}
	sb.WriteString("(")
	c05SumSrc(sb, n/2)
	sb.WriteString(" + ")
	c05SumSrc(sb, n-n/2)
	sb.WriteString(")")
}

// c05IntBody returns an int expression compiling to exactly L bytes (L >= 3) and its value as a function of I
func c05IntBody(L int) (string, func(i int) int) {
	k := (L + 1) % 4
	n := (L + 1 - k) / 4
	var sb strings.Builder
	for j := 0; j < k; j++ {
		sb.WriteString("-(")
	}
	c05SumSrc(&sb, n)
	for j := 0; j < k; j++ {
		sb.WriteString(")")
	}
	return sb.String(), func(i int) int {
		v := n * i
		if k%2 == 1 {
			v = -v
		}
		return v
	}
}

// shape table: source, the byte distance between body size L and the largest jump offset, expected value
type c05BigProgram struct {
	Src      string
	Expect   interface{}
	Oversize bool
}

func c05AnyInts(f func(x int) interface{}, xs []int) []interface{} {
	out := make([]interface{}, 0, len(xs))
	for _, x := range xs {
		out = append(out, f(x))
	}
	return out
}

func c05BuildBig(s c05BigSpec) c05BigProgram {
	body := func(delta int) (string, int) {
		src, val := c05IntBody(s.T - delta)
		return src, val(s.I)
	}
	over := s.T > 65535
	switch s.Shape {
	case "cond-then": // c; JumpIfFalse (1+L+3); Pop; body; Jump; Pop; 7
		src, v := body(4)
		e := interface{}(7)
		if s.B {
			e = v
		}
		return c05BigProgram{"B ? " + src + " : 7", e, over}
	case "cond-else": // … Jump (1+L); Pop; body
		src, v := body(1)
		e := interface{}(v)
		if s.B {
			e = 7
		}
		return c05BigProgram{"B ? 7 : " + src, e, over}
	case "and": // l; JumpIfFalse (1 + L+3+1); Pop; body; Push 0; Equal
		src, v := body(5)
		return c05BigProgram{"B and (" + src + " == 0)", s.B && v == 0, over}
	case "or":
		src, v := body(5)
		return c05BigProgram{"B or (" + src + " == 0)", s.B || v == 0, over}
	case "map-back": // backward jump = 7 + 3 + (1 + L + 3) + 3
		src, v := body(17)
		return c05BigProgram{"map(Ints, {" + src + "})", c05AnyInts(func(int) interface{} { return v }, s.Ints), over}
	case "map-exit": // exit jump = (1 + L + 3) + 3; the backward jump is 10 larger
		src, v := body(7)
		return c05BigProgram{"map(Ints, {" + src + "})", c05AnyInts(func(int) interface{} { return v }, s.Ints), s.T+10 > 65535}
	case "filter-back": // body = L+4 (== 0) + emitCond(Inc, Load, Load, Index) = L+22; back = L+39
		src, v := body(39)
		var keep []interface{}
		for _, x := range s.Ints {
			if v == 0 {
				keep = append(keep, x)
			}
		}
		if keep == nil {
			keep = []interface{}{}
		}
		return c05BigProgram{"filter(Ints, {" + src + " == 0})", keep, over}
	case "count-back": // body = L+4 + emitCond(Inc) = L+15; back = L+32
		src, v := body(32)
		n := 0
		if v == 0 {
			n = len(s.Ints)
		}
		return c05BigProgram{"count(Ints, {" + src + " == 0})", n, over}
	case "all-back": // body = L+4 + JumpIfFalse + Pop = L+8; back = L+25
		src, v := body(25)
		return c05BigProgram{"all(Ints, {" + src + " == 0})", len(s.Ints) == 0 || v == 0, over}
	case "consts": // T distinct constants: the elements 0..T-2 and the length T-1
		var sb strings.Builder
		sb.WriteString("[")
		exp := make([]interface{}, 0, s.T-1)
		for i := 0; i < s.T-1; i++ {
			if i > 0 {
				sb.WriteString(",")
			}
			fmt.Fprintf(&sb, "%d", i)
			exp = append(exp, i)
		}
		sb.WriteString("]")
		return c05BigProgram{sb.String(), exp, s.T > 65535}
	}
	panic("shape " + s.Shape)
}

func c05BigSpecs(thorough bool) []c05BigSpec {
	typed := Mode{Env: "struct", Optimize: false}
	opt := Mode{Env: "struct", Optimize: true}
	untyped := Mode{Env: "none"}
	var out []c05BigSpec
	add := func(shape string, m Mode, ts ...int) {
		for _, t := range ts {
			if shape == "consts" {
				out = append(out, c05BigSpec{shape, t, m, false, 0, nil})
				continue
			}
			for _, b := range []bool{false, true} {
				i, ints := 0, []int{4, 5}
				if b {
					i = 3
				}
				out = append(out, c05BigSpec{shape, t, m, b, i, ints})
			}
		}
	}
	if !thorough {
		add("cond-then", typed, 88015, 65535, 65536)
		add("cond-else", untyped, 65535, 65536)
		add("and", opt, 65535, 65536)
		add("or", typed, 65536)
		add("map-back", typed, 65535, 65536)
		add("map-exit", typed, 65525, 65536)
		add("filter-back", untyped, 65536)
		add("count-back", opt, 65535)
		add("all-back", typed, 65536)
		add("consts", untyped, 65535, 65536)
		return out
	}
	ts := []int{65533, 65534, 65535, 65536, 65537, 65538, 70000, 88015, 131071, 131072, 131075, 200000}
	for _, m := range []Mode{typed, opt, untyped, {Env: "map", Optimize: true}, {Env: "struct", Optimize: true, Cast: "int64"}} {
		for _, sh := range []string{"cond-then", "cond-else", "and", "or", "map-back", "map-exit", "filter-back", "count-back", "all-back"} {
			if m.Cast != "" && sh != "cond-then" && sh != "cond-else" && sh != "count-back" {
				continue
			}
			add(sh, m, ts...)
		}
	}
	add("consts", untyped, 65534, 65535, 65536, 65537)
	add("consts", typed, 65534, 65535, 65536, 65537)
	return out
}

func c05BigEnv(s c05BigSpec) *Env {
	k := 0
	e := NewEnv(0, func(n int) int { k++; return k % n })
	e.B, e.I, e.Ints = s.B, s.I, s.Ints
	return e
}

type c05ChildOut struct {
	CompileErr string `json:"compile_err"`
	Ran        bool   `json:"ran"`
	Val        string `json:"val"`
	Err        string `json:"err"`
	StackLen   int    `json:"stack_len"`
	Scopes     int    `json:"scopes"`
	Aborted    string `json:"aborted"` // "timeout" | "runaway-memory"
}

// child mode: `harness c05-child` reads a c05BigSpec on stdin, builds and runs it, prints a c05ChildOut
func init() {
	props["C05"] = runC05
	if len(os.Args) > 1 && os.Args[1] == "c05-child" {
		c05Child()
		os.Exit(0)
	}
}

func c05Child() {
	var s c05BigSpec
	if err := json.NewDecoder(os.Stdin).Decode(&s); err != nil {
		fmt.Println(`{"compile_err":"bad spec"}`)
		return
	}
	out := c05ChildOut{}
	emit := func() {
		b, _ := json.Marshal(out)
		os.Stdout.Write(b)
		os.Exit(0)
	}
	env := c05BigEnv(s)
	bp := c05BuildBig(s)
	b := BuildReal(bp.Src, s.Mode, env)
	if b.Program == nil {
		out.CompileErr = b.Stage + ": " + b.Err.Error()
		emit()
	}
	var ev interface{} = env
	if s.Mode.Env == "map" {
		ev = env.AsMap()
	}
	machine := &vm.VM{}
	done := make(chan struct{})
	var val interface{}
	var rerr error
	go func() {
		defer close(done)
		defer func() {
			if r := recover(); r != nil {
				rerr = fmt.Errorf("PANIC-ESCAPED: %v", r)
			}
		}()
		val, rerr = machine.Run(b.Program, ev)
	}()
	tick := time.NewTicker(10 * time.Millisecond)
	deadline := time.After(10 * time.Second) // counted from the start of Run only (the build is already done)
	for {
		select {
		case <-done:
			out.Ran = true
			if rerr != nil {
				out.Err = rerr.Error()
			} else {
				out.Val = valSx(val).String()
			}
			out.StackLen = len(machine.Stack())
			out.Scopes = machine.ScopeDepth()
			emit()
		case <-deadline:
			out.Aborted = "timeout"
			emit()
		case <-tick.C:
			var ms runtime.MemStats
			runtime.ReadMemStats(&ms)
			if ms.HeapAlloc > 1<<30 {
				out.Aborted = "runaway-memory"
				emit()
			}
		}
	}
}

func c05RunChild(s c05BigSpec) (*c05ChildOut, error) {
	self, err := os.Executable()
	if err != nil {
		return nil, err
	}
	ctx, cancel := context.WithTimeout(context.Background(), 180*time.Second)
	defer cancel()
	cmd := exec.CommandContext(ctx, self, "c05-child")
	in, _ := json.Marshal(s)
	cmd.Stdin = bytes.NewReader(in)
	var stdout, stderr bytes.Buffer
	cmd.Stdout, cmd.Stderr = &stdout, &stderr
	if err := cmd.Run(); err != nil {
		if ctx.Err() != nil {
			// the whole child (build included) did not finish: an overloaded machine, not a verdict
			return nil, fmt.Errorf("child process killed after 180 s (machine overloaded?)")
		}
		return &c05ChildOut{Aborted: "crashed: " + err.Error() + " " + c05Tail(stderr.String(), 300)}, nil
	}
	var out c05ChildOut
	if err := json.Unmarshal(stdout.Bytes(), &out); err != nil {
		return nil, fmt.Errorf("child output: %v: %s", err, c05Tail(stdout.String(), 300))
	}
	return &out, nil
}

func c05Head(s string, n int) string {
	if len(s) > n {
		return s[:n]
	}
	return s
}

func c05Tail(s string, n int) string {
	if len(s) > n {
		return s[len(s)-n:]
	}
	return s
}

func c05MaxJumpOperand(p *vm.Program) int {
	m := -1
	for _, in := range c05DecodeReal(p) {
		if c05IsJump(in.Op) && in.Arg > m {
			m = in.Arg
		}
	}
	return m
}

// stripped program for the wfstatic stage: the location table is not part of well-formedness
func c05WfLine(p *vm.Program) string {
	q := *p
	q.Locations = nil
	return T("wfstatic", programSx(&q)).String()
}

func c05BigPrograms(c *Ctx, specs []c05BigSpec) {
	r := c.R
	type prog struct {
		s        c05BigSpec
		bp       c05BigProgram
		cs       *Case
		wf       string
		wfErr    error
		modelled bool
	}
	type item struct {
		s     c05BigSpec
		p     *prog
		child *c05ChildOut
		cerr  error
	}
	progs := map[string]*prog{}
	var order []*prog
	items := make([]*item, len(specs))
	for i, s := range specs {
		key := fmt.Sprintf("%s|%d|%s", s.Shape, s.T, s.Mode)
		p := progs[key]
		if p == nil {
			p = &prog{s: s, bp: c05BuildBig(s)}
			p.cs = &Case{Src: p.bp.Src, Mode: s.Mode, Env: c05BigEnv(s)}
			progs[key] = p
			order = append(order, p)
		}
		items[i] = &item{s: s, p: p}
	}
	// real runs in child processes, in parallel
	var wg sync.WaitGroup
	sem := make(chan struct{}, 6)
	for _, it := range items {
		wg.Add(1)
		go func(it *item) {
			defer wg.Done()
			sem <- struct{}{}
			it.child, it.cerr = c05RunChild(it.s)
			<-sem
		}(it)
	}
	// meanwhile, per distinct program: real build here; wfStatic on the real bytecode; the compile model on a
	// subset in the quick tier (the driver needs seconds per megabyte of request), on all in the thorough tier
	dsem := make(chan struct{}, 8)
	for _, p := range order {
		p.modelled = c.Thorough() || (p.s.T == 65536 && (p.s.Shape == "cond-then" || p.s.Shape == "map-back"))
		wg.Add(1)
		go func(p *prog) {
			defer wg.Done()
			dsem <- struct{}{}
			defer func() { <-dsem }()
			tp := time.Now()
			defer func() { r.Note("big %s T=%d: driver work %.1fs", p.s.Shape, p.s.T, time.Since(tp).Seconds()) }()
			if p.modelled {
				CompileCorrespondence(c, []*Case{p.cs})
				r.Count("big:compile-modelled", 1)
			} else {
				p.cs.B = BuildReal(p.cs.Src, p.cs.Mode, p.cs.Env)
			}
			if p.cs.B.Program != nil {
				resp, err := c.AskAll([]string{c05WfLine(p.cs.B.Program)})
				p.wfErr = err
				if err == nil {
					p.wf = resp[0]
				}
			}
		}(p)
	}
	tw := time.Now()
	wg.Wait()
	r.Note("big: all children and driver calls done after %.1fs", time.Since(tw).Seconds())
	for _, p := range order {
		r.Case("big|"+p.s.Shape+fmt.Sprintf("|%d|", p.s.T)+p.s.Mode.String(), true)
	}
	for _, it := range items {
		s, bp, b := it.s, c05BuildExpect(it.s, it.p.bp), it.p.cs.B
		bp.Expect = c05CastExpect(s, bp.Expect)
		expectTxt := "Compile rejects the program, or it is well-formed and the run returns " + c05Head(valSx(bp.Expect).String(), 60) + " with an empty stack"
		key := c05KeyTrunc
		what := "a jump offset above 65535 is silently truncated to 16 bits by patchJump/calcBackwardJump: the emitted jump does not reach its intended target"
		if s.Shape == "consts" {
			key, what = "c05:constant-index-overflow", "a program with more constants than a 16-bit index can name is neither rejected nor correct"
		}
		if !bp.Oversize {
			key, what = "c05:large-program-broken", "a large program whose offsets all fit 16 bits misbehaves"
			expectTxt = "the program compiles, is well-formed and the run returns " + c05Head(valSx(bp.Expect).String(), 60) + " with an empty stack"
		}
		viol := func(got string) {
			r.Violate(Violation{What: what, Key: key, Input: map[string]interface{}{"big": s, "src_len": len(bp.Src), "src_head": c05Head(bp.Src, 60)},
				Expect: expectTxt, Got: got})
		}
		if bp.Oversize {
			r.Count("big:oversize", 1)
		} else {
			r.Count("big:fits", 1)
		}
		if it.cerr != nil {
			r.Mismatch("harness", "child "+s.String(), it.cerr.Error(), "")
			continue
		}
		if it.p.wfErr != nil {
			r.Mismatch("driver", "wfstatic(big) "+s.String(), it.p.wfErr.Error(), "")
			continue
		}
		if b.Program == nil {
			if b.Stage != "compile" {
				r.Mismatch("generator", "big "+s.String(), "stage "+b.Stage, b.Err.Error())
				continue
			}
			if bp.Oversize {
				r.Count("big:oversize:rejected", 1)
			} else {
				viol("Compile error: " + b.Err.Error())
			}
			continue
		}
		// generator sanity: at the aimed offset the largest jump operand is the aimed one
		if s.Shape != "consts" && s.T <= 65535 {
			want := s.T
			if s.Shape == "map-exit" {
				want = s.T + 10
			}
			if got := c05MaxJumpOperand(b.Program); got != want {
				r.Mismatch("generator", "big "+s.String(), fmt.Sprintf("largest jump operand %d", want), fmt.Sprint(got))
			}
		}
		if s.Shape == "consts" && len(b.Program.Constants) != s.T {
			r.Mismatch("generator", "big "+s.String(), fmt.Sprintf("%d constants", s.T), fmt.Sprint(len(b.Program.Constants)))
		}
		var got []string
		if w := it.p.wf; w != "true" {
			got = append(got, "wfStatic(real bytecode, "+fmt.Sprint(len(b.Program.Bytecode))+" bytes) = "+w)
		}
		ch := it.child
		switch {
		case ch.CompileErr != "":
			r.Mismatch("harness", "child "+s.String(), "compiled in the parent", ch.CompileErr)
		case ch.Aborted != "":
			got = append(got, "run aborted: "+ch.Aborted)
		case ch.Err != "":
			e := strings.ReplaceAll(c05Head(ch.Err, 90), "\n", " ")
			if c05UnderflowMsg(fmt.Errorf("%s", ch.Err)) {
				e += " (pop of an empty stack)"
			}
			got = append(got, "run error: "+e)
		default:
			if ch.Val != valSx(bp.Expect).String() {
				got = append(got, "run returned "+c05Head(ch.Val, 80)+" instead of "+c05Head(valSx(bp.Expect).String(), 80))
			}
			if ch.StackLen != 0 || ch.Scopes != 0 {
				got = append(got, fmt.Sprintf("after the run stack=%d scopes=%d", ch.StackLen, ch.Scopes))
			}
		}
		if len(got) > 0 {
			viol(strings.Join(got, "; "))
			continue
		}
		if bp.Oversize {
			r.Count("big:oversize:correct", 1)
		} else {
			r.Count("big:fits:ran", 1)
		}
	}
}

// the expected value depends on the environment of the individual run, the source does not
func c05BuildExpect(s c05BigSpec, shared c05BigProgram) c05BigProgram {
	if s.Shape == "consts" {
		return shared
	}
	bp := c05BuildBig(s)
	bp.Src = shared.Src
	return bp
}

// AsInt64(): the compiled program ends with OpCast 0
func c05CastExpect(s c05BigSpec, v interface{}) interface{} {
	if i, ok := v.(int); ok && s.Mode.Cast == "int64" && s.Mode.Env != "none" {
		return int64(i)
	}
	return v
}

// replayC05 re-runs the single large program named by a replay file; false = not a large-program replay
func replayC05(c *Ctx) bool {
	raw, err := os.ReadFile(c.Replay)
	if err != nil {
		// bin/check runs the harness from harness/: a path relative to the checkout root
		raw, err = os.ReadFile("../" + c.Replay)
	}
	if err != nil {
		return false
	}
	var f struct {
		Violation struct {
			Input struct {
				Big *c05BigSpec `json:"big"`
			} `json:"input"`
		} `json:"violation"`
	}
	if json.Unmarshal(raw, &f) != nil || f.Violation.Input.Big == nil {
		return false
	}
	s := *f.Violation.Input.Big
	if reflect.DeepEqual(s, c05BigSpec{}) {
		return false
	}
	c05BigPrograms(c, []c05BigSpec{s})
	return true
}
