package main

// Inputs for C04: environments with nil, wrongly typed and panicking members; the option matrix (including
// node-replacing Patch visitors); byte-level and token-level mutators; nesting bombs.

import (
	"fmt"
	"math/rand"
	"strings"

	"github.com/antonmedv/expr"
	"github.com/antonmedv/expr/ast"
)

type C04Env struct {
	I, J      int
	S         string
	B         bool
	F         float64
	Ints      []int
	M         map[string]int
	Obj       *FxInner
	NilPtr    *FxInner
	NilMap    map[string]int
	NilSlice  []int
	NilIface  interface{}
	NilFn     func(int) int
	PanicFn   func(int) int
	PanicFast func(...interface{}) interface{}
	BadOp     func(a int) int
	NotFn     int
	Add       func(a, b int) int
	Upper     func(string) string
	PanicCE   func(int) int
	NilErrFn  func() (int, error)
	EqAny     func(a, b interface{}) bool
	AddAny    func(a, b interface{}) interface{}
	LessStr   func(a fmt.Stringer, b interface{}) bool
}

func (C04Env) PanicM(x int) int { panic(fmt.Sprintf("method boom %d", x)) }
func (C04Env) OkM(x int) int    { return x + 1 }
func (*C04Env) NilDerefM() int {
	var p *FxInner
	return p.N
}

func c04NewEnv() *C04Env {
	return &C04Env{I: 3, J: 5, S: "str", B: true, F: 1.5, Ints: []int{1, 2, 3}, M: map[string]int{"a": 1},
		Obj:       &FxInner{N: 1, S: "obj"},
		PanicFn:   func(x int) int { panic("fn boom") },
		PanicFast: func(xs ...interface{}) interface{} { panic(fmt.Errorf("fast boom %v", xs)) },
		BadOp:     func(a int) int { return a }, NotFn: 7,
		Add:   func(a, b int) int { return a + b },
		Upper: strings.ToUpper, PanicCE: func(x int) int { var m map[string]int; m["x"] = x; return x },
		NilErrFn: func() (int, error) { return 0, nil },
		EqAny:    func(a, b interface{}) bool { return a == nil && b == nil },
		AddAny:   func(a, b interface{}) interface{} { return []interface{}{a, b} },
		LessStr:  func(a fmt.Stringer, b interface{}) bool { return a == nil },
	}
}

func c04MapEnv() map[string]interface{} {
	e := c04NewEnv()
	return map[string]interface{}{"I": e.I, "J": e.J, "S": e.S, "B": e.B, "F": e.F, "Ints": e.Ints, "M": e.M, "Obj": e.Obj,
		"NilPtr": e.NilPtr, "NilMap": e.NilMap, "NilSlice": e.NilSlice, "NilIface": nil, "NilFn": e.NilFn,
		"PanicFn": e.PanicFn, "PanicFast": e.PanicFast, "BadOp": e.BadOp, "NotFn": e.NotFn, "Add": e.Add, "Upper": e.Upper,
		"PanicCE": e.PanicCE, "PanicM": e.PanicM, "OkM": e.OkM, "EqAny": e.EqAny, "AddAny": e.AddAny, "LessStr": e.LessStr}
}

// run-time environments for a program compiled against C04Env / its map form: the sample itself, members
// nil, wrong types, nil env, unrelated values
func c04RunEnvs() []struct {
	Name string
	Env  interface{}
} {
	wrong := c04MapEnv()
	wrong["I"], wrong["S"], wrong["Ints"], wrong["M"], wrong["Add"], wrong["Obj"] = "not an int", 42, "not a slice", []int{1}, 17, 3.5
	return []struct {
		Name string
		Env  interface{}
	}{
		{"sample-struct", c04NewEnv()}, {"sample-map", c04MapEnv()}, {"zero-struct", &C04Env{}}, {"struct-value", *c04NewEnv()},
		{"nil", nil}, {"wrong-types-map", wrong}, {"empty-map", map[string]interface{}{}}, {"nil-map", map[string]interface{}(nil)},
		{"int", 42}, {"other-struct", &FxVec{1, 2}}, {"typed-nil-ptr", (*C04Env)(nil)}, {"map-string-int", map[string]int{"I": 1}},
	}
}

// sources aimed at the members above and at run-time failure modes
var c04Sources = []string{
	`PanicFn(1)`, `PanicFast(1, 2)`, `PanicM(1)`, `OkM(PanicFn(2))`, `NilFn(1)`, `NilDerefM()`, `NilErrFn()`,
	`NilPtr.N`, `NilPtr?.N`, `NilPtr.Name()`, `NilPtr?.Name()`, `Obj.Name()`, `Obj.P.N`, `Obj?.P?.N`, `Obj.P.Name()`,
	`NilMap["a"]`, `NilMap.a`, `NilSlice[0]`, `NilSlice[0:1]`, `len(NilSlice)`, `len(NilMap)`, `len(NilIface)`, `len(NilPtr)`,
	`NilIface.x`, `NilIface.x.y`, `NilIface?.x`, `NilIface.f()`, `NilIface[0]`, `NilIface[1:2]`, `I in NilMap`, `I in NilSlice`, `"a" in NilPtr`, `"a" in NilIface`, `nil in M`,
	`NilIface + 1`, `-NilIface`, `not NilIface`, `NilIface ? 1 : 2`, `NilIface matches "a"`, `NilIface == nil`, `NilIface < 1`, `NilIface .. 3`, `1 .. NilIface`,
	`S matches "("`, `S matches S + "("`, `S matches "a{2,1}"`, `1 / 0`, `I / 0`, `I % 0`, `1 % 0`, `I % (J - 5)`, `F / 0`, `1.0 % 2`,
	`Ints[I:J]`, `Ints[-1]`, `Ints[10]`, `Ints[J:I]`, `S[10:2]`, `S[-1:]`, `Ints["a"]`, `M[1]`, `M.zz`, `S[0]`, `"abc"[0]`, `("abc")[5]`,
	`1..1000000000`, `len(1..2000000)`, `map(1..1000000, {#})`, `I ** 1000`, `99999999999999999999`, `1e999`, `0x`, `0xZZ`, `0b2`, `1_000_`, `"\x"`, `"\u12"`, `'\777'`, `"unterminated`,
	`Add(1)`, `Add(1, 2, 3)`, `Add("a", 2)`, `Add(nil, nil)`, `Upper(1)`, `Upper(nil)`, `NotFn()`, `NotFn(1)`, `I()`, `S.f()`, `Missing()`, `Missing.x`, `Missing`,
	`nil`, `nil.x`, `nil()`, `nil[0]`, `nil + nil`, `-nil`, `not nil`, `nil ? nil : nil`, `nil ?: 1`, `[nil][0].x`, `{a: nil}.a.b`, `len(nil)`, `all(nil, {#})`, `map(nil, {#})`, `filter(I, {#})`, `count(Ints, {I})`,
	`#`, `.x`, `{#}`, `all(Ints, #)`, `all(Ints, {#.x})`, `map(Ints, {#?.x})`, `map(Ints, {NilPtr?.N})`, `map(Ints, {nil})`, `filter(Ints, {nil})`, `one(Ints, {1})`,
	`!B ?: B`, `-I ?: 1`, `(I + 1) ?: 2`, `I ? 1 : 2`, `B ? I : S`, `B ? nil : nil`, `B ?: I`, `(B ? NilPtr : Obj).N`, `(B ? nil : Obj)?.N`,
	`I == S`, `I < S`, `S + I`, `B + B`, `I and B`, `I in I`, `S in S`, `S contains I`, `I startsWith S`, `I matches I`, `[1] + [2]`, `{a: 1} == {a: 1}`, `M == M`, `Ints == Ints`, `Add == Add`, `PanicFn == nil`,
	`nil == I`, `I == nil`, `nil == nil`, `nil + I`, `I + nil`, `nil < I`, `NilIface?.x == I`, `NilPtr?.N + 1`, `NilPtr?.N < 1`, `Missing?.x == I`, `[nil == S]`, `{a: nil + 1}`, `map(Ints, {nil == #})`,
	`PanicCE(1)`, `PanicCE(I)`, `Upper("a" + "b")`, `Upper(S)`, `I + 1 + 2`, `I - J`, `I * BadOp(2)`,
	``, ` `, `(`, `)`, `()`, `[`, `{`, `{a}`, `{a:}`, `{:1}`, `{1 2}`, `[1 2]`, `1 2`, `a b`, `a.`, `a?.`, `a..b..c`, `1...2`, `a ? b`, `a ? : c`, `a ? b : `, `f(`, `f(,)`, `f(1,)`, `len()`, `len(1, 2)`, `all(Ints)`, `all(Ints, 1)`, `not`, `not in`, `1 not in`, `1 in`, `in 1`, `**`, `1 ** `, `- - - 1`, `!!!B`, `a[`, `a[:`, `a[:]`, `a[1:2:3]`, `a.1`, `a."b"`, `a.not`, `a.in.b`, `$`, `_`, `@`, "a\x00b", "\xff\xfe", "é + ü", "a\nb", "a /* c */ b", "a // b",
}

// ---- option matrix ----

type c04Opts struct {
	Env   int // 0 none, 1 struct, 2 map, 3 Env(nil)
	Undef bool
	NoOpt bool
	As    int // 0 none, 1 bool, 2 int64, 3 float64
	Op    int // 0 none, 1 valid, 2 missing function, 3 ill-shaped function, 4 not a function, 5 functions with interface-typed parameters (nil-typed operands)
	CE    int // 0 none, 1 valid, 2 missing name, 3 non-function member, 4 panicking function
	Patch int // 0 none, 1 int->ConstantNode, 2 string->IdentifierNode, 3 wrap, 4 delete children (nil), 5 replace by nil, 6 drop builtin/call arguments, 7 all->ConstantNode(nil value)
}

func (o c04Opts) String() string {
	return fmt.Sprintf("Env=%s Undef=%v Optimize=%v As=%s Operator=%s ConstExpr=%s Patch=%s",
		[...]string{"none", "struct", "map", "nil"}[o.Env], o.Undef, !o.NoOpt, [...]string{"none", "bool", "int64", "float64"}[o.As],
		[...]string{"none", "valid", "missing-fn", "ill-shaped-fn", "not-a-fn", "iface-params"}[o.Op], [...]string{"none", "valid", "missing-name", "non-function", "panicking-fn"}[o.CE],
		[...]string{"none", "int->ConstantNode", "string->IdentifierNode", "wrap-in-unary", "nil-children", "replace-by-nil", "drop-arguments", "any->ConstantNode(nil)"}[o.Patch])
}

type c04Visitor struct {
	mode  int
	count int
}

func (v *c04Visitor) Enter(*ast.Node) {}
func (v *c04Visitor) Exit(node *ast.Node) {
	v.count++
	if v.count > 100000 {
		return
	}
	switch v.mode {
	case 1:
		if n, ok := (*node).(*ast.IntegerNode); ok {
			ast.Patch(node, &ast.ConstantNode{Value: n.Value})
		}
	case 2:
		if _, ok := (*node).(*ast.StringNode); ok {
			ast.Patch(node, &ast.IdentifierNode{Value: "I"})
		}
	case 3:
		if n, ok := (*node).(*ast.IntegerNode); ok {
			ast.Patch(node, &ast.UnaryNode{Operator: "-", Node: &ast.IntegerNode{Value: n.Value}})
		}
	case 4:
		switch n := (*node).(type) {
		case *ast.BinaryNode:
			n.Right = nil
		case *ast.UnaryNode:
			n.Node = nil
		case *ast.ArrayNode:
			if len(n.Nodes) > 0 {
				n.Nodes[0] = nil
			}
		case *ast.ConditionalNode:
			n.Exp2 = nil
		case *ast.PropertyNode:
			n.Node = nil
		}
	case 5:
		if _, ok := (*node).(*ast.IntegerNode); ok {
			*node = nil
		}
	case 6:
		switch n := (*node).(type) {
		case *ast.BuiltinNode:
			n.Arguments = n.Arguments[:len(n.Arguments)/2]
		case *ast.FunctionNode:
			n.Arguments = nil
		case *ast.MethodNode:
			n.Arguments = nil
		}
	case 7:
		switch (*node).(type) {
		case *ast.IdentifierNode, *ast.NilNode:
			ast.Patch(node, &ast.ConstantNode{Value: nil})
		}
	}
}

func (o c04Opts) Build() (opts []expr.Option) {
	switch o.Env {
	case 1:
		opts = append(opts, expr.Env(c04NewEnv()))
	case 2:
		opts = append(opts, expr.Env(c04MapEnv()))
	case 3:
		opts = append(opts, expr.Env(nil))
	}
	if o.Undef {
		opts = append(opts, expr.AllowUndefinedVariables())
	}
	if o.NoOpt {
		opts = append(opts, expr.Optimize(false))
	}
	switch o.As {
	case 1:
		opts = append(opts, expr.AsBool())
	case 2:
		opts = append(opts, expr.AsInt64())
	case 3:
		opts = append(opts, expr.AsFloat64())
	}
	switch o.Op {
	case 1:
		opts = append(opts, expr.Operator("+", "Add"))
	case 2:
		opts = append(opts, expr.Operator("+", "NoSuchFunction"))
	case 3:
		opts = append(opts, expr.Operator("*", "BadOp"))
	case 4:
		opts = append(opts, expr.Operator("-", "NotFn"))
	case 5:
		opts = append(opts, expr.Operator("==", "EqAny"), expr.Operator("+", "AddAny"), expr.Operator("<", "LessStr"))
	}
	switch o.CE {
	case 1:
		opts = append(opts, expr.ConstExpr("Upper"))
	case 2:
		opts = append(opts, expr.ConstExpr("missing"))
	case 3:
		opts = append(opts, expr.ConstExpr("NotFn"))
	case 4:
		opts = append(opts, expr.ConstExpr("PanicCE"))
	}
	if o.Patch > 0 {
		opts = append(opts, expr.Patch(&c04Visitor{mode: o.Patch}))
	}
	return
}

func c04AllOpts() []c04Opts {
	var out []c04Opts
	for env := 0; env < 4; env++ {
		for u := 0; u < 2; u++ {
			for no := 0; no < 2; no++ {
				for as := 0; as < 4; as++ {
					for op := 0; op < 6; op++ {
						for ce := 0; ce < 5; ce++ {
							for p := 0; p < 8; p++ {
								out = append(out, c04Opts{env, u == 1, no == 1, as, op, ce, p})
							}
						}
					}
				}
			}
		}
	}
	return out
}

func c04RandOpts(r *rand.Rand) c04Opts {
	o := c04Opts{Env: r.Intn(4), Undef: r.Intn(3) == 0, NoOpt: r.Intn(3) == 0}
	if r.Intn(3) == 0 {
		o.As = r.Intn(4)
	}
	if r.Intn(4) == 0 {
		o.Op = r.Intn(6)
	}
	if r.Intn(4) == 0 {
		o.CE = r.Intn(5)
	}
	if r.Intn(4) == 0 {
		o.Patch = r.Intn(8)
	}
	return o
}

// ---- byte strings and mutations ----

var c04Tokens = []string{"(", ")", "[", "]", "{", "}", ",", ":", "?", "?.", ".", "..", "#", "+", "-", "*", "/", "%", "**", "==", "!=", "<", "<=", ">", ">=",
	"and", "or", "not", "in", "not in", "matches", "contains", "startsWith", "endsWith", "&&", "||", "!", "nil", "true", "false",
	"I", "S", "Ints", "M", "Obj", "NilPtr", "Add", "PanicFn", "len", "all", "map", "filter", "count", "one", "none", "any",
	"0", "1", "42", "3.14", "1e3", "0x1F", "0xE", "1_0", ".5", `"a"`, `'b'`, `"\n"`, `"é"`, `"("`, "é", "_x", "$y", " ", "\t", "\n"}

func c04RandomBytes(r *rand.Rand, n int) string {
	b := make([]byte, n)
	switch r.Intn(4) {
	case 0: // arbitrary bytes (mostly invalid UTF-8)
		r.Read(b)
	case 1: // printable ASCII
		for i := range b {
			b[i] = byte(32 + r.Intn(95))
		}
	case 2: // valid UTF-8 from assorted planes
		var sb strings.Builder
		for sb.Len() < n {
			sb.WriteRune([]rune{'a', 'é', 'я', '中', '😀', ' ', '"', '\\', '(', '0', 0x2028, 0xFEFF, 0x1D11E}[r.Intn(13)])
		}
		return sb.String()
	default: // token soup
		var sb strings.Builder
		for sb.Len() < n {
			sb.WriteString(c04Tokens[r.Intn(len(c04Tokens))])
			if r.Intn(3) > 0 {
				sb.WriteByte(' ')
			}
		}
		return sb.String()
	}
	return string(b)
}

func c04Mutate(r *rand.Rand, s string) string {
	b := []byte(s)
	for k := 1 + r.Intn(3); k > 0; k-- {
		if len(b) == 0 {
			b = append(b, byte(r.Intn(256)))
			continue
		}
		i := r.Intn(len(b))
		switch r.Intn(9) {
		case 0:
			b[i] = byte(r.Intn(256))
		case 1:
			b = append(b[:i], b[i+1:]...)
		case 2:
			b = append(b[:i], append([]byte{byte(32 + r.Intn(95))}, b[i:]...)...)
		case 3: // duplicate a span
			j := i + r.Intn(len(b)-i)
			b = append(b[:j], append(append([]byte{}, b[i:j]...), b[j:]...)...)
		case 4: // truncate
			b = b[:i]
		case 5: // insert a token
			t := c04Tokens[r.Intn(len(c04Tokens))]
			b = append(b[:i], append([]byte(" "+t+" "), b[i:]...)...)
		case 6: // swap two bytes
			j := r.Intn(len(b))
			b[i], b[j] = b[j], b[i]
		case 7: // replace a bracket / operator character
			for j := i; j < len(b); j++ {
				if strings.ContainsRune("()[]{}+-*/<>=!?:.,#", rune(b[j])) {
					b[j] = "()[]{}+-*/<>=!?:.,#"[r.Intn(19)]
					break
				}
			}
		default: // flip a bit
			b[i] ^= 1 << uint(r.Intn(8))
		}
	}
	return string(b)
}

// nesting bombs: 64 KiB of one opening construct, with and without a closing tail
func c04Bombs(limit int) []struct{ Name, Src string } {
	rep := func(unit string) string {
		s := strings.Repeat(unit, limit/len(unit))
		if len(s) > limit-8 {
			s = s[:(limit-8)/len(unit)*len(unit)]
		}
		return s
	}
	bal := func(unit, mid, cl string) string {
		n := (limit - len(mid) - 8) / (len(unit) + len(cl))
		return strings.Repeat(unit, n) + mid + strings.Repeat(cl, n)
	}
	return []struct{ Name, Src string }{
		{"open-paren", rep("(")}, {"paren-balanced", bal("(", "1", ")")},
		{"open-bracket", rep("[")}, {"bracket-balanced", bal("[", "1", "]")},
		{"minus", rep("-") + "1"}, {"minus-trunc", rep("-")}, {"bang", rep("!") + "true"}, {"not", rep("not ") + "true"},
		{"dot-chain", "a" + rep(".a")}, {"nilsafe-chain", "a" + rep("?.a")}, {"dot-trunc", rep("a.")}, {"nilsafe-trunc", rep("a?.")},
		{"open-map", rep("{a:")}, {"map-balanced", bal("{a:", "1", "}")},
		{"index-chain", "a" + rep("[0]")}, {"call-chain", bal("f(", "1", ")")}, {"ternary", bal("a?", "1", ":1")},
		{"binary-chain", "1" + rep("+1")}, {"pow-chain", "1" + rep("**1")}, {"and-chain", "true" + rep(" and true")},
		{"closure-nest", bal("all(a,{", "true", "})")}, {"string", `"` + rep("a")}, {"string-closed", `"` + rep("\\n") + `"`},
		{"digits", rep("9")}, {"ident", rep("x")}, {"commas", "[" + rep("1,")}, {"spaces", rep(" ") + "1"}, {"newlines", rep("\n") + "@"},
		{"hash-chain", "all(a,{" + rep("#.")}, {"slice-chain", "a" + rep("[1:2]")}, {"multibyte", rep("é")}, {"invalid-utf8", rep("\xff")},
		// more code than a 16-bit jump offset spans: the compiler must refuse it and every entry point must hand that
		// refusal on as an error (expr.Eval compiles without a configuration and has its own error path)
		{"jump-too-far", "true ? [" + rep("a.b,") + "1] : 0"},
		// allocation bombs: short inputs whose sizes wrap around the int range (a fatal out-of-memory error cannot be
		// recovered by anybody, hence the child process); bounds more than MaxInt apart, built so that no fold removes them
		{"range-desc-wrap", "9223360872354775806..(4611686018427387904 * 2)"},
		{"range-desc-minint", "len(9223372036854775807..(-9223372036854775807 - 1))"},
		{"range-desc-far", "4611686018427387904..(-4611686018427387904 - 10)"},
		{"range-asc-wrap", "(-4611686018427387904 - 10)..4611686018427387904"},
		{"range-asc-full", "(-9223372036854775807 - 1)..9223372036854775807"},
		{"range-in-wrap", "1 in 9223360872354775806..(4611686018427387904 * 2)"},
		{"range-env-wrap", "(I + 9223372036854775800)..(J - 9223372036854775800)"},
		{"range-map-wrap", "map(9223372036854775800..(9223372036854775800 + 100), {#})"},
		{"slice-wrap", "Ints[9223372036854775807:(-9223372036854775807 - 1)]"},
		{"string-slice-wrap", "S[(4611686018427387904 * 2):9223372036854775807]"},
		{"repeat-concat", "S + S + S + S + S + S + S + S"},
	}
}

// ---- systematic enumerations (token-level edge cases, integer boundaries) ----

// c04Contexts embeds a literal alone and in call / array / map-key / comparison / index positions
func c04Contexts(lit string, all bool) []string {
	out := []string{lit}
	if all {
		out = append(out, "foo("+lit+")", "["+lit+"]", "{"+lit+": 1}", "S == "+lit, "M["+lit+"]", "{a: "+lit+"}.a")
	}
	return out
}

// c04EscapeEnum: every escape introducer x 0..9 following digits (octal / hex / decimal / non-digit) x both quote
// characters x {closed right after the escape, one more character before the quote, unterminated}, alone and embedded
func c04EscapeEnum(thorough bool) []string {
	intro := []string{"a", "b", "f", "n", "r", "t", "v", "\\", "'", "\"", "`", "?", "x", "X", "u", "U", "0", "1", "2", "3", "4", "5", "6", "7",
		"8", "9", "z", "q", "e", "N", " ", "\n", "é", ""}
	digitSets := []string{"0", "7", "f", "9", "F", "g"}
	var out []string
	seen := map[string]bool{}
	add := func(s string) {
		if !seen[s] {
			seen[s] = true
			out = append(out, s)
		}
	}
	for _, c := range intro {
		for n := 0; n <= 9; n++ {
			for di, d := range digitSets {
				if n == 0 && di > 0 {
					continue
				}
				digits := strings.Repeat(d, n)
				if n > 1 && di == 2 {
					digits = strings.Repeat("0", n-1) + "g" // the last digit is not a digit
				}
				for pi, prefix := range []string{"", "abc"} {
					for _, q := range []string{`"`, `'`} {
						content := prefix + `\` + c + digits
						for ti, lit := range []string{q + content + q, q + content + "z" + q, q + content} {
							embed := pi == 0 && di < 2 && (thorough || ti != 1)
							for _, s := range c04Contexts(lit, embed) {
								add(s)
							}
						}
					}
				}
			}
		}
	}
	return out
}

// c04NumberEnum: number-token stems that stop in the middle of a prefix, exponent, fraction or digit separator
func c04NumberEnum() []string {
	stems := []string{"0x", "0X", "0b", "0B", "0o", "0O", "1e", "1E", "1e+", "1e-", "1.", "1.e", "1.e1", ".e1", ".1e", ".1e+", "1_", "1__2", "_1", "0_", "0x_", "0x_1", "0xg",
		"1a", "1x", "08", "09", "0b2", "0o8", "00", "0e", "0e0", "1..", "1...2", "1.2.3", "1.2..3", "0x1p3", "0x1.8", "1e1e1", "1e1.5", ".", "..", "...", ".5.", ".5.5", "1.5.",
		"0x7fffffffffffffff", "0x8000000000000000", "0xffffffffffffffffff", "9223372036854775807", "9223372036854775808", "99999999999999999999999999", "1e308", "1e309", "1e-400",
		"0.00000000000000000000000000000000000000001", "1_000_000", "1_e3", "1e_3", "0b1_", "0X_F", "1é", "١٢", "1٠"}
	tails := []string{"", "a", "_", ".", "e", " ", "(", "1", ")", "..2", ".x", "?.x", "[0]", "\"", "é"}
	var out []string
	for _, st := range stems {
		for _, t := range tails {
			n := st + t
			out = append(out, n, "("+n+")", n+" + 1", "["+n+"]", "Ints["+n+"]", n+".."+n, "-"+n, "{a: "+n+"}", "foo("+n+", "+n+")")
		}
	}
	return out
}

// c04KeywordEnum: word operators, each of their prefixes and one-letter extensions, in every operand position
func c04KeywordEnum() []string {
	words := []string{"not", "in", "not in", "and", "or", "matches", "contains", "startsWith", "endsWith", "nil", "true", "false", "len", "all", "map"}
	var forms []string
	for _, w := range words {
		for i := 1; i <= len(w); i++ {
			forms = append(forms, w[:i])
		}
		forms = append(forms, w+"x", w+"1", w+"_", w+"é", strings.ToUpper(w), w+" "+w, strings.Replace(w, " ", "", -1), strings.Replace(w, " ", "  ", -1),
			strings.Replace(w, " ", "\t", -1), strings.Replace(w, " ", "\n", -1), strings.Replace(w, " ", " ", -1))
	}
	forms = append(forms, "not inx", "notin", "not i", "not  in", "not not in", "not in in", "in not", "not in not in", "!in", "not!in", "not in(", "not in[")
	var out []string
	seen := map[string]bool{}
	for _, f := range forms {
		for _, s := range []string{f, "x " + f + " y", f + " y", "x " + f, "x " + f, "x" + f + "y", "x " + f + "y", "(x)" + f + "(y)", "I " + f + " Ints", "S " + f + " \"a\"",
			"x." + f, "x?." + f, "x." + f + "()", "x " + f + " " + f + " y", "[x " + f + "]", "{" + f + ": 1}", f + "(x)", "x " + f + " [1, 2]", "1 " + f + " 1..3"} {
			if !seen[s] {
				seen[s] = true
				out = append(out, s)
			}
		}
	}
	return out
}

// c04BoundaryEnum: integer literals at the int32 / int64 boundaries (decimal and hex, negated, and sums that
// overflow when folded) in every operand position of a small set of templates
func c04BoundaryEnum(thorough bool) []string {
	vals := []string{"0", "1", "-1", "2", "2147483647", "2147483648", "-2147483648", "4294967296", "4611686018427387904", "-4611686018427387904",
		"5000000000000000000", "-5000000000000000000", "9223372036854775806", "9223372036854775807", "-9223372036854775807", "-9223372036854775808",
		"0x7fffffffffffffff", "(9223372036854775807 + 1)", "(-9223372036854775807 - 2)", "(4611686018427387904 * 2)"}
	if thorough {
		vals = append(vals, "-2", "2147483649", "-2147483649", "4294967295", "-4294967296", "9007199254740993", "4611686018427387905", "-9223372036854775806",
			"0x8000000000000000", "-0x7fffffffffffffff", "9223372036854775808", "(9223372036854775807 - -1)", "(-4611686018427387904 * 3)", "(1 - 9223372036854775807 - 9223372036854775807)", "1_000_000", "1000001")
	}
	templates := []string{"%s..%s", "I in %s..%s", "5 not in %s..%s", "len(%s..%s)", "all(%s..%s, {# > 0})", "map(%s..%s, {#})[0]", "%s + %s", "%s - %s", "%s * %s", "%s / %s", "%s %% %s", "%s ** %s",
		"Ints[%s:%s]", "S[%s:%s]", "Ints[%s] + Ints[%s]", "[%s, %s][0]", "[1, 2][%s] + %s", "%s == %s", "%s < %s", "%s in [%s, 1]", "Add(%s, %s)", "(%s..3)[%s]"}
	var out []string
	for _, t := range templates {
		for _, a := range vals {
			for _, b := range vals {
				out = append(out, fmt.Sprintf(t, a, b))
			}
		}
	}
	for _, a := range vals {
		out = append(out, "-"+a, "- -"+a, "+"+a, a+"..", ".."+a, "Ints["+a+":]", "Ints[:"+a+"]", "I in "+a+"..I", a+" ?: 1")
	}
	return out
}
