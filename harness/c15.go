package main

// C15 — type information only rejects; it never changes meaning.
// Metamorphic oracle on the real code: one source, one environment value, every way of supplying (or not
// supplying) type information; all variants that succeed must return equal values.

import (
	"fmt"

	"reflect"
	"regexp"
	"strings"

	"github.com/antonmedv/expr"
	"github.com/antonmedv/expr/ast"
	"github.com/antonmedv/expr/checker"
	"github.com/antonmedv/expr/conf"
	"github.com/antonmedv/expr/optimizer"
	"github.com/antonmedv/expr/parser"
	"github.com/antonmedv/expr/vm"
)

var c15ElemTag = regexp.MustCompile(`\(arr (?:[a-z0-9]+|\(other [0-9a-f-]+\)) ?`)

type variant struct {
	name string
	run  func(src string, e *Env) (interface{}, error, bool) // value, error, compiled?
}

func compileRun(src string, envVal interface{}, ops ...expr.Option) (v interface{}, err error, compiled bool) {
	defer func() {
		if r := recover(); r != nil {
			err = fmt.Errorf("PANIC: %v", r)
		}
	}()
	p, cerr := expr.Compile(src, ops...)
	if cerr != nil {
		return nil, cerr, false
	}
	out := RunReal(&vm.VM{}, p, envVal, nil)
	return out.Val, out.Err, true
}

var c15variants = []variant{
	{"Eval(*struct)", func(src string, e *Env) (interface{}, error, bool) {
		v, err := expr.Eval(src, e)
		return v, err, true
	}},
	{"Eval(map)", func(src string, e *Env) (interface{}, error, bool) {
		v, err := expr.Eval(src, e.AsMap())
		return v, err, true
	}},
	{"Compile()", func(src string, e *Env) (interface{}, error, bool) { return compileRun(src, e, expr.Optimize(false)) }},
	{"Compile()+map", func(src string, e *Env) (interface{}, error, bool) { return compileRun(src, e.AsMap(), expr.Optimize(false)) }},
	{"Env(*struct)", func(src string, e *Env) (interface{}, error, bool) {
		return compileRun(src, e, expr.Env(e), expr.Optimize(false))
	}},
	{"Env(struct)", func(src string, e *Env) (interface{}, error, bool) {
		return compileRun(src, *e, expr.Env(*e), expr.Optimize(false))
	}},
	{"Env(struct) run on *struct", func(src string, e *Env) (interface{}, error, bool) {
		return compileRun(src, e, expr.Env(*e), expr.Optimize(false))
	}},
	{"Env(map)", func(src string, e *Env) (interface{}, error, bool) {
		return compileRun(src, e.AsMap(), expr.Env(e.AsMap()), expr.Optimize(false))
	}},
	{"Env(*struct)+optimizer", func(src string, e *Env) (interface{}, error, bool) {
		return compileRun(src, e, expr.Env(e))
	}},
	{"Env(map)+optimizer", func(src string, e *Env) (interface{}, error, bool) {
		return compileRun(src, e.AsMap(), expr.Env(e.AsMap()))
	}},
	{"Env(*struct)+AllowUndefined", func(src string, e *Env) (interface{}, error, bool) {
		return compileRun(src, e, expr.Env(e), expr.AllowUndefinedVariables(), expr.Optimize(false))
	}},
	{"Env(map)+AllowUndefined", func(src string, e *Env) (interface{}, error, bool) {
		return compileRun(src, e.AsMap(), expr.Env(e.AsMap()), expr.AllowUndefinedVariables(), expr.Optimize(false))
	}},
	// the same members as *unnamed* struct types with the fields in other orders (reflect.StructOf): two distinct
	// struct types that agree on package path, (empty) name and field names must not be confused with each other
	{"Eval(struct, fields rotated by 1)", func(src string, e *Env) (interface{}, error, bool) {
		v, err := expr.Eval(src, permutedStruct(e, 1, false))
		return v, err, true
	}},
	{"Eval(*struct, fields rotated by 7)", func(src string, e *Env) (interface{}, error, bool) {
		v, err := expr.Eval(src, permutedStruct(e, 7, true))
		return v, err, true
	}},
	{"Env(struct, fields reversed)", func(src string, e *Env) (interface{}, error, bool) {
		pe := permutedStruct(e, -1, false)
		return compileRun(src, pe, expr.Env(pe), expr.Optimize(false))
	}},
}

// permutedStruct copies the exported members of e into a value of an unnamed struct type whose fields are the
// same, rotated by rot places (rot < 0: reversed).
func permutedStruct(e *Env, rot int, ptr bool) interface{} {
	rv := reflect.ValueOf(e).Elem()
	rt := rv.Type()
	var fs []reflect.StructField
	var idx []int
	for i := 0; i < rt.NumField(); i++ {
		if f := rt.Field(i); f.PkgPath == "" {
			fs = append(fs, reflect.StructField{Name: f.Name, Type: f.Type})
			idx = append(idx, i)
		}
	}
	n := len(fs)
	if rot < 0 {
		for i, j := 0, n-1; i < j; i, j = i+1, j-1 {
			fs[i], fs[j] = fs[j], fs[i]
			idx[i], idx[j] = idx[j], idx[i]
		}
	} else {
		rot %= n
		fs = append(append([]reflect.StructField{}, fs[rot:]...), fs[:rot]...)
		idx = append(append([]int{}, idx[rot:]...), idx[:rot]...)
	}
	v := reflect.New(reflect.StructOf(fs)).Elem()
	for j, i := range idx {
		v.Field(j).Set(rv.Field(i))
	}
	if ptr {
		return v.Addr().Interface()
	}
	return v.Interface()
}

func runC15(c *Ctx) {
	defer definedTypeProbe(c, "C15") // defined scalar types: real-code oracle only (defined_zoo.go)
	r := c.R
	r.Rule = "generated expressions (well-typed stream and a mostly ill-typed stream) x environments x {Eval on *struct, Eval on map, Compile without Env (struct and map values), Env(*struct), Env(struct), Env(map), AllowUndefinedVariables on/off, unnamed struct types with permuted fields}; all variants that succeed must return equal values; Optimize(false) so that only type information differs; non-trivial = at least two variants succeed"
	n := 2500
	if c.Thorough() {
		n = 40000
	}
	cases := GenCases(c, n, 4, []Mode{{Env: "none"}}, nil)
	mixed := c15MixedKindCases()
	r.Count("mixed-kind-cases", len(mixed))
	cases = append(mixed, cases...)
	for _, cs := range cases {
		type res struct {
			name string
			val  string
		}
		var succ []res
		nfail := 0
		for _, v := range c15variants {
			cs.Env.ResetLog()
			val, err, compiled := v.run(cs.Src, cs.Env)
			switch {
			case err != nil && !compiled:
				r.Count("rejected:"+v.name, 1)
			case err != nil:
				nfail++
				r.Count("runfail:"+v.name, 1)
				if len(err.Error()) > 5 && err.Error()[:5] == "PANIC" {
					r.Count("panic", 1)
				}
			default:
				succ = append(succ, res{v.name, valSx(val).String()})
				r.Count("ok:"+v.name, 1)
			}
		}
		r.Case(cs.Src, len(succ) >= 2)
		for i := 1; i < len(succ); i++ {
			a, b := succ[0].val, succ[i].val
			if strings.Contains(succ[i].name, "+optimizer") || strings.Contains(succ[0].name, "+optimizer") {
				// with the optimizer on, sequences are compared element by element (C02's ObsEq): a folded
				// literal array is a []int / []string constant (known finding c02:array-literal-elem-type)
				a, b = c15ElemTag.ReplaceAllString(a, "(arr "), c15ElemTag.ReplaceAllString(b, "(arr ")
			}
			if a != b {
				key := "c15:" + succ[0].name + " vs " + succ[i].name
				if strings.Contains(succ[i].name, "+optimizer") {
					// is it the optimizer (C02's subject) rather than the type information?  compare with the same
					// variant compiled with Optimize(false)
					base := strings.TrimSuffix(succ[i].name, "+optimizer")
					for _, o := range succ {
						if o.name == base && c15ElemTag.ReplaceAllString(o.val, "(arr ") == a {
							key = "c15:optimizer-not-transparent"
							if c15ArrayLiteralCompared(cs.Src, cs.Env) {
								key = "c15:optimizer-not-transparent:array-literal-elem-type" // = known finding c02:array-literal-elem-type
							}
						}
					}
				}
				if arithWithInterfaceOperand(cs.Src, cs.Env) {
					// listed cause: checker.combined(interface{}, K) = K (typeWeight(interface{}) = 0), pinned by the
					// repository's own tests; the static type then drives type-directed rewrites/instructions
					key = "c15:arith-interface-operand-typed-as-other-operand"
				} else if retypedLiteralInMixedArgument(cs.Src, cs.Env) {
					// the one listed cause: checker.setTypeForIntegers retypes integer literals nested in an
					// arithmetic call argument whose other operands are not literals (int division becomes float division)
					key = "c15:retyped-literal-in-mixed-argument"
				}
				r.Violate(Violation{What: "variants with and without type information return different values",
					Key:   key,
					Input: map[string]string{"expr": cs.Src, "env": valSx(cs.Env).String()},
					Expect: succ[0].name + " = " + succ[0].val, Got: succ[i].name + " = " + succ[i].val})
				break
			}
		}
	}
	// model side of the tie: C01's correspondences (compile model, VM model, Spec) on typed and untyped modes
	ok := CompileCorrespondence(c, GenCases(c, n/5, 4, allModes, nil))
	res := VMCorrespondence(c, ok, 1000)
	SpecCorrespondence(c, res, 1000, asIs.RangeSigned, true, func(vr *VMResult, spec, real string) {
		r.Mismatch("spec", vr.Case.Src+" ["+vr.Case.Mode.String()+"]", spec, real)
	})
	for _, v := range c15variants {
		if r.Counters["ok:"+v.name] == 0 {
			r.Mismatch("generator", v.name, "no successful run in this variant", "")
		}
	}
}

// retypedLiteralInMixedArgument reports whether, after the real type check, some call argument contains an
// IntegerNode retyped away from int underneath a binary + - * / that also has a non-literal operand.
func retypedLiteralInMixedArgument(src string, e *Env) bool {
	tree, err := parser.Parse(src)
	if err != nil {
		return false
	}
	if _, err := checker.Check(tree, conf.New(e)); err != nil {
		return false
	}
	found := false
	var hasNonLiteral func(n ast.Node) bool
	hasNonLiteral = func(n ast.Node) bool {
		switch x := n.(type) {
		case *ast.IntegerNode:
			return false
		case *ast.UnaryNode:
			return hasNonLiteral(x.Node)
		case *ast.BinaryNode:
			return hasNonLiteral(x.Left) || hasNonLiteral(x.Right)
		}
		return true
	}
	var hasRetyped func(n ast.Node) bool
	hasRetyped = func(n ast.Node) bool {
		switch x := n.(type) {
		case *ast.IntegerNode:
			return x.Type() != nil && x.Type().Kind() != reflect.Int
		case *ast.UnaryNode:
			if x.Operator == "+" || x.Operator == "-" {
				return hasRetyped(x.Node)
			}
		case *ast.BinaryNode:
			switch x.Operator {
			case "+", "-", "*", "/":
				return hasRetyped(x.Left) || hasRetyped(x.Right)
			}
		}
		return false
	}
	ast.Walk(&tree.Node, visitFn(func(n ast.Node) {
		var args []ast.Node
		switch x := n.(type) {
		case *ast.FunctionNode:
			args = x.Arguments
		case *ast.MethodNode:
			args = x.Arguments
		}
		for _, a := range args {
			if _, ok := a.(*ast.BinaryNode); ok && hasRetyped(a) && hasNonLiteral(a) {
				found = true
			}
		}
	}))
	return found
}

// arithWithInterfaceOperand reports whether, after the real type check, some + - * / % node has one operand of
// interface type and the other of a numeric type (so the checker gave the node the numeric operand's type).
func arithWithInterfaceOperand(src string, e *Env) bool {
	tree, err := parser.Parse(src)
	if err != nil {
		return false
	}
	if _, err := checker.Check(tree, conf.New(e)); err != nil {
		return false
	}
	found := false
	isIface := func(n ast.Node) bool { return n.Type() != nil && n.Type().Kind() == reflect.Interface }
	isNum := func(n ast.Node) bool {
		if n.Type() == nil {
			return false
		}
		switch n.Type().Kind() {
		case reflect.Int, reflect.Int8, reflect.Int16, reflect.Int32, reflect.Int64, reflect.Uint, reflect.Uint8,
			reflect.Uint16, reflect.Uint32, reflect.Uint64, reflect.Float32, reflect.Float64:
			return true
		}
		return false
	}
	ast.Walk(&tree.Node, visitFn(func(n ast.Node) {
		if b, ok := n.(*ast.BinaryNode); ok {
			switch b.Operator {
			case "+", "-", "*", "/", "%":
				if (isIface(b.Left) && isNum(b.Right)) || (isNum(b.Left) && isIface(b.Right)) {
					found = true
				}
			}
		}
	}))
	return found
}

// c15ArrayLiteralCompared: after check+optimize the tree has a []int / []string constant (a folded literal
// array) as an operand of == or != (DeepEqual then sees []int where the unoptimised program builds []interface{}).
func c15ArrayLiteralCompared(src string, e *Env) bool {
	tree, err := parser.Parse(src)
	if err != nil {
		return false
	}
	cfg := conf.New(e)
	if _, err := checker.Check(tree, cfg); err != nil {
		return false
	}
	if err := optimizer.Optimize(&tree.Node, cfg); err != nil {
		return false
	}
	found := false
	isFolded := func(n ast.Node) bool {
		c, ok := n.(*ast.ConstantNode)
		if !ok {
			return false
		}
		switch c.Value.(type) {
		case []int, []string:
			return true
		}
		return false
	}
	// the folded constant may sit below a conditional / parenthesised operand of the comparison
	var contains func(n ast.Node) bool
	contains = func(n ast.Node) bool {
		has := false
		ast.Walk(&n, visitFn(func(m ast.Node) {
			if isFolded(m) {
				has = true
			}
		}))
		return has
	}
	ast.Walk(&tree.Node, visitFn(func(n ast.Node) {
		if b, ok := n.(*ast.BinaryNode); ok && (b.Operator == "==" || b.Operator == "!=") {
			if contains(b.Left) || contains(b.Right) {
				found = true
			}
		}
	}))
	return found
}

type visitFn func(ast.Node)

func (f visitFn) Enter(n *ast.Node) { f(*n) }
func (f visitFn) Exit(n *ast.Node)  {}

func init() { props["C15"] = runC15 }

// c15MixedKindCases: every ordered pair of the numeric members of the zoo under comparison and arithmetic
// operators, on environments whose values truncate or change sign when converted between the kinds
// (uint8(255) vs int8(-1), uint(256) vs int8(0), …).  The typed path selects kind-directed instructions
// (OpEqualInt, typed pushes); they must agree with the untyped path exactly where conversion matters
// (seed c14_5: a widened integer-equality fast path compares at int64 instead of at the promoted kind).
func c15MixedKindCases() []*Case {
	fields := []string{"I", "I8", "U8", "I64", "U", "F", "F32"}
	ops := []string{"==", "!=", "<", ">=", "+"}
	type vals struct {
		I, J   int
		I8     int8
		U8     uint8
		I64    int64
		U      uint
		F      float64
		F32    float32
	}
	grid := []vals{
		{-1, 255, -1, 255, -1, 255, -1, -1},
		{256, -256, 0, 0, 256, 256, 256, 256},
		{200, 1, -56, 200, -56, 200, 200, -56},
		{128, -128, -128, 128, 128, 128, -128, 128},
	}
	var out []*Case
	for gi, g := range grid {
		for _, a := range fields {
			for _, b := range fields {
				if a == b {
					continue
				}
				for oi, op := range ops {
					env := NewEnv(gi, func(n int) int { return (gi*5 + 1) % n })
					env.I, env.J, env.I8, env.U8, env.I64, env.U, env.F, env.F32 = g.I, g.J, g.I8, g.U8, g.I64, g.U, g.F, g.F32
					src := a + " " + op + " " + b
					if (gi+oi)%3 == 2 {
						src = "[" + src + ", any(Ints, {" + src + "})]"
					}
					out = append(out, &Case{Src: src, Mode: Mode{Env: "none"}, Env: env})
				}
			}
		}
	}
	return out
}
