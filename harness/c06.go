package main

// C06 — the memory budget bounds what a run can allocate.
//
// Expressions built from the allocating constructs (array and map literals, run-time ranges with ascending,
// empty and descending bounds taken from the environment, map / filter results, nestings of these) are run
// under budgets just below, at and just above the number of elements they need, under small budgets 1..64
// and under the default.
//  (a) correspondence: the Lean VM model (variant derived from the source) vs the real VM on the real
//      bytecode: success / failure class / location, stack and scope depth, the memory counter (hook);
//  (b) oracle (the property itself): `needed` = the number of collection elements the evaluation creates,
//      computed by the Lean reference evaluator Spec.eval (range sizes counted as built, budget out of reach)
//      on the tree the compiler was given.  Required of the real run under budget B:
//        success                ⇒ needed < B      (a successful run created fewer elements than the budget)
//        needed ≥ B             ⇒ the run fails   (… a run that has to create at least that many fails)
//        needed < B             ⇒ no budget error (a run that needs fewer is never refused for budget reasons)
//      and, since nothing but the budget may depend on B, the outcome under B equals the outcome the
//      reference evaluator gives under B.

import (
	"encoding/json"
	"fmt"
	"math/rand"
	"os"
	"strings"

	"github.com/antonmedv/expr/vm"
)

type allocGen struct {
	r *rand.Rand
}

func (g *allocGen) pick(xs ...string) string { return xs[g.r.Intn(len(xs))] }

// small integer expression; inside a closure over integers `#` is available
func (g *allocGen) intE(cl bool) string {
	if cl && g.r.Intn(3) == 0 {
		return g.pick("#", "# + 1", "# - 1", "# % 3")
	}
	return g.pick("0", "1", "2", "3", "5", "I", "J", "I", "J", "I + 1", "J - 1", "I + 2", "Sub.X")
}

// a run-time range: ascending / empty / descending depending on the environment
func (g *allocGen) rng(cl bool) string {
	switch g.r.Intn(9) {
	case 0:
		return fmt.Sprintf("(%s..%s)", g.pick("I", "J", "0", "1"), g.pick("J", "I", "J + 3", "I + 6"))
	case 1: // descending by construction
		return fmt.Sprintf("(%s + %s..%s)", g.pick("I", "J"), g.pick("1", "2", "9", "98", "40"), g.pick("I", "J"))
	case 2: // empty by construction
		return g.pick("(I..I - 1)", "(J + 1..J)")
	case 3:
		return g.pick("(J..I)", "(I..J)")
	case 4:
		if cl {
			return g.pick("(#..# + 2)", "(0..#)", "(#..I)", "(# + 3..#)")
		}
		return "(I..I + 6)"
	case 5:
		return g.pick("(1..4)", "(0..9)", "(3..1)") // constant bounds: folded by the optimizer when it runs
	default:
		return fmt.Sprintf("(%s..%s)", g.intE(cl), g.intE(cl))
	}
}

// a collection of integers
func (g *allocGen) ints(d int, cl bool) string {
	if d <= 0 {
		return g.pick(g.rng(cl), g.rng(cl), "Ints", "[I, J]", "[1, 2, 3]")
	}
	switch g.r.Intn(8) {
	case 0, 1:
		return g.rng(cl)
	case 2:
		return fmt.Sprintf("filter(%s, {%s})", g.ints(d-1, cl), g.pick("# > I", "# % 2 == 0", "# < J", "true", "false", "# != 1"))
	case 3:
		return fmt.Sprintf("map(%s, {%s})", g.ints(d-1, cl), g.pick("#", "# * 2", "# + I", "len(#..# + 1)", "len([#, #])"))
	case 4:
		return fmt.Sprintf("[%s, %s, %s]", g.intE(cl), g.intE(cl), g.intE(cl))
	case 5:
		return fmt.Sprintf("(%s ? %s : %s)", g.pick("B", "C", "I < J", "true"), g.ints(d-1, cl), g.ints(d-1, cl))
	case 6:
		return fmt.Sprintf("%s[%s:%s]", g.ints(d-1, cl), g.pick("", "0", "1"), g.pick("", "2", "J"))
	default:
		return g.ints(d-1, cl)
	}
}

// any collection-valued expression (elements may themselves be collections)
func (g *allocGen) coll(d int, cl bool) string {
	if d <= 0 {
		return g.ints(0, cl)
	}
	switch g.r.Intn(10) {
	case 0, 1:
		return g.ints(d, cl)
	case 2:
		return fmt.Sprintf("[%s, %s]", g.coll(d-1, cl), g.coll(d-1, cl))
	case 3:
		return fmt.Sprintf("{a: %s, b: %s}", g.coll(d-1, cl), g.intE(cl))
	case 4:
		return fmt.Sprintf("map(%s, {%s})", g.ints(d-1, cl), g.coll(d-1, true))
	case 5:
		return fmt.Sprintf("map(%s, {{k: #, v: %s}})", g.ints(d-1, cl), g.pick("[#]", "#", "I..#", "[[#]]"))
	case 6:
		return fmt.Sprintf("[%s, %s, {x: %s}]", g.intE(cl), g.ints(d-1, cl), g.coll(d-1, cl))
	case 7:
		return fmt.Sprintf("map(%s, {filter(%s, {# > 1})})", g.ints(d-1, cl), g.ints(d-1, true))
	case 8:
		return "[]"
	default:
		return fmt.Sprintf("{p: %s, q: [%s], \"r\": {s: %s}}", g.ints(d-1, cl), g.intE(cl), g.rng(cl))
	}
}

func (g *allocGen) top(d int) string {
	switch g.r.Intn(11) {
	case 8:
		// allocations inside the closure of a predicate builtin FOLLOWED by another allocation: what the closure built
		// stays counted after the builtin has returned (seed c06_7 handed it back to the budget at OpEnd)
		return fmt.Sprintf("[%s(%s, {len(%s) >= 0}), len(%s)]", g.pick("count", "all", "none", "any", "one"), g.ints(d-1, false), g.pick("[#, #, #]", "#..# + 2", "[[#], [#]]", g.coll(d-1, true)), g.rng(false))
	case 9:
		return fmt.Sprintf("len(filter(%s, {len(%s) > 1})) + len(%s) + len(%s)", g.ints(d-1, false), g.pick("[#, #, #]", "0..# + 3", "{a: #, b: [#]}"), g.rng(false), g.pick("[I, J, I]", "(1..4)", g.rng(false)))
	case 10:
		return fmt.Sprintf("map(%s, {count(%s, {len([#, #]) == 2})}) == [] or len(%s) > 0", g.ints(d-1, false), g.pick("[1, 2]", "#..# + 1"), g.rng(false))
	case 0:
		return fmt.Sprintf("len(%s)", g.coll(d, false))
	case 1:
		return fmt.Sprintf("len(%s) + len(%s) + len(%s)", g.rng(false), g.ints(d-1, false), g.rng(false))
	case 2:
		return g.coll(d, false)
	case 3:
		return fmt.Sprintf("[%s, len(%s)]", g.coll(d-1, false), g.ints(d-1, false))
	case 4:
		return fmt.Sprintf("count(%s, {len(%s) > 0})", g.ints(d-1, false), g.coll(d-1, true))
	case 5:
		return fmt.Sprintf("%s[0]", g.ints(d, false))
	case 6:
		return fmt.Sprintf("all(%s, {# in %s})", g.ints(d-1, false), g.ints(d-1, true))
	default:
		return fmt.Sprintf("len(%s) + len(%s)", g.coll(d-1, false), g.coll(d-1, false))
	}
}

type c06Case struct {
	Spec   RunSpec
	Case   *Case
	Budget int
	Needed int    // elements the evaluation creates according to the reference evaluator (budget out of reach)
	BigCls string // outcome class of that evaluation: ok or the error class
	Real   *RunOutcome
}

const c06Big = 1 << 40

func specLine(cs *Case, budget int64, rangeSigned, sliceToFirst bool) string {
	cast := "_"
	if cs.Mode.Env != "none" && (cs.Mode.Cast == "int64" || cs.Mode.Cast == "float64") {
		cast = cs.Mode.Cast
	}
	return T("speceval", SInt(budget), T("flags", SBool(rangeSigned), SBool(sliceToFirst)), A(cast), valSx(envVal(cs)), A(cs.B.TreeSx)).String()
}

// specOutcome parses `(ok v mem created log)` / `(err class mem created log)`
func specOutcome(resp string) (cls string, val string, created int, ok bool) {
	m, err := ParseSx(resp)
	if err != nil || (m.Tag() != "ok" && m.Tag() != "err") || len(m.List) < 4 {
		return "", "", 0, false
	}
	fmt.Sscan(m.List[3].Atom, &created)
	if m.Tag() == "ok" {
		return "ok", m.List[1].String(), created, true
	}
	return m.List[1].Atom, "", created, true
}

func realClass(o *RunOutcome) string {
	if o.Timeout {
		return "timeout"
	}
	if o.Err != nil {
		return o.Class
	}
	return "ok"
}

func c06Input(k *c06Case) map[string]interface{} {
	return map[string]interface{}{"run": k.Spec, "memory_budget": k.Budget, "elements_needed": k.Needed,
		"env": map[string]int{"I": k.Case.Env.I, "J": k.Case.Env.J, "Sub.X": k.Case.Env.Sub.X}}
}

func runC06(c *Ctx) {
	r := c.R
	r.Rule = "expressions built from allocating constructs (array / map literals, run-time ranges I..J ascending, empty and descending with bounds from the environment, map / filter results, nestings) x budgets {needed-1, needed, needed+1, 1..64, default}: (a) VM model = real run (class, location, memory counter); (b) needed := elements created per the Lean reference evaluator; success => needed < budget, needed >= budget => failure, needed < budget => no budget error, outcome = reference outcome; non-trivial = at least one element needed"
	old := vm.MemoryBudget
	defer func() { vm.MemoryBudget = old }()
	var specs []RunSpec
	if c.Replay != "" {
		raw, err := os.ReadFile(c.Replay)
		var f struct {
			Violation struct {
				Input struct {
					Run    RunSpec `json:"run"`
					Budget int     `json:"memory_budget"`
				} `json:"input"`
			} `json:"violation"`
		}
		if err != nil || json.Unmarshal(raw, &f) != nil || f.Violation.Input.Run.Src == "" {
			r.Mismatch("replay", c.Replay, "not a C06 counterexample file", "")
			return
		}
		specs = []RunSpec{f.Violation.Input.Run}
		c06Run(c, specs, []int{f.Violation.Input.Budget}, old)
		return
	}
	n := 700
	if c.Thorough() {
		n = 20000
	}
	g := &allocGen{r: c.Rng}
	modes := []Mode{{Env: "struct", Optimize: true}, {Env: "struct", Optimize: false}, {Env: "none"}, {Env: "map", Optimize: true}}
	vals := []int{-3, -1, 0, 1, 2, 3, 4, 6, 9, 12}
	// the reproduced input first, then generated ones
	specs = append(specs,
		RunSpec{Src: "len(I+98..I) + len(I..I+6) + len(I..I+6)", Env: "struct", Opt: true, EnvSeed: 7, I: intp(1), J: intp(2)},
		RunSpec{Src: "len(J..I) + len([I, J, 1]) + len(map(I..J, {[#]}))", Env: "struct", Opt: false, EnvSeed: 7, I: intp(1), J: intp(5)},
		RunSpec{Src: "[map(1..3, {# .. I}), {a: J..I}, filter(I..J, {# > 2})]", Env: "none", EnvSeed: 8, I: intp(2), J: intp(6)},
		// empty ranges whose bounds are more than MaxInt apart: max - min + 1 wraps around to a huge positive size
		RunSpec{Src: "len((I + 9223372036854775800)..(J - 9223372036854775800)) + len(I..J)", Env: "struct", Opt: false, EnvSeed: 7, I: intp(1), J: intp(3)},
		RunSpec{Src: "len((I + 9223372036854775800)..(J - 9223372036854775800)) + len(I..J)", Env: "none", EnvSeed: 7, I: intp(1), J: intp(3)},
		RunSpec{Src: "[(I + 9223360872354775800)..(J - 9223372036854775800), I..J]", Env: "struct", Opt: true, EnvSeed: 7, I: intp(2), J: intp(4)})
	for i := 0; i < n; i++ {
		m := modes[c.Rng.Intn(len(modes))]
		specs = append(specs, RunSpec{Src: g.top(1 + c.Rng.Intn(3)), Env: m.Env, Opt: m.Optimize, EnvSeed: int64(c.Rng.Intn(50)),
			I: intp(vals[c.Rng.Intn(len(vals))]), J: intp(vals[c.Rng.Intn(len(vals))])})
	}
	c06Run(c, specs, nil, old)
	for _, k := range []string{"c06:needed>0", "c06:budget-below-needed", "c06:budget-at-needed", "c06:budget-above-needed", "c06:budget-default",
		"c06:real:ok", "c06:real:budget", "c06:descending-range-evaluated", "c06:empty-range-evaluated", "c06:vm:compared"} {
		if r.Counters[k] == 0 {
			r.Mismatch("generator", k, "no case generated", "")
		}
	}
}

// c06Run: fixedBudgets == nil → budgets chosen around `needed`
func c06Run(c *Ctx, specs []RunSpec, fixedBudgets []int, defBudget int) {
	r := c.R
	// build, and ask the reference evaluator what each expression needs
	var built []*Case
	var bspecs []RunSpec
	var lines []string
	for _, s := range specs {
		cs := specCase(s)
		r.Count("c06:build:"+cs.B.Stage, 1)
		if cs.B.Program == nil || cs.B.Panicked {
			continue
		}
		built = append(built, cs)
		bspecs = append(bspecs, s)
		lines = append(lines, specLine(cs, c06Big, false, true))
	}
	if len(built) < len(specs)/2 {
		r.Mismatch("generator", "c06", fmt.Sprintf("%d of %d expressions compile", len(built), len(specs)), "")
		return
	}
	resp, err := c.AskAll(lines)
	if err != nil {
		r.Mismatch("driver", "speceval", err.Error(), "")
		return
	}
	var cases []*c06Case
	for i, cs := range built {
		cls, _, needed, ok := specOutcome(resp[i])
		if !ok {
			r.Mismatch("spec", bspecs[i].String(), resp[i], "bad response")
			continue
		}
		r.Count("c06:expressions", 1)
		if needed > 0 {
			r.Count("c06:needed>0", 1)
		}
		r.Count("c06:reference:"+cls, 1)
		var budgets []int
		if fixedBudgets != nil {
			budgets = fixedBudgets
		} else {
			budgets = []int{needed + 1, 1 + c.Rng.Intn(64)}
			if needed >= 1 {
				budgets = append(budgets, needed)
			}
			if needed >= 2 {
				budgets = append(budgets, needed-1)
			}
			if i < 3 {
				budgets = append([]int{10}, budgets...) // the reproduced inputs under the budget they were reported with
			}
			if i%3 == 0 {
				budgets = append(budgets, 1+c.Rng.Intn(12))
			}
			if i%5 == 0 {
				budgets = append(budgets, defBudget)
			}
			if i%7 == 0 {
				budgets = append(budgets, needed+2+c.Rng.Intn(5))
			}
		}
		for _, b := range budgets {
			cases = append(cases, &c06Case{Spec: bspecs[i], Case: cs, Budget: b, Needed: needed, BigCls: cls})
		}
	}
	// real runs, model runs, reference runs under the same budget
	var vmLines, spLines, fixLines []string
	for _, k := range cases {
		vm.MemoryBudget = k.Budget
		k.Real = RunReal(&vm.VM{}, k.Case.B.Program, envVal(k.Case), k.Case.Env)
		vmLines = append(vmLines, T("vmrun", SInt(int64(k.Budget)), asIs.Sx(), valSx(envVal(k.Case)), programSx(k.Case.B.Program), T("regex")).String())
		spLines = append(spLines, specLine(k.Case, int64(k.Budget), false, true))
		fixLines = append(fixLines, T("vmrun", SInt(int64(k.Budget)), DefectFlags{RangeSigned: false, MemNotReset: asIs.MemNotReset}.Sx(), valSx(envVal(k.Case)), programSx(k.Case.B.Program), T("regex")).String())
	}
	vm.MemoryBudget = defBudget
	vmResp, err := c.AskAll(vmLines)
	if err != nil {
		r.Mismatch("driver", "vmrun", err.Error(), "")
		return
	}
	spResp, err := c.AskAll(spLines)
	if err != nil {
		r.Mismatch("driver", "speceval", err.Error(), "")
		return
	}
	var fixResp []string
	if asIs.RangeSigned {
		// attribution (DESIGN 3.5): the same inputs under the model with the listed defect repaired
		fixResp, err = c.AskAll(fixLines)
		if err != nil {
			r.Mismatch("driver", "vmrun", err.Error(), "")
			return
		}
	}
	seen := map[string]int{}
	for i, k := range cases {
		key := fmt.Sprintf("%s|%s|I=%d,J=%d|b=%d", k.Spec.Src, k.Spec.mode(), k.Case.Env.I, k.Case.Env.J, k.Budget)
		r.Case(key, k.Needed > 0)
		switch {
		case k.Budget == defBudget:
			r.Count("c06:budget-default", 1)
		case k.Budget < k.Needed:
			r.Count("c06:budget-below-needed", 1)
		case k.Budget == k.Needed:
			r.Count("c06:budget-at-needed", 1)
		default:
			r.Count("c06:budget-above-needed", 1)
		}
		src := k.Spec.Src
		if strings.Contains(src, "..") {
			// coarse coverage of the range shapes from the environment
			e := k.Case.Env
			if strings.Contains(src, "+ 98..") || strings.Contains(src, "+ 9..") || strings.Contains(src, "+98..") || (strings.Contains(src, "J..I") && e.J > e.I+1) || (strings.Contains(src, "I..J") && e.I > e.J+1) {
				r.Count("c06:descending-range-evaluated", 1)
			}
			if strings.Contains(src, "I..I - 1") || strings.Contains(src, "J + 1..J") {
				r.Count("c06:empty-range-evaluated", 1)
			}
		}
		// (a) model vs real
		m, perr := ParseSx(vmResp[i])
		if perr != nil {
			r.Mismatch("vm", key, vmResp[i], "unparsable")
			continue
		}
		real := renderReal(k.Case.B.Program, k.Real)
		model := renderModel(k.Case.B.Program, m)
		r.Count("c06:vm:compared", 1)
		rc := realClass(k.Real)
		r.Count("c06:real:"+rc, 1)
		if real != model {
			r.Mismatch("vm", key+" env="+valSx(envVal(k.Case)).String(), model, real)
		}
		// (b) the property
		refCls, refVal, refCreated, ok := specOutcome(spResp[i])
		if !ok {
			r.Mismatch("spec", key, spResp[i], "bad response")
			continue
		}
		violate := func(what, expect string) {
			vkey := "c06:" + what
			if asIs.RangeSigned && fixResp != nil {
				if fm, e := ParseSx(fixResp[i]); e == nil {
					fixCls := "ok"
					if fm.Tag() == "err" {
						fixCls = fm.List[1].Atom
					}
					// the model with the signed range size repaired behaves as the property requires on this input:
					// the failure is the recorded defect
					if (fixCls == "ok") == (refCls == "ok") && (fixCls == "budget") == (refCls == "budget") {
						vkey = "c06:descending-range-lowers-counter"
					}
				}
			}
			seen[vkey]++
			if seen[vkey] > 5 {
				r.Count("violation-not-listed:"+vkey, 1)
				return
			}
			got := rc
			if k.Real.Err == nil {
				got = "ok " + clip(valSx(k.Real.Val).String(), 200)
			}
			r.Violate(Violation{
				What:   fmt.Sprintf("budget %d, evaluation creates %d elements: %s; the run returns %s", k.Budget, k.Needed, what, clip(got, 80)),
				Key:    vkey,
				Input:  c06Input(k),
				Expect: expect,
				Got:    fmt.Sprintf("%s (memory counter %d)", got, k.Real.Memory),
			})
		}
		switch {
		case rc == "timeout" || rc == "panic-escaped":
			r.Mismatch("vm", key, "", rc)
		case rc == "ok" && k.Needed >= k.Budget:
			violate("succeeds although it created at least as many elements as the budget", fmt.Sprintf("failure: %d elements needed >= budget %d", k.Needed, k.Budget))
		case rc == "budget" && k.Needed < k.Budget:
			violate("refused for budget reasons although it needs fewer elements than the budget", fmt.Sprintf("no budget error: %d elements needed < budget %d", k.Needed, k.Budget))
		case rc != refCls:
			violate("outcome class differs from the reference evaluation under the same budget", refCls)
		case rc == "ok" && valSx(k.Real.Val).String() != refVal:
			// value agreement is C01's business; recorded here as a broken tie of the Spec, not as a C06 violation
			r.Mismatch("spec", key, clip(refVal, 300), clip(valSx(k.Real.Val).String(), 300))
		}
		if rc == "ok" && refCls == "ok" && refCreated >= k.Budget {
			r.Mismatch("spec", key, fmt.Sprintf("reference evaluation succeeded having created %d >= budget %d", refCreated, k.Budget), "contradicts spec_success_lt_budget")
		}
	}
}

func init() { props["C06"] = runC06 }
