package main

// C08 — A compiled program can be run concurrently (partial: validation of the write-set analysis of
// Props/C08.lean by the Go race detector, plus divergence from the sequential results).
//
// The check re-builds this harness with `-race` and runs the workload in that child process:
//   * a shared set of compiled programs whose constant pools contain regexps, folded []int / []string,
//     map[int]struct{} / map[string]struct{} lookup sets, vm.Call descriptors, ConstExpr results (shared slices),
//   * shared read-only environments (struct with slices/maps/pointers, map[string]interface{}),
//   * N goroutines x M operations: expr.Run on a shared program and environment, expr.Compile with the shared
//     option values and sample environment, expr.Eval on a shared environment,
//   * every result is compared with the result of the same operation executed alone beforehand.
// A race report of the detector or a diverging result is a Violation whose replay names programs, N, M, seed.

import (
	"bytes"
	"encoding/json"
	"fmt"
	"math/rand"
	"os"
	"os/exec"
	"path/filepath"
	"regexp"
	"sort"
	"strconv"
	"strings"
	"sync"

	"github.com/antonmedv/expr"
	"github.com/antonmedv/expr/vm"
)

func init() {
	props["C08"] = runC08
	if len(os.Args) > 1 && os.Args[1] == "__c08child" {
		c08Child(os.Args[2:])
		os.Exit(0)
	}
}

type c08Divergence struct {
	Kind   string `json:"kind"`
	Config string `json:"config"`
	Source string `json:"source"`
	Expect string `json:"expect"`
	Got    string `json:"got"`
}

type c08Result struct {
	Race        bool            `json:"race_enabled"`
	N           int             `json:"n"`
	M           int             `json:"m"`
	Seed        int64           `json:"seed"`
	Programs    int             `json:"programs"`
	Ops         map[string]int  `json:"ops"`
	ConstKinds  map[string]int  `json:"const_kinds"`
	Cases       []string        `json:"cases"`
	Divergences []c08Divergence `json:"divergences"`
}

// sources chosen so that every kind of constant and every shared structure is exercised
var c08Fixed = []string{
	`S matches "^a.*a$"`, `T matches "[0-9]+$" or S matches "(?i)ALPHA"`,
	// patterns computed at run time (OpMatches, not OpMatchesConst): several different ones in flight at once, so
	// that a cache of compiled patterns shared between runs is written concurrently (seed c08_5)
	`S matches (B ? "^a.*a$" : "b+$")`, `T matches (B ? "[0-9]+$" : "^x") or S matches (B ? "(?i)ALPHA" : "q")`, `(S + T) matches (I > 0 ? "a.*[0-9]" : "^$")`,
	`I in [1, 2, 3, 5, 8]`, `S in ["a", "alpha", "bb"]`, `J not in [1, 2, 3]`, `T not in ["x", "y"]`,
	`[1, 2, 3, 4][I % 4]`, `["p", "q", "r"][I % 3]`, `len(1..100)`, `I in 1..10`, `map(1..5, {# * I})`,
	`Add(I, J) + Twice(I) + In.Double()`, `Concat(I, S, B)`, `Upper(S) + Greet(T)`, `PIn.Name() + In.S`, `Fib(20) + Fib(I)`,
	`filter(Ints, {# % 2 == 0})`, `all(Ints, {# > 0}) and any(Strs, {# == "bb"})`, `count(Ints, {# > I})`, `one(Ints, {# == 5})`, `none(Strs, {# == S})`,
	`M["a"] + M.b + In.M["x"]`, `MS.m.deep`, `MS["l"]`, `{a: I, b: Ints, c: M}`, `[I, S, B, F, Ints, M]`,
	`Ints[1:3]`, `S[1:3] + T[:2]`, `PIn?.P?.N`, `NilP?.N`, `NilP.N`, `Ints[10]`, `I / (J + 4)`, `I % (J + 4)`,
	`V1 + V2`, `VAdd(V1, V2)`, `B ? Ints : Strs`, `F * 2 + I ** 2`, `not B or I < J and S != T`, `SumInts()`,
	`"N" in In and "zz" in M`, `Inners[1].Tags`, `Any`, `len(Strs) + len(S) + len(M)`,
	// runs that exhaust the memory budget at different positions (the refusal comes before any allocation), and
	// failing runs of multi-line sources: every goroutine must get ITS error - message, position and snippet
	`len(I..J + 2000000)`, `[I, J, 1..(J + 3000000)]`, `{a: I, b: 0..(I + 1000000)}`, `I + len(map(0..(J + 5000000), {#}))`,
	"I +\n J +\n Ints[10]", "[I,\n S,\n  NilP.N]", "{a: I,\n\n b: 1..(J + 2000000)}", "S + T +\n  Greet(T) +\n   Strs[7]",
}

type c08Prog struct {
	cfg    *fxConfig
	opts   []expr.Option
	src    string
	prog   *vm.Program
	canon  string   // sequential Compile outcome
	expect []string // sequential outcome per env variant
	evalEx []string // sequential Eval outcome per env variant (noenv config only)
}

func c08ConstKind(v interface{}) string {
	switch v.(type) {
	case *regexp.Regexp:
		return "regexp"
	case []int:
		return "[]int"
	case []string:
		return "[]string"
	case map[int]struct{}:
		return "map[int]struct{}"
	case map[string]struct{}:
		return "map[string]struct{}"
	case vm.Call:
		return "vm.Call"
	case string:
		return "string"
	case int:
		return "int"
	case float64:
		return "float64"
	}
	return fmt.Sprintf("%T", v)
}

func c08Child(args []string) {
	seed, _ := strconv.ParseInt(args[0], 10, 64)
	n, _ := strconv.Atoi(args[1])
	m, _ := strconv.Atoi(args[2])
	nGen, _ := strconv.Atoi(args[3])
	res := &c08Result{Race: c08RaceEnabled, N: n, M: m, Seed: seed, Ops: map[string]int{}, ConstKinds: map[string]int{}}
	rng := rand.New(rand.NewSource(seed))
	cfgs := fxConfigs()
	// shared option values and sample environments: built once, used by every goroutine
	type built struct {
		cfg  *fxConfig
		opts []expr.Option
		envs []interface{} // shared read-only run environments (two variants)
	}
	var bs []*built
	for i := range cfgs {
		c := cfgs[i]
		if strings.HasPrefix(c.Name, "as-") {
			continue
		}
		bs = append(bs, &built{cfg: &c, opts: c.Build(c.SampleEnv()), envs: []interface{}{c.RunEnv(0), c.RunEnv(1)}})
	}
	gen, _ := fxSources(rng, nGen, 4, false)
	genOps, _ := fxSources(rng, nGen/4, 3, true)
	var progs []*c08Prog
	for _, b := range bs {
		var srcs []string
		srcs = append(srcs, c08Fixed...)
		for _, g := range gen {
			srcs = append(srcs, g.Src)
		}
		if b.cfg.Ops {
			for _, g := range genOps {
				srcs = append(srcs, g.Src)
			}
		}
		for _, src := range srcs {
			p, err, pan := fxCompile(src, b.opts)
			cp := &c08Prog{cfg: b.cfg, opts: b.opts, src: src}
			switch {
			case pan != "":
				cp.canon = "PANIC"
			case err != nil:
				cp.canon = "ERR:" + err.Error()
			default:
				cp.prog = p
				cp.canon = fxProgCanon(p)
				for _, k := range p.Constants {
					res.ConstKinds[c08ConstKind(k)]++
				}
				for _, env := range b.envs {
					cp.expect = append(cp.expect, fxRun(p, env))
				}
				// the program the goroutines share is a FRESH compilation that no one has run yet: whatever a first
				// run (or a first error report) initialises lazily inside the program is initialised concurrently
				if p2, err2, pan2 := fxCompile(src, b.opts); err2 == nil && pan2 == "" && p2 != nil && fxProgCanon(p2) == cp.canon {
					cp.prog = p2
				}
			}
			if b.cfg.Name == "noenv" {
				for _, env := range b.envs {
					v, err := c08Eval(src, env)
					cp.evalEx = append(cp.evalEx, v+"|"+fmt.Sprint(err))
				}
			}
			progs = append(progs, cp)
		}
	}
	res.Programs = len(progs)
	var evalProgs []*c08Prog
	for _, cp := range progs {
		if cp.evalEx != nil {
			evalProgs = append(evalProgs, cp)
		}
	}
	envOf := map[*fxConfig][]interface{}{}
	for _, b := range bs {
		envOf[b.cfg] = b.envs
	}
	var mu sync.Mutex
	diverge := func(d c08Divergence) {
		mu.Lock()
		if len(res.Divergences) < 50 {
			res.Divergences = append(res.Divergences, d)
		}
		mu.Unlock()
	}
	var wg sync.WaitGroup
	start := make(chan struct{})
	opCounts := make([]map[string]int, n)
	for g := 0; g < n; g++ {
		wg.Add(1)
		opCounts[g] = map[string]int{}
		go func(g int) {
			defer wg.Done()
			lr := rand.New(rand.NewSource(seed*1000 + int64(g)))
			<-start
			for it := 0; it < m; it++ {
				cp := progs[lr.Intn(len(progs))]
				// goroutines 0 and 1 hammer the same few programs to maximise overlap
				if g < 2 || lr.Intn(4) == 0 {
					cp = progs[lr.Intn(8)*len(c08Fixed)/8+(it%5)]
				}
				variant := lr.Intn(2)
				switch k := lr.Intn(10); {
				case k < 6 && cp.prog != nil:
					got := fxRun(cp.prog, envOf[cp.cfg][variant])
					opCounts[g]["run"]++
					if got != cp.expect[variant] {
						diverge(c08Divergence{"run", cp.cfg.Name, cp.src, cp.expect[variant], got})
					}
				case k < 9:
					p, err, pan := fxCompile(cp.src, cp.opts)
					got := ""
					switch {
					case pan != "":
						got = "PANIC"
					case err != nil:
						got = "ERR:" + err.Error()
					default:
						got = fxProgCanon(p)
					}
					opCounts[g]["compile"]++
					if got != cp.canon {
						diverge(c08Divergence{"compile", cp.cfg.Name, cp.src, cp.canon, got})
					} else if p != nil {
						// the freshly compiled program runs like the shared one
						if out := fxRun(p, envOf[cp.cfg][variant]); out != cp.expect[variant] {
							diverge(c08Divergence{"compile+run", cp.cfg.Name, cp.src, cp.expect[variant], out})
						}
					}
				default:
					if len(evalProgs) > 0 {
						cp = evalProgs[lr.Intn(len(evalProgs))]
					}
					if cp.evalEx != nil {
						v, err := c08Eval(cp.src, envOf[cp.cfg][variant])
						opCounts[g]["eval"]++
						if got := v + "|" + fmt.Sprint(err); got != cp.evalEx[variant] {
							diverge(c08Divergence{"eval", cp.cfg.Name, cp.src, cp.evalEx[variant], got})
						}
					} else if cp.prog != nil {
						got := fxRun(cp.prog, envOf[cp.cfg][variant])
						opCounts[g]["run"]++
						if got != cp.expect[variant] {
							diverge(c08Divergence{"run", cp.cfg.Name, cp.src, cp.expect[variant], got})
						}
					}
				}
			}
		}(g)
	}
	close(start)
	wg.Wait()
	// first-use stampede: a freshly compiled program is run for the very first time by all goroutines at once
	// (whatever the library initialises lazily on a first run or a first error report happens concurrently),
	// for the failing and multi-line sources in particular
	trials := 12
	if n*m > 4000 {
		trials = 60
	}
	for _, cp := range progs {
		if cp.prog == nil || !(strings.Contains(cp.src, "\n") || strings.Contains(cp.expect[0], "ERR") || strings.Contains(cp.src, "matches")) || cp.cfg.Name != "env-struct" {
			continue
		}
		for t := 0; t < trials; t++ {
			p, err, pan := fxCompile(cp.src, cp.opts)
			if err != nil || pan != "" || p == nil {
				break
			}
			gate := make(chan struct{})
			var w2 sync.WaitGroup
			for g := 0; g < n; g++ {
				w2.Add(1)
				go func(g int) {
					defer w2.Done()
					<-gate
					v := g % 2
					if out := fxRun(p, envOf[cp.cfg][v]); out != cp.expect[v] {
						diverge(c08Divergence{"first-run", cp.cfg.Name, cp.src, cp.expect[v], out})
					}
				}(g)
			}
			close(gate)
			w2.Wait()
			res.Ops["first-run"] += n
		}
	}
	for _, oc := range opCounts {
		for k, v := range oc {
			res.Ops[k] += v
		}
	}
	seen := map[string]bool{}
	for _, cp := range progs {
		k := cp.cfg.Name + " | " + cp.src
		if !seen[k] && cp.prog != nil && len(res.Cases) < 400 {
			seen[k] = true
			res.Cases = append(res.Cases, k)
		}
	}
	b, _ := json.Marshal(res)
	os.Stdout.Write(b)
}

func c08Eval(src string, env interface{}) (out string, err error) {
	defer func() {
		if r := recover(); r != nil {
			out = fmt.Sprintf("PANIC:%v", r)
		}
	}()
	v, e := expr.Eval(src, env)
	if e != nil {
		return "", e
	}
	return fxSnap(v, false), nil
}

var c08RaceHeader = regexp.MustCompile(`(?m)^WARNING: DATA RACE`)

// c08RaceKeys extracts, for each race report, the first library frame of the first stack (the writer or reader)
func c08RaceKeys(stderr string) (keys []string, blocks []string) {
	parts := strings.Split(stderr, "WARNING: DATA RACE")
	for _, p := range parts[1:] {
		end := strings.Index(p, "==================")
		if end > 0 {
			p = p[:end]
		}
		key := "unknown-frame"
		for _, line := range strings.Split(p, "\n") {
			l := strings.TrimSpace(line)
			if strings.HasPrefix(l, "github.com/antonmedv/expr") {
				key = strings.TrimSuffix(strings.TrimPrefix(l, "github.com/antonmedv/expr/"), "()")
				break
			}
		}
		keys = append(keys, key)
		if len(p) > 2500 {
			p = p[:2500]
		}
		blocks = append(blocks, p)
	}
	return
}

func runC08(c *Ctx) {
	r := c.R
	r.Rule = "shared compiled programs (44 hand-picked sources covering regexp / folded slice / lookup-set / call-descriptor / ConstExpr constants + generated sources) x 8 option sets, shared read-only struct and map environments; N goroutines x M operations (60% expr.Run on a shared program, 30% expr.Compile with the shared option values, 10% expr.Eval), executed by a child process built with -race; every result compared with the sequential result; non-trivial = program compiled (has constants); distinct by (option set, source)"
	n, m, nGen, rounds := 8, 250, 30, 1
	if c.Thorough() {
		n, m, nGen, rounds = 32, 6000, 400, 8
	}
	replaySeed := int64(0)
	if c.Replay != "" {
		// re-run the round recorded in a replay file: same seed, N, M and generated-source count
		raw, err := os.ReadFile(c.Replay)
		if err != nil && !strings.HasPrefix(c.Replay, "/") {
			raw, err = os.ReadFile("../" + c.Replay)
		}
		var f struct {
			Violation struct {
				Input struct {
					Replay struct {
						Seed int64 `json:"seed"`
						N    int   `json:"goroutines"`
						M    int   `json:"operations_per_goroutine"`
						Gen  int   `json:"generated_sources"`
					} `json:"replay"`
				} `json:"input"`
			} `json:"violation"`
		}
		if err != nil || json.Unmarshal(raw, &f) != nil || f.Violation.Input.Replay.N == 0 {
			r.Mismatch("replay", c.Replay, "a C08 replay file with seed, goroutines, operations", fmt.Sprint(err))
			return
		}
		rp := f.Violation.Input.Replay
		n, m, nGen, rounds, replaySeed = rp.N, rp.M, rp.Gen, 1, rp.Seed
	}
	self, err := os.Executable()
	if err != nil {
		r.Mismatch("c08-child", "os.Executable", err.Error(), "")
		return
	}
	work := filepath.Dir(self)
	raceBin := filepath.Join(work, "harness-C08-race")
	build := []string{"build", "-race", "-tags", "verif", "-o", raceBin}
	if vr := os.Getenv("VERIF_REPO"); vr != "" {
		if rp, _ := filepath.EvalSymlinks(vr); rp != "/repo" && rp != "" {
			build = append(build, "-modfile="+filepath.Join(work, "go.alt.mod"))
		}
	}
	build = append(build, ".")
	cmd := exec.Command("go", build...)
	var bo bytes.Buffer
	cmd.Stdout, cmd.Stderr = &bo, &bo
	raceOK := true
	if err := cmd.Run(); err != nil {
		raceOK = false
		r.Mismatch("c08-race-build", strings.Join(build, " "), "the harness builds with the race detector", err.Error()+": "+bo.String())
		raceBin = self // still compare results with the sequential ones
	}
	for round := 0; round < rounds; round++ {
		seed := c.Seed + int64(round)*7919
		if replaySeed != 0 {
			seed = replaySeed
		}
		child := exec.Command(raceBin, "__c08child", fmt.Sprint(seed), fmt.Sprint(n), fmt.Sprint(m), fmt.Sprint(nGen))
		child.Env = append(os.Environ(), "GORACE=halt_on_error=0 exitcode=66 history_size=3")
		var so, se bytes.Buffer
		child.Stdout, child.Stderr = &so, &se
		runErr := child.Run()
		replay := map[string]interface{}{"seed": seed, "goroutines": n, "operations_per_goroutine": m, "generated_sources": nGen,
			"how": "harness __c08child <seed> <N> <M> <generated> (binary built with -race)"}
		keys, blocks := c08RaceKeys(se.String())
		seenKey := map[string]bool{}
		for i, k := range keys {
			if seenKey[k] {
				continue
			}
			seenKey[k] = true
			in := map[string]interface{}{"replay": replay, "report": blocks[i]}
			r.Violate(Violation{What: "the race detector reports an unsynchronised access to shared state", Key: "c08:race:" + k, Input: in,
				Expect: "no data race", Got: strings.SplitN(strings.TrimSpace(blocks[i]), "\n", 2)[0]})
		}
		var res c08Result
		if err := json.Unmarshal(so.Bytes(), &res); err != nil {
			r.Mismatch("c08-child", fmt.Sprint(replay), "a JSON result", fmt.Sprintf("%v / exit %v / stderr %s", err, runErr, fxTail(se.String(), 1500)))
			continue
		}
		if runErr != nil && len(keys) == 0 {
			r.Mismatch("c08-child", fmt.Sprint(replay), "exit 0", fmt.Sprintf("%v: %s", runErr, fxTail(se.String(), 1500)))
		}
		if raceOK && !res.Race {
			r.Mismatch("c08-race-build", "child", "race detector enabled in the child", "disabled")
		}
		for _, k := range res.Cases {
			r.Case(k, true)
		}
		for k, v := range res.Ops {
			r.Count("op:"+k, v)
		}
		for k, v := range res.ConstKinds {
			r.Count("const:"+k, v)
		}
		r.Count("programs", res.Programs)
		seenD := map[string]bool{}
		for _, d := range res.Divergences {
			k := "c08:diverge:" + d.Kind
			if seenD[k+d.Source] {
				continue
			}
			seenD[k+d.Source] = true
			r.Violate(Violation{What: "a concurrent " + d.Kind + " returned something else than the same operation executed alone", Key: k,
				Input: map[string]interface{}{"replay": replay, "config": d.Config, "source": d.Source}, Expect: d.Expect, Got: d.Got})
		}
	}
	var missing []string
	for _, must := range []string{"op:run", "op:compile", "op:eval", "const:regexp", "const:[]int", "const:[]string", "const:map[int]struct{}", "const:map[string]struct{}", "const:vm.Call"} {
		if r.Counters[must] == 0 {
			missing = append(missing, must)
		}
	}
	sort.Strings(missing)
	if len(missing) > 0 {
		r.Mismatch("generator", strings.Join(missing, ","), "counters must be non-zero", "0")
	}
	if raceOK {
		r.Note("workload executed under the Go race detector (validation of the write-set analysis, not proof)")
	}
}

func fxTail(s string, n int) string {
	if len(s) > n {
		return s[len(s)-n:]
	}
	return s
}
