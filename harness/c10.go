package main

// C10 — AST traversal reaches every node exactly once.
//
// (i)  correspondence: Enter/Exit stream and resulting tree of the real ast.Walk vs the Lean walker
//      model instantiated with the slot table regenerated from ast/visitor.go, under an idle visitor
//      and under replacing visitors (on Enter / on Exit, by assignment / by ast.Patch);
// (ii) oracle on the real code alone: an enumeration of all Node / []Node struct fields by reflection
//      (never looking at the walker) says which nodes exist; every one must be entered once and exited
//      once, parents around children, children in field order; a replacement made by a visitor must sit
//      in the tree afterwards at the position of the node it replaced; and through
//      expr.Compile(…, expr.Patch(v)) it must take effect in the compiled program.

import (
	"encoding/json"
	"fmt"
	"os"
	"reflect"
	"sort"
	"strings"
	"time"

	"github.com/antonmedv/expr"
	"github.com/antonmedv/expr/ast"
	"github.com/antonmedv/expr/checker"
	"github.com/antonmedv/expr/conf"
	"github.com/antonmedv/expr/file"
	"github.com/antonmedv/expr/optimizer"
	"github.com/antonmedv/expr/parser"
)

var astNodeType = reflect.TypeOf((*ast.Node)(nil)).Elem()
var astNodeSliceType = reflect.TypeOf([]ast.Node(nil))

func isNilNode(n ast.Node) bool {
	if n == nil {
		return true
	}
	rv := reflect.ValueOf(n)
	return rv.Kind() == reflect.Ptr && rv.IsNil()
}

func kindOfNode(n ast.Node) string {
	if isNilNode(n) {
		return "nil"
	}
	return reflect.TypeOf(n).Elem().Name()
}

// slotRef is one child slot found by reflection over the node struct (independent of the walker).
type slotRef struct {
	field string // "Node", "Arguments[1]", …
	fname string // field name without index
	get   func() ast.Node
	set   func(ast.Node)
}

// reflSlots lists every non-nil Node-typed field and every element of every []Node field, in
// declaration order.
func reflSlots(n ast.Node) []slotRef {
	var out []slotRef
	if isNilNode(n) {
		return out
	}
	sv := reflect.ValueOf(n).Elem()
	st := sv.Type()
	for i := 0; i < st.NumField(); i++ {
		f := st.Field(i)
		fv := sv.Field(i)
		switch {
		case f.Type == astNodeType:
			if fv.IsNil() {
				continue
			}
			fv := fv
			out = append(out, slotRef{f.Name, f.Name,
				func() ast.Node { return fv.Interface().(ast.Node) },
				func(x ast.Node) { fv.Set(reflect.ValueOf(&x).Elem()) }})
		case f.Type == astNodeSliceType:
			for j := 0; j < fv.Len(); j++ {
				ev := fv.Index(j)
				if ev.IsNil() {
					continue
				}
				out = append(out, slotRef{fmt.Sprintf("%s[%d]", f.Name, j), f.Name,
					func() ast.Node { return ev.Interface().(ast.Node) },
					func(x ast.Node) { ev.Set(reflect.ValueOf(&x).Elem()) }})
			}
		}
	}
	return out
}

// cloneTree copies a tree (struct values copied whole, so location and type travel along).
func cloneTree(n ast.Node) ast.Node {
	if isNilNode(n) {
		return n
	}
	old := reflect.ValueOf(n).Elem()
	nv := reflect.New(old.Type())
	nv.Elem().Set(old)
	sv := nv.Elem()
	for i := 0; i < sv.NumField(); i++ {
		fv := sv.Field(i)
		switch {
		case fv.Type() == astNodeType:
			if !fv.IsNil() {
				c := cloneTree(fv.Interface().(ast.Node))
				fv.Set(reflect.ValueOf(&c).Elem())
			}
		case fv.Type() == astNodeSliceType:
			if !fv.IsNil() {
				ns := reflect.MakeSlice(astNodeSliceType, fv.Len(), fv.Len())
				for j := 0; j < fv.Len(); j++ {
					if !fv.Index(j).IsNil() {
						c := cloneTree(fv.Index(j).Interface().(ast.Node))
						ns.Index(j).Set(reflect.ValueOf(&c).Elem())
					}
				}
				fv.Set(ns)
			}
		}
	}
	return nv.Interface().(ast.Node)
}

// number gives every node reachable by reflection a unique location (line = preorder index from 1,
// column = depth) and returns, per line, the position "ParentKind.Field" it sits at.
func number(root ast.Node) (count int, where map[int]string, path map[int]string) {
	where = map[int]string{}
	path = map[int]string{}
	var rec func(n ast.Node, depth int, at, p string)
	rec = func(n ast.Node, depth int, at, p string) {
		count++
		n.SetLocation(file.Location{Line: count, Column: depth})
		where[count] = at
		path[count] = p
		for _, s := range reflSlots(n) {
			rec(s.get(), depth+1, kindOfNode(n)+"."+s.fname, p+"/"+kindOfNode(n)+"."+s.field)
		}
	}
	rec(root, 0, "root", "")
	return
}

func evStr(tag string, n ast.Node) string {
	if isNilNode(n) {
		return "(" + tag + " nil 0 0)"
	}
	l := n.Location()
	return fmt.Sprintf("(%s %s %d %d)", tag, kindOfNode(n), l.Line, l.Column)
}

type recVisitor struct {
	inner ast.Visitor
	evs   []string
}

func (r *recVisitor) Enter(n *ast.Node) {
	r.evs = append(r.evs, evStr("E", *n))
	if r.inner != nil {
		r.inner.Enter(n)
	}
}
func (r *recVisitor) Exit(n *ast.Node) {
	r.evs = append(r.evs, evStr("X", *n))
	if r.inner != nil {
		r.inner.Exit(n)
	}
}

func markerTree() ast.Node {
	id := &ast.IdentifierNode{Value: "MARK"}
	id.SetLocation(file.Location{Line: 900002, Column: 2})
	u := &ast.UnaryNode{Operator: "-", Node: id}
	u.SetLocation(file.Location{Line: 900001, Column: 1})
	return u
}

// replVisitor mirrors ExprModel.Drv.replacer.
type replVisitor struct {
	mode string
	k    int
}

func (v *replVisitor) hit(n *ast.Node) bool { return !isNilNode(*n) && (*n).Location().Line == v.k }
func (v *replVisitor) Enter(n *ast.Node) {
	if !v.hit(n) {
		return
	}
	switch v.mode {
	case "enter":
		*n = markerTree()
	case "enter-patch":
		ast.Patch(n, &ast.IdentifierNode{Value: "PM"})
	}
}
func (v *replVisitor) Exit(n *ast.Node) {
	if !v.hit(n) {
		return
	}
	switch v.mode {
	case "exit":
		*n = markerTree()
	case "exit-patch":
		ast.Patch(n, &ast.IdentifierNode{Value: "PM"})
	}
}

func replacement(mode string, old ast.Node) ast.Node {
	if strings.HasSuffix(mode, "-patch") {
		n := &ast.IdentifierNode{Value: "PM"}
		n.SetLocation(old.Location())
		n.SetType(old.Type())
		return n
	}
	return markerTree()
}

// expectTrace is the stream the property prescribes, computed from the reflection view only; it also
// performs the replacement at line k (mode "" = none) and returns the resulting tree.
func expectTrace(n ast.Node, mode string, k int, evs *[]string) ast.Node {
	*evs = append(*evs, evStr("E", n))
	cur := n
	hit := n.Location().Line == k
	if hit && strings.HasPrefix(mode, "enter") {
		cur = replacement(mode, n)
	}
	for _, s := range reflSlots(cur) {
		s.set(expectTrace(s.get(), mode, k, evs))
	}
	*evs = append(*evs, evStr("X", cur))
	if hit && strings.HasPrefix(mode, "exit") {
		cur = replacement(mode, cur)
	}
	return cur
}

// runWalk runs the real walker under recover and a deadline.
func runWalk(root ast.Node, inner ast.Visitor) (res ast.Node, evs []string, panicked string) {
	type out struct {
		res ast.Node
		evs []string
		p   string
	}
	ch := make(chan out, 1)
	go func() {
		rv := &recVisitor{inner: inner}
		node := root
		defer func() {
			if r := recover(); r != nil {
				ch <- out{node, rv.evs, fmt.Sprint(r)}
			}
		}()
		ast.Walk(&node, rv)
		ch <- out{node, rv.evs, ""}
	}()
	select {
	case o := <-ch:
		return o.res, o.evs, o.p
	case <-time.After(20 * time.Second):
		return nil, nil, "timeout"
	}
}

// ---- tree generators -------------------------------------------------------------------------

type kindSpec struct {
	name  string
	npos  int
	build func(ch []ast.Node) ast.Node
}

var c10kinds = []kindSpec{
	{"NilNode", 0, func([]ast.Node) ast.Node { return &ast.NilNode{} }},
	{"IdentifierNode", 0, func([]ast.Node) ast.Node { return &ast.IdentifierNode{Value: "v"} }},
	{"IntegerNode", 0, func([]ast.Node) ast.Node { return &ast.IntegerNode{Value: 7} }},
	{"FloatNode", 0, func([]ast.Node) ast.Node { return &ast.FloatNode{Value: 1.5} }},
	{"BoolNode", 0, func([]ast.Node) ast.Node { return &ast.BoolNode{Value: true} }},
	{"StringNode", 0, func([]ast.Node) ast.Node { return &ast.StringNode{Value: "s"} }},
	{"ConstantNode", 0, func([]ast.Node) ast.Node { return &ast.ConstantNode{Value: 3} }},
	{"PointerNode", 0, func([]ast.Node) ast.Node { return &ast.PointerNode{} }},
	{"UnaryNode", 1, func(c []ast.Node) ast.Node { return &ast.UnaryNode{Operator: "-", Node: c[0]} }},
	{"BinaryNode", 2, func(c []ast.Node) ast.Node { return &ast.BinaryNode{Operator: "+", Left: c[0], Right: c[1]} }},
	{"MatchesNode", 2, func(c []ast.Node) ast.Node { return &ast.MatchesNode{Left: c[0], Right: c[1]} }},
	{"PropertyNode", 1, func(c []ast.Node) ast.Node { return &ast.PropertyNode{Node: c[0], Property: "p"} }},
	{"IndexNode", 2, func(c []ast.Node) ast.Node { return &ast.IndexNode{Node: c[0], Index: c[1]} }},
	{"SliceNode", 3, func(c []ast.Node) ast.Node { return &ast.SliceNode{Node: c[0], From: c[1], To: c[2]} }},
	{"SliceNode:from", 2, func(c []ast.Node) ast.Node { return &ast.SliceNode{Node: c[0], From: c[1]} }},
	{"SliceNode:to", 2, func(c []ast.Node) ast.Node { return &ast.SliceNode{Node: c[0], To: c[1]} }},
	{"SliceNode:open", 1, func(c []ast.Node) ast.Node { return &ast.SliceNode{Node: c[0]} }},
	{"MethodNode", 3, func(c []ast.Node) ast.Node {
		return &ast.MethodNode{Node: c[0], Method: "m", Arguments: []ast.Node{c[1], c[2]}}
	}},
	{"MethodNode:0", 1, func(c []ast.Node) ast.Node { return &ast.MethodNode{Node: c[0], Method: "m"} }},
	{"FunctionNode", 2, func(c []ast.Node) ast.Node { return &ast.FunctionNode{Name: "f", Arguments: []ast.Node{c[0], c[1]}} }},
	{"FunctionNode:0", 0, func(c []ast.Node) ast.Node { return &ast.FunctionNode{Name: "f"} }},
	{"BuiltinNode", 2, func(c []ast.Node) ast.Node { return &ast.BuiltinNode{Name: "b", Arguments: []ast.Node{c[0], c[1]}} }},
	{"ClosureNode", 1, func(c []ast.Node) ast.Node { return &ast.ClosureNode{Node: c[0]} }},
	{"ConditionalNode", 3, func(c []ast.Node) ast.Node { return &ast.ConditionalNode{Cond: c[0], Exp1: c[1], Exp2: c[2]} }},
	{"ArrayNode", 2, func(c []ast.Node) ast.Node { return &ast.ArrayNode{Nodes: []ast.Node{c[0], c[1]}} }},
	{"ArrayNode:0", 0, func(c []ast.Node) ast.Node { return &ast.ArrayNode{Nodes: []ast.Node{}} }},
	{"MapNode", 2, func(c []ast.Node) ast.Node { return &ast.MapNode{Pairs: []ast.Node{c[0], c[1]}} }},
	{"PairNode", 2, func(c []ast.Node) ast.Node { return &ast.PairNode{Key: c[0], Value: c[1]} }},
}

func leafFill(i int) ast.Node {
	switch i % 3 {
	case 0:
		return &ast.IdentifierNode{Value: "w"}
	case 1:
		return &ast.IntegerNode{Value: i}
	}
	return &ast.StringNode{Value: "t"}
}

func buildAt(ks kindSpec, pos int, child ast.Node) ast.Node {
	ch := make([]ast.Node, ks.npos)
	for i := range ch {
		if i == pos {
			ch[i] = child
		} else {
			ch[i] = leafFill(i)
		}
	}
	return ks.build(ch)
}

// spineTrees: every chain position/…/position/kind of the given depth (other slots hold leaves).
func spineTrees(depth int, emit func(ast.Node, string)) {
	var rec func(d int, wrap func(ast.Node) ast.Node, label string)
	rec = func(d int, wrap func(ast.Node) ast.Node, label string) {
		if d == 1 {
			for _, ks := range c10kinds {
				emit(wrap(buildAt(ks, -1, nil)), label+ks.name)
			}
			return
		}
		for _, ks := range c10kinds {
			for p := 0; p < ks.npos; p++ {
				ks, p := ks, p
				rec(d-1, func(c ast.Node) ast.Node { return wrap(buildAt(ks, p, c)) }, fmt.Sprintf("%s%s@%d/", label, ks.name, p))
			}
		}
	}
	rec(depth, func(n ast.Node) ast.Node { return n }, "")
}

// fullTrees: every tree over the alphabet up to the depth.
func fullTrees(alpha []string, depth int) []func() ast.Node {
	byName := map[string]kindSpec{}
	for _, k := range c10kinds {
		byName[k.name] = k
	}
	var level []func() ast.Node // trees of depth <= d
	for d := 1; d <= depth; d++ {
		var next []func() ast.Node
		for _, a := range alpha {
			ks := byName[a]
			if ks.npos == 0 {
				ks := ks
				next = append(next, func() ast.Node { return ks.build(nil) })
				continue
			}
			if d == 1 {
				continue
			}
			idx := make([]int, ks.npos)
			for {
				sel := make([]func() ast.Node, ks.npos)
				for i, j := range idx {
					sel[i] = level[j]
				}
				ks := ks
				next = append(next, func() ast.Node {
					ch := make([]ast.Node, len(sel))
					for i, f := range sel {
						ch[i] = f()
					}
					return ks.build(ch)
				})
				i := 0
				for ; i < len(idx); i++ {
					idx[i]++
					if idx[i] < len(level) {
						break
					}
					idx[i] = 0
				}
				if i == len(idx) {
					break
				}
			}
		}
		level = next
	}
	return level
}

func randomTree(c *Ctx, depth int) ast.Node {
	if depth <= 1 {
		for {
			ks := c10kinds[c.Rng.Intn(len(c10kinds))]
			if ks.npos == 0 {
				return ks.build(nil)
			}
		}
	}
	ks := c10kinds[c.Rng.Intn(len(c10kinds))]
	ch := make([]ast.Node, ks.npos)
	for i := range ch {
		ch[i] = randomTree(c, depth-1-c.Rng.Intn(2))
	}
	return ks.build(ch)
}

// sources covering every node kind the parser produces, composed from contexts with a hole.
var c10contexts = []string{
	"%s", "-(%s)", "not (%s)", "(%s) + 1", "2 * (%s)", "(%s) matches 'a.*'", "'abc' matches (%s)", "(%s).Field", "(%s)?.Field",
	"(%s)[0]", "arr[%s]", "(%s)[1:2]", "(%s)[1:]", "(%s)[:2]", "(%s)[:]", "arr[%s:]", "arr[:%s]", "arr[1:%s]", "arr[%s:3]",
	"(%s).Method(1, 2)", "obj.Method(%s, 3)", "obj.Method(4, %s)", "fn(%s)", "fn(1, %s)", "len(%s)",
	"map(%s, {# + 1})", "filter(arr, {# > (%s)})", "all(arr, {(%s) == #})", "count(arr, {#.x[%s:]})",
	"(%s) ? 1 : 2", "true ? (%s) : 2", "false ? 1 : (%s)", "[%s]", "[1, %s]", "{a: %s}", "{(%s): 1}", "{a: 1, 'b': %s}",
	"(%s) in arr", "1 in (%s)", "(%s)..3", "nil == (%s)",
}

var c10leaves = []string{"x", "1", "2.5", "true", "nil", "'s'", "x.y", "a[b:c]", "f()", "[]", "{}"}

func composeSources(c *Ctx, depth int, max int) []string {
	seen := map[string]bool{}
	var out []string
	add := func(s string) {
		if !seen[s] {
			seen[s] = true
			out = append(out, s)
		}
	}
	for _, l := range c10leaves {
		for _, c1 := range c10contexts {
			add(fmt.Sprintf(c1, l))
		}
	}
	// all pairs of contexts around two leaves, then random deeper compositions
	for _, c1 := range c10contexts {
		for _, c2 := range c10contexts {
			add(fmt.Sprintf(c1, fmt.Sprintf(c2, "x")))
			add(fmt.Sprintf(c1, fmt.Sprintf(c2, "a[b:c]")))
		}
	}
	for len(out) < max {
		s := c10leaves[c.Rng.Intn(len(c10leaves))]
		for d := 0; d < depth; d++ {
			s = fmt.Sprintf(c10contexts[c.Rng.Intn(len(c10contexts))], s)
		}
		add(s)
	}
	return out
}

// ---- the checks ------------------------------------------------------------------------------

type c10case struct {
	label string
	mode  string // "", "enter", "exit", "enter-patch", "exit-patch"
	k     int
	proto ast.Node // numbered prototype (cloned before every run)
	where map[int]string
	path  map[int]string
	count int
}

func sxEvents(x *Sx) []string {
	var out []string
	for _, e := range x.List {
		out = append(out, e.String())
	}
	return out
}

func firstDiff(a, b []string) string {
	n := len(a)
	if len(b) < n {
		n = len(b)
	}
	for i := 0; i < n; i++ {
		if a[i] != b[i] {
			return fmt.Sprintf("at event %d: %s vs %s", i, a[i], b[i])
		}
	}
	return fmt.Sprintf("lengths %d vs %d", len(a), len(b))
}

// violateKeyed stores at most three violations per key (all are counted).  In replay mode
// (bin/check <id> --replay file) the whole search is re-run and only violations with the replayed key
// are reported: the replay reproduces iff the same class of input still fails.
var keyedSeen = map[string]int{}
var replayOnlyKey string

func loadReplayKey(c *Ctx) {
	if c.Replay == "" {
		return
	}
	b, err := os.ReadFile(c.Replay)
	if err != nil { // bin/check runs the harness from harness/: a path relative to the repository root
		b, err = os.ReadFile("../" + c.Replay)
	}
	if err != nil {
		c.R.Note("replay file unreadable: %v", err)
		return
	}
	var rp struct {
		Violation struct {
			Key string `json:"key"`
		} `json:"violation"`
	}
	if json.Unmarshal(b, &rp) == nil && rp.Violation.Key != "" {
		replayOnlyKey = rp.Violation.Key
		c.R.Note("replay: reporting only violations with key %s", replayOnlyKey)
	}
}

func violateKeyed(r *Report, v Violation) {
	if replayOnlyKey != "" && v.Key != replayOnlyKey {
		return
	}
	r.Count("violation:"+v.Key, 1)
	keyedSeen[v.Key]++
	if keyedSeen[v.Key] <= 3 {
		r.Violate(v)
	} else {
		r.Count("violation", 1)
	}
}

// c10SharedNodes: the Lean model (and cloneTree) treat trees as values; the real trees are pointer structures.
// On the trees exactly as the parser / the optimizer hand them over (no copy), every node OBJECT must be entered
// and exited once: a node object reachable through two child slots is visited twice and a replacing visitor is
// applied twice to its children.
type c10identity struct {
	enter, exit map[ast.Node]int
	order       []ast.Node
}

func (v *c10identity) Enter(n *ast.Node) {
	if v.enter[*n] == 0 {
		v.order = append(v.order, *n)
	}
	v.enter[*n]++
}
func (v *c10identity) Exit(n *ast.Node) { v.exit[*n]++ }

func c10SharedNodes(c *Ctx) {
	r := c.R
	srcs := []string{"a ?: b", "(x + 1) ?: 2", "f(a) ?: g(b)", "a ?: b ?: c", "a ? b : c", "not (a ?: b)", "[a ?: b, c]", "{k: a ?: b}", "all(xs, {# ?: a})",
		"a.b ?: c", "a[1:2] ?: b", "x in 1..3", "x not in 1..3", "a.b in 1..3", "a.b.c not in 1..3", "a?.b in 1..3", "all(xs, {#.n in 1..3})", "all(xs, {# in 1..3})", "7 in 1..3", "x in [1, 2, 3]", "a matches \"b\"", "1 + 2 + x", "f(1 + 2)", "a?.b?.c", "a ? a : a"}
	gen, _ := fxSources(c.Rng, 60, 4, false)
	for _, g := range gen {
		srcs = append(srcs, g.Src, "("+g.Src+") ?: false")
	}
	for _, src := range srcs {
		tree, err := parser.Parse(src)
		if err != nil {
			continue
		}
		for pass, label := range []string{"parsed", "optimized"} {
			if pass == 1 {
				if optimizer.Optimize(&tree.Node, nil) != nil {
					break
				}
			}
			v := &c10identity{enter: map[ast.Node]int{}, exit: map[ast.Node]int{}}
			ast.Walk(&tree.Node, v)
			r.Case("identity|"+label+"|"+src, true)
			r.Count("identity:"+label, 1)
			for _, n := range v.order {
				if v.enter[n] != 1 || v.exit[n] != 1 {
					key := "c10:node-object-visited-twice:" + label
					if strings.Contains(src, "?:") {
						key = "c10:node-object-visited-twice:short-conditional" // a ?: b shares the node of a between Cond and Exp1
					}
					r.Violate(Violation{What: "a node object is reachable through two child positions of the tree the " + label[:len(label)-1] + "r produced and is entered/exited more than once",
						Key: key, Input: map[string]string{"source": src, "node": fmt.Sprintf("%T %v", n, n.Location())},
						Expect: "entered 1 exited 1", Got: fmt.Sprintf("entered %d exited %d", v.enter[n], v.exit[n])})
					break
				}
			}
		}
	}
}

func runC10(c *Ctx) {
	r := c.R
	loadReplayKey(c)
	c10CompilePatch(c)
	c10Recheck(c)
	c10SharedNodes(c)
	r.Rule = "trees built as Go ast values: every chain slot/slot/kind to depth 3 over all 22 node kinds and all 28 child positions (incl. nil From/To, empty lists), every tree of depth<=3 over {Identifier, Binary, Slice, Array}, random trees to depth 6; type-checked and optimized trees (ConstantNode, range and membership rewrites); parsed sources: 41 contexts x 11 leaves, all context pairs, random compositions; each walked by the real ast.Walk with an idle and with replacing visitors (Enter/Exit x assignment/ast.Patch, at every position of small trees), compared with the Lean model (table from ast/visitor.go) and with the reflection oracle; expr.Compile with expr.Patch replacing an identifier in every context; replacements changing the static type at 15 type-directed spots x 8 target types and the root under AsBool, compared with the written-out patched expression; non-trivial = tree has >= 2 nodes; distinct by (tree, visitor, position)"

	var cases []c10case
	addTree := func(label string, t ast.Node, modes []string, allPositions bool) {
		cnt, where, path := number(t)
		cases = append(cases, c10case{label, "", 0, t, where, path, cnt})
		for _, m := range modes {
			if allPositions {
				for k := 1; k <= cnt; k++ {
					cases = append(cases, c10case{label, m, k, t, where, path, cnt})
				}
			} else {
				k := cnt // deepest / last node in preorder
				if cnt > 1 {
					k = 1 + c.Rng.Intn(cnt)
				}
				cases = append(cases, c10case{label, m, k, t, where, path, cnt})
				if c.Thorough() {
					cases = append(cases, c10case{label, m, cnt, t, where, path, cnt})
				}
			}
		}
	}
	allModes := []string{"enter", "exit", "enter-patch", "exit-patch"}

	if t, err := parser.Parse("a[b:c]"); err == nil { // the smallest interesting tree first
		addTree("src:a[b:c]", t.Node, allModes, true)
	}
	spineTrees(2, func(t ast.Node, l string) { addTree("spine2:"+l, t, allModes, true) })
	i := 0
	spineTrees(3, func(t ast.Node, l string) {
		i++
		addTree("spine3:"+l, t, []string{allModes[i%4]}, false)
	})
	for j, f := range fullTrees([]string{"IdentifierNode", "BinaryNode", "SliceNode", "SliceNode:open", "ArrayNode"}, 3) {
		if !c.Thorough() && j%7 != 0 && j > 400 {
			continue
		}
		addTree(fmt.Sprintf("full3:%d", j), f(), []string{allModes[j%4]}, false)
	}
	nrand := 300
	if c.Thorough() {
		nrand = 6000
		spineTrees(4, func(t ast.Node, l string) {
			if c.Rng.Intn(10) == 0 {
				addTree("spine4:"+l, t, []string{allModes[c.Rng.Intn(4)]}, false)
			}
		})
	}
	for j := 0; j < nrand; j++ {
		addTree(fmt.Sprintf("random:%d", j), randomTree(c, 3+c.Rng.Intn(4)), allModes[:2], false)
	}
	nsrc := 3000
	if c.Thorough() {
		nsrc = 20000
	}
	parsed := 0
	for _, src := range composeSources(c, 3, nsrc) {
		tree, err := parser.Parse(src)
		if err != nil {
			r.Count("source-rejected", 1)
			continue
		}
		parsed++
		addTree("src:"+src, tree.Node, []string{allModes[parsed%4]}, false)
	}
	if parsed < nsrc/2 {
		r.Mismatch("generator", "sources", fmt.Sprintf("only %d of %d sources parse", parsed, nsrc), "")
	}

	// trees the optimizer produces (ConstantNode, rewritten ranges and membership tests, shared operands)
	optEnv := map[string]interface{}{"x": 2, "s": "a", "arr": []int{1, 2, 3}, "fn": func(a int) int { return a }}
	nopt, nconst := 0, 0
	for _, src := range []string{"x in 1..3", "1 + 2 * 3", "x in [1, 2, 3]", "s in ['a', 'b']", "len(1..5)", "arr[1 + 1:]",
		"(1..9)[x:3 + 1]", "[1 + 1, x][0:1 * 1]", "map(1..3, {# * (2 + 1)})", "not (x in 2..4)", "true ? 1 + 1 : 2", "{a: 1 + 2}.a",
		"fn(1 + 2)", "arr[x in 1..2 ? 0 : 1:]", "(x in [1, 2] ? arr : arr)[:2 - 1]", "-(1 + 2) + x", "'a' + 'b' == s"} {
		tree, err := parser.Parse(src)
		if err != nil {
			continue
		}
		config := conf.New(optEnv)
		if _, err := checker.Check(tree, config); err != nil {
			continue
		}
		if err := optimizer.Optimize(&tree.Node, config); err != nil {
			continue
		}
		nopt++
		if strings.Contains(nodeSx(tree.Node, false).String(), "(const ") {
			nconst++
		}
		addTree("optimized:"+src, cloneTree(tree.Node), allModes, true)
	}
	if nopt < 12 || nconst < 3 {
		r.Mismatch("generator", "optimized trees", fmt.Sprintf("%d optimized trees, %d with ConstantNode", nopt, nconst), "")
	}

	// model side
	lines := make([]string, len(cases))
	for i, cs := range cases {
		if cs.mode == "" {
			lines[i] = T("walkevents", nodeSx(cs.proto, false)).String()
		} else {
			lines[i] = T("walkreplace", A(cs.mode), SInt(int64(cs.k)), nodeSx(cs.proto, false)).String()
		}
	}
	resp, err := c.AskAll(lines)
	if err != nil {
		r.Mismatch("driver", "walk", err.Error(), "")
		return
	}

	posSeen := map[string]bool{}
	for i, cs := range cases {
		var inner ast.Visitor
		if cs.mode != "" {
			inner = &replVisitor{cs.mode, cs.k}
		}
		got, evs, pan := runWalk(cloneTree(cs.proto), inner)
		key := fmt.Sprintf("%s|%s|%d", cs.label, cs.mode, cs.k)
		r.Case(key, cs.count >= 2)
		r.Count("mode:"+cs.mode, 1)
		for _, w := range cs.where {
			posSeen[w] = true
		}
		input := map[string]interface{}{"tree": cs.label, "sexp": nodeSx(cs.proto, false).String(), "visitor": cs.mode, "position": cs.k}
		if pan != "" {
			violateKeyed(r, Violation{What: "ast.Walk panicked", Key: "c10:panic", Input: input, Expect: "normal return", Got: pan})
			continue
		}
		gotTree := nodeSx(got, false).String()

		// (i) correspondence with the model
		mx, perr := ParseSx(resp[i])
		if perr != nil || mx.Tag() != "ok" || len(mx.List) != 3 {
			r.Mismatch("walk", lines[i], resp[i], gotTree+" "+strings.Join(evs, " "))
		} else {
			mt, me := mx.List[1].String(), sxEvents(mx.List[2])
			if mt != gotTree || strings.Join(me, " ") != strings.Join(evs, " ") {
				r.Mismatch("walk", lines[i], mt+" ["+strings.Join(me, " ")+"]", gotTree+" ["+strings.Join(evs, " ")+"]")
			}
		}

		// (ii) oracle: the reflection view
		var want []string
		wantTree := nodeSx(expectTrace(cloneTree(cs.proto), cs.mode, cs.k, &want), false).String()
		if strings.Join(want, " ") != strings.Join(evs, " ") {
			// name the first node that exists but was not entered, else the first deviation
			entered := map[string]int{}
			for _, e := range evs {
				if strings.HasPrefix(e, "(E ") {
					entered[e]++
				}
			}
			vkey, what := "", ""
			for _, e := range want {
				if strings.HasPrefix(e, "(E ") {
					var kind string
					var line, col int
					fmt.Sscanf(strings.Trim(e, "()"), "E %s %d %d", &kind, &line, &col)
					if entered[e] == 0 && line < 900000 {
						vkey, what = "c10:unvisited:"+cs.where[line], fmt.Sprintf("node %s at %s is never entered", kind, cs.path[line])
						break
					}
					if entered[e] > 1 {
						vkey, what = "c10:visited-twice:"+cs.where[line], fmt.Sprintf("node %s at %s is entered %d times", kind, cs.path[line], entered[e])
						break
					}
				}
			}
			if vkey == "" {
				vkey, what = "c10:order", "Enter/Exit stream is not parent-around-children in field order: "+firstDiff(want, evs)
			}
			violateKeyed(r, Violation{What: what, Key: vkey, Input: input, Expect: strings.Join(want, " "), Got: strings.Join(evs, " ")})
			continue
		}
		if wantTree != gotTree {
			violateKeyed(r, Violation{What: "a replacement made by the visitor is not in the tree after the walk", Key: "c10:replacement-lost:" + cs.where[cs.k], Input: input, Expect: wantTree, Got: gotTree})
		}
	}

	// generator coverage: every (parent kind, field) position must have been exercised
	for _, ks := range c10kinds {
		n := buildAt(ks, -1, nil)
		for _, s := range reflSlots(n) {
			if !posSeen[kindOfNode(n)+"."+s.fname] {
				r.Mismatch("generator", kindOfNode(n)+"."+s.fname, "position never generated", "")
			}
		}
	}
	r.Count("positions-covered", len(posSeen))
}

// ---- replacement through expr.Compile(…, expr.Patch(v)) -----------------------------------------

// identOnExit replaces identifier `name` on Exit: by the identifier `to`, or (call=true) by the call `to()`.
type identOnExit struct {
	name, to string
	call     bool
}

func (v *identOnExit) Enter(*ast.Node) {}
func (v *identOnExit) Exit(n *ast.Node) {
	if id, ok := (*n).(*ast.IdentifierNode); ok && id.Value == v.name {
		if v.call {
			ast.Patch(n, &ast.FunctionNode{Name: v.to})
		} else {
			ast.Patch(n, &ast.IdentifierNode{Value: v.to})
		}
	}
}

type identRenameOnEnter struct{ from, to string }

func (v *identRenameOnEnter) Enter(n *ast.Node) {
	if id, ok := (*n).(*ast.IdentifierNode); ok && id.Value == v.from {
		ast.Patch(n, &ast.IdentifierNode{Value: v.to})
	}
}
func (v *identRenameOnEnter) Exit(*ast.Node) {}

type c10obj struct{}

func (c10obj) Pick(xs []interface{}, i int) interface{} { return xs[i] }

var c10patchContexts = []struct{ name, src string }{
	{"root", "x"},
	{"SliceNode.Node", "x[1:2]"}, {"SliceNode.Node", "x[1:]"}, {"SliceNode.Node", "x[:2]"}, {"SliceNode.Node", "x[:]"},
	{"SliceNode.Node", "x[1:3][0:1]"}, {"SliceNode.Node", "len(x[1:])"}, {"SliceNode.Node", "map(x[1:], {# * 2})"},
	{"SliceNode.From", "ys[x[0] - 10:]"}, {"SliceNode.To", "ys[:x[0] - 9]"}, {"SliceNode.From", "ys[len(x) - 3:x[0] - 9]"},
	{"IndexNode.Node", "x[0]"}, {"IndexNode.Index", "ys[x[0] - 10]"}, {"IndexNode.Node", "x[len(x) - 1]"},
	{"UnaryNode.Node", "-x[1]"}, {"BinaryNode.Left", "x[0] + 1"}, {"BinaryNode.Right", "1 + x[2]"}, {"BinaryNode.Right", "20 in x"},
	{"MatchesNode.Left", "(x[0] > 5 ? 'ab' : 'cd') matches 'a.'"},
	{"PropertyNode.Node", "{a: x}.a"}, {"PairNode.Value", "{a: x}"}, {"PairNode.Value", "{a: 1, b: len(x)}"}, {"PairNode.Key", "{(x[0] > 5 ? 'k' : 'j'): 1}"},
	{"MethodNode.Arguments", "obj.Pick(x, 1)"}, {"MethodNode.Arguments", "obj.Pick(ys, x[0] - 10)"}, {"MethodNode.Node", "{o: obj}.o.Pick(x, 2)"},
	{"FunctionNode.Arguments", "first(x)"}, {"FunctionNode.Arguments", "add(1, x[0])"}, {"BuiltinNode.Arguments", "len(x)"},
	{"BuiltinNode.Arguments", "map(x, {# + 1})"}, {"ClosureNode.Node", "map(ys, {# + x[0]})"}, {"ClosureNode.Node", "filter(ys, {# in x})"},
	{"ClosureNode.Node", "all(ys, {len(x[1:]) == 2})"}, {"ClosureNode.Node", "map(ys, {x[#-1:]})"},
	{"ConditionalNode.Cond", "len(x) == 3 ? 1 : 2"}, {"ConditionalNode.Exp1", "true ? x : ys"}, {"ConditionalNode.Exp2", "false ? ys : x"},
	{"ConditionalNode.Exp2", "false ? ys : x[1:]"}, {"ArrayNode.Nodes", "[x, 1]"}, {"ArrayNode.Nodes", "[1, x[2:]]"},
	{"SliceNode.Node", "(true ? x : ys)[1:]"}, {"SliceNode.Node", "[x, x][0][1:2]"}, {"SliceNode.Node", "{a: x}.a[0:1]"},
}

func canon(v interface{}) string { return valSx(v).String() }

func c10CompilePatch(c *Ctx) {
	r := c.R
	base := map[string]interface{}{
		"ys":    []interface{}{1, 2, 3},
		"obj":   c10obj{},
		"first": func(xs []interface{}) interface{} { return xs[0] },
		"add":   func(a, b int) int { return a + b },
	}
	full := map[string]interface{}{"x": []interface{}{10, 20, 30}, "z": []interface{}{10, 20, 30},
		"mk": func() []interface{} { return []interface{}{10, 20, 30} }}
	for k, v := range base {
		full[k] = v
	}
	run := func(src string, env map[string]interface{}, opts ...expr.Option) (out string) {
		defer func() {
			if rec := recover(); rec != nil {
				out = "(panic " + SStr(fmt.Sprint(rec)).String() + ")"
			}
		}()
		p, err := expr.Compile(src, append([]expr.Option{expr.Env(env)}, opts...)...)
		if err != nil {
			return "(compile-error " + SStr(err.Error()).String() + ")"
		}
		v, err := expr.Run(p, env)
		if err != nil {
			return "(run-error " + SStr(err.Error()).String() + ")"
		}
		return "(ok " + canon(v) + ")"
	}
	for _, opt := range []bool{true, false} {
		for _, cx := range c10patchContexts {
			want := run(cx.src, full, expr.Optimize(opt))
			if !strings.HasPrefix(want, "(ok") {
				r.Mismatch("generator", cx.src, "reference evaluation fails: "+want, "")
				continue
			}
			envNoX := map[string]interface{}{}
			for k, v := range full {
				if k != "x" {
					envNoX[k] = v
				}
			}
			visitors := []struct {
				desc string
				mk   func() ast.Visitor
			}{
				{"Exit: IdentifierNode x -> IdentifierNode z via ast.Patch", func() ast.Visitor { return &identOnExit{"x", "z", false} }},
				{"Exit: IdentifierNode x -> FunctionNode mk() via ast.Patch", func() ast.Visitor { return &identOnExit{"x", "mk", true} }},
				{"Enter: IdentifierNode x -> IdentifierNode z via ast.Patch", func() ast.Visitor { return &identRenameOnEnter{"x", "z"} }},
			}
			for _, vis := range visitors {
				// x is not defined in the environment: the program compiles only if every occurrence was replaced
				got := run(cx.src, envNoX, expr.Patch(vis.mk()), expr.Optimize(opt))
				// with x defined (to the same value) the replacement must still be what is evaluated
				got2 := run(cx.src, full, expr.Patch(vis.mk()), expr.Optimize(opt))
				r.Case("patch:"+vis.desc+":"+cx.src+fmt.Sprint(opt), true)
				r.Count("compile-patch", 1)
				if got != want || got2 != want {
					violateKeyed(r, Violation{What: "a visitor's replacement of identifier x does not take effect in the compiled program: " + decode(got),
						Key: "c10:patch-not-applied:" + cx.name, Input: map[string]interface{}{"source": cx.src, "visitor": vis.desc, "optimize": opt, "env": "x undefined; z = mk() = [10,20,30]"},
						Expect: want, Got: got})
				}
			}
		}
	}
	names := map[string]bool{}
	for _, cx := range c10patchContexts {
		names[cx.name] = true
	}
	var ns []string
	for n := range names {
		ns = append(ns, n)
	}
	sort.Strings(ns)
	r.Note("compile-patch contexts: %s", strings.Join(ns, " "))
}

// ---- the patched tree is type-checked again ----------------------------------------------------------

// replaceOnExit replaces, on Exit, the identifier `name` (or, with root=true, any BinaryNode with operator
// `>`) by the identifier `to`, through ast.Patch (which copies the old node's type onto the new one).
type replaceOnExit struct {
	name, to string
	root     bool
}

func (v *replaceOnExit) Enter(*ast.Node) {}
func (v *replaceOnExit) Exit(n *ast.Node) {
	if v.root {
		if b, ok := (*n).(*ast.BinaryNode); ok && b.Operator == ">" {
			ast.Patch(n, &ast.IdentifierNode{Value: v.to})
		}
		return
	}
	if id, ok := (*n).(*ast.IdentifierNode); ok && id.Value == v.name {
		ast.Patch(n, &ast.IdentifierNode{Value: v.to})
	}
}

// c10Recheck: a replacement made in a WELL-TYPED expression must take effect in the tree that is then
// checked and compiled: an ill-typed result is rejected by Compile, an accepted one behaves exactly like
// the explicitly written patched expression (no code generated from the stale type ast.Patch copied).
func c10Recheck(c *Ctx) {
	r := c.R
	env := map[string]interface{}{"X": 1, "I2": 1, "I64": int64(1), "I8": int8(1), "U": uint(1), "F": 1.0, "Str": "s", "B": true,
		"Arr": []int{1, 2, 5}, "Any": interface{}(int64(1))}
	run := func(src string, opts ...expr.Option) (out string) {
		defer func() {
			if rec := recover(); rec != nil {
				out = "panic: " + fmt.Sprint(rec)
			}
		}()
		p, err := expr.Compile(src, append([]expr.Option{expr.Env(env)}, opts...)...)
		if err != nil {
			return "compile-error: " + strings.SplitN(err.Error(), "\n", 2)[0]
		}
		v, err := expr.Run(p, env)
		if err != nil {
			return "run-error: " + strings.SplitN(err.Error(), "\n", 2)[0]
		}
		return fmt.Sprintf("ok: %#v", v)
	}
	cls := func(s string) string { return s[:strings.Index(s, ":")] }
	spots := []struct{ name, src string }{
		{"eq", "%s == 1"}, {"eq-right", "1 == %s"}, {"in-const-array", "%s in [1, 2, 5]"}, {"in-array", "%s in Arr"}, {"add", "%s + 1"},
		{"mul", "%s * 2"}, {"less", "%s < 2"}, {"neg", "-%s"}, {"range", "len(%s..3)"}, {"index", "Arr[%s]"}, {"slice", "Arr[%s:]"},
		{"cond", "%s == 1 ? 'y' : 'n'"}, {"closure", "filter(Arr, {# == %s})"}, {"nested", "(%s + 1) * 2 == 4"}, {"not", "not (%s == 1)"},
		{"concat", "string('a') + %s"},
	}
	targets := []string{"I2", "I64", "I8", "U", "F", "Str", "B", "Any"}
	n := 0
	for _, opt := range []bool{true, false} {
		for _, sp := range spots {
			if sp.name == "concat" {
				continue
			}
			if base := run(fmt.Sprintf(sp.src, "X"), expr.Optimize(opt)); cls(base) != "ok" {
				r.Mismatch("generator", sp.src, "unpatched expression is not well-typed: "+base, "")
				continue
			}
			for _, to := range targets {
				written := fmt.Sprintf(sp.src, to)
				want := run(written, expr.Optimize(opt))
				got := run(fmt.Sprintf(sp.src, "X"), expr.Patch(&replaceOnExit{name: "X", to: to}), expr.Optimize(opt))
				n++
				r.Case(fmt.Sprintf("recheck|%s|%s|%v", sp.src, to, opt), true)
				input := map[string]interface{}{"source": fmt.Sprintf(sp.src, "X"), "visitor": "Exit: IdentifierNode X -> IdentifierNode " + to + " via ast.Patch",
					"written_out": written, "optimize": opt, "env": "X=1 I2=1 I64=int64(1) I8=int8(1) U=uint(1) F=1.0 Str=\"s\" B=true Arr=[]int{1,2,5} Any=interface{}(int64(1))"}
				switch {
				case cls(want) == "compile-error" && cls(got) != "compile-error":
					violateKeyed(r, Violation{What: "a visitor's replacement makes the expression ill-typed, yet expr.Compile accepts it: the patched tree was not type-checked",
						Key: "c10:patched-tree-not-rechecked:ill-typed-accepted:" + sp.name, Input: input, Expect: want, Got: got})
				case cls(want) != "compile-error" && got != want:
					violateKeyed(r, Violation{What: "the program compiled from the patched tree does not behave like the written-out patched expression (code generated from a stale type)",
						Key: "c10:patched-tree-not-rechecked:stale-type:" + sp.name, Input: input, Expect: want, Got: got})
				}
			}
		}
		// the root replaced under AsBool(): `X > 0` (bool) -> identifier of another type
		for _, to := range []string{"Str", "I64", "B", "Any"} {
			want := run(to, expr.AsBool(), expr.Optimize(opt))
			got := run("X > 0", expr.AsBool(), expr.Patch(&replaceOnExit{to: to, root: true}), expr.Optimize(opt))
			n++
			r.Case(fmt.Sprintf("recheck|root-asbool|%s|%v", to, opt), true)
			if cls(want) != cls(got) || (cls(want) == "ok" && want != got) {
				violateKeyed(r, Violation{What: "the root replaced by a visitor is not re-checked against AsBool()",
					Key: "c10:patched-tree-not-rechecked:root-asbool", Input: map[string]interface{}{"source": "X > 0", "options": "AsBool()", "visitor": "Exit: root BinaryNode -> IdentifierNode " + to, "optimize": opt},
					Expect: want, Got: got})
			}
		}
	}
	r.Count("recheck-cases", n)
}

// decode makes the hex message inside an outcome readable for the report
func decode(s string) string {
	x, err := ParseSx(s)
	if err != nil || len(x.List) < 2 {
		return s
	}
	return x.Tag() + ": " + x.List[1].Str()
}

func init() { props["C10"] = runC10 }
