package main

// The real library's pipeline, stage by stage (mirrors expr.Compile), so that every stage boundary
// can be compared with the Lean model.

import (
	"fmt"
	"reflect"
	"strings"
	"time"

	"github.com/antonmedv/expr"
	"github.com/antonmedv/expr/checker"
	"github.com/antonmedv/expr/compiler"
	"github.com/antonmedv/expr/conf"
	"github.com/antonmedv/expr/file"
	"github.com/antonmedv/expr/optimizer"
	"github.com/antonmedv/expr/parser"
	"github.com/antonmedv/expr/vm"
)

type Mode struct {
	Env      string // "none" (Eval-like: no checker), "struct", "map"
	Optimize bool
	Cast     string // "", "int64", "float64", "bool"
}

func (m Mode) String() string { return fmt.Sprintf("%s/opt=%v/cast=%s", m.Env, m.Optimize, m.Cast) }

type Built struct {
	Src      string
	Mode     Mode
	Tree     *parser.Tree // tree handed to compiler.Compile (after check / optimize)
	TreeSx   string       // its serialisation with type kinds, taken BEFORE compilation
	Program  *vm.Program
	Err      error
	Stage    string // stage at which Err occurred
	Panicked bool
}

func (m Mode) config(env *Env) *conf.Config {
	if m.Env == "none" {
		return nil
	}
	var c *conf.Config
	if m.Env == "map" {
		c = conf.New(env.AsMap())
	} else {
		c = conf.New(env)
	}
	c.Optimize = m.Optimize
	c.Operators = conf.OperatorsTable{}
	switch m.Cast {
	case "int64":
		c.Expect = reflect.Int64
	case "float64":
		c.Expect = reflect.Float64
	case "bool":
		c.Expect = reflect.Bool
	}
	return c
}

func (m Mode) options(env *Env) []expr.Option {
	var ops []expr.Option
	switch m.Env {
	case "struct":
		ops = append(ops, expr.Env(env))
	case "map":
		ops = append(ops, expr.Env(env.AsMap()))
	}
	ops = append(ops, expr.Optimize(m.Optimize))
	switch m.Cast {
	case "int64":
		ops = append(ops, expr.AsInt64())
	case "float64":
		ops = append(ops, expr.AsFloat64())
	case "bool":
		ops = append(ops, expr.AsBool())
	}
	return ops
}

// BuildReal runs parse → check → optimize → compile with the real packages.
func BuildReal(src string, m Mode, env *Env) (b *Built) {
	b = &Built{Src: src, Mode: m}
	defer func() {
		if r := recover(); r != nil {
			b.Panicked = true
			b.Err = fmt.Errorf("PANIC: %v", r)
		}
	}()
	b.Stage = "parse"
	tree, err := parser.Parse(src)
	if err != nil {
		b.Err = err
		return
	}
	cfg := m.config(env)
	if cfg != nil {
		b.Stage = "check"
		if _, err := checker.Check(tree, cfg); err != nil {
			b.Err = err
			return
		}
		// expr.Compile: PatchOperators (no operators here), visitors (none), second Check
		if _, err := checker.Check(tree, cfg); err != nil {
			b.Err = err
			return
		}
		if cfg.Optimize {
			b.Stage = "optimize"
			if err := optimizer.Optimize(&tree.Node, cfg); err != nil {
				if fe, ok := err.(*file.Error); ok {
					err = fe.Bind(tree.Source)
				}
				b.Err = err
				return
			}
		}
	}
	b.Tree = tree
	b.TreeSx = nodeSx(tree.Node, true).String()
	b.Stage = "compile"
	p, err := compiler.Compile(tree, cfg)
	if err != nil {
		b.Err = err
		return
	}
	b.Program = p
	b.Stage = "done"
	return
}

func (m Mode) cfgSx() *Sx {
	cast := "_"
	if m.Env != "none" && (m.Cast == "int64" || m.Cast == "float64") {
		cast = m.Cast
	}
	return T("cfg", SBool(m.Env == "map"), A(cast))
}

// RunOutcome is the canonical rendering of one real run.
type RunOutcome struct {
	Val      interface{}
	Err      error
	Class    string
	Line     int
	Col      int
	StackLen int
	Scopes   int
	Memory   int
	Log      []string
	Timeout  bool
}

func classifyRunErr(err error) string {
	msg := err.Error()
	switch {
	case strings.Contains(msg, "memory budget exceeded"):
		return "budget"
	case strings.Contains(msg, "divide by zero"):
		return "divzero"
	case strings.Contains(msg, "index out of range [-1]") && strings.Contains(msg, "runtime error"):
		// could be a pop of an empty stack; the harness separates it by Stack() below
		return "index"
	case strings.Contains(msg, "out of range"), strings.Contains(msg, "out of bounds"):
		return "index"
	case strings.Contains(msg, "env function failed"):
		return "call"
	}
	return "type"
}

// RunReal runs a program on a caller-owned VM under recover and a deadline.
func RunReal(machine *vm.VM, p *vm.Program, envVal interface{}, env *Env) *RunOutcome {
	out := &RunOutcome{}
	done := make(chan struct{})
	if env != nil {
		env.ResetLog()
	}
	go func() {
		defer close(done)
		defer func() {
			if r := recover(); r != nil {
				out.Err = fmt.Errorf("PANIC-ESCAPED: %v", r)
				out.Class = "panic-escaped"
			}
		}()
		v, err := machine.Run(p, envVal)
		out.Val, out.Err = v, err
	}()
	select {
	case <-done:
	case <-time.After(20 * time.Second):
		out.Timeout = true
		out.Class = "timeout"
		return out
	}
	if out.Err != nil && out.Class == "" {
		out.Class = classifyRunErr(out.Err)
		if fe, ok := out.Err.(*file.Error); ok {
			out.Line, out.Col = fe.Line, fe.Column
		}
	}
	out.StackLen = len(machine.Stack())
	out.Scopes = machine.ScopeDepth()
	out.Memory = machine.Memory()
	if env != nil {
		out.Log = env.Log()
	}
	return out
}
