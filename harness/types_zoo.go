package main

// The type zoo: environment types for the name-resolution (C16) and typing (C03) properties.
// Struct shapes with embedded structs by value and by pointer, shadowing at depths 1-3, genuine
// ambiguity, unexported members, methods on value and pointer receivers (declared and promoted),
// func-typed members, typed and untyped maps, nested members; plus reflect.StructOf shapes.

import (
	"fmt"
	"math/rand"
	"reflect"
)

// ---- building blocks ------------------------------------------------------------------------

type ZA struct {
	X int
	Y string
}
type ZB struct {
	X float64
	Z bool
}
type ZDeep struct {
	X string
	W int
}
type ZMid struct {
	ZDeep
	V int
}
type ZMidP struct {
	*ZDeep
	V uint8
}
type ZTop struct {
	ZMid
	U int
}
type ZC struct {
	ZA int // a field named like an embedded type elsewhere
}
type zhidden struct {
	Pub  int
	priv int
}
type ZMyInt int
type ZMyStr string

// methods on building blocks (promoted when embedded)
type ZMethV struct{ N int }

func (z ZMethV) ValM(i int) int        { return z.N + i }
func (z *ZMethV) PtrM(s string) string { return s }

type ZMethW struct{ K string }

func (z ZMethW) ValM(i int) int { return i } // clashes with ZMethV.ValM when both embedded
func (z ZMethW) OnlyW() string  { return z.K }

type ZFieldValM struct {
	ValM int // a field named like ZMethV's method
	Foo  int
}

type ZStringer interface {
	Str() string
}
type zstr struct{}

func (zstr) Str() string { return "zstr" }

// ---- environments ---------------------------------------------------------------------------

// outer field declared before an embedded struct with the same field
type EnvShadowBefore struct {
	X int
	ZA
}

// outer field declared after it
type EnvShadowAfter struct {
	ZA
	X int
}

// genuine ambiguity at depth 1
type EnvAmbig struct {
	ZA
	ZB
}

// X at depth 1 (ZB) and at depth 2 (ZMid.ZDeep): Go resolves ZB.X
type EnvDepth struct {
	ZMid
	ZB
}
type EnvDepthRev struct {
	ZB
	ZMid
}

// depth 3: X only through ZTop.ZMid.ZDeep; own field Name
type EnvDepth3 struct {
	ZTop
	Name string
}

// ambiguity at depth 2 (ZMid.ZDeep.X vs ZMidP.ZDeep.X, V at depth 1 twice)
type EnvAmbigDeep struct {
	ZMid
	ZMidP
}

// embedded by pointer
type EnvPtrEmb struct {
	*ZA
	Q int
}

// embedded type whose name equals a field of another embedded struct, both orders
type EnvNameClashA struct {
	ZA
	ZC
}
type EnvNameClashB struct {
	ZC
	ZA
}

// unexported members; unexported embedded struct with an exported field
type EnvUnexported struct {
	priv int
	Pub2 string
	zhidden
}

// embedded non-struct defined types
type EnvEmbScalar struct {
	ZMyInt
	ZMyStr
	Flag bool
}

// methods declared on the environment (value and pointer receivers)
type EnvMeth struct {
	Base int
}

func (e EnvMeth) Add(a, b int) int                   { return a + b + e.Base }
func (e *EnvMeth) PtrOnly(s string) string           { return s }
func (e EnvMeth) Var(xs ...int) int                  { return len(xs) }
func (e EnvMeth) NoResult()                          {}
func (e EnvMeth) Two() (int, error)                  { return 1, nil }
func (e EnvMeth) Fast(xs ...interface{}) interface{} { return len(xs) }

// promoted methods: by value, by pointer; clash between two embedded; method vs field of an embedded
type EnvPromV struct {
	ZMethV
	Own int
}
type EnvPromP struct {
	*ZMethV
	Own int
}
type EnvMethClash struct {
	ZMethV
	ZMethW
}
type EnvMethVsField struct {
	ZMethV
	ZFieldValM
}

// a method declared on the environment shadows a promoted field of the same name
type EnvMethShadowsField struct {
	ZFieldValM
}

func (EnvMethShadowsField) Foo() string { return "method" }

// embedded interface
type EnvEmbIface struct {
	ZStringer
	Tag string
}

// function-typed members
type EnvFuncs struct {
	F     func(int) int
	S     func(string) string
	G     func(...interface{}) interface{}
	V     func(string, ...int) int
	None  func()
	Two   func() (int, int)
	h     func() int
	IFn   interface{}     // holds a func(int) int
	PF    *func(int) int  // pointer to a function: the checker dereferences, so must FetchFn
	PPF   **func(int) int // two levels
	NilPF *func(int) int  // nil pointer: accepted; calling it is a value-dependent failure
	PIFn  *interface{}    // pointer to an interface holding a func(int) int
	Inner struct {
		Fn func(string) string
		N  int
	}
}

// protobuf-style bookkeeping fields (docgen leaves `XXX_…` out of the fields of a documented type)
type ZProto struct {
	Name             string
	XXX_unrecognized []byte
	XXX_sizecache    int32
}

func (ZProto) XXX_Size() int { return 0 }
func (ZProto) Size() int     { return 0 }

// ... and at the top level of an environment
type EnvProto struct {
	Name             string
	XXX_unrecognized []byte
	Pb               ZProto
	PPb              *ZProto
}

func (EnvProto) XXX_Merge(i int) int { return i }

// nested members
type EnvNested struct {
	A     EnvDepth
	B     EnvAmbig
	C     EnvShadowBefore
	P     *ZMid
	PP    **ZA
	PM    *map[string]int
	M     map[string]ZA
	MI    map[int]string
	MS    map[ZMyStr]int
	MA    map[string]interface{}
	I     interface{}
	S     []ZA
	Str   string
	MV    EnvPromV
	MP    *EnvPromV
	MC    EnvMethClash
	U     EnvUnexported
	Fn    EnvFuncs
	MIF   map[int]func(int) int // key type not a string: MIF.foo(1) is no method call the checker may accept
	MBF   map[bool]func(int) int
	MIf   map[interface{}]int // key type interface{}: a string constant is a usable key (MIf.k)
	MSg   map[ZStringer]int   // key type a non-empty interface: it is not
	Pb    ZProto
	PFn   *EnvFuncs  // function-typed fields behind a pointer: PFn.F(1)
	PPFn  **EnvFuncs // two and three pointer levels: FetchFn follows one
	PPPFn ***EnvFuncs
	PPM   **map[string]func(int) int
	Sg    ZStringer // a non-empty interface: Sg.String() has no receiver parameter
}

// recursive type
type EnvRec struct {
	Name string
	Next *EnvRec
	Kids []EnvRec
}

// every scalar kind (C03)
// two embedded structs with the same field at the same depth: `Amb` is ambiguous in EnvScalars
type ZAmb1 struct{ Amb int }
type ZAmb2 struct{ Amb int }

// a defined func type of the "fast" shape
type ZNamedFast func(...interface{}) interface{}

type EnvScalars struct {
	ZAmb1
	ZAmb2
	I    int
	I8   int8
	I16  int16
	I32  int32
	I64  int64
	U    uint
	U8   uint8
	U16  uint16
	U32  uint32
	U64  uint64
	F32  float32
	F64  float64
	B    bool
	Str  string
	Any  interface{}
	Ints []int
	Strs []string
	Fls  []float64
	Anys []interface{}
	Arr  [3]int
	MSI  map[string]int
	MII  map[int]int
	St   ZA
	PSt  *ZA
	Sts  []ZA
	My   ZMyInt
	Fi   func(int) int
	Fs   func(string) string
	Ff   func(float64) float64
	Fv   func(string, ...int) int
	Fa   func(interface{}) interface{}
	Fb   func(bool, int64) bool
	Fx   func(...interface{}) interface{} // the shape of a "fast" function
	Fy   func(...interface{}) int         // variadic over interface{}, but not fast (result type)
	Fn   func()                           // no result
	F2   func() (int, int)                // two results
	Nf   ZNamedFast                       // named func type of the fast shape: not fast
	Fe   func(...interface{}) error       // result of interface kind, but not interface{}: not fast
	Fg   func(...ZStringer) interface{}   // variadic over a non-empty interface: not fast
	MIF  map[int]func(int) int            // a map whose key type is not a string, holding functions
	MIK  map[int]string
	PI   *int // pointers to scalars: the checker dereferences operand types
	PF64 *float64
	PStr *string
	NPI  *int           // nil
	PFi  *func(int) int // pointer to a function
	PS   *[]int         // pointer to a slice
	PA   *[3]int        // pointer to an array
	PPSt **ZA           // two pointer levels
	PPFn **EnvFuncs     // method-call syntax on a func-typed field through two pointer levels
	PPM  **map[string]func(int) int
	Sg   ZStringer // a non-empty interface ...
	Zs   zstr      // ... and a type implementing it (assignable one way only)
}

func (EnvScalars) Mi(a int, b string) int           { return a + len(b) }
func (EnvScalars) Ms(s string) string               { return s }
func (EnvScalars) Mx(xs ...interface{}) interface{} { return len(xs) } // a "fast" method
func (*EnvScalars) Mp(f float64) float64            { return f }

// defined map type with a method
type EnvNamedMap map[string]interface{}

func (EnvNamedMap) Size() int { return 0 }

type zooEnv struct {
	Name string
	Val  interface{} // the fully populated environment value (struct, *struct or map)
}

func init() {
	ifaceImpls[reflect.TypeOf((*ZStringer)(nil)).Elem()] = zstr{}
}

func popIface(x interface{}) interface{} {
	p := reflect.New(reflect.TypeOf(x))
	fill(p.Elem(), 0)
	zooSpecial(p.Elem())
	return p.Elem().Interface()
}

func popPtr(x interface{}) interface{} {
	p := reflect.New(reflect.TypeOf(x))
	fill(p.Elem(), 0)
	zooSpecial(p.Elem())
	return p.Interface()
}

// zooSpecial: fields named IFn (interface{}) hold a function.
func zooSpecial(v reflect.Value) {
	if v.Kind() != reflect.Struct {
		return
	}
	for i := 0; i < v.NumField(); i++ {
		f := v.Field(i)
		if v.Type().Field(i).Name == "IFn" && f.CanSet() {
			f.Set(reflect.ValueOf(func(i int) int { return i + 1 }))
		} else if (v.Type().Field(i).Name == "NilPF" || v.Type().Field(i).Name == "NPI") && f.CanSet() {
			f.Set(reflect.Zero(f.Type()))
		} else if v.Type().Field(i).Name == "PIFn" && f.CanSet() {
			var fn interface{} = func(i int) int { return i + 1 }
			f.Set(reflect.ValueOf(&fn))
		} else if f.Kind() == reflect.Struct {
			zooSpecial(f)
		}
	}
}

// zooEnvs lists the environments: every struct shape by value and by pointer, then the maps.
// zooShapes: the declared struct environments (each is used by value and by pointer)
func zooShapes() []interface{} {
	return []interface{}{
		EnvShadowBefore{}, EnvShadowAfter{}, EnvAmbig{}, EnvDepth{}, EnvDepthRev{}, EnvDepth3{}, EnvAmbigDeep{},
		EnvPtrEmb{}, EnvNameClashA{}, EnvNameClashB{}, EnvUnexported{}, EnvEmbScalar{}, EnvMeth{}, EnvPromV{}, EnvPromP{},
		EnvMethClash{}, EnvMethVsField{}, EnvMethShadowsField{}, EnvEmbIface{}, EnvFuncs{}, EnvNested{}, EnvRec{}, EnvProto{}, EnvScalars{},
	}
}

func zooEnvs(rng *rand.Rand, nRandom int) []zooEnv {
	var out []zooEnv
	shapes := zooShapes()
	for _, s := range shapes {
		n := reflect.TypeOf(s).Name()
		out = append(out, zooEnv{n, popIface(s)})
		out = append(out, zooEnv{"*" + n, popPtr(s)})
	}
	// maps
	fInt := func(i int) int { return i + 1 }
	out = append(out,
		zooEnv{"map[string]interface{}", map[string]interface{}{
			"a": 1, "s": "x", "f": fInt, "st": popIface(EnvDepth{}), "pst": popPtr(EnvAmbig{}), "nilv": nil,
			"m": map[string]interface{}{"k": 1}, "Fast": func(xs ...interface{}) interface{} { return len(xs) },
			"pf": &fInt, "fns": popIface(EnvFuncs{}),
		}},
		zooEnv{"map[string]*func(int)int", map[string]*func(int) int{"pf": &fInt}},
		zooEnv{"map[string]int", map[string]int{"a": 1, "b": 2}},
		zooEnv{"map[string]ZA", map[string]ZA{"za": {1, "y"}}},
		zooEnv{"map[string]func(int)int", map[string]func(int) int{"f": fInt}},
		zooEnv{"map[ZMyStr]int", map[ZMyStr]int{"a": 1}},
		zooEnv{"map[int]string", map[int]string{1: "a"}},
		zooEnv{"map[interface{}]interface{}", map[interface{}]interface{}{"a": 1, 2: "b"}},
		zooEnv{"EnvNamedMap", EnvNamedMap{"a": 1, "f": fInt}},
	)
	for i := 0; i < nRandom; i++ {
		t := randomStructType(rng, 3)
		out = append(out, zooEnv{fmt.Sprintf("structof#%d", i), populate(t, 0).Interface()})
	}
	return out
}

// randomStructType builds a method-less struct shape with reflect.StructOf: field names from a small
// alphabet (so that clashes at several depths are frequent), embedded structs by value.
// (reflect.StructOf does not support embedded pointers to structs with promoted fields reliably nor
// unexported fields without a package path, so those are covered by the declared zoo above.)
func randomStructType(rng *rand.Rand, depth int) reflect.Type {
	names := []string{"X", "Y", "Z", "W"}
	leaf := []reflect.Type{reflect.TypeOf(0), reflect.TypeOf(""), reflect.TypeOf(1.5), reflect.TypeOf(true), reflect.TypeOf(uint8(0))}
	embNames := []string{"EA", "EB", "EC"}
	for try := 0; ; try++ {
		var fields []reflect.StructField
		used := map[string]bool{}
		n := 1 + rng.Intn(4)
		for i := 0; i < n; i++ {
			if depth > 0 && rng.Intn(3) == 0 {
				en := embNames[rng.Intn(len(embNames))]
				if used[en] {
					continue
				}
				used[en] = true
				fields = append(fields, reflect.StructField{Name: en, Type: randomStructType(rng, depth-1), Anonymous: true})
			} else {
				fn := names[rng.Intn(len(names))]
				if used[fn] {
					continue
				}
				used[fn] = true
				fields = append(fields, reflect.StructField{Name: fn, Type: leaf[rng.Intn(len(leaf))]})
			}
		}
		if len(fields) == 0 {
			continue
		}
		var t reflect.Type
		func() {
			defer func() { recover() }()
			t = reflect.StructOf(fields)
		}()
		if t != nil {
			return t
		}
		if try > 20 {
			return reflect.TypeOf(struct{ X int }{})
		}
	}
}
