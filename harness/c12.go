package main

// C12 — literals and token positions are lexed faithfully.
//
// Correspondence (Mismatch): the Lean model `lex` (run with the tables the translator regenerated from the
// source and with the `unicode` range tables of this Go toolchain) against lexer.Lex(file.NewSource(src)):
// kind, value, line, column of every token, or the position and class of the error; the model's
// `parseNumber` against what parser.Parse makes of a Number token; the range tables against unicode.Is*.
// Because the driver's character classes are the toolchain's own tables, inputs may contain any rune.
//
// Property oracle (Violate), on the real code alone:
//  (a) a string value spelled character by character (raw / named escape / \x / \u / \U / octal) parses
//      to a StringNode holding exactly that value;
//  (b) an integer 0 ≤ n < 2^63 in each spelling parses to IntegerNode n;
//  (c) a finite float formatted by strconv parses to the FloatNode strconv.ParseFloat gives for that text;
//  (d) tokens laid out with arbitrary white space carry the (line, column) of their first rune, computed
//      here by counting runes and line feeds.

import (
	"fmt"
	"math"
	"strconv"
	"strings"
	"unicode"
	"unicode/utf8"

	"github.com/antonmedv/expr/ast"
	"github.com/antonmedv/expr/file"
	"github.com/antonmedv/expr/parser"
	"github.com/antonmedv/expr/parser/lexer"
)

func c12ErrClass(msg string) string {
	switch {
	case strings.HasPrefix(msg, "literal not terminated"):
		return "unterminated"
	case strings.HasPrefix(msg, "invalid char escape"):
		return "escape"
	case strings.HasPrefix(msg, "unable to unescape"):
		return "unescape"
	case strings.HasPrefix(msg, "bad number syntax"):
		return "badnumber"
	case strings.HasPrefix(msg, "unrecognized character"):
		return "unrecognized"
	}
	return "other:" + msg
}

// realLex renders the outcome of the real lexer in the model's response format.
func realLex(src string) (out string, toks []lexer.Token) {
	defer func() {
		if r := recover(); r != nil {
			out = fmt.Sprintf("(panic %q)", fmt.Sprint(r))
		}
	}()
	ts, err := lexer.Lex(file.NewSource(src))
	if err != nil {
		if fe, ok := err.(*file.Error); ok {
			return fmt.Sprintf("(err %d %d %s)", fe.Line, fe.Column, c12ErrClass(fe.Message)), nil
		}
		return "(err -1 -1 " + err.Error() + ")", nil
	}
	return tokensSx(ts).String(), ts
}

type c12Parsed struct {
	kind string // int, float, string, other, err
	i    int
	f    float64
	s    string
	msg  string
	loc  file.Location
}

func realParseLiteral(src string) (p c12Parsed) {
	defer func() {
		if r := recover(); r != nil {
			p = c12Parsed{kind: "err", msg: "panic: " + fmt.Sprint(r)}
		}
	}()
	tree, err := parser.Parse(src)
	if err != nil {
		return c12Parsed{kind: "err", msg: err.Error()}
	}
	switch n := tree.Node.(type) {
	case *ast.IntegerNode:
		return c12Parsed{kind: "int", i: n.Value, loc: n.Location()}
	case *ast.FloatNode:
		return c12Parsed{kind: "float", f: n.Value, loc: n.Location()}
	case *ast.StringNode:
		return c12Parsed{kind: "string", s: n.Value, loc: n.Location()}
	}
	return c12Parsed{kind: "other", msg: fmt.Sprintf("%T", tree.Node)}
}

func (p c12Parsed) String() string {
	switch p.kind {
	case "int":
		return fmt.Sprintf("int %d", p.i)
	case "float":
		return fmt.Sprintf("float bits=%#x (%v)", math.Float64bits(p.f), p.f)
	case "string":
		return fmt.Sprintf("string %q", p.s)
	case "err":
		return "error: " + firstLine(p.msg)
	}
	return p.kind + " " + p.msg
}

func firstLine(s string) string {
	if i := strings.IndexByte(s, '\n'); i >= 0 {
		return s[:i]
	}
	return s
}

// ---------------------------------------------------------------- generators

func c12Words(alpha []string, maxLen int) []string {
	out := []string{""}
	level := []string{""}
	for l := 1; l <= maxLen; l++ {
		var next []string
		for _, w := range level {
			for _, a := range alpha {
				next = append(next, w+a)
			}
		}
		out = append(out, next...)
		level = next
	}
	return out
}

var c12Spaces = []string{" ", " ", " ", "\t", "\n", "\n", "\r", "\r\n", "\v", "\f", "\u00a0", "\u0085", "\u2003", "\u2028", "\u3000", "  ", " \n "}

var c12InterestingRunes = []rune{
	0, 1, 7, 8, 9, 10, 11, 12, 13, 27, 31, ' ', '!', '"', '#', '$', '\'', '0', '7', '8', '9', 'A', 'F', 'G', 'U', 'X', '\\', '_', '`', 'a', 'b', 'e', 'f', 'n', 'r', 't', 'u', 'v', 'x', 'z', '?', 127,
	0x80, 0x85, 0xa0, 0xe9, 0xff, 0x100, 0x3b1, 0x7ff, 0x800, 0x2028, 0x3000, 0xd7ff, 0xe000, 0xfeff, 0xfffd, 0xffff, 0x10000, 0x1d4b3, 0x1f600, 0x10ffff,
}

func (c *Ctx) c12Rune() rune {
	switch c.Rng.Intn(6) {
	case 0, 1:
		return c12InterestingRunes[c.Rng.Intn(len(c12InterestingRunes))]
	case 2:
		return rune(c.Rng.Intn(128))
	case 3:
		return rune(0x80 + c.Rng.Intn(0x800))
	default:
		for {
			r := rune(c.Rng.Intn(0x110000))
			if r < 0xd800 || r > 0xdfff {
				return r
			}
		}
	}
}

const (
	spRaw = iota
	spNamed
	spX
	spU4
	spU8
	spOct
	spCount
)

var spName = []string{"raw", "named", "x", "u", "U", "octal"}

var c12Named = map[rune]byte{7: 'a', 8: 'b', 12: 'f', 10: 'n', 13: 'r', 9: 't', 11: 'v', '\\': '\\'}

// spell renders one rune of a string value inside a literal quoted by q; ok=false when that spelling
// is not available for the rune.
func c12Spell(r rune, q rune, sp int, upperHex bool) (string, bool) {
	hexf := func(w int) string {
		s := fmt.Sprintf("%0*x", w, r)
		if upperHex {
			s = strings.ToUpper(s)
		}
		return s
	}
	switch sp {
	case spRaw:
		if r == q || r == '\\' || r == '\n' || r == '\r' {
			return "", false
		}
		return string(r), true
	case spNamed:
		if r == q {
			return "\\" + string(q), true
		}
		if b, ok := c12Named[r]; ok {
			return "\\" + string(rune(b)), true
		}
		return "", false
	case spX:
		if r > 0xff {
			return "", false
		}
		return "\\x" + hexf(2), true
	case spU4:
		if r > 0xffff {
			return "", false
		}
		return "\\u" + hexf(4), true
	case spU8:
		return "\\U" + hexf(8), true
	case spOct:
		if r > 0xff {
			return "", false
		}
		return fmt.Sprintf("\\%03o", r), true
	}
	return "", false
}

func (c *Ctx) c12RenderString(val []rune, q rune) (string, []int) {
	var b strings.Builder
	b.WriteRune(q)
	sps := make([]int, len(val))
	for i, r := range val {
		for {
			sp := c.Rng.Intn(spCount)
			if s, ok := c12Spell(r, q, sp, c.Rng.Intn(2) == 0); ok {
				b.WriteString(s)
				sps[i] = sp
				break
			}
		}
	}
	b.WriteRune(q)
	return b.String(), sps
}

// random source text biased towards the lexer's interesting transitions
func (c *Ctx) c12RandomSource() string {
	atoms := []string{"a", "ab1", "_x", "$", "é", "日本", "𝒳", "٣", "x٣", "not", "in", "not in", "not  in", "not\tin", "not in(", "notin", "or", "and", "matches", "contains",
		"startsWith", "endsWith", "0", "1", "42", "1_000", "0x1f", "0xE", "0X1F", "0b101", "0o17", "1.5", "1..2", ".5", "1e5", "1e+5", "1E-5", "1.e5", "0x", "1a", "1.2.3", "1e", "0e0", "9_", "1__2",
		"\"s\"", "'s'", "\"a\\nb\"", "'\\''", "\"\\\"\"", "\"\\x41\"", "\"\\u00e9\"", "\"\\U0001F600\"", "\"\\101\"", "\"é\"", "\"\\400\"", "\"\\'\"", "\"\\q\"", "\"\\x4\"", "\"abc", "'\\", "\"a\rb\"", "\"a\r\nb\"",
		"+", "-", "*", "/", "%", "**", "==", "!=", "<=", ">=", "<", ">", "&&", "||", "!", "=", "&", "|", "?", ":", "?.", "?:", "??", ".", "..", "...", "?..", ",", "#", "(", ")", "[", "]", "{", "}", "@", "~", "^", ";", "`", "\\"}
	n := 1 + c.Rng.Intn(7)
	var b strings.Builder
	for i := 0; i < n; i++ {
		switch c.Rng.Intn(10) {
		case 0, 1, 2:
			b.WriteString(c12Spaces[c.Rng.Intn(len(c12Spaces))])
		case 3:
			b.WriteRune(c.c12Rune())
		default:
			b.WriteString(atoms[c.Rng.Intn(len(atoms))])
		}
		if c.Rng.Intn(3) == 0 {
			b.WriteString(c12Spaces[c.Rng.Intn(len(c12Spaces))])
		}
	}
	s := b.String()
	if !utf8.ValidString(s) {
		return strings.ToValidUTF8(s, "?")
	}
	return s
}

func (c *Ctx) c12RandomLiteralSource() string {
	// a string literal with arbitrary (also malformed) escapes
	q := []rune{'"', '\''}[c.Rng.Intn(2)]
	pieces := []string{"\\a", "\\b", "\\f", "\\n", "\\r", "\\t", "\\v", "\\\\", "\\'", "\\\"", "\\`", "\\?", "\\x", "\\X41", "\\x4", "\\x41", "\\xe9", "\\xFF", "\\xg1", "\\u00e9", "\\u12", "\\uD800", "\\uFFFF",
		"\\U0001F600", "\\U00110000", "\\U0010FFFF", "\\UFFFFFF41", "\\U80000000", "\\U8000004", "\\0", "\\00", "\\000", "\\101", "\\377", "\\400", "\\777", "\\08", "\\8", "\\1é", "\\é", "\\", "\r", "\r\n", "\n", "\t", "é", "𝒳", "a", "0", " ", "'", "\""}
	var b strings.Builder
	b.WriteRune(q)
	n := c.Rng.Intn(5)
	for i := 0; i < n; i++ {
		if c.Rng.Intn(5) == 0 {
			b.WriteRune(c.c12Rune())
		} else {
			b.WriteString(pieces[c.Rng.Intn(len(pieces))])
		}
	}
	if c.Rng.Intn(8) != 0 {
		b.WriteRune(q)
	}
	if c.Rng.Intn(3) == 0 {
		b.WriteString([]string{" ", "x", "\"", "+1", "\n"}[c.Rng.Intn(5)])
	}
	return strings.ToValidUTF8(b.String(), "?")
}

func c12Underscores(c *Ctx, digits string) string {
	var b strings.Builder
	for i, ch := range digits {
		b.WriteRune(ch)
		if i < len(digits)-1 || c.Rng.Intn(4) == 0 {
			switch c.Rng.Intn(4) {
			case 0:
				b.WriteByte('_')
			case 1:
				if c.Rng.Intn(4) == 0 {
					b.WriteString("__")
				}
			}
		}
	}
	return b.String()
}

func c12MixCase(c *Ctx, s string) string {
	bs := []byte(s)
	for i := range bs {
		if c.Rng.Intn(2) == 0 {
			bs[i] = byte(unicode.ToUpper(rune(bs[i])))
		}
	}
	return string(bs)
}

type c12IntSpelling struct {
	name, text string
}

func c12IntSpellings(c *Ctx, n uint64) []c12IntSpelling {
	dec := strconv.FormatUint(n, 10)
	hx := strconv.FormatUint(n, 16)
	out := []c12IntSpelling{
		{"decimal", dec},
		{"decimal-underscore", c12Underscores(c, dec)},
		{"decimal-leading-zero", "00" + dec},
		{"hex-lower", "0x" + hx},
		{"hex-upper", "0x" + strings.ToUpper(hx)},
		{"hex-mixed", "0x" + c12MixCase(c, hx)},
		{"hex-underscore", "0x" + c12Underscores(c, hx)},
		{"hex-leading-zero", "0x00" + hx},
		{"hex-capital-prefix", "0X" + strings.ToUpper(hx)},
		{"hex-capital-prefix-lower", "0X" + hx},
	}
	return out
}

// independent position of rune index k in src
func c12Pos(rs []rune, k int) (int, int) {
	line, col := 1, 0
	for i := 0; i < k; i++ {
		if rs[i] == '\n' {
			line++
			col = 0
		} else {
			col++
		}
	}
	return line, col
}

type c12Tok struct {
	text  string // raw text
	kind  lexer.Kind
	value string
	glue  int // 0 = needs white space on both sides, 1 = bracket-like (never merges)
}

func (c *Ctx) c12LayoutTokens() []c12Tok {
	idents := []string{"a", "foo", "_x1", "$v", "é", "日本語", "𝒳y", "x٣", "nota", "inn", "Not"}
	ops := []string{"+", "-", "*", "/", "%", "**", "==", "!=", "<", ">", "<=", ">=", "&&", "||", "!", "?", ":", "?.", "..", ".", ",", "#", "in", "or", "and", "not", "matches", "contains", "startsWith", "endsWith"}
	nums := []string{"0", "7", "42", "1_000", "0x1f", "0b11", "1.5", "1e5", "1E+5", ".5", "0x_a"}
	brs := []string{"(", ")", "[", "]", "{", "}"}
	n := 1 + c.Rng.Intn(9)
	var out []c12Tok
	for i := 0; i < n; i++ {
		switch c.Rng.Intn(7) {
		case 0:
			s := idents[c.Rng.Intn(len(idents))]
			out = append(out, c12Tok{s, lexer.Identifier, s, 0})
		case 1:
			s := ops[c.Rng.Intn(len(ops))]
			out = append(out, c12Tok{s, lexer.Operator, s, 0})
		case 2:
			s := nums[c.Rng.Intn(len(nums))]
			out = append(out, c12Tok{s, lexer.Number, s, 0})
		case 3:
			s := brs[c.Rng.Intn(len(brs))]
			out = append(out, c12Tok{s, lexer.Bracket, s, 1})
		case 4:
			// not in with one or more blanks inside
			// (the word `in` must be followed by a blank or the end of input for the two words to merge)
			if c11AnySpace {
				// fixed acceptWord: any white space between the words, nothing special after `in`
				out = append(out, c12Tok{"not" + c.c12WS(1) + "in", lexer.Operator, "not in", 0})
				c.R.Count("layout:not-in-any-space", 1)
			} else {
				out = append(out, c12Tok{"not" + strings.Repeat(" ", 1+c.Rng.Intn(3)) + "in ", lexer.Operator, "not in", 0})
			}
		default:
			m := c.Rng.Intn(5)
			val := make([]rune, m)
			for j := range val {
				val[j] = c.c12Rune()
			}
			q := []rune{'"', '\''}[c.Rng.Intn(2)]
			lit, _ := c.c12RenderString(val, q)
			out = append(out, c12Tok{lit, lexer.String, string(val), 1})
		}
	}
	return out
}

func (c *Ctx) c12WS(min int) string {
	n := min
	if c.Rng.Intn(2) == 0 {
		n += c.Rng.Intn(4)
	}
	var b strings.Builder
	for i := 0; i < n; i++ {
		b.WriteString(c12Spaces[c.Rng.Intn(len(c12Spaces))])
	}
	return b.String()
}

// ---------------------------------------------------------------- the run

func runC12(c *Ctx) {
	r := c.R
	r.Rule = "correspondence lex/parseNumber vs the real lexer+parser on: all words up to length 4 (5 thorough) over three alphabets of lexically interesting characters, random token soups with random white space and arbitrary runes, string literals with well- and ill-formed escapes, integer spellings, float formattings; oracle (a) random string values x random spelling per character, (b) boundary+random ints x 10 spellings, (c) finite floats x e/E/f/g shortest+fixed, (d) token sequences under random layout vs independently counted positions; non-trivial = the input has more than one token or a literal; distinct by input text"
	scale := 1
	if c.Thorough() {
		scale = 8
	}
	c11InitAcceptWord(c)

	// ---------------- correspondence: lex
	var srcs []string
	seen := map[string]bool{}
	add := func(s string) {
		if !seen[s] {
			seen[s] = true
			srcs = append(srcs, s)
		}
	}
	wl := 4
	if c.Thorough() {
		wl = 5
	}
	alphaNum := []string{"0", "1", "9", "x", "X", "e", "E", ".", "_", "+", "a", "f", "b", "o", " "}
	alphaStr := []string{"\"", "'", "\\", "n", "x", "u", "U", "0", "3", "7", "8", "a", "\r", "\n", "é"}
	alphaOp := []string{"n", "o", "t", "i", " ", "\t", "\n", "?", ".", "&", "=", "!", "(", "a", "1"}
	for _, a := range [][]string{alphaNum, alphaStr, alphaOp} {
		for _, w := range c12Words(a, wl) {
			add(w)
		}
	}
	nExh := len(srcs)
	// string literal bodies: every escape introducer followed by up to 3 characters from a digit/letter set, closed
	for _, q := range []string{"\"", "'"} {
		for _, w := range c12Words([]string{"0", "3", "4", "7", "8", "a", "F", "g", "x", "u", q, "\\"}, 4) {
			add(q + "\\" + w + q)
		}
		for _, intro := range []string{"x", "X", "u", "U"} {
			for _, w := range c12Words([]string{"0", "1", "8", "f", "F", "g"}, 4) {
				add(q + "\\" + intro + w + q)
				add(q + "\\" + intro + "0000" + w + q)
				add(q + "\\" + intro + "FFFF" + w + q)
			}
		}
	}
	nEsc := len(srcs) - nExh
	for i := 0; i < 20000*scale; i++ {
		add(c.c12RandomSource())
	}
	for i := 0; i < 10000*scale; i++ {
		add(c.c12RandomLiteralSource())
	}
	for i := 0; i < 3000*scale; i++ {
		// well-formed literal with random spellings, in a random layout
		m := c.Rng.Intn(6)
		val := make([]rune, m)
		for j := range val {
			val[j] = c.c12Rune()
		}
		lit, _ := c.c12RenderString(val, []rune{'"', '\''}[c.Rng.Intn(2)])
		add(c.c12WS(0) + lit + c.c12WS(0))
	}
	lines := make([]string, len(srcs))
	for i, s := range srcs {
		lines[i] = T("lex", SStr(s)).String()
	}
	resp, err := c.AskAll(lines)
	if err != nil {
		r.Mismatch("driver", "lex", err.Error(), "")
		return
	}
	var numberTexts []string
	numSeen := map[string]bool{}
	for i, s := range srcs {
		impl, toks := realLex(s)
		model := resp[i]
		r.Case(s, len(toks) > 2 || strings.ContainsAny(s, "\"'0123456789"))
		if strings.HasPrefix(model, "(err") {
			r.Count("lex:model-error", 1)
		} else {
			r.Count("lex:model-tokens", 1)
		}
		if strings.HasSuffix(model, " rawbyte)") {
			// \U escape with the top bit set: the real lexer emits a raw byte (not UTF-8); outside the model's value space
			r.Count("lex:rawbyte-skipped", 1)
			continue
		}
		if impl != model {
			r.Mismatch("lex", fmt.Sprintf("%q", s), model, impl)
			continue
		}
		for _, t := range toks {
			if t.Kind == lexer.Number && !numSeen[t.Value] {
				numSeen[t.Value] = true
				numberTexts = append(numberTexts, t.Value)
			}
			r.Count("tok:"+string(t.Kind), 1)
		}
	}
	r.Count("lex:exhaustive-words", nExh)
	r.Count("lex:escape-words", nEsc)

	// ---------------- correspondence: number classification / conversion
	for _, n := range c12IntGrid(c, 40*scale) {
		for _, sp := range c12IntSpellings(c, n) {
			if !numSeen[sp.text] {
				numSeen[sp.text] = true
				numberTexts = append(numberTexts, sp.text)
			}
		}
	}
	for _, t := range []string{"9223372036854775807", "9223372036854775808", "18446744073709551615", "18446744073709551616", "99999999999999999999999", "0x7fffffffffffffff", "0x8000000000000000", "0xffffffffffffffff", "0x10000000000000000",
		"0b101", "0o17", "017", "08", "0_8", "0x", "0x_", "1e400", "1e-400", "0x1p4", "1_0.5_0e1_0", "1.", "1.e3", "0e", "1e+", ".5e-3", "0x.8", "0x1.8", "0xe+1", "0XE", "0Xe", "0B1", "0O7"} {
		if !numSeen[t] {
			numSeen[t] = true
			numberTexts = append(numberTexts, t)
		}
	}
	nlines := make([]string, len(numberTexts))
	for i, t := range numberTexts {
		nlines[i] = T("number", SStr(t)).String()
	}
	nresp, err := c.AskAll(nlines)
	if err != nil {
		r.Mismatch("driver", "number", err.Error(), "")
		return
	}
	for i, t := range numberTexts {
		// only texts the real lexer turns into exactly one Number token reach the parser's Number case
		ts, lerr := lexer.Lex(file.NewSource(t))
		if lerr != nil || len(ts) != 2 || ts[0].Kind != lexer.Number || ts[0].Value != t {
			r.Count("number:not-a-single-token", 1)
			continue
		}
		p := realParseLiteral(t)
		model := nresp[i]
		r.Case("number "+t, true)
		ok := false
		mx, perr := ParseSx(model)
		if perr == nil {
			switch mx.Tag() {
			case "int":
				ok = p.kind == "int" && strconv.Itoa(p.i) == mx.List[1].Atom
				r.Count("number:int", 1)
			case "float":
				txt := mx.List[1].Str()
				f, ferr := strconv.ParseFloat(txt, 64)
				if ferr != nil {
					ok = p.kind == "err" && strings.Contains(p.msg, "invalid float literal")
					r.Count("number:float-rejected", 1)
				} else {
					ok = p.kind == "float" && math.Float64bits(p.f) == math.Float64bits(f)
					r.Count("number:float", 1)
				}
			case "err":
				cls := mx.List[1].Atom
				ok = p.kind == "err" && ((cls == "syntax" && strings.Contains(p.msg, "invalid syntax")) || (cls == "range" && strings.Contains(p.msg, "value out of range")))
				r.Count("number:err-"+cls, 1)
			}
		}
		if !ok {
			r.Mismatch("number", fmt.Sprintf("%q", t), model, p.String())
		}
	}

	// ---------------- correspondence: unicode classes (range tables of this toolchain)
	var ccRunes []rune
	for x := rune(0); x < 0x3100; x++ {
		if x < 0xd800 || x > 0xdfff {
			ccRunes = append(ccRunes, x)
		}
	}
	for i := 0; i < 4000*scale; i++ {
		x := rune(c.Rng.Intn(0x110000))
		if x < 0xd800 || x > 0xdfff {
			ccRunes = append(ccRunes, x)
		}
	}
	cclines := make([]string, len(ccRunes))
	for i, x := range ccRunes {
		cclines[i] = fmt.Sprintf("(charclass %d)", x)
	}
	ccresp, err := c.AskAll(cclines)
	if err != nil {
		r.Mismatch("driver", "charclass", err.Error(), "")
		return
	}
	for i, x := range ccRunes {
		want := fmt.Sprintf("(cc %v %v %v)", unicode.IsLetter(x), unicode.IsDigit(x), unicode.IsSpace(x))
		if ccresp[i] != want {
			r.Mismatch("charclass", fmt.Sprintf("U+%04X", x), ccresp[i], want)
		}
	}
	r.Count("charclass:runes", len(ccRunes))

	// ---------------- oracle (a): strings
	for i := 0; i < 6000*scale; i++ {
		m := c.Rng.Intn(9)
		if i < 200 {
			m = 1
		}
		val := make([]rune, m)
		for j := range val {
			val[j] = c.c12Rune()
		}
		if i < len(c12InterestingRunes) {
			val = []rune{c12InterestingRunes[i]}
		}
		q := []rune{'"', '\''}[c.Rng.Intn(2)]
		lit, sps := c.c12RenderString(val, q)
		src := c.c12WS(0) + lit + c.c12WS(0)
		p := realParseLiteral(src)
		r.Case("string "+src, true)
		for _, sp := range sps {
			r.Count("string:"+spName[sp], 1)
		}
		if p.kind == "string" && p.s == string(val) {
			continue
		}
		// localise: which single (rune, spelling) fails on its own
		key := "c12:string-combination"
		for j, x := range val {
			s1, _ := c12Spell(x, q, sps[j], false)
			p1 := realParseLiteral(string(q) + s1 + string(q))
			if !(p1.kind == "string" && p1.s == string(x)) {
				key = "c12:string-" + spName[sps[j]]
				break
			}
		}
		r.Violate(Violation{What: "string literal does not lex back to the value it spells", Key: key,
			Input: map[string]string{"source": src, "source_hex": fmt.Sprintf("%x", src)}, Expect: fmt.Sprintf("string %q", string(val)), Got: p.String()})
	}
	// every rune below 0x100 in every spelling available to it, both quotes; plus the named table
	for _, q := range []rune{'"', '\''} {
		for x := rune(0); x < 0x180; x++ {
			for sp := 0; sp < spCount; sp++ {
				for _, up := range []bool{false, true} {
					s1, ok := c12Spell(x, q, sp, up)
					if !ok {
						continue
					}
					src := string(q) + s1 + string(q)
					p := realParseLiteral(src)
					r.Case("string1 "+src, true)
					r.Count("string:"+spName[sp], 1)
					if !(p.kind == "string" && p.s == string(x)) {
						r.Violate(Violation{What: "string literal does not lex back to the value it spells", Key: "c12:string-" + spName[sp],
							Input: map[string]string{"source": src}, Expect: fmt.Sprintf("string %q", string(x)), Got: p.String()})
					}
				}
			}
		}
	}

	// ---------------- oracle (b): integers
	for _, n := range c12IntGrid(c, 300*scale) {
		for _, sp := range c12IntSpellings(c, n) {
			src := c.c12WS(0) + sp.text + c.c12WS(0)
			p := realParseLiteral(src)
			r.Case("int "+src, true)
			r.Count("int:"+sp.name, 1)
			if p.kind == "int" && uint64(p.i) == n && p.i >= 0 {
				continue
			}
			key := "c12:int-" + sp.name
			digits := sp.text
			if strings.HasPrefix(sp.name, "hex") {
				digits = sp.text[2:]
				switch {
				case strings.HasPrefix(sp.text, "0X"):
					key = "c12:hex-capital-x-prefix"
				case strings.ContainsAny(digits, "eE"):
					key = "c12:hex-with-e-digit"
				}
			}
			r.Violate(Violation{What: "integer literal does not parse to the number it spells", Key: key,
				Input: map[string]string{"source": src, "n": strconv.FormatUint(n, 10)}, Expect: fmt.Sprintf("int %d", n), Got: p.String()})
		}
	}

	// ---------------- oracle (c): floats
	for _, f := range c12FloatGrid(c, 600*scale) {
		type fs struct {
			name, text string
			shortest   bool
		}
		var forms []fs
		for _, fm := range []byte{'e', 'E', 'f', 'g', 'G'} {
			forms = append(forms, fs{string(fm) + "-shortest", strconv.FormatFloat(f, fm, -1, 64), true})
			prec := c.Rng.Intn(20)
			forms = append(forms, fs{string(fm) + "-fixed", strconv.FormatFloat(f, fm, prec, 64), false})
		}
		for _, fo := range forms {
			text := fo.text
			if !strings.ContainsAny(text, ".eE") {
				text += ".0" // an integer spelling otherwise
			}
			variants := []fs{{fo.name, text, fo.shortest}}
			if strings.HasPrefix(text, "0.") {
				variants = append(variants, fs{fo.name + "-nolead", text[1:], fo.shortest})
			}
			if c.Rng.Intn(3) == 0 {
				// digit separators inside the integer part
				if k := strings.IndexAny(text, ".eE"); k > 1 {
					variants = append(variants, fs{fo.name + "-underscore", c12Underscores(c, text[:k]) + text[k:], fo.shortest})
				}
			}
			for _, v := range variants {
				clean := strings.ReplaceAll(v.text, "_", "")
				want, werr := strconv.ParseFloat(clean, 64)
				if werr != nil {
					// fixed-precision rounding of a value next to MaxFloat64 spells a number that is no float64
					if math.IsInf(want, 0) && !v.shortest {
						r.Count("float:text-out-of-range", 1)
					} else {
						r.Mismatch("generator", v.text, "strconv cannot parse its own formatting", werr.Error())
					}
					continue
				}
				src := c.c12WS(0) + v.text + c.c12WS(0)
				p := realParseLiteral(src)
				r.Case("float "+src, true)
				r.Count("float:"+v.name, 1)
				good := p.kind == "float" && math.Float64bits(p.f) == math.Float64bits(want)
				if good && v.shortest && math.Float64bits(p.f) != math.Float64bits(f) {
					good = false
				}
				if !good {
					r.Violate(Violation{What: "float literal does not parse to the number it spells", Key: "c12:float-" + string(v.name[0]),
						Input: map[string]string{"source": src}, Expect: fmt.Sprintf("float bits=%#x", math.Float64bits(want)), Got: p.String()})
				}
			}
		}
	}

	// ---------------- oracle (d): token positions
	for i := 0; i < 8000*scale; i++ {
		toks := c.c12LayoutTokens()
		if c11AnySpace {
			// with the repaired acceptWord `not` followed by `in` is ONE operator whatever white space separates them:
			// two separate tokens `not`, `in` cannot be laid out at all
			for j := 1; j < len(toks); j++ {
				if toks[j-1].text == "not" && toks[j].text == "in" {
					toks[j] = c12Tok{"or", lexer.Operator, "or", 0}
				}
			}
		}
		var b strings.Builder
		b.WriteString(c.c12WS(0))
		starts := make([]int, len(toks))
		for j, t := range toks {
			if j > 0 {
				min := 1
				if toks[j-1].glue == 1 || t.glue == 1 {
					min = 0
				}
				// `not` directly followed by `in` would merge; any white space other than blanks keeps them apart,
				// blanks merge them: always use a line break there
				if toks[j-1].text == "not" && t.text == "in" {
					b.WriteString("\n")
				} else if toks[j-1].text == "not" && strings.HasPrefix(t.text, "in") && t.kind == lexer.Identifier {
					b.WriteString(" ")
				}
				b.WriteString(c.c12WS(min))
			}
			starts[j] = utf8.RuneCountInString(b.String())
			b.WriteString(t.text)
		}
		b.WriteString(c.c12WS(0))
		src := b.String()
		rs := []rune(src)
		ts, lerr := lexer.Lex(file.NewSource(src))
		r.Case("layout "+src, len(toks) > 1)
		if lerr != nil || len(ts) != len(toks)+1 {
			r.Violate(Violation{What: "laid-out token sequence does not lex into the same tokens", Key: "c12:layout-tokens",
				Input: map[string]string{"source": src, "source_hex": fmt.Sprintf("%x", src)}, Expect: fmt.Sprintf("%d tokens", len(toks)), Got: fmt.Sprint(len(ts), lerr)})
			continue
		}
		for j, t := range toks {
			line, col := c12Pos(rs, starts[j])
			got := ts[j]
			r.Count("layout:"+string(t.kind), 1)
			if got.Kind != t.kind || got.Value != t.value {
				r.Violate(Violation{What: "laid-out token lexes to a different token", Key: "c12:layout-token-value",
					Input: map[string]string{"source": src, "token": t.text}, Expect: fmt.Sprintf("%s %q", t.kind, t.value), Got: fmt.Sprintf("%s %q", got.Kind, got.Value)})
				break
			}
			if got.Line != line || got.Column != col {
				r.Violate(Violation{What: "token position is not the position of its first character", Key: "c12:token-position",
					Input: map[string]string{"source": src, "token": t.text}, Expect: fmt.Sprintf("%d:%d", line, col), Got: fmt.Sprintf("%d:%d", got.Line, got.Column)})
				break
			}
		}
	}

	for _, k := range []string{"lex:model-error", "lex:model-tokens", "tok:String", "tok:Number", "tok:Operator", "tok:Identifier", "tok:Bracket", "number:int", "number:float", "number:err-syntax", "number:err-range",
		"string:raw", "string:named", "string:x", "string:u", "string:U", "string:octal", "int:hex-mixed", "float:e-shortest", "float:g-fixed", "layout:String", "layout:Operator", "charclass:runes"} {
		if r.Counters[k] == 0 {
			r.Mismatch("generator", k, "no case generated", "")
		}
	}
}

func c12IntGrid(c *Ctx, extra int) []uint64 {
	out := []uint64{0, 1, 2, 7, 8, 9, 10, 14, 15, 16, 0xe, 0xee, 0x1e5, 0xe0, 0xabcdef, 0xfedcba, 255, 256, 1000, 65535, 65536, 1<<31 - 1, 1 << 31, 1<<32 - 1, 1 << 32, 1<<53 + 1, 1<<62 + 0xe, 1<<63 - 2, 1<<63 - 1,
		0x7eeeeeeeeeeeeeee, 0x7fffffffffffffff, 999999999999999999, 1000000000000000000}
	for i := 0; i < extra; i++ {
		out = append(out, (c.Rng.Uint64()>>1)>>uint(c.Rng.Intn(63)))
	}
	return out
}

func c12FloatGrid(c *Ctx, extra int) []float64 {
	out := []float64{0, 1, 0.5, 0.1, 0.25, 1.5, 3.14159, 100, 1e5, 1e15, 1e21, 1e22, 1e23, 123456789.125, 1e-5, 1e-7, 5e-324, 2.2250738585072014e-308, 2.225073858507201e-308, math.MaxFloat64, math.SmallestNonzeroFloat64,
		9007199254740993, 4.35, 0.3, 1.7976931348623157e308, 1e308, 6.02214076e23, 1.0000000000000002, 0.9999999999999999}
	for i := 0; i < extra; i++ {
		var f float64
		switch c.Rng.Intn(3) {
		case 0:
			f = math.Float64frombits(c.Rng.Uint64() >> 1) // any non-negative bit pattern
		case 1:
			f = math.Abs(c.Rng.NormFloat64()) * math.Pow(10, float64(c.Rng.Intn(40)-20))
		default:
			f = float64(c.Rng.Intn(100000)) / float64(1+c.Rng.Intn(1000))
		}
		if math.IsInf(f, 0) || math.IsNaN(f) {
			continue
		}
		out = append(out, f)
	}
	return out
}

func init() { props["C12"] = runC12 }
