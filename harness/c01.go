package main

import (
	"fmt"
	"math"
	"regexp"
	"strconv"
	"strings"
	"time"

	"github.com/antonmedv/expr"
	"github.com/antonmedv/expr/compiler"
	"github.com/antonmedv/expr/file"
	"github.com/antonmedv/expr/parser"
	"github.com/antonmedv/expr/parser/lexer"
	"github.com/antonmedv/expr/vm"
)

// frontOracles: the two library functions the front end consults (strconv.ParseFloat on number tokens with a
// fraction or exponent, regexp.Compile on string tokens), tabulated for one source by lexing it with the real lexer.
func frontOracles(src string) (floats, badre *Sx) {
	fl := []*Sx{A("floats")}
	br := []*Sx{A("badre")}
	toks, err := lexer.Lex(file.NewSource(src))
	if err == nil {
		seenF, seenR := map[string]bool{}, map[string]bool{}
		for _, t := range toks {
			switch t.Kind {
			case lexer.Number:
				v := strings.Replace(t.Value, "_", "", -1)
				if strings.ContainsAny(v, ".eE") && !seenF[v] {
					seenF[v] = true
					if f, err := strconv.ParseFloat(v, 64); err != nil {
						fl = append(fl, L(SStr(v), A("err")))
					} else {
						fl = append(fl, L(SStr(v), SUint(math.Float64bits(f))))
					}
				}
			case lexer.String:
				if !seenR[t.Value] {
					seenR[t.Value] = true
					if _, err := regexp.Compile(t.Value); err != nil {
						br = append(br, SStr(t.Value))
					}
				}
			}
		}
	}
	return L(fl...), L(br...)
}

// EvalSourceCorrespondence: the whole model pipeline (`Api.evalSource`: lexer, parser, compiler, VM models in a
// row; theorem `eval_source_conforms`) against the real `expr.Eval` on the same source text and environment:
// front-end rejection, compile rejection, value / error class / call log.
func EvalSourceCorrespondence(c *Ctx, cases []*Case, budget int) {
	r := c.R
	old := vm.MemoryBudget
	vm.MemoryBudget = budget
	defer func() { vm.MemoryBudget = old }()
	type realOut struct{ s string }
	var lines []string
	var reals []string
	var kept []*Case
	seen := map[string]bool{}
	for _, cs := range cases {
		if cs.Src == "" {
			continue
		}
		ev := envVal(cs)
		key := cs.Src + "|" + valSx(ev).String()
		if seen[key] {
			continue
		}
		seen[key] = true
		var real string
		done := make(chan struct{})
		go func() {
			defer close(done)
			defer func() {
				if e := recover(); e != nil {
					real = fmt.Sprintf("(panic %v)", e)
				}
			}()
			cs.Env.ResetLog()
			out, err := expr.Eval(cs.Src, ev)
			logs := []string{}
			for _, l := range cs.Env.Log() {
				logs = append(logs, strings.ReplaceAll(l, " ", "~"))
			}
			if err == nil {
				real = fmt.Sprintf("(ok %s log=%s)", valSx(out), strings.Join(logs, ","))
				return
			}
			tree, perr := parser.Parse(cs.Src)
			if perr != nil {
				real = "(fronterr)"
				return
			}
			if _, cerr := compiler.Compile(tree, nil); cerr != nil {
				real = "(compileerr)"
				return
			}
			real = fmt.Sprintf("(err %s log=%s)", classifyRunErr(err), strings.Join(logs, ","))
		}()
		select {
		case <-done:
		case <-time.After(20 * time.Second):
			real = "(timeout)"
		}
		fl, br := frontOracles(cs.Src)
		lines = append(lines, T("evalsource", SInt(int64(budget)), asIs.Sx(), valSx(ev), SStr(cs.Src), fl, br, T("regex")).String())
		reals = append(reals, real)
		kept = append(kept, cs)
	}
	resp, err := c.AskAll(lines)
	if err != nil {
		r.Mismatch("driver", "evalsource", err.Error(), "")
		return
	}
	for i, cs := range kept {
		m, perr := ParseSx(resp[i])
		if perr != nil {
			r.Mismatch("evalsource", cs.Src, resp[i], "unparsable")
			continue
		}
		logOf := func(x *Sx) string {
			out := []string{}
			for _, e := range x.List[1:] {
				s := e.List[0].Str()
				for _, a := range e.List[1:] {
					s += "~" + a.String()
				}
				out = append(out, strings.ReplaceAll(s, " ", "~"))
			}
			return strings.Join(out, ",")
		}
		var model string
		switch m.Tag() {
		case "lexerr", "parseerr":
			model = "(fronterr)"
		case "compileerr":
			model = "(compileerr)"
		case "ok":
			model = fmt.Sprintf("(ok %s log=%s)", m.List[1], logOf(m.List[6]))
		case "err":
			model = fmt.Sprintf("(err %s log=%s)", m.List[1].Atom, logOf(m.List[5]))
		default:
			model = m.String()
		}
		r.Count("evalsource:compared", 1)
		r.Count("evalsource:"+strings.SplitN(strings.Trim(reals[i], "()"), " ", 2)[0], 1)
		if model != reals[i] && !(strings.Contains(reals[i], "f64") && strings.Contains(cs.Src, "**")) {
			r.Mismatch("evalsource", cs.Src+" env="+valSx(envVal(cs)).String(), model, reals[i])
		}
	}
	if r.Counters["evalsource:ok"] == 0 || r.Counters["evalsource:err"] == 0 {
		r.Mismatch("generator", "evalsource", "successful and failing evaluations", fmt.Sprint(r.Counters["evalsource:ok"], r.Counters["evalsource:err"]))
	}
}

type negZeroEnv struct{}

func (negZeroEnv) NegZero() float64 { return math.Copysign(0, -1) }

// negZeroAliasProbe exhibits on the real code the one exclusion of the refinement theorem that is a defect
// of the code (`AliasFree`, Props/C01 `negzero_alias_witness`): compiler.makeConstant de-duplicates through
// a Go map keyed by the constant, and +0.0 == -0.0 as map keys, so a -0.0 constant (produced by a ConstExpr
// function) shares the pool slot of an earlier 0.0 and loses its sign.  Oracle: the same source without
// ConstExpr (the call happens at run time).
func negZeroAliasProbe(c *Ctx) {
	r := c.R
	src := "[0.0, NegZero()]"
	signs := func(opts ...expr.Option) (string, error) {
		p, err := expr.Compile(src, append([]expr.Option{expr.Env(negZeroEnv{})}, opts...)...)
		if err != nil {
			return "", err
		}
		out, err := expr.Run(p, negZeroEnv{})
		if err != nil {
			return "", err
		}
		xs, ok := out.([]interface{})
		if !ok || len(xs) != 2 {
			return "", fmt.Errorf("unexpected result %v", out)
		}
		res := ""
		for _, x := range xs {
			f, ok := x.(float64)
			if !ok {
				return "", fmt.Errorf("unexpected element %v", x)
			}
			res += fmt.Sprintf("%v/signbit=%v ", f, math.Signbit(f))
		}
		return res, nil
	}
	var plain, folded string
	var err1, err2 error
	func() {
		defer func() {
			if e := recover(); e != nil {
				err1 = fmt.Errorf("panic: %v", e)
			}
		}()
		plain, err1 = signs()
		folded, err2 = signs(expr.ConstExpr("NegZero"))
	}()
	r.Case("negzero-alias-probe", true)
	if err1 != nil || err2 != nil {
		r.Mismatch("generator", src, "both variants run", fmt.Sprintf("%v / %v", err1, err2))
		return
	}
	r.Count("negzero-probe", 1)
	if plain != folded {
		r.Violate(Violation{
			What:   "a -0.0 constant shares the constant-pool slot of an earlier 0.0 and loses its sign",
			Key:    "c01:negative-zero-constant-aliased",
			Input:  map[string]string{"expr": src, "option": "expr.ConstExpr(\"NegZero\")", "env": "NegZero() = math.Copysign(0, -1)"},
			Expect: plain,
			Got:    folded,
		})
	}
}

// typedModes: the option combinations of the typed end-to-end tie
var typedModes = []Mode{
	{Env: "struct", Optimize: true}, {Env: "struct", Optimize: false}, {Env: "map", Optimize: true}, {Env: "map", Optimize: false},
	{Env: "struct", Optimize: true, Cast: "int64"}, {Env: "struct", Optimize: false, Cast: "float64"},
	{Env: "map", Optimize: true, Cast: "float64"}, {Env: "struct", Optimize: true, Cast: "bool"}, {Env: "map", Optimize: false, Cast: "bool"},
}

// CompileSourceCorrespondence: the typed pipeline of the model (`Api.runSource`: Config.Check, lexer, parser,
// checker, PatchOperators with no operators, checker again, optimizer when on, compiler with MapEnv / result
// directive, VM; theorem `compile_source_conforms`) against the REAL expr.Compile(src, Env(env), Optimize(..), As…)
// followed by expr.Run on a fresh VM: the stage that rejects (with position and class for the checker), else the
// program byte for byte (bytecode, constants, locations) and the outcome of the run.
func CompileSourceCorrespondence(c *Ctx, cases []*Case, budget int) {
	r := c.R
	old := vm.MemoryBudget
	vm.MemoryBudget = budget
	defer func() { vm.MemoryBudget = old }()
	flags := probeOptFlags(c)
	var lines, reals []string
	var kept []*Case
	var progs []*vm.Program
	envCache := map[string]*Sx{}
	for _, cs := range cases {
		if cs.Mode.Env == "none" || cs.Src == "" {
			continue
		}
		ev := envVal(cs)
		var real string
		var prog *vm.Program
		done := make(chan struct{})
		go func() {
			defer close(done)
			defer func() {
				if e := recover(); e != nil {
					real = fmt.Sprintf("(panic %v)", e)
				}
			}()
			p, err := expr.Compile(cs.Src, cs.Mode.options(cs.Env)...)
			if err != nil {
				// which stage refused: the staged mirror of expr.Compile
				b := BuildReal(cs.Src, cs.Mode, cs.Env)
				switch {
				case b.Panicked:
					real = "(err panic " + b.Stage + ")"
				case b.Err == nil:
					real = "(err none-in-mirror)"
				case b.Stage == "check":
					e := errSx(b.Err)
					if e.List[1].Atom == "-1" || strings.HasPrefix(b.Err.Error(), "expected ") {
						real = "(err check -1 -1 " + errClassOf(b.Err.Error()) + ")"
					} else {
						real = fmt.Sprintf("(err check %s %s %s)", e.List[1].Atom, e.List[2].Atom, errClassOf(e.List[3].Str()))
					}
				case b.Stage == "optimize":
					e := errSx(b.Err)
					real = fmt.Sprintf("(err optimize %s %s)", e.List[1].Atom, e.List[2].Atom)
				default:
					real = "(err " + b.Stage + ")"
				}
				return
			}
			prog = p
			o := RunReal(&vm.VM{}, p, ev, cs.Env)
			ps := programSx(p)
			canonSets(ps) // a set constant is a Go map: its elements have no order
			real = "(ok " + ps.String() + " " + renderReal(p, o) + ")"
		}()
		select {
		case <-done:
		case <-time.After(30 * time.Second):
			real = "(timeout)"
		}
		key := cs.Mode.Env + fmt.Sprint(reflectTypeKey(ev))
		if _, ok := envCache[key]; !ok || cs.Mode.Env == "map" {
			envCache[key] = envSx(ev)
		}
		fl, br := frontOracles(cs.Src)
		expect := "none"
		if cs.Mode.Cast != "" {
			expect = cs.Mode.Cast
		}
		lines = append(lines, L(A("compilesource"), A(c03Model()), envCache[key], A(expect), SBool(cs.Mode.Env == "map"),
			SBool(cs.Mode.Optimize), flags.Sx(), SStr(cs.Src), fl, br, SInt(int64(budget)), asIs.Sx(), valSx(ev)).String())
		reals = append(reals, real)
		progs = append(progs, prog)
		kept = append(kept, cs)
	}
	resp, err := c.AskAll(lines)
	if err != nil {
		r.Mismatch("driver", "compilesource", err.Error(), "")
		return
	}
	for i, cs := range kept {
		m, perr := ParseSx(resp[i])
		if perr != nil {
			r.Mismatch("compilesource", cs.Src, resp[i], "unparsable")
			continue
		}
		model := m.String()
		if m.Tag() == "ok" && len(m.List) == 3 && progs[i] != nil {
			canonSets(m.List[1])
			model = "(ok " + m.List[1].String() + " " + renderModel(progs[i], m.List[2]) + ")"
		} else if m.Tag() == "err" && len(m.List) >= 2 && (m.List[1].Atom == "lex") {
			model = "(err parse)"
		}
		r.Count("compilesource:compared", 1)
		stage := "ok"
		if strings.HasPrefix(reals[i], "(err ") {
			stage = strings.SplitN(strings.TrimSuffix(strings.TrimPrefix(reals[i], "(err "), ")"), " ", 2)[0]
		}
		r.Count("compilesource:"+stage, 1)
		if model != reals[i] && !(strings.Contains(reals[i], "f64") && strings.Contains(cs.Src, "**")) {
			r.Mismatch("compilesource", cs.Src+" ["+cs.Mode.String()+"] env="+valSx(envVal(cs)).String(), model, reals[i])
		}
	}
	if r.Counters["compilesource:ok"] == 0 || r.Counters["compilesource:check"] == 0 {
		r.Mismatch("generator", "compilesource", "accepted and checker-rejected sources", fmt.Sprint(r.Counters["compilesource:ok"], r.Counters["compilesource:check"]))
	}
}

func reflectTypeKey(v interface{}) string { return fmt.Sprintf("%T", v) }

func runC01(c *Ctx) {
	r := c.R
	r.Rule = "generated expressions (type-directed; every node kind, nested closures and conditionals) x modes x environments: (i) compile model = compiler.Compile byte for byte, (ii) VM model = (*VM).Run, (iii) reference evaluator Spec.eval = real run (value, error class, call log, allocation total); non-trivial = source longer than 6 characters"
	n := 3000
	if c.Thorough() {
		n = 60000
	}
	cases := GenCases(c, n, 4, allModes, nil)
	ok := CompileCorrespondence(c, cases)
	for _, cs := range cases {
		r.Case(cs.Src+"|"+cs.Mode.String(), len(cs.Src) > 6)
	}
	// exhaustive small trees: every node kind / operator in every child slot
	stride := 9
	if c.Thorough() {
		stride = 2
	}
	enum := EnumCases(c, stride)
	for _, cs := range enum {
		r.Case(cs.B.TreeSx, true)
	}
	ok = append(ok, CompileCorrespondenceBuilt(c, enum)...)
	res := VMCorrespondence(c, ok, 1000)
	// tie of the Spec as the theorems use it (mirroring the code's known deviations)
	tieDiff := map[*VMResult]bool{}
	SpecCorrespondence(c, res, 1000, asIs.RangeSigned, true, func(vr *VMResult, spec, real string) {
		tieDiff[vr] = true
		r.Mismatch("spec", vr.Case.Src+" ["+vr.Case.Mode.String()+"] env="+valSx(envVal(vr.Case)).String()+" tree="+vr.Case.B.TreeSx, spec, real)
	})
	if r.Counters["vm:typedmap:ok"] == 0 || r.Counters["vm:typedmap:err"] == 0 {
		r.Mismatch("generator", "typed maps (MI, MS, MN)", "no run over a typed map member", fmt.Sprintf("ok=%d err=%d", r.Counters["vm:typedmap:ok"], r.Counters["vm:typedmap:err"]))
	}
	negZeroAliasProbe(c)
	// end to end through ALL model stages: source text -> lexer, parser, compiler, VM models vs expr.Eval
	EvalSourceCorrespondence(c, cases, 1000)
	// … and in typed mode: expr.Compile(src, Env(env), Optimize(..), As…) + expr.Run
	tn := 1500
	if c.Thorough() {
		tn = 20000
	}
	CompileSourceCorrespondence(c, GenCases(c, tn, 4, typedModes, nil), 1000)
	// the property oracle: the language definition itself (left-to-right evaluation, unsigned range sizes)
	SpecCorrespondence(c, res, 1000, false, false, func(vr *VMResult, spec, real string) {
		key := "c01:differs-from-language-definition"
		if !tieDiff[vr] && strings.Contains(vr.Case.B.TreeSx, "(slice ") {
			// the one listed deviation: the compiler emits the `to` bound of a[from:to] before `from`
			key = "c01:slice-bounds-evaluated-right-to-left"
		}
		r.Violate(Violation{What: "compiled evaluation differs from the reference evaluator (value, error class, call log or allocation total)",
			Key: key, Input: map[string]string{"expr": vr.Case.Src, "mode": vr.Case.Mode.String(), "env": valSx(envVal(vr.Case)).String(), "tree": vr.Case.B.TreeSx},
			Expect: spec, Got: real})
	})
}

func init() { props["C01"] = runC01 }
