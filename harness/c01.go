package main

import "strings"

func runC01(c *Ctx) {
	r := c.R
	r.Rule = "generated expressions (type-directed; every node kind, nested closures and conditionals) x modes x environments: (i) compile model = compiler.Compile byte for byte, (ii) VM model = (*VM).Run, (iii) reference evaluator Spec.eval = real run (value, error class, call log, allocation total); non-trivial = source longer than 6 characters"
	n := 3000
	if c.Thorough() {
		n = 60000
	}
	cases := GenCases(c, n, 4, allModes, nil)
	ok := CompileCorrespondence(c, cases)
	for _, cs := range cases {
		r.Case(cs.Src+"|"+cs.Mode.String(), len(cs.Src) > 6)
	}
	// exhaustive small trees: every node kind / operator in every child slot
	stride := 9
	if c.Thorough() {
		stride = 2
	}
	enum := EnumCases(c, stride)
	for _, cs := range enum {
		r.Case(cs.B.TreeSx, true)
	}
	ok = append(ok, CompileCorrespondenceBuilt(c, enum)...)
	res := VMCorrespondence(c, ok, 1000)
	// tie of the Spec as the theorems use it (mirroring the code's known deviations)
	tieDiff := map[*VMResult]bool{}
	SpecCorrespondence(c, res, 1000, asIs.RangeSigned, true, func(vr *VMResult, spec, real string) {
		tieDiff[vr] = true
		r.Mismatch("spec", vr.Case.Src+" ["+vr.Case.Mode.String()+"] env="+valSx(envVal(vr.Case)).String()+" tree="+vr.Case.B.TreeSx, spec, real)
	})
	// the property oracle: the language definition itself (left-to-right evaluation, unsigned range sizes)
	SpecCorrespondence(c, res, 1000, false, false, func(vr *VMResult, spec, real string) {
		key := "c01:differs-from-language-definition"
		if !tieDiff[vr] && strings.Contains(vr.Case.B.TreeSx, "(slice ") {
			// the one listed deviation: the compiler emits the `to` bound of a[from:to] before `from`
			key = "c01:slice-bounds-evaluated-right-to-left"
		}
		r.Violate(Violation{What: "compiled evaluation differs from the reference evaluator (value, error class, call log or allocation total)",
			Key: key, Input: map[string]string{"expr": vr.Case.Src, "mode": vr.Case.Mode.String(), "env": valSx(envVal(vr.Case)).String(), "tree": vr.Case.B.TreeSx},
			Expect: spec, Got: real})
	})
}

func init() { props["C01"] = runC01 }
