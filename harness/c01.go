package main

import (
	"fmt"
	"math"

	"github.com/antonmedv/expr"
)

type negZeroEnv struct{}

func (negZeroEnv) NegZero() float64 { return math.Copysign(0, -1) }

// negZeroAliasProbe exhibits on the real code the one exclusion of the refinement theorem that is a defect
// of the code (`AliasFree`, Props/C01 `negzero_alias_witness`): compiler.makeConstant de-duplicates through
// a Go map keyed by the constant, and +0.0 == -0.0 as map keys, so a -0.0 constant (produced by a ConstExpr
// function) shares the pool slot of an earlier 0.0 and loses its sign.  Oracle: the same source without
// ConstExpr (the call happens at run time).
func negZeroAliasProbe(c *Ctx) {
	r := c.R
	src := "[0.0, NegZero()]"
	signs := func(opts ...expr.Option) (string, error) {
		p, err := expr.Compile(src, append([]expr.Option{expr.Env(negZeroEnv{})}, opts...)...)
		if err != nil {
			return "", err
		}
		out, err := expr.Run(p, negZeroEnv{})
		if err != nil {
			return "", err
		}
		xs, ok := out.([]interface{})
		if !ok || len(xs) != 2 {
			return "", fmt.Errorf("unexpected result %v", out)
		}
		res := ""
		for _, x := range xs {
			f, ok := x.(float64)
			if !ok {
				return "", fmt.Errorf("unexpected element %v", x)
			}
			res += fmt.Sprintf("%v/signbit=%v ", f, math.Signbit(f))
		}
		return res, nil
	}
	var plain, folded string
	var err1, err2 error
	func() {
		defer func() {
			if e := recover(); e != nil {
				err1 = fmt.Errorf("panic: %v", e)
			}
		}()
		plain, err1 = signs()
		folded, err2 = signs(expr.ConstExpr("NegZero"))
	}()
	r.Case("negzero-alias-probe", true)
	if err1 != nil || err2 != nil {
		r.Mismatch("generator", src, "both variants run", fmt.Sprintf("%v / %v", err1, err2))
		return
	}
	r.Count("negzero-probe", 1)
	if plain != folded {
		r.Violate(Violation{
			What:   "a -0.0 constant shares the constant-pool slot of an earlier 0.0 and loses its sign",
			Key:    "c01:negative-zero-constant-aliased",
			Input:  map[string]string{"expr": src, "option": "expr.ConstExpr(\"NegZero\")", "env": "NegZero() = math.Copysign(0, -1)"},
			Expect: plain,
			Got:    folded,
		})
	}
}

func runC01(c *Ctx) {
	r := c.R
	r.Rule = "generated expressions (type-directed; every node kind, nested closures and conditionals) x modes x environments: (i) compile model = compiler.Compile byte for byte, (ii) VM model = (*VM).Run, (iii) reference evaluator Spec.eval = real run (value, error class, call log, allocation total); non-trivial = source longer than 6 characters"
	n := 3000
	if c.Thorough() {
		n = 60000
	}
	cases := GenCases(c, n, 4, allModes, nil)
	ok := CompileCorrespondence(c, cases)
	for _, cs := range cases {
		r.Case(cs.Src+"|"+cs.Mode.String(), len(cs.Src) > 6)
	}
	// exhaustive small trees: every node kind / operator in every child slot
	stride := 9
	if c.Thorough() {
		stride = 2
	}
	enum := EnumCases(c, stride)
	for _, cs := range enum {
		r.Case(cs.B.TreeSx, true)
	}
	ok = append(ok, CompileCorrespondenceBuilt(c, enum)...)
	res := VMCorrespondence(c, ok, 1000)
	// tie of the Spec as the theorems use it (mirroring the code's known deviations)
	SpecCorrespondence(c, res, 1000, asIs.RangeSigned, true, func(vr *VMResult, spec, real string) {
		r.Mismatch("spec", vr.Case.Src+" ["+vr.Case.Mode.String()+"] env="+valSx(envVal(vr.Case)).String()+" tree="+vr.Case.B.TreeSx, spec, real)
	})
	negZeroAliasProbe(c)
}

func init() { props["C01"] = runC01 }
