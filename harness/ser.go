package main

// Serialisation of the real library's data (syntax trees, values, programs, tokens) into the
// line protocol.  Generic over reflect so that the Lean side is not tied to the type zoo.

import (
	"fmt"
	"math"
	"reflect"
	"regexp"
	"sort"

	"github.com/antonmedv/expr/ast"
	"github.com/antonmedv/expr/file"
	"github.com/antonmedv/expr/parser/lexer"
	"github.com/antonmedv/expr/vm"
)

var numKindName = map[reflect.Kind]string{
	reflect.Uint: "uint", reflect.Uint8: "uint8", reflect.Uint16: "uint16", reflect.Uint32: "uint32", reflect.Uint64: "uint64",
	reflect.Int: "int", reflect.Int8: "int8", reflect.Int16: "int16", reflect.Int32: "int32", reflect.Int64: "int64",
	reflect.Float32: "float32", reflect.Float64: "float64",
}

func rkindAtom(t reflect.Type) string {
	if t == nil {
		return "_"
	}
	k := t.Kind()
	if n, ok := numKindName[k]; ok {
		return n
	}
	switch k {
	case reflect.Bool:
		return "bool"
	case reflect.String:
		return "string"
	case reflect.Interface:
		return "any"
	case reflect.Slice:
		return "slice"
	case reflect.Array:
		return "array"
	case reflect.Map:
		return "map"
	case reflect.Struct:
		return "struct"
	case reflect.Ptr:
		return "ptr"
	case reflect.Func:
		return "func"
	}
	return "other"
}

func metaSx(n ast.Node, withKd bool) *Sx {
	loc := n.Location()
	kd := "_"
	if withKd {
		kd = rkindAtom(n.Type())
	}
	return L(A("@"), SInt(int64(loc.Line)), SInt(int64(loc.Column)), A(kd))
}

// fnIDs maps function values (by code pointer) to behaviour ids; filled by the zoo.
var fnIDs = map[uintptr]string{}

func elemTSx(t reflect.Type) *Sx {
	if t.PkgPath() == "" {
		if n, ok := numKindName[t.Kind()]; ok {
			return A(n)
		}
		switch t.Kind() {
		case reflect.String:
			return A("string")
		case reflect.Bool:
			return A("bool")
		case reflect.Interface:
			if t.NumMethod() == 0 {
				return A("any")
			}
		}
	}
	return L(A("other"), SStr(t.String()))
}

// valSx serialises a Go value; nesting beyond 40 levels (a cyclic value, e.g. a slice that aliases a
// buffer containing itself) is cut off with an opaque marker instead of recursing forever.
func valSx(x interface{}) *Sx { return valSxD(x, 0) }

func valSxD(x interface{}, depth int) *Sx {
	if x == nil {
		return A("nil")
	}
	if depth > 40 {
		return T("opaque", SStr("too-deep-or-cyclic"))
	}
	switch v := x.(type) {
	case bool:
		return T("b", SBool(v))
	case int:
		return T("i", A("int"), SInt(int64(v)))
	case int8:
		return T("i", A("int8"), SInt(int64(v)))
	case int16:
		return T("i", A("int16"), SInt(int64(v)))
	case int32:
		return T("i", A("int32"), SInt(int64(v)))
	case int64:
		return T("i", A("int64"), SInt(v))
	case uint:
		return T("i", A("uint"), SUint(uint64(v)))
	case uint8:
		return T("i", A("uint8"), SUint(uint64(v)))
	case uint16:
		return T("i", A("uint16"), SUint(uint64(v)))
	case uint32:
		return T("i", A("uint32"), SUint(uint64(v)))
	case uint64:
		return T("i", A("uint64"), SUint(v))
	case float64:
		if v != v { // every NaN is rendered as one canonical NaN
			return T("f64", A("9221120237041090560"))
		}
		return T("f64", SUint(math.Float64bits(v)))
	case float32:
		if v != v {
			return T("f32", A("2143289344"))
		}
		return T("f32", SUint(uint64(math.Float32bits(v))))
	case string:
		return T("s", SStr(v))
	case *regexp.Regexp:
		if v == nil {
			return T("opaque", SStr("nil-regexp"))
		}
		return T("re", SStr(v.String()))
	case vm.Call:
		return T("call", SStr(v.Name), SInt(int64(v.Size)))
	}
	rv := reflect.ValueOf(x)
	rt := rv.Type()
	switch rt.Kind() {
	case reflect.Slice, reflect.Array:
		if rt.Kind() == reflect.Slice && rv.IsNil() {
			return T("opaque", SStr("nil-"+rt.String()))
		}
		out := []*Sx{A("arr"), elemTSx(rt.Elem())}
		for i := 0; i < rv.Len(); i++ {
			e := rv.Index(i)
			if e.CanInterface() {
				out = append(out, valSxD(e.Interface(), depth+1))
			} else {
				out = append(out, T("opaque", SStr("unexported")))
			}
		}
		return L(out...)
	case reflect.Map:
		if rt.Key().Kind() == reflect.String && rt.Elem().Kind() != reflect.Interface && !(rt.Elem().Kind() == reflect.Struct && rt.Elem().NumField() == 0) {
			// map[string]T for a concrete T: `(tmap <zero of T> <is nil> (k v)…)`.  The element zero is what fetch
			// returns for a missing key (reflect.Zero(v.Type().Elem())); a nil map reads like an empty one but is nil.
			out := []*Sx{A("tmap"), valSxD(reflect.Zero(rt.Elem()).Interface(), depth+1), SBool(rv.IsNil())}
			keys := rv.MapKeys()
			names := make([]string, 0, len(keys))
			for _, k := range keys {
				names = append(names, k.String())
			}
			sort.Strings(names)
			for _, k := range names {
				e := rv.MapIndex(reflect.ValueOf(k).Convert(rt.Key()))
				out = append(out, L(SStr(k), valSxD(e.Interface(), depth+1)))
			}
			return L(out...)
		}
		if rv.IsNil() {
			return T("opaque", SStr("nil-"+rt.String()))
		}
		if rt.Elem().Kind() == reflect.Struct && rt.Elem().NumField() == 0 {
			keys := rv.MapKeys()
			ks := make([]*Sx, 0, len(keys))
			for _, k := range keys {
				ks = append(ks, valSxD(k.Interface(), depth+1))
			}
			sort.Slice(ks, func(i, j int) bool { return ks[i].String() < ks[j].String() })
			return L(append([]*Sx{A("set"), elemTSx(rt.Key())}, ks...)...)
		}
		if rt.Key().Kind() == reflect.String {
			keys := rv.MapKeys()
			names := make([]string, 0, len(keys))
			for _, k := range keys {
				names = append(names, k.String())
			}
			sort.Strings(names)
			out := []*Sx{A("map")}
			for _, k := range names {
				e := rv.MapIndex(reflect.ValueOf(k).Convert(rt.Key()))
				out = append(out, L(SStr(k), valSxD(e.Interface(), depth+1)))
			}
			return L(out...)
		}
		return T("opaque", SStr(rt.String()))
	case reflect.Ptr:
		if rv.IsNil() {
			return T("opaque", SStr("nil-"+rt.String()))
		}
		if rv.Elem().Kind() == reflect.Struct {
			return structSxD(rv.Elem(), true, depth+1)
		}
		return T("opaque", SStr(rt.String()))
	case reflect.Struct:
		return structSxD(rv, false, depth+1)
	case reflect.Func:
		if id, ok := fnIDs[rv.Pointer()]; ok {
			return T("fn", SStr(id))
		}
		return T("opaque", SStr("func"))
	}
	return T("opaque", SStr(fmt.Sprintf("%T", x)))
}

func structSx(rv reflect.Value, isPtr bool) *Sx { return structSxD(rv, isPtr, 0) }

func structSxD(rv reflect.Value, isPtr bool, depth int) *Sx {
	rt := rv.Type()
	out := []*Sx{A("struct"), SStr(rt.String()), SBool(isPtr)}
	for i := 0; i < rt.NumField(); i++ {
		f := rt.Field(i)
		if f.PkgPath != "" {
			continue
		}
		out = append(out, L(SStr(f.Name), valSxD(rv.Field(i).Interface(), depth+1)))
	}
	return L(out...)
}

func optNodeSx(n ast.Node, kd bool) *Sx {
	if n == nil || (reflect.ValueOf(n).Kind() == reflect.Ptr && reflect.ValueOf(n).IsNil()) {
		return A("_")
	}
	return nodeSx(n, kd)
}

func nodesSx(ns []ast.Node, kd bool) []*Sx {
	out := make([]*Sx, 0, len(ns))
	for _, n := range ns {
		out = append(out, nodeSx(n, kd))
	}
	return out
}

// nodeSx serialises a syntax tree; kd says whether to include the reflect.Kind of node types.
func nodeSx(node ast.Node, kd bool) *Sx {
	m := metaSx(node, kd)
	switch n := node.(type) {
	case *ast.NilNode:
		return T("nil", m)
	case *ast.IdentifierNode:
		return T("id", m, SStr(n.Value), SBool(n.NilSafe))
	case *ast.IntegerNode:
		return T("int", m, SInt(int64(n.Value)))
	case *ast.FloatNode:
		return T("float", m, SUint(math.Float64bits(n.Value)))
	case *ast.BoolNode:
		return T("bool", m, SBool(n.Value))
	case *ast.StringNode:
		return T("str", m, SStr(n.Value))
	case *ast.ConstantNode:
		return T("const", m, valSx(n.Value))
	case *ast.UnaryNode:
		return T("un", m, SStr(n.Operator), nodeSx(n.Node, kd))
	case *ast.BinaryNode:
		return T("bin", m, SStr(n.Operator), nodeSx(n.Left, kd), nodeSx(n.Right, kd))
	case *ast.MatchesNode:
		return T("matches", m, SBool(n.Regexp != nil), nodeSx(n.Left, kd), nodeSx(n.Right, kd))
	case *ast.PropertyNode:
		return T("prop", m, nodeSx(n.Node, kd), SStr(n.Property), SBool(n.NilSafe))
	case *ast.IndexNode:
		return T("index", m, nodeSx(n.Node, kd), nodeSx(n.Index, kd))
	case *ast.SliceNode:
		return T("slice", m, nodeSx(n.Node, kd), optNodeSx(n.From, kd), optNodeSx(n.To, kd))
	case *ast.MethodNode:
		return L(append([]*Sx{A("method"), m, nodeSx(n.Node, kd), SStr(n.Method), SBool(n.NilSafe)}, nodesSx(n.Arguments, kd)...)...)
	case *ast.FunctionNode:
		return L(append([]*Sx{A("call"), m, SStr(n.Name), SBool(n.Fast)}, nodesSx(n.Arguments, kd)...)...)
	case *ast.BuiltinNode:
		return L(append([]*Sx{A("builtin"), m, SStr(n.Name)}, nodesSx(n.Arguments, kd)...)...)
	case *ast.ClosureNode:
		return T("closure", m, nodeSx(n.Node, kd))
	case *ast.PointerNode:
		return T("ptr", m)
	case *ast.ConditionalNode:
		return T("cond", m, nodeSx(n.Cond, kd), nodeSx(n.Exp1, kd), nodeSx(n.Exp2, kd))
	case *ast.ArrayNode:
		return L(append([]*Sx{A("array"), m}, nodesSx(n.Nodes, kd)...)...)
	case *ast.MapNode:
		return L(append([]*Sx{A("map"), m}, nodesSx(n.Pairs, kd)...)...)
	case *ast.PairNode:
		return T("pair", m, nodeSx(n.Key, kd), nodeSx(n.Value, kd))
	}
	return T("unknown", SStr(fmt.Sprintf("%T", node)))
}

func tokenSx(t lexer.Token) *Sx {
	return L(A(string(t.Kind)), SStr(t.Value), SInt(int64(t.Line)), SInt(int64(t.Column)))
}

func tokensSx(ts []lexer.Token) *Sx {
	out := make([]*Sx, 0, len(ts)+1)
	out = append(out, A("toks"))
	for _, t := range ts {
		out = append(out, tokenSx(t))
	}
	return L(out...)
}

func programSx(p *vm.Program) *Sx {
	consts := []*Sx{A("consts")}
	for _, c := range p.Constants {
		consts = append(consts, valSx(c))
	}
	offs := make([]int, 0, len(p.Locations))
	for o := range p.Locations {
		offs = append(offs, o)
	}
	sort.Ints(offs)
	locs := []*Sx{A("locs")}
	for _, o := range offs {
		l := p.Locations[o]
		locs = append(locs, L(SInt(int64(o)), SInt(int64(l.Line)), SInt(int64(l.Column))))
	}
	return T("prog", T("bytes", hexBytes(p.Bytecode)), L(consts...), L(locs...))
}

func hexBytes(b []byte) *Sx {
	if len(b) == 0 {
		return A("-")
	}
	return A(fmt.Sprintf("%x", b))
}

// errSx renders an error as (err line col hexmsg); locations are -1 -1 when the error has none.
func errSx(err error) *Sx {
	if fe, ok := err.(*file.Error); ok {
		return T("err", SInt(int64(fe.Line)), SInt(int64(fe.Column)), SStr(fe.Message))
	}
	return T("err", A("-1"), A("-1"), SStr(err.Error()))
}
