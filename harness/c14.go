package main

// C14 — mixed-kind arithmetic follows one promotion rule.
// Oracle = the Lean reference semantics `refSem` (the rule of the property, proved equal to the
// interpretation of the code's own table for all values): every disagreement with the real VM is a
// counterexample to the property itself.

import (
	"fmt"
	"math"
	"reflect"
	"strings"

	"github.com/antonmedv/expr"
	"github.com/antonmedv/expr/checker"
	"github.com/antonmedv/expr/conf"
	"github.com/antonmedv/expr/parser"
	"github.com/antonmedv/expr/vm"
)

var kindOrder = []string{"uint", "uint8", "uint16", "uint32", "uint64", "int", "int8", "int16", "int32", "int64", "float32", "float64"}

func mkNum(kind string, i int64, u uint64, f float64, useU bool) interface{} {
	switch kind {
	case "uint":
		return uint(u)
	case "uint8":
		return uint8(u)
	case "uint16":
		return uint16(u)
	case "uint32":
		return uint32(u)
	case "uint64":
		return uint64(u)
	case "int":
		return int(i)
	case "int8":
		return int8(i)
	case "int16":
		return int16(i)
	case "int32":
		return int32(i)
	case "int64":
		return int64(i)
	case "float32":
		return float32(f)
	case "float64":
		return f
	}
	panic("kind")
}

func gridFor(kind string, c *Ctx, extra int) []interface{} {
	var out []interface{}
	switch kind {
	case "uint", "uint64":
		for _, u := range []uint64{0, 1, 2, 7, 127, 128, 255, 256, 32767, 32768, 65535, 65536, 1<<31 - 1, 1 << 31, 1<<32 - 1, 1 << 32, 1<<53 + 1, 1<<63 - 1, 1 << 63, math.MaxUint64 - 1, math.MaxUint64} {
			out = append(out, mkNum(kind, 0, u, 0, true))
		}
		for i := 0; i < extra; i++ {
			out = append(out, mkNum(kind, 0, c.Rng.Uint64()>>uint(c.Rng.Intn(64)), 0, true))
		}
	case "uint8":
		for _, u := range []uint64{0, 1, 2, 7, 127, 128, 200, 254, 255} {
			out = append(out, uint8(u))
		}
	case "uint16":
		for _, u := range []uint64{0, 1, 3, 255, 256, 32767, 32768, 65534, 65535} {
			out = append(out, uint16(u))
		}
	case "uint32":
		for _, u := range []uint64{0, 1, 5, 255, 65535, 65536, 1<<31 - 1, 1 << 31, 1<<32 - 2, 1<<32 - 1} {
			out = append(out, uint32(u))
		}
		for i := 0; i < extra; i++ {
			out = append(out, uint32(c.Rng.Uint32()))
		}
	case "int", "int64":
		for _, v := range []int64{0, 1, -1, 2, -2, 7, -7, 127, 128, -128, -129, 255, 256, 32767, 32768, -32768, -32769, 65535, 65536, 1<<31 - 1, 1 << 31, -(1 << 31), -(1 << 31) - 1, 1<<32 - 1, 1 << 32, 1<<53 + 1, math.MaxInt64 - 1, math.MaxInt64, math.MinInt64, math.MinInt64 + 1} {
			out = append(out, mkNum(kind, v, 0, 0, false))
		}
		for i := 0; i < extra; i++ {
			v := int64(c.Rng.Uint64()) >> uint(c.Rng.Intn(64))
			out = append(out, mkNum(kind, v, 0, 0, false))
		}
	case "int8":
		for _, v := range []int64{0, 1, -1, 2, -3, 100, 126, 127, -127, -128} {
			out = append(out, int8(v))
		}
	case "int16":
		for _, v := range []int64{0, 1, -1, 127, 128, -128, -129, 255, 256, 32766, 32767, -32767, -32768} {
			out = append(out, int16(v))
		}
	case "int32":
		for _, v := range []int64{0, 1, -1, 255, -256, 65535, 65536, -65536, 1<<31 - 2, 1<<31 - 1, -(1 << 31), -(1 << 31) + 1} {
			out = append(out, int32(v))
		}
		for i := 0; i < extra; i++ {
			out = append(out, int32(c.Rng.Uint32()))
		}
	case "float32":
		for _, f := range []float64{0, 1, -1, 0.5, -0.5, 2, 3.5, -3.5, 255, 256.5, 65536, 16777216, 16777217, 1e10, -1e10, 3.4e38, 1e-30} {
			out = append(out, float32(f))
		}
		for i := 0; i < extra; i++ {
			out = append(out, float32(c.Rng.NormFloat64()*math.Pow(10, float64(c.Rng.Intn(12)))))
		}
	case "float64":
		for _, f := range []float64{0, 1, -1, 0.5, -0.5, 2, 3.5, -3.5, 255, 256.5, 65536, 9007199254740992, 9007199254740993, 1e10, -1e10, 1.7e308, 1e-300, 4294967296, 0.1} {
			out = append(out, f)
		}
		for i := 0; i < extra; i++ {
			out = append(out, c.Rng.NormFloat64()*math.Pow(10, float64(c.Rng.Intn(18))))
		}
	}
	return out
}

var c14ops = []struct{ op, helper string; not bool }{
	{"+", "add", false}, {"-", "subtract", false}, {"*", "multiply", false}, {"/", "divide", false}, {"%", "modulo", false},
	{"==", "equal", false}, {"!=", "equal", true}, {"<", "less", false}, {"<=", "lessOrEqual", false}, {">", "more", false}, {">=", "moreOrEqual", false},
}

func kindNameOf(v interface{}) string {
	if v == nil {
		return "nil"
	}
	return reflect.TypeOf(v).Kind().String()
}

// canonical rendering of an implementation outcome for C14
func implOutcome(v interface{}, err error) string {
	if err != nil {
		msg := err.Error()
		switch {
		case strings.Contains(msg, "divide by zero"):
			return "(err divzero)"
		case strings.Contains(msg, "invalid operation"):
			return "(err noarm)"
		}
		return "(err other " + SStr(msg).String() + ")"
	}
	return "(ok " + valSx(v).String() + ")"
}

func isNaNResp(s string) bool {
	x, err := ParseSx(s)
	if err != nil || x.Tag() != "ok" || len(x.List) != 2 {
		return false
	}
	v := x.List[1]
	if v.Tag() == "f64" {
		var b uint64
		fmt.Sscan(v.List[1].Atom, &b)
		return math.IsNaN(math.Float64frombits(b))
	}
	if v.Tag() == "f32" {
		var b uint64
		fmt.Sscan(v.List[1].Atom, &b)
		f := math.Float32frombits(uint32(b))
		return f != f
	}
	return false
}

func runC14(c *Ctx) {
	r := c.R
	r.Rule = "every ordered pair of the 12 numeric kinds x {+ - * / % == != < <= > >=} x boundary grid of each kind (+ random values), unary -, ** (kind only); evaluated by the real VM (expr.Eval and typed Compile+Run) and by the Lean rule refSem; non-trivial = operand kinds differ or a value is not 0/1; distinct by (op, kinds, values)"
	extra := 2
	if c.Thorough() {
		extra = 12
	}
	grids := map[string][]interface{}{}
	for _, k := range kindOrder {
		grids[k] = gridFor(k, c, extra)
	}
	type cs struct {
		op, helper string
		not        bool
		a, b       interface{}
		src        string
	}
	var cases []cs
	var lines []string
	for _, o := range c14ops {
		for _, ka := range kindOrder {
			for _, kb := range kindOrder {
				ga, gb := grids[ka], grids[kb]
				for _, a := range ga {
					for _, b := range gb {
						// thin the full product deterministically in the quick tier
						if !c.Thorough() && len(ga)*len(gb) > 150 && c.Rng.Intn(len(ga)*len(gb)) > 150 {
							continue
						}
						cases = append(cases, cs{o.op, o.helper, o.not, a, b, "a " + o.op + " b"})
						lines = append(lines, T("arith", A(o.helper), valSx(a), valSx(b)).String())
					}
				}
			}
		}
	}
	resp, err := c.AskAll(lines)
	if err != nil {
		r.Mismatch("driver", "arith", err.Error(), "")
		return
	}
	progs := map[string]bool{}
	typed := map[string][]*vm.Program{}
	for i, k := range cases {
		env := map[string]interface{}{"a": k.a, "b": k.b}
		v, err := expr.Eval(k.src, env)
		impl := implOutcome(v, err)
		model := resp[i]
		if k.not && strings.HasPrefix(model, "(ok (b ") {
			if model == "(ok (b true))" {
				model = "(ok (b false))"
			} else {
				model = "(ok (b true))"
			}
		}
		key := fmt.Sprintf("%s %s %s", valSx(k.a), k.op, valSx(k.b))
		ka, kb := kindNameOf(k.a), kindNameOf(k.b)
		r.Case(key, ka != kb || !(isSmall(k.a) && isSmall(k.b)))
		r.Count("op:"+k.op, 1)
		if strings.HasPrefix(impl, "(err") {
			r.Count("errors", 1)
		}
		if impl != model && !(isNaNResp(impl) && isNaNResp(model)) {
			r.Violate(Violation{
				What: "run-time result differs from the promotion rule", Key: "c14:" + k.op + ":" + ka + ":" + kb,
				Input:  map[string]string{"expr": k.src, "a": valSx(k.a).String(), "b": valSx(k.b).String()},
				Expect: model, Got: impl,
			})
			continue
		}
		// result kind = the kind the type checker predicts (once per (op, ka, kb), on the real checker)
		pk := k.op + ":" + ka + ":" + kb
		if !progs[pk] && err == nil {
			progs[pk] = true
			tree, perr := parser.Parse(k.src)
			if perr != nil {
				r.Violate(Violation{What: "parse failed", Key: "c14:parse", Input: k.src, Got: perr.Error()})
				continue
			}
			t, cerr := checker.Check(tree, conf.New(env))
			if cerr != nil {
				r.Violate(Violation{What: "checker rejects numeric operation", Key: "c14:check:" + pk, Input: k.src + " " + ka + " " + kb, Got: cerr.Error()})
				continue
			}
			if t.Kind() != reflect.TypeOf(v).Kind() {
				r.Violate(Violation{What: "result kind differs from the checker's prediction", Key: "c14:kind:" + pk,
					Input: map[string]string{"expr": k.src, "a": valSx(k.a).String(), "b": valSx(k.b).String()}, Expect: t.Kind().String(), Got: kindNameOf(v)})
			}
			r.Count("checker-kind-checked", 1)
		}
		// the typed pipeline (expr.Compile with Env: kind-directed instructions such as OpEqualInt) follows the
		// same rule on EVERY value of the grid: one program per (op, kinds), compiled with the optimizer on and
		// off, run on each pair of values (seed c14_5: a widened integer-equality fast path differs from the
		// rule only where the conversion truncates)
		for oi, tp := range c14TypedProgs(typed, pk, k.src, env) {
			v2, err2 := expr.Run(tp, env)
			impl2 := implOutcome(v2, err2)
			r.Count("typed-runs", 1)
			if impl2 != model && !(isNaNResp(impl2) && isNaNResp(model)) {
				r.Violate(Violation{What: "typed pipeline (Compile with Env) differs from the promotion rule", Key: "c14:typed:" + pk,
					Input:  map[string]string{"expr": k.src, "a": valSx(k.a).String(), "b": valSx(k.b).String(), "optimize": fmt.Sprint(oi == 0)},
					Expect: model, Got: impl2})
			}
		}
	}
	if r.Counters["typed-runs"] == 0 {
		r.Mismatch("generator", "typed-runs", "no typed program was run", "")
	}
	// the property's rank read literally ("by width"): the platform-sized int/uint rank by their 64-bit width.
	// The code ranks them first in their group; every disagreement is the one listed finding.
	{
		var wl []string
		var wc []cs
		for _, o := range c14ops {
			for _, ka := range kindOrder {
				for _, kb := range kindOrder {
					if ka != "int" && ka != "uint" && kb != "int" && kb != "uint" {
						continue
					}
					ga, gb := grids[ka], grids[kb]
					for i := 0; i < 12; i++ {
						a, b := ga[(i*5+2)%len(ga)], gb[(i*3+1)%len(gb)]
						wc = append(wc, cs{o.op, o.helper, o.not, a, b, "a " + o.op + " b"})
						wl = append(wl, T("arithw", A(o.helper), valSx(a), valSx(b)).String())
					}
				}
			}
		}
		wresp, err := c.AskAll(wl)
		if err != nil {
			r.Mismatch("driver", "arithw", err.Error(), "")
			return
		}
		for i, k := range wc {
			v, err := expr.Eval(k.src, map[string]interface{}{"a": k.a, "b": k.b})
			impl := implOutcome(v, err)
			model := wresp[i]
			if k.not && strings.HasPrefix(model, "(ok (b ") {
				if model == "(ok (b true))" {
					model = "(ok (b false))"
				} else {
					model = "(ok (b true))"
				}
			}
			r.Count("by-width-compared", 1)
			if impl != model && !(isNaNResp(impl) && isNaNResp(model)) {
				r.Violate(Violation{What: "result differs from the promotion rule with kinds ranked by width (int/uint are 64 bits wide)",
					Key:    "c14:platform-int-ranked-below-narrow-kinds",
					Input:  map[string]string{"expr": k.src, "a": valSx(k.a).String(), "b": valSx(k.b).String()},
					Expect: model, Got: impl})
			}
		}
	}
	// unary minus on every kind, and ** result kind
	var ulines []string
	var uvals []interface{}
	for _, k := range kindOrder {
		for _, a := range grids[k] {
			uvals = append(uvals, a)
			ulines = append(ulines, T("neg", valSx(a)).String())
		}
	}
	uresp, err := c.AskAll(ulines)
	if err != nil {
		r.Mismatch("driver", "neg", err.Error(), "")
		return
	}
	for i, a := range uvals {
		v, err := expr.Eval("-a", map[string]interface{}{"a": a})
		impl := implOutcome(v, err)
		r.Case("-"+valSx(a).String(), !isSmall(a))
		r.Count("op:neg", 1)
		if impl != uresp[i] && !(isNaNResp(impl) && isNaNResp(uresp[i])) {
			r.Violate(Violation{What: "unary minus differs from Go negation at the operand's kind", Key: "c14:neg:" + kindNameOf(a), Input: valSx(a).String(), Expect: uresp[i], Got: impl})
		}
	}
	// ** : float64(a) ** float64(b) (math.Pow is library behaviour: compared with libm pow up to 4 ulp), result kind float64;
	// AsFloat64(): the result cast is Go's float64(x) for every kind, extrema included
	var plines []string
	type pc struct{ a, b interface{} }
	var pcs []pc
	for _, ka := range kindOrder {
		for _, kb := range kindOrder {
			ga, gb := grids[ka], grids[kb]
			for i := 0; i < 6; i++ {
				a := ga[(i*7+1)%len(ga)]
				if i >= 3 {
					a = ga[len(ga)-1-(i-3)] // extrema
				}
				b := gb[[]int{0, 1, 2}[i%3]%len(gb)]
				pcs = append(pcs, pc{a, b})
				plines = append(plines, T("pow", valSx(a), valSx(b)).String())
			}
		}
	}
	presp, err := c.AskAll(plines)
	if err != nil {
		r.Mismatch("driver", "pow", err.Error(), "")
		return
	}
	for i, k := range pcs {
		v, err := expr.Eval("a ** b", map[string]interface{}{"a": k.a, "b": k.b})
		r.Case("**"+valSx(k.a).String()+valSx(k.b).String(), true)
		r.Count("op:**", 1)
		if err != nil || kindNameOf(v) != "float64" {
			r.Violate(Violation{What: "** does not yield float64", Key: "c14:pow:" + kindNameOf(k.a) + ":" + kindNameOf(k.b), Input: valSx(k.a).String() + " ** " + valSx(k.b).String(), Expect: "float64", Got: fmt.Sprint(v, err)})
			continue
		}
		if !f64RespClose(presp[i], v.(float64)) {
			r.Violate(Violation{What: "** differs from pow(float64(a), float64(b))", Key: "c14:powval:" + kindNameOf(k.a) + ":" + kindNameOf(k.b),
				Input: map[string]string{"a": valSx(k.a).String(), "b": valSx(k.b).String()}, Expect: presp[i], Got: valSx(v).String()})
		}
	}
	var flines []string
	var fvals []interface{}
	for _, k := range kindOrder {
		for _, a := range grids[k] {
			fvals = append(fvals, a)
			flines = append(flines, T("tofloat", valSx(a)).String())
		}
	}
	fresp, err := c.AskAll(flines)
	if err != nil {
		r.Mismatch("driver", "tofloat", err.Error(), "")
		return
	}
	for i, a := range fvals {
		env := map[string]interface{}{"a": a}
		p, cerr := expr.Compile("a", expr.Env(env), expr.AsFloat64())
		if cerr != nil {
			r.Violate(Violation{What: "AsFloat64 rejected a numeric expression", Key: "c14:asfloat:compile", Input: valSx(a).String(), Got: cerr.Error()})
			continue
		}
		v, err := expr.Run(p, env)
		r.Case("float64("+valSx(a).String()+")", true)
		r.Count("op:asfloat64", 1)
		if impl := implOutcome(v, err); impl != fresp[i] {
			r.Violate(Violation{What: "AsFloat64 result differs from Go's float64(x)", Key: "c14:asfloat:" + kindNameOf(a), Input: valSx(a).String(), Expect: fresp[i], Got: impl})
		}
	}
	for _, o := range c14ops {
		if r.Counters["op:"+o.op] == 0 {
			r.Mismatch("generator", o.op, "no case generated", "")
		}
	}
}

// f64RespClose: model response `(ok (f64 bits))` within 4 ulp of x (or both NaN)
func f64RespClose(resp string, x float64) bool {
	m, err := ParseSx(resp)
	if err != nil || m.Tag() != "ok" || m.List[1].Tag() != "f64" {
		return false
	}
	var b uint64
	fmt.Sscan(m.List[1].List[1].Atom, &b)
	y := math.Float64frombits(b)
	if x != x || y != y {
		return x != x && y != y
	}
	xb := math.Float64bits(x)
	d := xb - b
	if b > xb {
		d = b - xb
	}
	return d <= 4
}

func isSmall(v interface{}) bool {
	rv := reflect.ValueOf(v)
	switch rv.Kind() {
	case reflect.Int, reflect.Int8, reflect.Int16, reflect.Int32, reflect.Int64:
		return rv.Int() == 0 || rv.Int() == 1
	case reflect.Uint, reflect.Uint8, reflect.Uint16, reflect.Uint32, reflect.Uint64:
		return rv.Uint() <= 1
	case reflect.Float32, reflect.Float64:
		return rv.Float() == 0 || rv.Float() == 1
	}
	return false
}

func init() { props["C14"] = runC14 }

// c14TypedProgs compiles src once per (operator, operand kinds) against the typed environment, with the
// optimizer on and off; a compile error yields no program (the untyped comparison above has already run).
func c14TypedProgs(cache map[string][]*vm.Program, pk, src string, env map[string]interface{}) []*vm.Program {
	if ps, ok := cache[pk]; ok {
		return ps
	}
	var ps []*vm.Program
	for _, opt := range []bool{true, false} {
		p, err := expr.Compile(src, expr.Env(env), expr.Optimize(opt))
		if err == nil {
			ps = append(ps, p)
		}
	}
	cache[pk] = ps
	return ps
}
