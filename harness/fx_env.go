package main

// Environment zoo, deep snapshot and deep copy shared by the C09 / C08 / C04 harnesses
// (identifiers carry the prefix fx/Fx so that they cannot collide with other property files).

import (
	"fmt"
	"reflect"
	"regexp"
	"sort"
	"strings"
)

type FxInner struct {
	N    int
	S    string
	Tags []string
	M    map[string]int
	P    *FxInner
}

func (i FxInner) Double() int   { return i.N * 2 }
func (i *FxInner) Name() string { return i.S }

type FxVec struct{ X, Y int }

type FxBase struct {
	BaseI  int
	Shared string
}

type FxBase2 struct {
	B2     int
	Shared string
}

type FxEnv struct {
	FxBase
	FxBase2
	I, J   int
	F      float64
	S, T   string
	B      bool
	I64    int64
	U8     uint8
	F32    float32
	Ints   []int
	Strs   []string
	Any    []interface{}
	Floats []float64
	M      map[string]int
	MS     map[string]interface{}
	In     FxInner
	PIn    *FxInner
	NilP   *FxInner
	Inners []FxInner
	V1, V2 FxVec
	Add    func(a, b int) int
	Concat func(xs ...interface{}) interface{}
	Upper  func(string) string
	Fib    func(int) int
	VAdd   func(a, b FxVec) FxVec
}

func (e *FxEnv) Twice(x int) int       { return 2 * x }
func (e *FxEnv) Greet(s string) string { return "hello " + s }
func (e *FxEnv) SumInts() int {
	t := 0
	for _, x := range e.Ints {
		t += x
	}
	return t
}

func fxAdd(a, b int) int { return a + b }
func fxConcat(xs ...interface{}) interface{} {
	var sb strings.Builder
	for _, x := range xs {
		fmt.Fprintf(&sb, "%v|", x)
	}
	return sb.String()
}
func fxUpper(s string) string { return strings.ToUpper(s) }
func fxFib(n int) int {
	a, b := 0, 1
	for i := 0; i < n && i < 90; i++ {
		a, b = b, a+b
	}
	return a
}
func fxVAdd(a, b FxVec) FxVec { return FxVec{a.X + b.X, a.Y + b.Y} }

// slices get spare capacity on purpose: a library write past len (an append through a shared slice) would show in the snapshot
func fxInts(xs ...int) []int {
	s := make([]int, len(xs), len(xs)+5)
	copy(s, xs)
	return s
}
func fxStrs(xs ...string) []string {
	s := make([]string, len(xs), len(xs)+5)
	copy(s, xs)
	return s
}

// fxNewEnv builds the struct environment; variant selects among a few value sets (deterministic, no randomness)
func fxNewEnv(variant int) *FxEnv {
	leaf := &FxInner{N: 7 + variant, S: "leaf", Tags: fxStrs("x", "y"), M: map[string]int{"k": 1}}
	any := make([]interface{}, 4, 9)
	copy(any, []interface{}{1, "two", 3.5, true})
	e := &FxEnv{
		FxBase: FxBase{BaseI: 11, Shared: "s1"}, FxBase2: FxBase2{B2: 22, Shared: "s2"},
		I: 3 + variant, J: -4, F: 2.5, S: "alpha", T: "beta" + fmt.Sprint(variant), B: variant%2 == 0,
		I64: 1 << 40, U8: 200, F32: 1.25,
		Ints: fxInts(1, 2, 3, 5, 8, 13+variant), Strs: fxStrs("a", "bb", "ccc", "alpha"), Any: any,
		Floats: []float64{0.5, 1.5, -2},
		M:      map[string]int{"a": 1, "b": 2, "c": 3, "alpha": 10},
		MS:     map[string]interface{}{"n": 1, "s": "str", "l": fxInts(4, 5), "m": map[string]interface{}{"deep": fxStrs("d")}},
		In:     FxInner{N: 5, S: "inner", Tags: fxStrs("t1", "t2", "t3"), M: map[string]int{"x": 9}, P: leaf},
		PIn:    &FxInner{N: 6, S: "ptr", Tags: fxStrs("p"), M: map[string]int{"y": 8}, P: leaf},
		Inners: []FxInner{{N: 1, S: "i1"}, {N: 2, S: "i2", Tags: fxStrs("q")}},
		V1:     FxVec{1, 2}, V2: FxVec{10, 20},
		Add:    fxAdd, Concat: fxConcat, Upper: fxUpper, Fib: fxFib, VAdd: fxVAdd,
	}
	return e
}

// fxNewMapEnv: the same names as a map[string]interface{} (methods and promoted fields become entries)
func fxNewMapEnv(variant int) map[string]interface{} {
	e := fxNewEnv(variant)
	return map[string]interface{}{
		"BaseI": e.BaseI, "B2": e.B2,
		"I": e.I, "J": e.J, "F": e.F, "S": e.S, "T": e.T, "B": e.B, "I64": e.I64, "U8": e.U8, "F32": e.F32,
		"Ints": e.Ints, "Strs": e.Strs, "Any": e.Any, "Floats": e.Floats, "M": e.M, "MS": e.MS,
		"In": e.In, "PIn": e.PIn, "NilP": e.NilP, "Inners": e.Inners, "V1": e.V1, "V2": e.V2,
		"Add": e.Add, "Concat": e.Concat, "Upper": e.Upper, "Fib": e.Fib, "VAdd": e.VAdd,
		"Twice": e.Twice, "Greet": e.Greet, "SumInts": e.SumInts,
	}
}

// ---- canonical deep snapshot ----

type fxSnapper struct {
	sb    strings.Builder
	addr  bool // render func values by code pointer (only meaningful within one process)
	seen  map[uintptr]int
	depth int
}

// fxSnap renders the whole value graph reachable from v: dynamic types, values, slices up to their
// capacity, map entries sorted, pointers followed (cycles cut), unexported fields included.
func fxSnap(v interface{}, addr bool) string {
	s := &fxSnapper{addr: addr, seen: map[uintptr]int{}}
	s.walk(reflect.ValueOf(v))
	return s.sb.String()
}

func (s *fxSnapper) walk(v reflect.Value) {
	if !v.IsValid() {
		s.sb.WriteString("nil")
		return
	}
	s.depth++
	defer func() { s.depth-- }()
	if s.depth > 60 {
		s.sb.WriteString("<deep>")
		return
	}
	t := v.Type()
	if t == reflect.TypeOf((*regexp.Regexp)(nil)) {
		if v.IsNil() {
			s.sb.WriteString("regexp(nil)")
		} else {
			// String() needs an interface; read the pattern through the exported method when allowed
			if v.CanInterface() {
				fmt.Fprintf(&s.sb, "regexp(%q)", v.Interface().(*regexp.Regexp).String())
			} else {
				s.sb.WriteString("regexp(?)")
			}
		}
		return
	}
	switch v.Kind() {
	case reflect.Bool:
		fmt.Fprintf(&s.sb, "%s(%v)", t, v.Bool())
	case reflect.Int, reflect.Int8, reflect.Int16, reflect.Int32, reflect.Int64:
		fmt.Fprintf(&s.sb, "%s(%d)", t, v.Int())
	case reflect.Uint, reflect.Uint8, reflect.Uint16, reflect.Uint32, reflect.Uint64, reflect.Uintptr:
		fmt.Fprintf(&s.sb, "%s(%d)", t, v.Uint())
	case reflect.Float32, reflect.Float64:
		fmt.Fprintf(&s.sb, "%s(%x)", t, v.Float())
	case reflect.Complex64, reflect.Complex128:
		fmt.Fprintf(&s.sb, "%s(%v)", t, v.Complex())
	case reflect.String:
		fmt.Fprintf(&s.sb, "%s(%q)", t, v.String())
	case reflect.Interface:
		if v.IsNil() {
			s.sb.WriteString("iface(nil)")
		} else {
			s.sb.WriteString("iface:")
			s.walk(v.Elem())
		}
	case reflect.Ptr:
		if v.IsNil() {
			fmt.Fprintf(&s.sb, "%s(nil)", t)
			return
		}
		// shared sub-structures are rendered at every occurrence; only true cycles are cut
		p := v.Pointer()
		if _, ok := s.seen[p]; ok {
			s.sb.WriteString("&cycle")
			return
		}
		s.seen[p] = 1
		s.sb.WriteString("&")
		s.walk(v.Elem())
		delete(s.seen, p)
	case reflect.Slice:
		if v.IsNil() {
			fmt.Fprintf(&s.sb, "%s(nil)", t)
			return
		}
		fmt.Fprintf(&s.sb, "%s[len=%d cap=%d:", t, v.Len(), v.Cap())
		full := v
		if v.Cap() > v.Len() && v.Cap()-v.Len() <= 64 {
			full = v.Slice(0, v.Cap())
		}
		for i := 0; i < full.Len(); i++ {
			if i > 0 {
				s.sb.WriteByte(',')
			}
			s.walk(full.Index(i))
		}
		s.sb.WriteByte(']')
	case reflect.Array:
		fmt.Fprintf(&s.sb, "%s[", t)
		for i := 0; i < v.Len(); i++ {
			if i > 0 {
				s.sb.WriteByte(',')
			}
			s.walk(v.Index(i))
		}
		s.sb.WriteByte(']')
	case reflect.Map:
		if v.IsNil() {
			fmt.Fprintf(&s.sb, "%s(nil)", t)
			return
		}
		var ents []string
		it := v.MapRange()
		for it.Next() {
			k := &fxSnapper{addr: s.addr, seen: s.seen, depth: s.depth}
			k.walk(it.Key())
			k.sb.WriteString("=>")
			k.walk(it.Value())
			ents = append(ents, k.sb.String())
		}
		sort.Strings(ents)
		fmt.Fprintf(&s.sb, "%s{%s}", t, strings.Join(ents, ";"))
	case reflect.Struct:
		fmt.Fprintf(&s.sb, "%s{", t)
		for i := 0; i < v.NumField(); i++ {
			if i > 0 {
				s.sb.WriteByte(',')
			}
			s.sb.WriteString(t.Field(i).Name + ":")
			s.walk(v.Field(i))
		}
		s.sb.WriteByte('}')
	case reflect.Func:
		if v.IsNil() {
			fmt.Fprintf(&s.sb, "%s(nil)", t)
		} else if s.addr {
			fmt.Fprintf(&s.sb, "%s@%x", t, v.Pointer())
		} else {
			fmt.Fprintf(&s.sb, "%s@func", t)
		}
	case reflect.Chan, reflect.UnsafePointer:
		fmt.Fprintf(&s.sb, "%s@opaque", t)
	default:
		fmt.Fprintf(&s.sb, "%s?", t)
	}
}

// fxDeepCopy builds a structurally equal value that shares no mutable memory with v (funcs are shared;
// slices keep their capacity).  Only exported struct fields are copied (the zoo has no others).
func fxDeepCopy(v interface{}) interface{} {
	if v == nil {
		return nil
	}
	return fxCopyVal(reflect.ValueOf(v), map[uintptr]reflect.Value{}).Interface()
}

func fxCopyVal(v reflect.Value, seen map[uintptr]reflect.Value) reflect.Value {
	switch v.Kind() {
	case reflect.Ptr:
		if v.IsNil() {
			return v
		}
		if c, ok := seen[v.Pointer()]; ok {
			return c
		}
		n := reflect.New(v.Type().Elem())
		seen[v.Pointer()] = n
		n.Elem().Set(fxCopyVal(v.Elem(), seen))
		return n
	case reflect.Interface:
		if v.IsNil() {
			return v
		}
		n := reflect.New(v.Type()).Elem()
		n.Set(fxCopyVal(v.Elem(), seen))
		return n
	case reflect.Slice:
		if v.IsNil() {
			return v
		}
		n := reflect.MakeSlice(v.Type(), v.Len(), v.Cap())
		for i := 0; i < v.Len(); i++ {
			n.Index(i).Set(fxCopyVal(v.Index(i), seen))
		}
		return n
	case reflect.Array:
		n := reflect.New(v.Type()).Elem()
		for i := 0; i < v.Len(); i++ {
			n.Index(i).Set(fxCopyVal(v.Index(i), seen))
		}
		return n
	case reflect.Map:
		if v.IsNil() {
			return v
		}
		n := reflect.MakeMapWithSize(v.Type(), v.Len())
		it := v.MapRange()
		for it.Next() {
			n.SetMapIndex(fxCopyVal(it.Key(), seen), fxCopyVal(it.Value(), seen))
		}
		return n
	case reflect.Struct:
		n := reflect.New(v.Type()).Elem()
		for i := 0; i < v.NumField(); i++ {
			if v.Type().Field(i).PkgPath != "" {
				continue
			}
			n.Field(i).Set(fxCopyVal(v.Field(i), seen))
		}
		return n
	default:
		return v
	}
}
