import ExprModel.Syntax.Ast
/-
The AST walker of ast/visitor.go, in the functional reading of the `*Node` patching code.

`ast.Walk(&root, visitor)`:  `Enter(&slot)` may overwrite the slot; the type switch then dispatches on
the node that is *now* in the slot; every child slot the case lists is walked in the listed order and
whatever the visitor wrote into the child slot stays there; finally `Exit(&slot)` may overwrite the slot.

The list of child slots per node kind is a *table* (`WalkTable`), so that the same model runs with
  * `Gen.walkTargets` — what the `walker.walk` type switch says today (regenerated from the source), and
  * `refSlots`        — every `Node`/`[]Node` field of the node struct, in declaration order.
A visitor is an arbitrary pair of state-passing functions; since `Enter` can grow the tree for ever the
walk takes fuel (`none` = no normal return within the fuel).  `walker.walk` returns at once on a nil slot
(`if *node == nil { return }`, pinned by `C10.walker_shape`): neither `Enter` nor `Exit` is called for it.
Nil children are modelled only where the parser leaves them (`SliceNode.From` / `To`, type `Option Node`);
a visitor that *removes* a child of another slot (writes nil into it) is outside the model — the Lean
`Node` type has no nil there; in the code the walk skips such a slot and the type checker reports it.
-/
namespace ExprModel

/-- the 22 node struct types of ast/node.go (constructor = Go type name) -/
inductive NK where
  | NilNode | IdentifierNode | IntegerNode | FloatNode | BoolNode | StringNode | ConstantNode
  | UnaryNode | BinaryNode | MatchesNode | PropertyNode | IndexNode | SliceNode | MethodNode
  | FunctionNode | BuiltinNode | ClosureNode | PointerNode | ConditionalNode | ArrayNode | MapNode
  | PairNode
  deriving DecidableEq, Repr, Inhabited

def NK.all : List NK :=
  [.NilNode, .IdentifierNode, .IntegerNode, .FloatNode, .BoolNode, .StringNode, .ConstantNode,
   .UnaryNode, .BinaryNode, .MatchesNode, .PropertyNode, .IndexNode, .SliceNode, .MethodNode,
   .FunctionNode, .BuiltinNode, .ClosureNode, .PointerNode, .ConditionalNode, .ArrayNode, .MapNode,
   .PairNode]

def NK.name : NK → String
  | .NilNode => "NilNode" | .IdentifierNode => "IdentifierNode" | .IntegerNode => "IntegerNode"
  | .FloatNode => "FloatNode" | .BoolNode => "BoolNode" | .StringNode => "StringNode"
  | .ConstantNode => "ConstantNode" | .UnaryNode => "UnaryNode" | .BinaryNode => "BinaryNode"
  | .MatchesNode => "MatchesNode" | .PropertyNode => "PropertyNode" | .IndexNode => "IndexNode"
  | .SliceNode => "SliceNode" | .MethodNode => "MethodNode" | .FunctionNode => "FunctionNode"
  | .BuiltinNode => "BuiltinNode" | .ClosureNode => "ClosureNode" | .PointerNode => "PointerNode"
  | .ConditionalNode => "ConditionalNode" | .ArrayNode => "ArrayNode" | .MapNode => "MapNode"
  | .PairNode => "PairNode"

/-- the names of the `Node` / `[]Node` fields of the node structs (`fX` = Go field `X`) -/
inductive NField where
  | fNode | fLeft | fRight | fIndex | fFrom | fTo | fArguments | fCond | fExp1 | fExp2
  | fNodes | fPairs | fKey | fValue
  deriving DecidableEq, Repr, Inhabited

def NField.name : NField → String
  | .fNode => "Node" | .fLeft => "Left" | .fRight => "Right" | .fIndex => "Index" | .fFrom => "From"
  | .fTo => "To" | .fArguments => "Arguments" | .fCond => "Cond" | .fExp1 => "Exp1" | .fExp2 => "Exp2"
  | .fNodes => "Nodes" | .fPairs => "Pairs" | .fKey => "Key" | .fValue => "Value"

/-- how the walker treats a child slot: `w.walk(&n.F)`, `for i := range n.F { w.walk(&n.F[i]) }`,
    `if n.F != nil { w.walk(&n.F) }` -/
inductive SlotKind where
  | single | list | optional
  deriving DecidableEq, Repr, Inhabited

structure Slot where
  field : NField
  kind : SlotKind
  deriving DecidableEq, Repr, Inhabited

/-- what node.go can say about a field: its name and whether it is `[]Node` -/
def Slot.erase (s : Slot) : NField × Bool := (s.field, s.kind == .list)

abbrev WalkTable := NK → List Slot

namespace Node

def nk : Node → NK
  | nil _ => .NilNode | ident .. => .IdentifierNode | int .. => .IntegerNode
  | float .. => .FloatNode | bool .. => .BoolNode | str .. => .StringNode
  | const .. => .ConstantNode | unary .. => .UnaryNode | binary .. => .BinaryNode
  | «matches» .. => .MatchesNode | prop .. => .PropertyNode | index .. => .IndexNode
  | slice .. => .SliceNode | method .. => .MethodNode | func .. => .FunctionNode
  | builtin .. => .BuiltinNode | closure .. => .ClosureNode | pointer .. => .PointerNode
  | cond .. => .ConditionalNode | array .. => .ArrayNode | map .. => .MapNode
  | pair .. => .PairNode

/-- contents of a child field -/
inductive SlotVal where
  | one (n : Node)            -- field of type Node that the parser never leaves nil
  | opt (n : Option Node)     -- field of type Node that may be nil (SliceNode.From / To)
  | many (ns : List Node)     -- field of type []Node
  | absent                    -- the struct has no such field
  deriving Inhabited

def getSlot : Node → NField → SlotVal
  | unary _ _ x, .fNode => .one x
  | binary _ _ l _, .fLeft => .one l
  | binary _ _ _ r, .fRight => .one r
  | «matches» _ _ l _, .fLeft => .one l
  | «matches» _ _ _ r, .fRight => .one r
  | prop _ x _ _, .fNode => .one x
  | index _ x _, .fNode => .one x
  | index _ _ i, .fIndex => .one i
  | slice _ x _ _, .fNode => .one x
  | slice _ _ f _, .fFrom => .opt f
  | slice _ _ _ t, .fTo => .opt t
  | method _ x _ _ _, .fNode => .one x
  | method _ _ _ a _, .fArguments => .many a
  | func _ _ a _, .fArguments => .many a
  | builtin _ _ a, .fArguments => .many a
  | closure _ x, .fNode => .one x
  | cond _ c _ _, .fCond => .one c
  | cond _ _ a _, .fExp1 => .one a
  | cond _ _ _ b, .fExp2 => .one b
  | array _ xs, .fNodes => .many xs
  | map _ ps, .fPairs => .many ps
  | pair _ k _, .fKey => .one k
  | pair _ _ v, .fValue => .one v
  | _, _ => .absent

/-- write into a child field (ill-kinded writes leave the node alone; the walker never makes one) -/
def setSlot : Node → NField → SlotVal → Node
  | unary m o _, .fNode, .one x => unary m o x
  | binary m o _ r, .fLeft, .one l => binary m o l r
  | binary m o l _, .fRight, .one r => binary m o l r
  | «matches» m h _ r, .fLeft, .one l => «matches» m h l r
  | «matches» m h l _, .fRight, .one r => «matches» m h l r
  | prop m _ n s, .fNode, .one x => prop m x n s
  | index m _ i, .fNode, .one x => index m x i
  | index m x _, .fIndex, .one i => index m x i
  | slice m _ f t, .fNode, .one x => slice m x f t
  | slice m x _ t, .fFrom, .opt f => slice m x f t
  | slice m x f _, .fTo, .opt t => slice m x f t
  | method m _ n a s, .fNode, .one x => method m x n a s
  | method m x n _ s, .fArguments, .many a => method m x n a s
  | func m n _ f, .fArguments, .many a => func m n a f
  | builtin m n _, .fArguments, .many a => builtin m n a
  | closure m _, .fNode, .one x => closure m x
  | cond m _ a b, .fCond, .one c => cond m c a b
  | cond m c _ b, .fExp1, .one a => cond m c a b
  | cond m c a _, .fExp2, .one b => cond m c a b
  | array m _, .fNodes, .many xs => array m xs
  | map m _, .fPairs, .many ps => map m ps
  | pair m _ v, .fKey, .one k => pair m k v
  | pair m k _, .fValue, .one v => pair m k v
  | n, _, _ => n

end Node

/-- every `Node` / `[]Node` field of each node struct in declaration order, written from the Lean
    `Node` type (`Option Node` fields are the two that the parser leaves nil). -/
def refSlots : WalkTable
  | .UnaryNode => [⟨.fNode, .single⟩]
  | .BinaryNode => [⟨.fLeft, .single⟩, ⟨.fRight, .single⟩]
  | .MatchesNode => [⟨.fLeft, .single⟩, ⟨.fRight, .single⟩]
  | .PropertyNode => [⟨.fNode, .single⟩]
  | .IndexNode => [⟨.fNode, .single⟩, ⟨.fIndex, .single⟩]
  | .SliceNode => [⟨.fNode, .single⟩, ⟨.fFrom, .optional⟩, ⟨.fTo, .optional⟩]
  | .MethodNode => [⟨.fNode, .single⟩, ⟨.fArguments, .list⟩]
  | .FunctionNode => [⟨.fArguments, .list⟩]
  | .BuiltinNode => [⟨.fArguments, .list⟩]
  | .ClosureNode => [⟨.fNode, .single⟩]
  | .ConditionalNode => [⟨.fCond, .single⟩, ⟨.fExp1, .single⟩, ⟨.fExp2, .single⟩]
  | .ArrayNode => [⟨.fNodes, .list⟩]
  | .MapNode => [⟨.fPairs, .list⟩]
  | .PairNode => [⟨.fKey, .single⟩, ⟨.fValue, .single⟩]
  | _ => []

/-- `ast.Visitor`: `Enter(*Node)` / `Exit(*Node)` may overwrite the slot and keep state in the receiver. -/
structure Visitor (σ : Type) where
  enter : Node → σ → Node × σ
  exit : Node → σ → Node × σ

/-- `ast.Patch(node, newNode)`: the new node takes over type and location of the node it replaces. -/
def astPatch (old new : Node) : Node := new.withMeta old.getMeta

section walk
variable {σ : Type}

/-- `for i := range n.F { w.walk(&n.F[i]) }` -/
def walkList (rec : Node → σ → Option (Node × σ)) : List Node → σ → Option (List Node × σ)
  | [], s => some ([], s)
  | c :: cs, s =>
    match rec c s with
    | none => none
    | some (c', s1) =>
      match walkList rec cs s1 with
      | none => none
      | some (cs', s2) => some (c' :: cs', s2)

/-- the child walks of one `case` of the type switch, in the order the case lists them, each result
    written back to the slot it was read from -/
def walkSlots (rec : Node → σ → Option (Node × σ)) : List Slot → Node → σ → Option (Node × σ)
  | [], n, s => some (n, s)
  | sl :: rest, n, s =>
    match sl.kind, n.getSlot sl.field with
    | .single, .one c =>
      match rec c s with
      | none => none
      | some (c', s1) => walkSlots rec rest (n.setSlot sl.field (.one c')) s1
    | .single, .opt (some c) =>
      match rec c s with
      | none => none
      | some (c', s1) => walkSlots rec rest (n.setSlot sl.field (.opt (some c'))) s1
    | .single, .opt none => walkSlots rec rest n s   -- `if *node == nil { return }`: a nil slot is not entered
    | .optional, .opt (some c) =>
      match rec c s with
      | none => none
      | some (c', s1) => walkSlots rec rest (n.setSlot sl.field (.opt (some c'))) s1
    | .optional, .opt none => walkSlots rec rest n s
    | .optional, .one c =>
      match rec c s with
      | none => none
      | some (c', s1) => walkSlots rec rest (n.setSlot sl.field (.one c')) s1
    | .list, .many cs =>
      match walkList rec cs s with
      | none => none
      | some (cs', s1) => walkSlots rec rest (n.setSlot sl.field (.many cs')) s1
    | _, _ => none                         -- does not type-check in Go; the translator refuses it

/-- `walker.walk` with the child-slot table `tbl`. -/
def walk (tbl : WalkTable) (v : Visitor σ) : Nat → Node → σ → Option (Node × σ)
  | 0, _, _ => none
  | fuel + 1, n, s =>
    let (n1, s1) := v.enter n s
    match walkSlots (walk tbl v fuel) (tbl n1.nk) n1 s1 with
    | none => none
    | some (n2, s2) => some (v.exit n2 s2)

end walk

/-! ### Events: the Enter/Exit stream of a walk -/

inductive Event where
  | enter (n : Node)
  | exit (n : Node)
  deriving Inhabited

/-- wrap a visitor so that it records the node handed to every `Enter` and `Exit` call -/
def Visitor.logged {σ : Type} (v : Visitor σ) : Visitor (σ × List Event) where
  enter n st := let (n', s') := v.enter n st.1; (n', (s', st.2 ++ [.enter n]))
  exit n st := let (n', s') := v.exit n st.1; (n', (s', st.2 ++ [.exit n]))

/-- the visitor that only looks -/
def Visitor.idle : Visitor Unit where
  enter n s := (n, s)
  exit n s := (n, s)

end ExprModel
