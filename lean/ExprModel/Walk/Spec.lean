import ExprModel.Walk.Generic
/-
Reference (Spec) side of the traversal property C10, written by plain structural recursion over the
`Node` type, without the slot table:

  * `Node.children` / `Node.withChildren` — every child of a node in field order, and the node rebuilt
    around new children (same kind, same scalar fields, same meta);
  * `foldN` — the generic structural fold, from which `preorder`, `postorder`, `trace`, `size`, `height`;
  * `bottomUp g` — apply `g` to every node, children first, left to right;
  * `walkU` — the walker that visits *every* child (what ast.Walk is documented to do);
  * `nodeAt` — the sub-tree at a position (path of child ordinals).
-/
namespace ExprModel
namespace Node

/-- every child node, in field declaration order (`[]Node` fields flattened, nil fields skipped) -/
def children : Node → List Node
  | unary _ _ x => [x]
  | binary _ _ l r => [l, r]
  | «matches» _ _ l r => [l, r]
  | prop _ x _ _ => [x]
  | index _ x i => [x, i]
  | slice _ x f t => x :: (f.toList ++ t.toList)
  | method _ x _ a _ => x :: a
  | func _ _ a _ => a
  | builtin _ _ a => a
  | closure _ x => [x]
  | cond _ c a b => [c, a, b]
  | array _ xs => xs
  | map _ ps => ps
  | pair _ k v => [k, v]
  | _ => []

/-- the same node around new children (given as many as it has) -/
def withChildren : Node → List Node → Node
  | unary m o _, [x] => unary m o x
  | binary m o _ _, [l, r] => binary m o l r
  | «matches» m h _ _, [l, r] => «matches» m h l r
  | prop m _ n s, [x] => prop m x n s
  | index m _ _, [x, i] => index m x i
  | slice m _ (some _) (some _), [x, f, t] => slice m x (some f) (some t)
  | slice m _ (some _) none, [x, f] => slice m x (some f) none
  | slice m _ none (some _), [x, t] => slice m x none (some t)
  | slice m _ none none, [x] => slice m x none none
  | method m _ n _ s, x :: a => method m x n a s
  | func m n _ f, a => func m n a f
  | builtin m n _, a => builtin m n a
  | closure m _, [x] => closure m x
  | cond m _ _ _, [c, a, b] => cond m c a b
  | array m _, xs => array m xs
  | map m _, ps => map m ps
  | pair m _ _, [k, v] => pair m k v
  | n, _ => n

/-- apply `h` to every direct child -/
def mapChildren (h : Node → Node) (n : Node) : Node := n.withChildren (n.children.map h)

end Node

/-! ### the structural fold -/

section fold
variable {α : Type}

mutual
/-- `f` receives the node and the results for its children, in field order -/
def foldN (f : Node → List α → α) : Node → α
  | .nil m => f (.nil m) []
  | .ident m a b => f (.ident m a b) []
  | .int m v => f (.int m v) []
  | .float m v => f (.float m v) []
  | .bool m b => f (.bool m b) []
  | .str m s => f (.str m s) []
  | .const m v => f (.const m v) []
  | .unary m o x => f (.unary m o x) [foldN f x]
  | .binary m o l r => f (.binary m o l r) [foldN f l, foldN f r]
  | .matches m h l r => f (.matches m h l r) [foldN f l, foldN f r]
  | .prop m x n s => f (.prop m x n s) [foldN f x]
  | .index m x i => f (.index m x i) [foldN f x, foldN f i]
  | .slice m x fr t => f (.slice m x fr t) (foldN f x :: (foldO f fr ++ foldO f t))
  | .method m x n a s => f (.method m x n a s) (foldN f x :: foldL f a)
  | .func m n a fa => f (.func m n a fa) (foldL f a)
  | .builtin m n a => f (.builtin m n a) (foldL f a)
  | .closure m x => f (.closure m x) [foldN f x]
  | .pointer m => f (.pointer m) []
  | .cond m c a b => f (.cond m c a b) [foldN f c, foldN f a, foldN f b]
  | .array m xs => f (.array m xs) (foldL f xs)
  | .map m ps => f (.map m ps) (foldL f ps)
  | .pair m k v => f (.pair m k v) [foldN f k, foldN f v]
def foldL (f : Node → List α → α) : List Node → List α
  | [] => []
  | c :: cs => foldN f c :: foldL f cs
def foldO (f : Node → List α → α) : Option Node → List α
  | none => []
  | some c => [foldN f c]
end

end fold

namespace Node

/-- all sub-nodes, parents before children, children left to right -/
def preorder : Node → List Node := foldN fun n rs => n :: rs.flatten
/-- all sub-nodes, children (left to right) before parents -/
def postorder : Node → List Node := foldN fun n rs => rs.flatten ++ [n]
/-- the Enter/Exit stream the property prescribes: enter n, the streams of the children in order, exit n -/
def trace : Node → List Event := foldN fun n rs => .enter n :: (rs.flatten ++ [.exit n])
/-- number of nodes -/
def size : Node → Nat := foldN fun _ rs => rs.sum + 1
/-- number of nodes on the longest root-to-leaf path -/
def height : Node → Nat := foldN fun _ rs => rs.foldr max 0 + 1

end Node

def Event.entered : Event → Option Node
  | .enter n => some n
  | .exit _ => none
def Event.exited : Event → Option Node
  | .enter _ => none
  | .exit n => some n

/-! ### bottom-up rewriting -/

mutual
/-- children first (left to right), then the node itself -/
def bottomUp (g : Node → Node) : Node → Node
  | .nil m => g (.nil m)
  | .ident m a b => g (.ident m a b)
  | .int m v => g (.int m v)
  | .float m v => g (.float m v)
  | .bool m b => g (.bool m b)
  | .str m s => g (.str m s)
  | .const m v => g (.const m v)
  | .unary m o x => g (.unary m o (bottomUp g x))
  | .binary m o l r => g (.binary m o (bottomUp g l) (bottomUp g r))
  | .matches m h l r => g (.matches m h (bottomUp g l) (bottomUp g r))
  | .prop m x n s => g (.prop m (bottomUp g x) n s)
  | .index m x i => g (.index m (bottomUp g x) (bottomUp g i))
  | .slice m x f t => g (.slice m (bottomUp g x) (bottomUpO g f) (bottomUpO g t))
  | .method m x n a s => g (.method m (bottomUp g x) n (bottomUpL g a) s)
  | .func m n a f => g (.func m n (bottomUpL g a) f)
  | .builtin m n a => g (.builtin m n (bottomUpL g a))
  | .closure m x => g (.closure m (bottomUp g x))
  | .pointer m => g (.pointer m)
  | .cond m c a b => g (.cond m (bottomUp g c) (bottomUp g a) (bottomUp g b))
  | .array m xs => g (.array m (bottomUpL g xs))
  | .map m ps => g (.map m (bottomUpL g ps))
  | .pair m k v => g (.pair m (bottomUp g k) (bottomUp g v))
def bottomUpL (g : Node → Node) : List Node → List Node
  | [] => []
  | c :: cs => bottomUp g c :: bottomUpL g cs
def bottomUpO (g : Node → Node) : Option Node → Option Node
  | none => none
  | some c => some (bottomUp g c)
end

/-- run state transformers one after the other, collecting the nodes they produce -/
def seqS {σ : Type} : List (σ → Node × σ) → σ → List Node × σ
  | [], s => ([], s)
  | r :: rs, s =>
    let (k, s1) := r s
    let (ks, s2) := seqS rs s1
    (k :: ks, s2)

/-- bottom-up rewriting with state: the children left to right (threading the state), then `ex` on the
    node rebuilt around the rewritten children -/
def bottomUpS {σ : Type} (ex : Node → σ → Node × σ) : Node → σ → Node × σ :=
  foldN fun n rs s =>
    let (ks, s') := seqS rs s
    ex (n.withChildren ks) s'

/-! ### the complete walker -/

section walkU
variable {σ : Type}

/-- `Enter`, then every child in field order (each walk's result replaces the child), then `Exit`. -/
def walkU (v : Visitor σ) : Nat → Node → σ → Option (Node × σ)
  | 0, _, _ => none
  | fuel + 1, n, s =>
    let (n1, s1) := v.enter n s
    match walkList (walkU v fuel) n1.children s1 with
    | none => none
    | some (ks, s2) => some (v.exit (n1.withChildren ks) s2)

end walkU

/-- the sub-tree at a position: a path of child ordinals (ordinals count the children in field order) -/
def nodeAt : List Nat → Node → Option Node
  | [], n => some n
  | i :: p, n =>
    match n.children[i]? with
    | some c => nodeAt p c
    | none => none

/-- state of a position-tracking visitor: path of the node whose children are being walked, and the
    ordinal the next child to be entered will get -/
structure PathSt where
  path : List Nat
  next : Nat
  deriving Repr

/-- the visitor that rewrites, on `Exit`, exactly the node at position `target` (it finds the position by
    counting `Enter`/`Exit` calls — it never looks at the nodes) -/
def Visitor.atPath (target : List Nat) (g : Node → Node) : Visitor PathSt where
  enter n st := (n, { path := st.path ++ [st.next], next := 0 })
  exit n st :=
    (if st.path = target then g n else n,
     { path := st.path.dropLast, next := st.path.getLast?.getD 0 + 1 })

/-- rewrite the sub-tree at one position -/
def rewriteAt (g : Node → Node) : List Nat → Node → Node
  | [], n => g n
  | i :: p, n => n.withChildren (n.children.modify i (rewriteAt g p))

/-- what the walk leaves of a sub-tree sitting at position `cur` -/
def expectAt (g : Node → Node) (target cur : List Nat) (n : Node) : Node :=
  if cur <+: target then rewriteAt g (target.drop cur.length) n else n

/-- a visitor that never replaces a node (it may record anything in its state) -/
def Visitor.Observing {σ : Type} (v : Visitor σ) : Prop :=
  (∀ n s, (v.enter n s).1 = n) ∧ (∀ n s, (v.exit n s).1 = n)

/-- a stateless visitor that rewrites on `Exit` only -/
def Visitor.onExit (g : Node → Node) : Visitor Unit where
  enter n s := (n, s)
  exit n s := (g n, s)

/-- a visitor that rewrites on `Exit` only, with state -/
def Visitor.onExitS {σ : Type} (ex : Node → σ → Node × σ) : Visitor σ where
  enter n s := (n, s)
  exit := ex

end ExprModel
