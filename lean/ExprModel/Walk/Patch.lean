import ExprModel.Walk.Spec
/-
Operator overloading (C17): compiler/patcher.go, conf/operators_table.go, the operator loop of
conf/config.go `Check`.

Types are opaque keys (`String`): the only things the overload search does with a `reflect.Type` are
`==`, "is an interface", "is nil", and `Implements`.  The type annotation of a node (`node.Type()`) is
read through a parameter `tyOf : Node → String`; `nilTyKey` is the nil type (`reflect.TypeOf(nil)`).
-/
namespace ExprModel

/-- key of the nil `reflect.Type` (type of the literal `nil`) -/
def nilTyKey : String := ""

/-- one parameter of a candidate function -/
structure Param where
  ty : String                  -- key of the parameter type
  iface : Bool := false        -- `Kind() == reflect.Interface`
  impls : List String := []    -- keys of the types that implement it (consulted for interfaces only)
  deriving Repr, Inhabited, DecidableEq

/-- a candidate function of an operator: its name and the two parameters (after the receiver, for methods) -/
structure OpCand where
  fn : String
  l : Param
  r : Param
  deriving Repr, Inhabited, DecidableEq

/-- `conf.OperatorsTable` with the signatures of the named functions looked up in the types table -/
abbrev OpTable := List (String × List OpCand)

/-- `l == argType || (argType.Kind() == reflect.Interface && (l == nil || l.Implements(argType)))` -/
def Param.fits (p : Param) (t : String) : Bool :=
  t == p.ty || (p.iface && (t == nilTyKey || p.impls.contains t))

/-- `conf.FindSuitableOperatorOverload`: the first candidate both of whose parameters fit -/
def findOverload : List OpCand → String → String → Option String
  | [], _, _ => none
  | c :: cs, tl, tr => if c.l.fits tl && c.r.fits tr then some c.fn else findOverload cs tl tr

/-- the function an operator occurrence with operands `l`, `r` is mapped to, if any -/
def overloadFor (ops : OpTable) (tyOf : Node → String) (op : String) (l r : Node) : Option String :=
  match ops.lookup op with
  | none => none
  | some cands => findOverload cands (tyOf l) (tyOf r)

/-- `operatorPatcher.Exit` -/
def patchExit (ops : OpTable) (tyOf : Node → String) : Node → Node
  | .binary m op l r =>
    match overloadFor ops tyOf op l r with
    | some fn => astPatch (.binary m op l r) (.func {} fn [l, r] false)
    | none => .binary m op l r
  | n => n

/-- `operatorPatcher`: `Enter` is empty -/
def opPatcher (ops : OpTable) (tyOf : Node → String) : Visitor Unit := Visitor.onExit (patchExit ops tyOf)

/-- `compiler.PatchOperators` over the walker with slot table `tbl` (`none`: the walk panicked) -/
def patchOperators (tbl : WalkTable) (ops : OpTable) (tyOf : Node → String) (n : Node) : Option Node :=
  if ops.isEmpty then some n
  else match walk tbl (opPatcher ops tyOf) (n.height + 1) n () with
    | some (n', _) => some n'
    | none => none

/-! ### Spec: the explicit-call form, by structural recursion over every child slot -/

/-- an operator occurrence whose (already rewritten) operands match a candidate becomes the call
    `fn(l, r)` carrying the type and location of the occurrence; any other keeps its built-in meaning -/
def callOrOp (ops : OpTable) (tyOf : Node → String) (m : Meta) (op : String) (l r : Node) : Node :=
  match overloadFor ops tyOf op l r with
  | some fn => .func m fn [l, r] false
  | none => .binary m op l r

mutual
def explicitCallForm (ops : OpTable) (tyOf : Node → String) : Node → Node
  | .nil m => .nil m
  | .ident m a b => .ident m a b
  | .int m v => .int m v
  | .float m v => .float m v
  | .bool m b => .bool m b
  | .str m s => .str m s
  | .const m v => .const m v
  | .unary m o x => .unary m o (explicitCallForm ops tyOf x)
  | .binary m op l r => callOrOp ops tyOf m op (explicitCallForm ops tyOf l) (explicitCallForm ops tyOf r)
  | .matches m h l r => .matches m h (explicitCallForm ops tyOf l) (explicitCallForm ops tyOf r)
  | .prop m x n s => .prop m (explicitCallForm ops tyOf x) n s
  | .index m x i => .index m (explicitCallForm ops tyOf x) (explicitCallForm ops tyOf i)
  | .slice m x f t => .slice m (explicitCallForm ops tyOf x) (explicitCallFormO ops tyOf f) (explicitCallFormO ops tyOf t)
  | .method m x n a s => .method m (explicitCallForm ops tyOf x) n (explicitCallFormL ops tyOf a) s
  | .func m n a f => .func m n (explicitCallFormL ops tyOf a) f
  | .builtin m n a => .builtin m n (explicitCallFormL ops tyOf a)
  | .closure m x => .closure m (explicitCallForm ops tyOf x)
  | .pointer m => .pointer m
  | .cond m c a b => .cond m (explicitCallForm ops tyOf c) (explicitCallForm ops tyOf a) (explicitCallForm ops tyOf b)
  | .array m xs => .array m (explicitCallFormL ops tyOf xs)
  | .map m ps => .map m (explicitCallFormL ops tyOf ps)
  | .pair m k v => .pair m (explicitCallForm ops tyOf k) (explicitCallForm ops tyOf v)
def explicitCallFormL (ops : OpTable) (tyOf : Node → String) : List Node → List Node
  | [] => []
  | c :: cs => explicitCallForm ops tyOf c :: explicitCallFormL ops tyOf cs
def explicitCallFormO (ops : OpTable) (tyOf : Node → String) : Option Node → Option Node
  | none => none
  | some c => some (explicitCallForm ops tyOf c)
end

/-! ### `Config.Check`: the operator loop -/

/-- what `Config.Check` looks at in `c.Types[fn]` -/
structure FnTag where
  hasType : Bool := true   -- `Tag.Type != nil` (an ambiguous name has a tag without type)
  isFunc : Bool            -- `Type.Kind() == reflect.Func`
  method : Bool := false
  numIn : Nat
  numOut : Nat
  deriving Repr, Inhabited, DecidableEq

inductive CheckRes where
  | ok
  | missing (fn op : String)        -- "function %s for %s operator does not exist in environment"
  | badSignature (fn op : String)   -- "function %s for %s operator does not have a correct signature"
  deriving Repr, Inhabited, DecidableEq

def checkFn (types : List (String × FnTag)) (op fn : String) : CheckRes :=
  match types.lookup fn with
  | none => .missing fn op
  | some t =>
    if !t.hasType then .missing fn op        -- `fnType.Type == nil` (ambiguous name, nil map value)
    else if !t.isFunc then .missing fn op
    else if t.numIn != (if t.method then 3 else 2) || t.numOut != 1 then .badSignature fn op
    else .ok

def checkFns (types : List (String × FnTag)) (op : String) : List String → CheckRes
  | [] => .ok
  | fn :: fns => match checkFn types op fn with
    | .ok => checkFns types op fns
    | e => e

/-- the operator loop of `Config.Check` (in the order the map is ranged over) -/
def configCheck (types : List (String × FnTag)) : List (String × List String) → CheckRes
  | [] => .ok
  | (op, fns) :: rest => match checkFns types op fns with
    | .ok => configCheck types rest
    | e => e

/-- a name `Config.Check` accepts as an operator function -/
def FnTag.wellShaped (t : FnTag) : Bool :=
  t.hasType && t.isFunc && t.numIn == (if t.method then 3 else 2) && t.numOut == 1

end ExprModel
