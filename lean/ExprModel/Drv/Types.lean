import ExprModel.Types.HasType
import ExprModel.Types.SrcDefects
/- driver handlers for the type / name-resolution model (C16) -/
namespace ExprModel.Drv
open ExprModel

def bad : Sexp := .list [.atom "bad-request"]

/-- `asis` (the code's current flags; `repaired` is an alias) | `aswas` (the pinned snapshot before the
fixes), optionally suffixed `-rev` (iterate Go maps in reverse order) -/
def defectsOfAtom : String → Option (NDefects × (Table → Table))
  | "asis" => some (srcNDefects, id)        -- the flags derived from the source (= NDefects.asIs: Props/C16 src_flags_agree)
  | "repaired" => some (.repaired, id)
  | "aswas" => some (.asWas, id)
  | "asis-rev" => some (srcNDefects, List.reverse)
  | "repaired-rev" => some (.repaired, List.reverse)
  | "aswas-rev" => some (.asWas, List.reverse)
  | _ => none

def entriesOfSexp (xs : List Sexp) : Option (List (String × Option Ty)) :=
  xs.mapM fun
    | .list [n, t] => do pure ((← n.asStr), (← Ty.optOfSexp t))
    | _ => none

/-- `(env <ty|_> (name <ty|_>)…)` -/
def envOfSexp : Sexp → Option Env
  | .list (.atom "env" :: t :: es) => do
      pure { ty := (← Ty.optOfSexp t), entries := (← entriesOfSexp es) }
  | _ => none

def tagToSexp (n : String) (g : Tag) : Sexp :=
  .list [Sexp.str n, Ty.optToSexp g.ty, Sexp.bool g.method, Sexp.bool g.ambiguous]

def identToSexp : Except NameErr (Option Ty) → Sexp
  | .ok t => .list [.atom "ok", Ty.optToSexp t]
  | .error .ambiguous => .atom "ambiguous"
  | .error .unknown => .atom "unknown"
  | .error .methodValue => .atom "method-value"

def tyBoolToSexp : Option (Ty × Bool) → Sexp
  | some (t, b) => .list [.atom "ok", t.toSexp, Sexp.bool b]
  | none => .atom "none"

def resFieldToSexp : Resolution Field → Sexp
  | .found f => .list [.atom "found", f.ty.toSexp, Sexp.bool f.exported]
  | .ambiguous => .atom "ambiguous"
  | .notFound => .atom "none"

def optTyToSexp : Option Ty → Sexp
  | some t => .list [.atom "ok", t.toSexp]
  | none => .atom "none"

def optOptTyToSexp : Option (Option Ty) → Sexp
  | some t => .list [.atom "ok", Ty.optToSexp t]
  | none => .atom "none"

def handleTypes : List Sexp → Sexp
  | [.atom "c16-table", .atom d, e] =>
    match defectsOfAtom d, envOfSexp e with
    | some (d, σ), some e =>
      match createTypesTable d σ e with
      | none => .atom "nil"
      | some tbl => .list (.atom "table" :: tbl.map fun kv => tagToSexp kv.1 kv.2)
    | _, _ => bad
  | [.atom "c16-fields", .atom d, t] =>
    match defectsOfAtom d, Ty.ofSexp t with
    | some (d, σ), some t =>
      .list (.atom "table" :: (fieldsFromStruct d σ t).map fun kv => tagToSexp kv.1 kv.2)
    | _, _ => bad
  | [.atom "c16-mset", t] =>
    match Ty.ofSexp t with
    | some t => .list ((methodSet t).map fun m => .list [Sexp.str m.1, m.2.toSexp])
    | none => bad
  | .atom "c16-names" :: .atom d :: e :: names =>
    match defectsOfAtom d, envOfSexp e, names.mapM Sexp.asStr with
    | some (d, σ), some e, some names =>
      let tbl := createTypesTable d σ e
      let t := tbl.getD []
      let doc := docVars tbl
      let base := (e.ty.map Ty.derefOnce).getD (.struct [])
      .list (names.map fun n =>
        .list [Sexp.str n,
          identToSexp (identType d t n),
          tyBoolToSexp (funcTarget t n),
          optOptTyToSexp (fetchEnv d e n),
          tyBoolToSexp (match e.ty with | some ty => fetchFnTy d ty e.entries n | none => none),
          (if base.kind == .struct then resFieldToSexp (reflField base n) else .atom "na"),
          Sexp.bool (doc.contains n)])
    | _, _, _ => bad
  | .atom "c16-member" :: .atom d :: t :: names =>
    match defectsOfAtom d, Ty.ofSexp t, names.mapM Sexp.asStr with
    | some (d, _), some t, some names =>
      let base := if t.kind == .ptr then t.derefOnce else t
      .list (names.map fun n =>
        .list [Sexp.str n,
          optTyToSexp (fieldType d (t.depth + 1) t n),
          tyBoolToSexp (methodType d (t.depth + 1) t n),
          optTyToSexp (fetchTy d t n),
          tyBoolToSexp (fetchFnTy d t [] n),
          (if base.kind == .struct then resFieldToSexp (reflField base n) else .atom "na")])
    | _, _, _ => bad
  | _ => bad

/-! ### C03: the checker -/

def tdefectsOfAtom : String → Option TDefects
  | "asis" => some .asIs
  | "aswas" => some .asWas
  | "repaired" => some .repaired
  | "safefix" => some .safeFix
  | "safefix2" => some .safeFix2
  | "safefix3" => some .safeFix3
  | "safefix4" => some .safeFix4
  | _ => none

def expectOfAtom : String → Option Expect
  | "none" => some .none | "bool" => some .bool | "int64" => some .int64 | "float64" => some .float64
  | _ => none

/-- `expr.Env(env)`: strict, the types table of the environment, the default type of a typed map -/
def cfgOfEnv (dn : NDefects) (dt : TDefects) (e : Env) (strict : Bool) (ex : Expect) : CheckCfg :=
  { types := createTypesTable dn id e
    strict := strict
    defaultType :=
      match e.ty with
      | some t => if t != .map .string interfaceType && t.kind == .map then t.elem? else none
      | none => none
    expect := ex, dn := dn, dt := dt }

def locToSexp (l : Loc) : List Sexp := [Sexp.nat l.line, Sexp.nat l.col]

/-- `(c03-check <asis|aswas|repaired> <env> <strict> <expect> <node>)` -/
def handleCheck : List Sexp → Sexp
  | [.atom "c03-check", .atom d, e, strict, .atom ex, n] =>
    match defectsOfAtom (if d == "safefix" || d == "safefix2" || d == "safefix3" || d == "safefix4" then "asis" else d), tdefectsOfAtom d, envOfSexp e, strict.asBool,
        expectOfAtom ex, Node.ofSexp n with
    | some (dn, _), some dt, some e, some strict, some ex, some n =>
      match check (cfgOfEnv dn dt e strict ex) n with
      | .ok n' t => .list [.atom "ok", Ty.optToSexp t, n'.toSexp]
      | .error (some l) c n' => .list ([.atom "err"] ++ locToSexp l ++ [.atom c.name, n'.toSexp])
      | .error none c n' => .list [.atom "err", .atom "-1", .atom "-1", .atom c.name, n'.toSexp]
      | .panic _ => .list [.atom "panic"]
    | _, _, _, _, _, _ => bad
  | _ => bad

/-- `(c03-ref <env> <node> [<strict>])`: the verdict of the reference typing rules (`synth` with the
documented rule set) — the Spec side of the oracle for ill-typed mutants; `strict` defaults to true -/
def refVerdict (e : Env) (n : Node) (strict : Bool) : Sexp :=
  -- the documented rule set, except that `filter`/`map` keep the static slice type the code reports:
  -- that deviation is judged by comparing dynamic and static type (keys `…:filter-static-slice`,
  -- `…:map-static-slice`), and judging the expressions that *use* such results by `[]interface{}`
  -- would only repeat it
  let cfg := cfgOfEnv .asIs { TDefects.repaired with staticSliceOf := true } e strict .none
  match synth cfg [] n with
  | some t => .list [.atom "well", Ty.optToSexp t, Sexp.bool (staticNode cfg [] n)]
  | none =>
    -- which rule rejects it: the error the checker with the documented rule set reports
    let cfg2 := cfgOfEnv .asIs { TDefects.repaired with staticSliceOf := true, retypeNonLiteral := true } e strict .none
    match check cfg n with
    | .error _ c _ =>
      -- `bad-argument` only because a non-literal arithmetic argument must not take the parameter's type?
      if c == .badArgument && (synth cfg2 [] n).isSome then .list [.atom "ill", .atom "retyped-non-literal-argument"]
      else .list [.atom "ill", .atom c.name]
    | _ => .list [.atom "ill", .atom "panic"]

def handleRef : List Sexp → Sexp
  | [.atom "c03-ref", e, n] =>
    match envOfSexp e, Node.ofSexp n with
    | some e, some n => refVerdict e n true
    | _, _ => bad
  | [.atom "c03-ref", e, n, strict] =>
    match envOfSexp e, Node.ofSexp n, strict.asBool with
    | some e, some n, some st => refVerdict e n st
    | _, _, _ => bad
  | _ => bad

/-- `(c16-srcflags)` → the five switches derived from vm/runtime.go and checker/checker.go -/
def handleSrcFlags : List Sexp → Sexp
  | _ => .list [.atom "ndefects", Sexp.bool srcNDefects.ptrFuncNotFetched, Sexp.bool srcNDefects.ptrIfaceFuncNotFetched,
      Sexp.bool srcNDefects.fetchFnNoUnwrap, Sexp.bool srcNDefects.fetchDerefOnce, Sexp.bool srcNDefects.methodAsValue]

def typesHandlers : List (String × (List Sexp → Sexp)) :=
  [("c16-table", handleTypes), ("c16-fields", handleTypes), ("c16-mset", handleTypes),
   ("c16-names", handleTypes), ("c16-member", handleTypes), ("c03-check", handleCheck),
   ("c03-ref", handleRef), ("c16-srcflags", handleSrcFlags)]

end ExprModel.Drv
