import ExprModel.Code.Compile
import ExprModel.VM.Step
import ExprModel.Gen.Opcodes
/- driver stages: `compile` (model of compiler.Compile) and `vmrun` (model of (*VM).Run) -/
namespace ExprModel.Drv
open ExprModel

def locsToSexp (t : List (Nat × Loc)) : Sexp :=
  .list (.atom "locs" :: t.map fun (o, l) => .list [Sexp.nat o, Sexp.nat l.line, Sexp.nat l.col])

def hexOfNats (bs : List Nat) : String := Sexp.hexOfBytes (bs.map UInt8.ofNat)

def compiledToSexp (c : Compiled) : Sexp :=
  .list [.atom "prog", .list [.atom "bytes", .atom (hexOfNats c.bytes)],
         .list (.atom "consts" :: c.consts.toList.map Val.toSexp), locsToSexp (locTable 0 c.code)]

def cfgOfSexp : Sexp → Option CompCfg
  | .list [.atom "cfg", mapEnv, .atom cast] => do
    let m ← mapEnv.asBool
    let c := match cast with
      | "int64" => some 0
      | "float64" => some 1
      | _ => none
    pure { mapEnv := m, cast := c, jumpGuard := Gen.jumpGuard }
  | _ => none

/-- `(compile (cfg <mapEnv> <cast|_>) <node>)` -/
def handleCompile : List Sexp → Sexp
  | [.atom "compile", cfg, node] =>
    match cfgOfSexp cfg, Node.ofSexp node with
    | some cfg, some n =>
      match compileProgram cfg n with
      | .ok c => compiledToSexp c
      | .error e => .list [.atom "err", Sexp.str (reprStr e)]
    | _, _ => .list [.atom "bad-request"]
  | _ => .list [.atom "bad-request"]

/-! ### the behaviour library of environment functions (mirrored in harness/zoo.go) -/

def sumInts : List Val → Option Int
  | [] => some 0
  | .int .int n :: rest => (sumInts rest).map (· + n)
  | _ => none

def libCall (id : String) (args : List Val) : R Val :=
  match id, args with
  | "Id", [x] => .ok x
  | "Inc", [.int .int n] => .ok (.int .int (wrap .int (n + 1)))
  | "Add", [.int .int a, .int .int b] => .ok (.int .int (wrap .int (a + b)))
  | "Cat", [.str a, .str b] => .ok (.str (a ++ b))
  | "IsPos", [.int .int n] => .ok (.bool (n > 0))
  | "Fail", _ => .error .call
  | "Fast", xs => .ok (.int .int xs.length)
  | "List", xs => .ok (.arr .iface xs)
  | "Sum", xs => match sumInts xs with
    | some s => .ok (.int .int (wrap .int s))
    | none => .error .type_
  | "Nil", [] => .ok .nil
  | "Half", [.f64 x] => .ok (.f64 (x / 2))
  | "I64", [.int .int64 n] => .ok (.int .int64 n)
  | "Twice", [.int .int n] => .ok (.int .int (wrap .int (2 * n)))
  | "K8", [.int .int8 n] => .ok (.int .int8 n)
  | "K16", [.int .int16 n] => .ok (.int .int16 n)
  | "K32", [.int .int32 n] => .ok (.int .int32 n)
  | "KU", [.int .uint n] => .ok (.int .uint n)
  | "KU8", [.int .uint8 n] => .ok (.int .uint8 n)
  | "KU16", [.int .uint16 n] => .ok (.int .uint16 n)
  | "KU32", [.int .uint32 n] => .ok (.int .uint32 n)
  | "KU64", [.int .uint64 n] => .ok (.int .uint64 n)
  | "KF32", [.f32 x] => .ok (.f32 x)
  | _, _ => .error .type_

def regexTable : Sexp → List (String × String × Option Bool)
  | .list (.atom "regex" :: rows) => rows.filterMap fun
    | .list [p, s, .atom r] => do
      let p ← p.asStr
      let s ← s.asStr
      pure (p, s, if r == "true" then some true else if r == "false" then some false else none)
    | _ => none
  | _ => []

/-- one item of a pattern of the class below: a literal rune, `^` (beginning of the text) or `$` (end of the text) -/
inductive RxItem where
  | lit (c : Char)
  | bol
  | eol

/-- the items match a prefix of `rest`; `atStart`: nothing of the text has been consumed yet -/
def rxMatchAt : List RxItem → List Char → Bool → Bool
  | [], _, _ => true
  | .bol :: is, rest, atStart => atStart && rxMatchAt is rest atStart
  | .eol :: is, rest, atStart => rest.isEmpty && rxMatchAt is rest atStart
  | .lit c :: is, x :: xs, _ => x == c && rxMatchAt is xs false
  | .lit _ :: _, [], _ => false

/-- unanchored search: the items match at some position of the text -/
def rxSearch (items : List RxItem) : List Char → Bool → Bool
  | [], atStart => rxMatchAt items [] atStart
  | x :: xs, atStart => rxMatchAt items (x :: xs) atStart || rxSearch items xs false

/-- exact sub-model of regexp matching (Go's RE2 without flags) for the pattern class the generators can produce,
    also by concatenating strings at run time: ASCII literal runes and the assertions `^` / `$` at ANY position
    (`bc$bc$` is a valid pattern that matches nothing; it is not a pattern that fails to compile).  Any other
    metacharacter: `none`, and the harness supplies Go's answer or does not generate the pattern. -/
def simpleRegex (pat subj : String) : Option Bool :=
  let cs := pat.toList
  if cs.all (fun c => c.toNat < 128 && !("\\.+*?()|[]{}".toList.contains c)) then
    let items := cs.map fun c => if c == '^' then RxItem.bol else if c == '$' then RxItem.eol else RxItem.lit c
    some (rxSearch items subj.toList true)
  else none

def mkWorld (rx : List (String × String × Option Bool)) : World :=
  { call := libCall
    regexMatch := fun p s => match rx.find? (fun r => r.1 == p && r.2.1 == s) with
      | some r => r.2.2
      | none => simpleRegex p s
    pow := Float.pow }

def progOfSexp : Sexp → Option Prog
  | .list [.atom "prog", .list [.atom "bytes", .atom hex], .list (.atom "consts" :: cs), _] => do
    let bs ← Sexp.bytesOfHex hex
    let cs ← cs.mapM Val.ofSexp
    pure { code := (bs.map (·.toNat)).toArray, consts := cs.toArray }
  | _ => none

def logToSexp (log : List (String × List Val)) : Sexp :=
  .list (.atom "log" :: log.reverse.map fun (n, args) => .list (Sexp.str n :: args.map Val.toSexp))

def outcomeToSexp (r : R Val × VM) : Sexp :=
  let (res, s) := r
  match res with
  | .ok v => .list [.atom "ok", v.toSexp, Sexp.nat s.stack.length, Sexp.nat s.scopes.length,
                    Sexp.int s.memory, Sexp.nat s.created, logToSexp s.log]
  | .error e => .list [.atom "err", .atom e.name, Sexp.nat s.pp, Sexp.int s.memory, Sexp.nat s.created, logToSexp s.log]

def defectsOfSexp : Sexp → Defects
  | .list [.atom "defects", a, b] =>
    { rangeSizeSigned := a.asBool.getD false, memoryNotReset := b.asBool.getD false }
  | _ => Defects.none

/-- `(vmrun <budget> (defects <rangeSigned> <memNotReset>) <env> <prog> (regex …))`:
    one run on a fresh VM.  `(vmhist …)` runs a history on one VM (C07). -/
def handleVmrun : List Sexp → Sexp
  | [.atom "vmrun", budget, defects, env, prog, rx] =>
    match budget.asInt, Val.ofSexp env, progOfSexp prog with
    | some b, some env, some p =>
      -- OpRange checks the budget before it builds the range: only an absurd budget could make it build an absurd list
      if b > 20000000 then .list [.atom "refused", .atom "budget-too-large"] else
      let c : Cfg := { world := mkWorld (regexTable rx), env := env, budget := b, defects := defectsOfSexp defects }
      outcomeToSexp (run c p 2000000)
    | _, _, _ => .list [.atom "bad-request"]
  | _ => .list [.atom "bad-request"]

/-- `(vmhist <budget> <defects> (runs (<env> <prog> <regex>)…))`: all runs on ONE VM value -/
def handleVmhist : List Sexp → Sexp
  | [.atom "vmhist", budget, defects, .list (.atom "runs" :: runs)] =>
    match budget.asInt with
    | none => .list [.atom "bad-request"]
    | some b =>
      if b > 20000000 then .list [.atom "refused", .atom "budget-too-large"] else
      let rec go : List Sexp → VM → List Sexp → List Sexp
        | [], _, acc => acc.reverse
        | .list [env, prog, rx] :: rest, s, acc =>
          match Val.ofSexp env, progOfSexp prog with
          | some env, some p =>
            let c : Cfg := { world := mkWorld (regexTable rx), env := env, budget := b, defects := defectsOfSexp defects }
            let (res, s') := runOn c p 2000000 s
            go rest s' (outcomeToSexp (res, s') :: acc)
          | _, _ => go rest s (.list [.atom "bad-request"] :: acc)
        | _ :: rest, s, acc => go rest s (.list [.atom "bad-request"] :: acc)
      .list (.atom "hist" :: go runs {} [])
  | _ => .list [.atom "bad-request"]

def codeHandlers : List (String × (List Sexp → Sexp)) :=
  [("compile", handleCompile), ("vmrun", handleVmrun), ("vmhist", handleVmhist)]

end ExprModel.Drv
