import ExprModel.Spec.Eval
import ExprModel.Spec.EvalLoc
import ExprModel.Opt.Driver
import ExprModel.Drv.Code
/- driver stage `speceval`: the reference evaluator on a (typed) tree -/
namespace ExprModel.Drv
open ExprModel

def specOutcome (r : R Val × Spec.SState) : Sexp :=
  let (res, s) := r
  match res with
  | .ok v => .list [.atom "ok", v.toSexp, Sexp.int s.memory, Sexp.nat s.created, logToSexp s.log]
  | .error e => .list [.atom "err", .atom e.name, Sexp.int s.memory, Sexp.nat s.created, logToSexp s.log]

/-! ### refusing absurd ranges
`Spec.eval` builds the elements of a range before it checks the budget (the order is part of what the
refinement proofs unfold), so the *driver* refuses trees in which a range could have more than 2e6
elements instead of building it: literal bounds (after the model's constant folding) too far apart, or a
bound taken from an environment that contains an integer beyond ±2e6. -/

partial def hugeRange (lim : Int) (dynHuge : Bool) : Node → Bool
  | .binary _ op l r =>
    (op == ".." && (match l, r with
      | .int _ a, .int _ b => b - a > lim
      | .int _ a, _ => dynHuge || a < -lim
      | _, .int _ b => dynHuge || b > lim
      | _, _ => dynHuge)) || hugeRange lim dynHuge l || hugeRange lim dynHuge r
  | .unary _ _ x | .prop _ x _ _ | .closure _ x => hugeRange lim dynHuge x
  | .matches _ _ l r | .index _ l r | .pair _ l r => hugeRange lim dynHuge l || hugeRange lim dynHuge r
  | .slice _ x f t => hugeRange lim dynHuge x || (f.map (hugeRange lim dynHuge)).getD false || (t.map (hugeRange lim dynHuge)).getD false
  | .method _ x _ args _ => hugeRange lim dynHuge x || args.any (hugeRange lim dynHuge)
  | .func _ _ args _ | .builtin _ _ args | .array _ args | .map _ args => args.any (hugeRange lim dynHuge)
  | .cond _ a b d => hugeRange lim dynHuge a || hugeRange lim dynHuge b || hugeRange lim dynHuge d
  | _ => false

partial def valHasHugeInt (lim : Int) : Val → Bool
  | .int _ n => n > lim || n < -lim
  | .arr _ xs | .set _ xs => xs.any (valHasHugeInt lim)
  | .map kvs | .tmap _ _ kvs | .struct _ _ kvs => kvs.any fun kv => valHasHugeInt lim kv.2
  | _ => false

/-- constant bounds become literals under the model's fold pass; the scan is done on the folded tree -/
def refuseRange (env : Val) (n : Node) (lim : Int := 2000000) : Bool :=
  let folded := match Opt.repeatPass true (Opt.foldRule Opt.Flags.asWas (mkWorld [])) Opt.foldWalks n with
    | .ok n' => n'
    | .error _ => n
  hugeRange lim (valHasHugeInt lim env) folded

/-- `(speceval <budget> (flags <rangeSigned> <sliceToFirst>) <cast|_> <env> <node>)` -/
def handleSpec : List Sexp → Sexp
  | [.atom "speceval", budget, .list [.atom "flags", a, b], .atom cast, env, node] =>
    match budget.asInt, Val.ofSexp env, Node.ofSexp node with
    | some bd, some env, some n =>
      let c : Spec.SCfg := { world := mkWorld [], env := env, budget := bd,
                             rangeSizeSigned := a.asBool.getD false, sliceToFirst := b.asBool.getD false }
      let cst := match cast with
        | "int64" => some 0
        | "float64" => some 1
        | _ => none
      if refuseRange env n then .list [.atom "refused", .atom "huge-range"] else
      specOutcome (Spec.run c cst n)
    | _, _, _ => .list [.atom "bad-request"]
  | _ => .list [.atom "bad-request"]

/-- `(specloc <budget> (flags <rangeSigned> <sliceToFirst>) <cast|_> <env> <node>)`: the instrumented reference
    evaluator `Spec.runLoc` → `(ok)` or `(err <class> <line> <col>)`: the location of the node that raises the failure -/
def handleSpecLoc : List Sexp → Sexp
  | [.atom "specloc", budget, .list [.atom "flags", a, b], .atom cast, env, node] =>
    match budget.asInt, Val.ofSexp env, Node.ofSexp node with
    | some bd, some env, some n =>
      let c : Spec.SCfg := { world := mkWorld [], env := env, budget := bd,
                             rangeSizeSigned := a.asBool.getD false, sliceToFirst := b.asBool.getD false }
      let cst := match cast with
        | "int64" => some 0
        | "float64" => some 1
        | _ => none
      if refuseRange env n then .list [.atom "refused", .atom "huge-range"] else
      match (Spec.runLoc c cst n).1 with
      | .ok _ => .list [.atom "ok"]
      | .error (e, l) => .list [.atom "err", .atom e.name, Sexp.nat l.line, Sexp.nat l.col]
    | _, _, _ => .list [.atom "bad-request"]
  | _ => .list [.atom "bad-request"]

def specHandlers : List (String × (List Sexp → Sexp)) := [("speceval", handleSpec), ("specloc", handleSpecLoc)]

end ExprModel.Drv
