import ExprModel.Spec.Eval
import ExprModel.Drv.Code
/- driver stage `speceval`: the reference evaluator on a (typed) tree -/
namespace ExprModel.Drv
open ExprModel

def specOutcome (r : R Val × Spec.SState) : Sexp :=
  let (res, s) := r
  match res with
  | .ok v => .list [.atom "ok", v.toSexp, Sexp.int s.memory, Sexp.nat s.created, logToSexp s.log]
  | .error e => .list [.atom "err", .atom e.name, Sexp.int s.memory, Sexp.nat s.created, logToSexp s.log]

/-- `(speceval <budget> (flags <rangeSigned> <sliceToFirst>) <cast|_> <env> <node>)` -/
def handleSpec : List Sexp → Sexp
  | [.atom "speceval", budget, .list [.atom "flags", a, b], .atom cast, env, node] =>
    match budget.asInt, Val.ofSexp env, Node.ofSexp node with
    | some bd, some env, some n =>
      let c : Spec.SCfg := { world := mkWorld [], env := env, budget := bd,
                             rangeSizeSigned := a.asBool.getD false, sliceToFirst := b.asBool.getD false }
      let cst := match cast with
        | "int64" => some 0
        | "float64" => some 1
        | _ => none
      specOutcome (Spec.run c cst n)
    | _, _, _ => .list [.atom "bad-request"]
  | _ => .list [.atom "bad-request"]

def specHandlers : List (String × (List Sexp → Sexp)) := [("speceval", handleSpec)]

end ExprModel.Drv
