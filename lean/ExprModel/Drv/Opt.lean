import ExprModel.Opt.Driver
import ExprModel.Drv.Code
/- driver stage `optimize`: the model of optimizer.Optimize on a typed tree -/
namespace ExprModel.Drv
open ExprModel

def optFlagsOfSexp : Sexp → Opt.Flags
  | .list [.atom "flags", a, b, c, d, e, f] =>
    { walkSliceNode := a.asBool.getD false, inArrayStrGuard := b.asBool.getD false,
      inRangeKindGuard := c.asBool.getD false, inRangeSimpleLeft := d.asBool.getD false,
      foldPlainOnly := e.asBool.getD false, constExprConvert := f.asBool.getD false }
  | _ => Opt.Flags.asIs

def constFnsOfSexp : Sexp → Opt.ConstFns
  | .list (.atom "constexpr" :: rows) => rows.filterMap fun
    | .list [n, id] => do pure ((← n.asStr), (← id.asStr))
    | _ => none
  | _ => []

/-- `(optimize (flags <walkSlice> <strGuard> <kindGuard> <simpleLeft> <plainOnly> <convert>)
              (constexpr (<name> <id>)…) <typed node>)` → `(ok <node>)` | `(err <line> <col>)` -/
def handleOptimize : List Sexp → Sexp
  | [.atom "optimize", flags, fns, node] =>
    match Node.ofSexp node with
    | some n =>
      match Opt.optimize (optFlagsOfSexp flags) (constFnsOfSexp fns) (mkWorld []) n with
      | .ok n' => .list [.atom "ok", n'.toSexp]
      | .error l => .list [.atom "err", Sexp.nat l.line, Sexp.nat l.col]
    | none => .list [.atom "bad-request"]
  | _ => .list [.atom "bad-request"]

def optHandlers : List (String × (List Sexp → Sexp)) := [("optimize", handleOptimize)]

end ExprModel.Drv
