import ExprModel.Opt.Driver
import ExprModel.Opt.ObsEq
import ExprModel.Spec.Eval
import ExprModel.Drv.Code
import ExprModel.Drv.Spec
/- driver stages `optimize` (model of optimizer.Optimize on a typed tree) and `optspec`
   (reference evaluation of the tree before and after the model's optimisation) -/
namespace ExprModel.Drv
open ExprModel

def optFlagsOfSexp : Sexp → Opt.Flags
  | .list [.atom "flags", a, b, c, d, e, f, g] =>
    { walkSliceNode := a.asBool.getD false, inArrayStrGuard := b.asBool.getD false,
      inRangeKindGuard := c.asBool.getD false, inRangeSimpleLeft := d.asBool.getD false,
      foldPlainOnly := e.asBool.getD false, constExprConvert := f.asBool.getD false,
      constRangeNoOverflow := g.asBool.getD false }
  | .list [.atom "flags", a, b, c, d, e, f] =>
    { walkSliceNode := a.asBool.getD false, inArrayStrGuard := b.asBool.getD false,
      inRangeKindGuard := c.asBool.getD false, inRangeSimpleLeft := d.asBool.getD false,
      foldPlainOnly := e.asBool.getD false, constExprConvert := f.asBool.getD false }
  | _ => Opt.Flags.asIs

def constFnsOfSexp : Sexp → Opt.ConstFns
  | .list (.atom "constexpr" :: rows) => rows.filterMap fun
    | .list [n, id] => do pure ((← n.asStr), (← id.asStr))
    | _ => none
  | _ => []

/-- behaviours of the additional environment functions of harness/c02.go (ids = map keys) -/
def optLibCall (id : String) (args : List Val) : R Val :=
  match id, args with
  | "I8", [.int .int8 n] => .ok (.int .int8 n)
  | "U8", [.int .uint8 n] => .ok (.int .uint8 n)
  | "U64", [.int .uint64 n] => .ok (.int .uint64 n)
  | "F32", [.f32 x] => .ok (.f32 x)
  | "Up", [.str s] => .ok (.str (s ++ "!"))
  | "Neg", [.int .int n] => .ok (.int .int (wrap .int (-n)))
  | "Ints2", [.arr (.num .int) xs] => .ok (.int .int xs.length)
  | _, _ => libCall id args

def optWorld : World := { mkWorld [] with call := optLibCall }

/-- `(optimize (flags <walkSlice> <strGuard> <kindGuard> <simpleLeft> <plainOnly> <convert>)
              (constexpr (<name> <id>)…) <typed node>)` → `(ok <node>)` | `(err <line> <col>)` -/
def handleOptimize : List Sexp → Sexp
  | [.atom "optimize", flags, fns, node] =>
    match Node.ofSexp node with
    | some n =>
      match Opt.optimize (optFlagsOfSexp flags) (constFnsOfSexp fns) optWorld n with
      | .ok n' => .list [.atom "ok", n'.toSexp]
      | .error l => .list [.atom "err", Sexp.nat l.line, Sexp.nat l.col]
    | none => .list [.atom "bad-request"]
  | _ => .list [.atom "bad-request"]

/-- call logs are compared as rendered (floats by bit pattern: `-0.0` and `0.0` are different arguments) -/
def logEq : List (String × List Val) → List (String × List Val) → Bool
  | [], [] => true
  | (n, as) :: xs, (m, bs) :: ys =>
    n == m && (Sexp.list (as.map Val.toSexp)).toStr == (Sexp.list (bs.map Val.toSexp)).toStr && logEq xs ys
  | _, _ => false

def resSexp : R Val → Sexp
  | .ok v => .list [.atom "ok", v.toSexp]
  | .error e => .list [.atom "err", .atom e.name]

/-- `(optspec <flags> <constexpr> <foldArrays> <budget> <env> <typed node>)` →
    `(res <outcome of the tree as given> <outcome after Opt.optimize> same|differ <call logs: same|differ>)`;
    the second outcome is `(rejected fold|constexpr <line> <col>)` when the model's optimizer refuses.
    `foldArrays = false` is an analysis switch: literal arrays are not folded (guard filter). -/
def handleOptspec : List Sexp → Sexp
  | [.atom "optspec", flags, fns, foldArrays, budget, env, node] =>
    match Node.ofSexp node, Val.ofSexp env, budget.asInt with
    | some n, some env, some bd =>
      let fl := optFlagsOfSexp flags
      let fns := constFnsOfSexp fns
      let c : Spec.SCfg := { world := optWorld, env := env, budget := bd, rangeSizeSigned := false, sliceToFirst := true }
      let g : Opt.Guard := fun p nd => match p, nd with
        | .fold, .array .. => foldArrays.asBool.getD true
        | _, _ => true
      if refuseRange env n 200000 then .list [.atom "skipped"] else
      let ur := Spec.run c none n
      let u := ur.1
      match Opt.optimizeWith g fl fns optWorld n with
      | .ok n' =>
        let orr := Spec.run c none n'
        let o := orr.1
        let logs := logEq ur.2.log orr.2.log
        let same := match u, o with
          | .ok a, .ok b => Opt.obsEqB a b
          | .error _, .error _ => true
          | _, _ => false
        .list [.atom "res", resSexp u, resSexp o, .atom (if same then "same" else "differ"),
               .atom (if logs then "same" else "differ")]
      | .error l =>
        let which := match Opt.optimizeWith g fl [] optWorld n with
          | .error _ => "fold"
          | .ok _ => "constexpr"
        let same := match u with
          | .error _ => true
          | .ok _ => false
        .list [.atom "res", resSexp u, .list [.atom "rejected", .atom which, Sexp.nat l.line, Sexp.nat l.col],
               .atom (if same then "same" else "differ"), .atom "differ"]
    | _, _, _ => .list [.atom "bad-request"]
  | _ => .list [.atom "bad-request"]

/-- a range with literal bounds (after the model's constant folding) whose size `hi - lo + 1` does not fit Go's int -/
partial def overflowRange : Node → Bool
  | .binary _ op l r =>
    (op == ".." && (match l, r with
      | .int _ a, .int _ b => b - a + 1 > 9223372036854775807
      | _, _ => false)) || overflowRange l || overflowRange r
  | .unary _ _ x | .prop _ x _ _ | .closure _ x => overflowRange x
  | .matches _ _ l r | .index _ l r | .pair _ l r => overflowRange l || overflowRange r
  | .slice _ x f t => overflowRange x || (f.map overflowRange).getD false || (t.map overflowRange).getD false
  | .method _ x _ args _ => overflowRange x || args.any overflowRange
  | .func _ _ args _ | .builtin _ _ args | .array _ args | .map _ args => args.any overflowRange
  | .cond _ a b d => overflowRange a || overflowRange b || overflowRange d
  | _ => false

/-- `(rangeinfo <typed node>)` → `(rangeinfo <some literal range overflows int> <const_range folds differently with the
    overflow repair>)` -/
def handleRangeInfo : List Sexp → Sexp
  | [.atom "rangeinfo", node] =>
    match Node.ofSexp node with
    | some n =>
      let folded := match Opt.repeatPass true (Opt.foldRule Opt.Flags.asWas optWorld) Opt.foldWalks n with
        | .ok n' => n'
        | .error _ => n
      let a := (Opt.optimize { Opt.Flags.asIs with constRangeNoOverflow := false } [] optWorld n).toOption.map fun t => t.toSexp.toStr
      let b := (Opt.optimize { Opt.Flags.asIs with constRangeNoOverflow := true } [] optWorld n).toOption.map fun t => t.toSexp.toStr
      .list [.atom "rangeinfo", Sexp.bool (overflowRange folded), Sexp.bool (a != b)]
    | none => .list [.atom "bad-request"]
  | _ => .list [.atom "bad-request"]

def optHandlers : List (String × (List Sexp → Sexp)) := [("optimize", handleOptimize), ("optspec", handleOptspec), ("rangeinfo", handleRangeInfo)]

end ExprModel.Drv
