import ExprModel.Lex.Lexer
import ExprModel.Lex.Number
import ExprModel.Gen.LexTables
import ExprModel.Gen.UnicodeTables
/- driver handlers for the lexer model (C12): the model runs with the tables regenerated from the source
(`Gen.lexTables`, `Gen.numCfg`) and the `unicode` range tables of the Go toolchain (`Gen.goCharClass`). -/
namespace ExprModel.Drv
open ExprModel ExprModel.Lex

/-- `(lex <hex source>)` → `(toks (Kind <hex value> line col) …)` or `(err line col class)` -/
def handleLex : List Sexp → Sexp
  | [.atom "lex", src] =>
    match src.asStr with
    | some s =>
      match lex Gen.goCharClass Gen.lexTables s with
      | .ok toks => .list (.atom "toks" :: toks.map Token.toSexp)
      | .error (loc, cls) => .list [.atom "err", Sexp.nat loc.line, Sexp.nat loc.col, .atom cls]
    | none => .list [.atom "bad-request"]
  | _ => .list [.atom "bad-request"]

/-- `(number <hex text>)` → `(int n)`, `(float <hex text handed to ParseFloat>)` or `(err class)` -/
def handleNumber : List Sexp → Sexp
  | [.atom "number", txt] =>
    match txt.asStr with
    | some s =>
      match parseNumber Gen.numCfg s with
      | .ok (.int n) => .list [.atom "int", Sexp.int n]
      | .ok (.float t) => .list [.atom "float", Sexp.str t]
      | .error cls => .list [.atom "err", .atom cls]
    | none => .list [.atom "bad-request"]
  | _ => .list [.atom "bad-request"]

/-- `(charclass n)` → `(cc letter digit space)` for the code point `n` (checks the range tables) -/
def handleCharClass : List Sexp → Sexp
  | [.atom "charclass", n] =>
    match n.asNat with
    | some n =>
      let c := Char.ofNat n
      .list [.atom "cc", Sexp.bool (Gen.goCharClass.isLetter c), Sexp.bool (Gen.goCharClass.isDigit c),
        Sexp.bool (Gen.goCharClass.isSpace c)]
    | none => .list [.atom "bad-request"]
  | _ => .list [.atom "bad-request"]

/-- `(acceptword)` → `(acceptword b)`: the shape of lexer.acceptWord the translator found (`Gen.acceptWordAnySpace`) -/
def handleAcceptWord : List Sexp → Sexp
  | _ => .list [.atom "acceptword", Sexp.bool Gen.goCharClass.notInAnySpace]

def lexHandlers : List (String × (List Sexp → Sexp)) :=
  [("lex", handleLex), ("number", handleNumber), ("charclass", handleCharClass), ("acceptword", handleAcceptWord)]

end ExprModel.Drv
