import ExprModel.Code.WfStatic
import ExprModel.Drv.Code
/- driver stage `(wfstatic <prog>)`: the static checker of C05 on a program (real or modelled) -/
namespace ExprModel.Drv
open ExprModel

/-- `(wfstatic (prog (bytes hex) (consts …) (locs …)))` → `true` | `(false <reason> <offset>)` -/
def handleWfstatic : List Sexp → Sexp
  | [.atom "wfstatic", prog] =>
    match progOfSexp prog with
    | some p =>
      let bytes := p.code.toList
      if wfStatic bytes p.consts then .atom "true"
      else
        let (reason, off) := (wfDiagnose bytes p.consts).getD ("unknown", 0)
        .list [.atom "false", .atom reason, Sexp.nat off]
    | none => .list [.atom "bad-request"]
  | _ => .list [.atom "bad-request"]

/-- `(disasm <prog>)` → `(ok (<offset> <OpName> <operand or ->) …)` | `(undecodable)`: the model's linear decoding,
    compared with the library's own decoder `Program.Disassemble` -/
def handleDisasm : List Sexp → Sexp
  | [.atom "disasm", prog] =>
    match progOfSexp prog with
    | some p =>
      let bytes := p.code.toList
      match decodeAll bytes.length bytes with
      | some is =>
        .list (.atom "ok" :: (List.zip (instrOffsets 0 is) is).map fun (off, i) =>
          .list ([Sexp.nat off, .atom i.op.goName, if i.op.hasArg then Sexp.nat i.arg else .atom "-"] ++
            (match i.op.argClass with
             | .jumpFwd => [Sexp.nat (off + i.size + i.arg)]     -- the target Disassemble prints in parentheses
             | .jumpBack => [Sexp.nat (off + i.size - i.arg)]
             | _ => [])))
      | none => .list [.atom "undecodable"]
    | none => .list [.atom "bad-request"]
  | _ => .list [.atom "bad-request"]

def wfHandlers : List (String × (List Sexp → Sexp)) := [("wfstatic", handleWfstatic), ("disasm", handleDisasm)]

end ExprModel.Drv
