import ExprModel.Api.Pipeline
import ExprModel.Drv.Code
import ExprModel.Drv.Parse
import ExprModel.Gen.UnicodeTables
/- driver stage for the whole pipeline (`expr.Eval`): lexer, parser, compiler and VM models in a row -/
namespace ExprModel.Drv
open ExprModel ExprModel.Parser

/-- `(evalsource <budget> (defects a b) <env> <hex source> (floats …) (badre …) (regex …))` →
    `(lexerr)`, `(parseerr)`, `(compileerr)` or the outcome of `vmrun` -/
def handleEvalSource : List Sexp → Sexp
  | [.atom "evalsource", budget, defects, env, src, .list (.atom "floats" :: fl), .list (.atom "badre" :: br), rx] =>
    match budget.asInt, Val.ofSexp env, src.asStr, fl.mapM floatEntry, br.mapM Sexp.asStr with
    | some b, some env, some s, some floats, some bad =>
      let F : Api.Front :=
        { cc := Gen.goCharClass, tables := Gen.lexTables,
          pcfg := { tb := Gen.parserTables, num := numOf floats, badRegex := fun p => bad.contains p } }
      let c : Cfg := { world := mkWorld (regexTable rx), env := env, budget := b, defects := defectsOfSexp defects }
      match Api.evalSource F c 2000000 s with
      | .lexError _ => .list [.atom "lexerr"]
      | .parseError _ => .list [.atom "parseerr"]
      | .compileError _ => .list [.atom "compileerr"]
      | .ran res final => outcomeToSexp (res, final)
    | _, _, _, _, _ => .list [.atom "bad-request"]
  | _ => .list [.atom "bad-request"]

def pipelineHandlers : List (String × (List Sexp → Sexp)) := [("evalsource", handleEvalSource)]

end ExprModel.Drv
