import ExprModel.Api.Pipeline
import ExprModel.Drv.Code
import ExprModel.Drv.Parse
import ExprModel.Gen.UnicodeTables
import ExprModel.Drv.Types
import ExprModel.Drv.Opt
/- driver stage for the whole pipeline (`expr.Eval`): lexer, parser, compiler and VM models in a row -/
namespace ExprModel.Drv
open ExprModel ExprModel.Parser

/-- `(evalsource <budget> (defects a b) <env> <hex source> (floats …) (badre …) (regex …))` →
    `(lexerr)`, `(parseerr)`, `(compileerr)` or the outcome of `vmrun` -/
def handleEvalSource : List Sexp → Sexp
  | [.atom "evalsource", budget, defects, env, src, .list (.atom "floats" :: fl), .list (.atom "badre" :: br), rx] =>
    match budget.asInt, Val.ofSexp env, src.asStr, fl.mapM floatEntry, br.mapM Sexp.asStr with
    | some b, some env, some s, some floats, some bad =>
      let F : Api.Front :=
        { cc := Gen.goCharClass, tables := Gen.lexTables,
          pcfg := { tb := Gen.parserTables, num := numOf floats, badRegex := fun p => bad.contains p },
          jumpGuard := Gen.jumpGuard }
      let c : Cfg := { world := mkWorld (regexTable rx), env := env, budget := b, defects := defectsOfSexp defects }
      match Api.evalSource F c 2000000 s with
      | .lexError _ => .list [.atom "lexerr"]
      | .parseError _ => .list [.atom "parseerr"]
      | .compileError _ => .list [.atom "compileerr"]
      | .ran res final => outcomeToSexp (res, final)
    | _, _, _, _, _ => .list [.atom "bad-request"]
  | _ => .list [.atom "bad-request"]

/-- `(compilesource <checker variant> <env types> <expect> <mapEnv> <optimize> <opt flags> <hex source>
       (floats …) (badre …) <budget> (defects a b) <env value>)`:
    the typed pipeline (`Api.runSource`: `expr.Compile(src, Env(env), Optimize(..), As…)` then `expr.Run`) →
    `(err <stage> …)` or `(ok <program> <outcome of the run>)` -/
def handleCompileSource : List Sexp → Sexp
  | [.atom "compilesource", .atom d, envT, .atom ex, mapEnv, optimize, flags, src,
      .list (.atom "floats" :: fl), .list (.atom "badre" :: br), budget, defects, env] =>
    match defectsOfAtom (if d == "safefix" || d == "safefix2" || d == "safefix3" then "asis" else d), tdefectsOfAtom d,
        envOfSexp envT, expectOfAtom ex, mapEnv.asBool, optimize.asBool, src.asStr, fl.mapM floatEntry, br.mapM Sexp.asStr,
        budget.asInt, Val.ofSexp env with
    | some (dn, _), some dt, some e, some ex, some me, some opt, some s, some floats, some bad, some b, some env =>
      let F : Api.Front :=
        { cc := Gen.goCharClass, tables := Gen.lexTables,
          pcfg := { tb := Gen.parserTables, num := numOf floats, badRegex := fun p => bad.contains p },
          jumpGuard := Gen.jumpGuard }
      let T : Api.TypedCfg :=
        { check := cfgOfEnv dn dt e true ex, mapEnv := me, optimize := opt, optFlags := optFlagsOfSexp flags,
          jumpGuard := Gen.jumpGuard }
      let c : Cfg := { world := mkWorld [], env := env, budget := b, defects := defectsOfSexp defects }
      match Api.runSource F T c 2000000 s with
      | .ran cp res final => .list [.atom "ok", compiledToSexp cp, outcomeToSexp (res, final)]
      | .notCompiled o =>
        match o with
        | .configError _ => .list [.atom "err", .atom "config"]
        | .lexError _ => .list [.atom "err", .atom "lex"]
        | .parseError _ => .list [.atom "err", .atom "parse"]
        | .checkError (some l) c => .list ([.atom "err", .atom "check"] ++ locToSexp l ++ [.atom c.name])
        | .checkError none c => .list [.atom "err", .atom "check", .atom "-1", .atom "-1", .atom c.name]
        | .checkPanic _ => .list [.atom "err", .atom "checkpanic"]
        | .patchPanic => .list [.atom "err", .atom "patchpanic"]
        | .optimizeError l => .list ([.atom "err", .atom "optimize"] ++ locToSexp l)
        | .compileError _ => .list [.atom "err", .atom "compile"]
        | .ok .. => .list [.atom "err", .atom "unreachable"]
    | _, _, _, _, _, _, _, _, _, _, _ => .list [.atom "bad-request"]
  | _ => .list [.atom "bad-request"]

def pipelineHandlers : List (String × (List Sexp → Sexp)) :=
  [("evalsource", handleEvalSource), ("compilesource", handleCompileSource)]

end ExprModel.Drv
