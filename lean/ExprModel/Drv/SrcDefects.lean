import ExprModel.VM.SrcDefects
import ExprModel.Base.Sexp
/- driver stage `srcdefects`: the defect flags of the VM model as derived from /repo's current source -/
namespace ExprModel.Drv
open ExprModel

/-- `(srcdefects)` → `(defects <rangeSizeSigned> <memoryNotReset>)` -/
def handleSrcDefects : List Sexp → Sexp
  | _ => .list [.atom "defects", Sexp.bool srcDefects.rangeSizeSigned, Sexp.bool srcDefects.memoryNotReset]

def srcDefectsHandlers : List (String × (List Sexp → Sexp)) := [("srcdefects", handleSrcDefects)]

end ExprModel.Drv
