import ExprModel.Num.Arith
/- driver handlers for the numeric model (C14) -/
namespace ExprModel.Drv
open ExprModel

def helperOfName : String → Option Helper
  | "equal" => some .equal | "less" => some .less | "more" => some .more
  | "lessOrEqual" => some .lessOrEqual | "moreOrEqual" => some .moreOrEqual
  | "add" => some .add | "subtract" => some .subtract | "multiply" => some .multiply
  | "divide" => some .divide | "modulo" => some .modulo
  | _ => none

def arithErrAtom : ArithErr → String
  | .divZero => "divzero" | .noArm => "noarm" | .illTyped => "illtyped"

def exceptToSexp : Except ArithErr Val → Sexp
  | .ok v => .list [.atom "ok", v.toSexp]
  | .error e => .list [.atom "err", .atom (arithErrAtom e)]

/-- `(arith <helper> a b)` → the rule's result; `(neg a)`; `(combined ka kb)` -/
def handleArith : List Sexp → Sexp
  | [.atom "arith", .atom h, a, b] =>
    match helperOfName h, Val.ofSexp a, Val.ofSexp b with
    | some h, some a, some b => exceptToSexp (refSem h a b)
    | _, _, _ => .list [.atom "bad-request"]
  | [.atom "arithw", .atom h, a, b] =>
    match helperOfName h, Val.ofSexp a, Val.ofSexp b with
    | some h, some a, some b => exceptToSexp (refSemW h a b)
    | _, _, _ => .list [.atom "bad-request"]
  | [.atom "neg", a] =>
    match Val.ofSexp a with
    | some a => match negateVal a with
      | some v => .list [.atom "ok", v.toSexp]
      | none => .list [.atom "err", .atom "noarm"]
    | none => .list [.atom "bad-request"]
  | [.atom "combined", .atom a, .atom b] =>
    match Kind.ofName? a, Kind.ofName? b with
    | some a, some b => .atom (Kind.maxRank a b).name
    | _, _ => .list [.atom "bad-request"]
  | [.atom "tofloat", a] =>
    match Val.ofSexp a with
    | some a => match toFloat64Val a with
      | some x => .list [.atom "ok", (Val.f64 x).toSexp]
      | none => .list [.atom "err", .atom "noarm"]
    | none => .list [.atom "bad-request"]
  | [.atom "pow", a, b] =>
    match Val.ofSexp a, Val.ofSexp b with
    | some a, some b => match toFloat64Val a, toFloat64Val b with
      | some x, some y => .list [.atom "ok", (Val.f64 (Float.pow x y)).toSexp]
      | _, _ => .list [.atom "err", .atom "noarm"]
    | _, _ => .list [.atom "bad-request"]
  | [.atom "toint", a] =>
    match Val.ofSexp a with
    | some a => match toIntVal a with
      | some n => .list [.atom "ok", Sexp.int n]
      | none => .list [.atom "err", .atom "noarm"]
    | none => .list [.atom "bad-request"]
  | _ => .list [.atom "bad-request"]

end ExprModel.Drv

namespace ExprModel.Drv
/-- stage table exported to Driver.lean: (request tag, handler receiving the whole request list) -/
def arithHandlers : List (String × (List Sexp → Sexp)) :=
  [("arith", handleArith), ("arithw", handleArith), ("neg", handleArith), ("combined", handleArith), ("toint", handleArith),
   ("tofloat", handleArith), ("pow", handleArith)]
end ExprModel.Drv
