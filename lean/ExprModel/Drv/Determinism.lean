import ExprModel.Base.Sexp
import ExprModel.Api.Determinism
/- driver handlers for the loop models of C09 (map-iteration sites and the constant pool) -/
namespace ExprModel.Drv
open ExprModel ExprModel.Determinism

private def entriesOf : List Sexp → List (String × Tag)
  | [] => []
  | .list [.atom k, .atom ty] :: rest => (k, { ty := ty, method := false, ambiguous := false }) :: entriesOf rest
  | _ :: rest => entriesOf rest

private def answer (t : GoMap String Tag) (qs : List Sexp) : Sexp :=
  .list (qs.map fun q =>
    match q with
    | .atom k =>
      match t k with
      | some tag => .list [.atom k, .atom (if tag.ambiguous then "ambiguous" else tag.ty)]
      | none => .list [.atom k, .atom "none"]
    | _ => .atom "bad")

private def atomsOf : List Sexp → List String
  | [] => []
  | .atom a :: rest => a :: atomsOf rest
  | _ :: rest => atomsOf rest

private def poolEntries : List Sexp → List (Nat × Bool)
  | [] => []
  | .list [.atom i, .atom h] :: rest => (i.toNat!, h == "true") :: poolEntries rest
  | _ :: rest => poolEntries rest

def handleDeterminism : List Sexp → Sexp
  -- (c09-typesmap (emb (k ty)*) (query k*)): CreateTypesTable over the keys of a map environment
  | [.atom "c09-typesmap", .list (.atom "emb" :: emb), .list (.atom "query" :: qs)] =>
    answer (typesFromMap (entriesOf emb)) qs
  -- (c09-check (ops (op fn*)*) (isfunc fn*) (goodsig fn*) (cfns (name bool)*) (deferred yes|no))
  | [.atom "c09-check", .list (.atom "ops" :: ops), .list (.atom "isfunc" :: fs), .list (.atom "goodsig" :: gs),
     .list (.atom "cfns" :: cf), .list [.atom "deferred", .atom d]] =>
    let opEntries := ops.filterMap fun e => match e with
      | .list (.atom op :: fns) => some (op, atomsOf fns)
      | _ => none
    let cfns := cf.filterMap fun e => match e with
      | .list [.atom n, .atom b] => some (n, b == "true")
      | _ => none
    let facts : FnFacts := { isFunc := fun f => (atomsOf fs).contains f, goodSignature := fun f => (atomsOf gs).contains f }
    match configCheck facts opEntries cfns (if d == "yes" then some "deferred" else none) with
    | some _ => .atom "err"
    | none => .atom "ok"
  -- (c09-pool (id hashable)*): the constant pool for an emission sequence of interned values
  | .atom "c09-pool" :: es =>
    let vs := poolEntries es
    .list (((Pool.empty : Pool (Nat × Bool)).run (fun v => v.2) vs).constants.map fun v => .atom (toString v.1))
  | _ => .list [.atom "bad-request"]

def determinismHandlers : List (String × (List Sexp → Sexp)) :=
  [("c09-typesmap", handleDeterminism), ("c09-check", handleDeterminism),
   ("c09-pool", handleDeterminism)]

end ExprModel.Drv
