import ExprModel.Api.Source
/- driver handlers for the source / snippet / bind model (C13, C04) -/
namespace ExprModel.Drv
open ExprModel ExprModel.Src

def outSnippet : Out (List Char × Bool) → Sexp
  | .panic => .list [.atom "panic"]
  | .ok (l, b) => .list [.atom "ok", Sexp.str (String.ofList l), Sexp.bool b]

/-- `(snippet src line)`, `(bind src line col msg)`, `(posof src k)`, `(lines src)` -/
def handleSource : List Sexp → Sexp
  | [.atom "snippet", src, line] =>
    match src.asStr, line.asInt with
    | some s, some l => outSnippet (snippet s.toList l)
    | _, _ => .list [.atom "bad-request"]
  | [.atom "bind", src, line, col, msg] =>
    match src.asStr, line.asInt, col.asInt, msg.asStr with
    | some s, some l, some c, some m =>
      match bind s.toList { line := l, col := c, msg := m.toList } with
      | .panic => .list [.atom "panic"]
      | .ok e => .list [.atom "ok", Sexp.str (String.ofList e.snippet), Sexp.str (String.ofList (format e))]
    | _, _, _, _ => .list [.atom "bad-request"]
  | [.atom "posof", src, k] =>
    match src.asStr, k.asNat with
    | some s, some k =>
      let p := posOf s.toList k
      .list [.atom "loc", Sexp.nat p.line, Sexp.nat p.col]
    | _, _ => .list [.atom "bad-request"]
  | [.atom "lines", src] =>
    match src.asStr with
    | some s => .list (.atom "lines" :: (splitLines s.toList).map fun l => Sexp.str (String.ofList l))
    | none => .list [.atom "bad-request"]
  | _ => .list [.atom "bad-request"]

def sourceHandlers : List (String × (List Sexp → Sexp)) :=
  [("snippet", handleSource), ("bind", handleSource), ("posof", handleSource), ("lines", handleSource)]

end ExprModel.Drv
