import ExprModel.Syntax.Parser
import ExprModel.Syntax.Printer
import ExprModel.Gen.ParserTables
/- driver handlers for the parser model (C11; reused by C13/C04) -/
namespace ExprModel.Drv
open ExprModel ExprModel.Parser

/-- digit value as in strconv.ParseUint -/
def digitVal (c : Char) : Option Nat :=
  if '0' ≤ c ∧ c ≤ '9' then some (c.toNat - 48)
  else if 'a' ≤ c ∧ c ≤ 'z' then some (c.toNat - 87)
  else if 'A' ≤ c ∧ c ≤ 'Z' then some (c.toNat - 55)
  else none

def digitsVal (base : Nat) : List Char → Nat → Option Nat
  | [], acc => some acc
  | c :: cs, acc =>
    match digitVal c with
    | some v => if v < base then digitsVal base cs (acc * base + v) else none
    | none => none

/-- `strconv.ParseInt(s, base, 64)` for unsigned input without underscores (`base0` = base argument 0) -/
def goParseInt (s : String) (base0 : Bool) : Option Int :=
  let cs := s.toList
  let (base, ds) : Nat × List Char :=
    if base0 then
      match cs with
      | '0' :: 'x' :: r | '0' :: 'X' :: r => (16, r)
      | '0' :: 'b' :: r | '0' :: 'B' :: r => (2, r)
      | '0' :: 'o' :: r | '0' :: 'O' :: r => (8, r)
      | '0' :: c :: r => (8, c :: r)
      | r => (10, r)
    else (10, cs)
  if ds.isEmpty then none else
  match digitsVal base ds 0 with
  | some n => if n < 2 ^ 63 then some (Int.ofNat n) else none
  | none => none

/-- the number branch of parsePrimaryExpression; floats come from the request's oracle table -/
def numOf (floats : List (String × Option UInt64)) (v : String) : Option NumVal :=
  let s := String.ofList (v.toList.filter (· != '_'))
  if s.toList.any (fun c => c == 'x' || c == 'X') then (goParseInt s true).map .int
  else if s.toList.any (fun c => c == '.' || c == 'e' || c == 'E') then
    match floats.lookup v with
    | some (some b) => some (.float b)
    | _ => none
  else (goParseInt s false).map .int

def floatEntry : Sexp → Option (String × Option UInt64)
  | .list [v, .atom "err"] => do pure (← v.asStr, none)
  | .list [v, b] => do pure (← v.asStr, some (UInt64.ofNat (← b.asNat)))
  | _ => none

/-- `(parse (toks (Kind hexvalue line col)…) (floats (hexvalue bits|err)…) (badre hexpattern…))` →
    `(ok <node>)`, `(err line col)` or `(fuel)` -/
def handleParse : List Sexp → Sexp
  | [.atom "parse", .list (.atom "toks" :: toks), .list (.atom "floats" :: fl), .list (.atom "badre" :: br)] =>
    match toks.mapM Token.ofSexp, fl.mapM floatEntry, br.mapM Sexp.asStr with
    | some ts, some floats, some bad =>
      let cfg : Cfg := { tb := Gen.parserTables, num := numOf floats, badRegex := fun s => bad.contains s }
      match parseFuel cfg (fuelFor ts) ts with
      | .ok n => .list [.atom "ok", n.toSexp]
      | .error (l, _) => .list [.atom "err", Sexp.nat l.line, Sexp.nat l.col]
      | .outOfFuel => .list [.atom "fuel"]
    | _, _, _ => .list [.atom "bad-request"]
  | _ => .list [.atom "bad-request"]

/-- `(pprint <node>)` → `(toks (Kind hexvalue)…)`: the reference printer of the round-trip theorem with the
    minimal parenthesis choice; integers in decimal, floats as `f<bits>` (the harness compares bits) -/
def handlePrint : List Sexp → Sexp
  | [.atom "pprint", n] =>
    match Node.ofSexp n with
    | some t =>
      let cfg : Cfg := { tb := Gen.parserTables, num := fun _ => none }
      let sh : NumShow := { showInt := toString, showFloat := fun b => "f" ++ toString b.toNat }
      let ts := print cfg sh (fun _ => 0) t
      .list (.atom "toks" :: ts.map fun t => .list [.atom t.kind.name, Sexp.str t.value])
    | none => .list [.atom "bad-request"]
  | _ => .list [.atom "bad-request"]

/-- stage table exported to Driver.lean -/
def parseHandlers : List (String × (List Sexp → Sexp)) := [("parse", handleParse), ("pprint", handlePrint)]

end ExprModel.Drv
