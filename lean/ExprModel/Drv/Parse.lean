import ExprModel.Syntax.Parser
import ExprModel.Syntax.ParserNum
import ExprModel.Syntax.Printer
import ExprModel.Gen.ParserTables
import ExprModel.Gen.LexTables
/- driver handlers for the parser model (C11; reused by C13/C04) -/
namespace ExprModel.Drv
open ExprModel ExprModel.Parser

/-- the number branch of parsePrimaryExpression: the lexer model's `parseNumber` with the classification
    chain regenerated from parser.go (`Gen.numCfg`); float texts are converted by the request's oracle table -/
def numOf (floats : List (String × Option UInt64)) : String → Option NumVal :=
  numVia Gen.numCfg fun text => (floats.lookup text).join

def floatEntry : Sexp → Option (String × Option UInt64)
  | .list [v, .atom "err"] => do pure (← v.asStr, none)
  | .list [v, b] => do pure (← v.asStr, some (UInt64.ofNat (← b.asNat)))
  | _ => none

/-- `(parse (toks (Kind hexvalue line col)…) (floats (hexvalue bits|err)…) (badre hexpattern…))` →
    `(ok <node>)`, `(err line col)` or `(fuel)` -/
def handleParse : List Sexp → Sexp
  | [.atom "parse", .list (.atom "toks" :: toks), .list (.atom "floats" :: fl), .list (.atom "badre" :: br)] =>
    match toks.mapM Token.ofSexp, fl.mapM floatEntry, br.mapM Sexp.asStr with
    | some ts, some floats, some bad =>
      let cfg : Cfg := { tb := Gen.parserTables, num := numOf floats, badRegex := fun s => bad.contains s }
      match parseFuel cfg (fuelFor ts) ts with
      | .ok n => .list [.atom "ok", n.toSexp]
      | .error (l, _) => .list [.atom "err", Sexp.nat l.line, Sexp.nat l.col]
      | .outOfFuel => .list [.atom "fuel"]
    | _, _, _ => .list [.atom "bad-request"]
  | _ => .list [.atom "bad-request"]

/-- `(pprint <node>)` → `(toks (Kind hexvalue)…)`: the reference printer of the round-trip theorem with the
    minimal parenthesis choice; integers in decimal, floats as `f<bits>` (the harness compares bits) -/
def handlePrint : List Sexp → Sexp
  | [.atom "pprint", n] =>
    match Node.ofSexp n with
    | some t =>
      let cfg : Cfg := { tb := Gen.parserTables, num := fun _ => none }
      let sh : NumShow := { showInt := toString, showFloat := fun b => "f" ++ toString b.toNat }
      let ts := print cfg sh (fun _ => 0) t
      .list (.atom "toks" :: ts.map fun t => .list [.atom t.kind.name, Sexp.str t.value])
    | none => .list [.atom "bad-request"]
  | _ => .list [.atom "bad-request"]

/-- stage table exported to Driver.lean -/
def parseHandlers : List (String × (List Sexp → Sexp)) := [("parse", handleParse), ("pprint", handlePrint)]

end ExprModel.Drv
