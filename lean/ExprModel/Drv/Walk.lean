import ExprModel.Walk.Patch
import ExprModel.Gen.Walk
/- driver handlers for the walker and operator patcher models (C10, C17).
   The walker runs with the slot table regenerated from ast/visitor.go (`Gen.walkTargets`). -/
namespace ExprModel.Drv
open ExprModel

def eventSexp : Event → Sexp
  | .enter n => .list [.atom "E", .atom n.nk.name, Sexp.nat n.loc.line, Sexp.nat n.loc.col]
  | .exit n => .list [.atom "X", .atom n.nk.name, Sexp.nat n.loc.line, Sexp.nat n.loc.col]

/-- fuel for driver runs: generous, the harness' visitors insert bounded markers only -/
def drvFuel (n : Node) : Nat := n.height + 8

/-- the marker sub-tree a replacing test visitor inserts: `-(MARK)` with locations of its own -/
def markerTree : Node :=
  .unary { loc := ⟨900001, 1⟩ } "-" (.ident { loc := ⟨900002, 2⟩ } "MARK" false)

/-- test visitors shared with the harness (harness/c10.go implements the same ones against ast.Walk):
    replace the node(s) whose location line is `k`, on Enter or on Exit, by assignment or by ast.Patch -/
def replacer (mode : String) (k : Nat) : Visitor Unit :=
  let hit (n : Node) : Bool := n.loc.line == k
  match mode with
  | "enter" => { enter := fun n s => (if hit n then markerTree else n, s), exit := fun n s => (n, s) }
  | "enter-patch" => { enter := fun n s => (if hit n then astPatch n (.ident {} "PM" false) else n, s), exit := fun n s => (n, s) }
  | "exit" => { enter := fun n s => (n, s), exit := fun n s => (if hit n then markerTree else n, s) }
  | "exit-patch" => { enter := fun n s => (n, s), exit := fun n s => (if hit n then astPatch n (.ident {} "PM" false) else n, s) }
  | _ => Visitor.idle

def eventsResp (r : Option (Node × (Unit × List Event))) : Sexp :=
  match r with
  | some (n, (_, evs)) => .list [.atom "ok", n.toSexp, .list (evs.map eventSexp)]
  | none => .list [.atom "panic"]

def paramOfSexp : Sexp → Option Param
  | .list (ty :: ifc :: impls) => do
    pure { ty := ← ty.asStr, iface := ← ifc.asBool, impls := ← impls.mapM Sexp.asStr }
  | _ => none

def candOfSexp : Sexp → Option OpCand
  | .list [fn, l, r] => do pure { fn := ← fn.asStr, l := ← paramOfSexp l, r := ← paramOfSexp r }
  | _ => none

def opTableOfSexp : Sexp → Option OpTable
  | .list rows => rows.mapM fun
    | .list (op :: cands) => do pure (← op.asStr, ← cands.mapM candOfSexp)
    | _ => none
  | _ => none

/-- `((line key) …)`: the type key of the node at each (unique) location line -/
def tyTableOfSexp : Sexp → Option (List (Nat × String))
  | .list rows => rows.mapM fun
    | .list [l, k] => do pure (← l.asNat, ← k.asStr)
    | _ => none
  | _ => none

def tyOfTable (tt : List (Nat × String)) (n : Node) : String := (tt.lookup n.loc.line).getD "?"

def fnTagOfSexp : Sexp → Option (String × FnTag)
  | .list [nm, ht, isf, m, ni, no] => do
    pure (← nm.asStr, { hasType := ← ht.asBool, isFunc := ← isf.asBool, method := ← m.asBool, numIn := ← ni.asNat, numOut := ← no.asNat })
  | _ => none

def checkResSexp : CheckRes → Sexp
  | .ok => .list [.atom "ok"]
  | .missing fn op => .list [.atom "missing", Sexp.str fn, Sexp.str op]
  | .badSignature fn op => .list [.atom "badsig", Sexp.str fn, Sexp.str op]

def badW : Sexp := .list [.atom "badW-request"]

def handleWalk : List Sexp → Sexp
  | [.atom "walkevents", n] =>
    match Node.ofSexp n with
    | some n => eventsResp (walk Gen.walkTargets Visitor.idle.logged (drvFuel n) n ((), []))
    | none => badW
  | [.atom "walkreplace", .atom mode, k, n] =>
    match k.asNat, Node.ofSexp n with
    | some k, some n => eventsResp (walk Gen.walkTargets (replacer mode k).logged (drvFuel n) n ((), []))
    | _, _ => badW
  | [.atom "patchops", tbl, tt, n] =>
    match opTableOfSexp tbl, tyTableOfSexp tt, Node.ofSexp n with
    | some ops, some tt, some n =>
      match patchOperators Gen.walkTargets ops (tyOfTable tt) n with
      | some n' => .list [.atom "ok", n'.toSexp]
      | none => .list [.atom "panic"]
    | _, _, _ => badW
  | [.atom "explicitform", tbl, tt, n] =>
    match opTableOfSexp tbl, tyTableOfSexp tt, Node.ofSexp n with
    | some ops, some tt, some n => .list [.atom "ok", (explicitCallForm ops (tyOfTable tt) n).toSexp]
    | _, _, _ => badW
  | [.atom "configcheck", .list types, .list ops] =>
    match types.mapM fnTagOfSexp, ops.mapM (fun
        | .list (op :: fns) => do pure (← op.asStr, ← fns.mapM Sexp.asStr)
        | _ => none) with
    | some types, some ops => checkResSexp (configCheck types ops)
    | _, _ => badW
  | _ => badW

def walkHandlers : List (String × (List Sexp → Sexp)) :=
  [("walkevents", handleWalk), ("walkreplace", handleWalk), ("patchops", handleWalk),
   ("explicitform", handleWalk), ("configcheck", handleWalk)]

end ExprModel.Drv
