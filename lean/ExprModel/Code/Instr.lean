import ExprModel.Base.Val
/-
Bytecode of vm/opcodes.go: 52 opcodes in declaration order; an instruction is an opcode byte followed,
for the opcodes that read `vm.arg()` / `vm.constant()`, by a 16-bit little-endian operand.
Numbering and operand arity are re-checked against the source on every run (Gen/Opcodes.lean, Props/C05).
-/
namespace ExprModel

inductive Op where
  | push | pop | rot | fetch | fetchNilSafe | fetchMap | true_ | false_ | nil_ | negate | not_
  | equal | equalInt | equalString | jump | jumpIfTrue | jumpIfFalse | jumpBackward | in_
  | less | more | lessOrEqual | moreOrEqual | add | subtract | multiply | divide | modulo | exponent
  | range | matches_ | matchesConst | contains | startsWith | endsWith | index | slice
  | property | propertyNilSafe | call | callFast | method | methodNilSafe | array | map | len
  | cast | store | load | inc | begin_ | end_
  deriving DecidableEq, Repr, Inhabited

namespace Op

def all : List Op :=
  [push, pop, rot, fetch, fetchNilSafe, fetchMap, true_, false_, nil_, negate, not_,
   equal, equalInt, equalString, jump, jumpIfTrue, jumpIfFalse, jumpBackward, in_,
   less, more, lessOrEqual, moreOrEqual, add, subtract, multiply, divide, modulo, exponent,
   range, matches_, matchesConst, contains, startsWith, endsWith, index, slice,
   property, propertyNilSafe, call, callFast, method, methodNilSafe, array, map, len,
   cast, store, load, inc, begin_, end_]

/-- Go identifier in vm/opcodes.go -/
def goName : Op → String
  | push => "OpPush" | pop => "OpPop" | rot => "OpRot" | fetch => "OpFetch"
  | fetchNilSafe => "OpFetchNilSafe" | fetchMap => "OpFetchMap" | true_ => "OpTrue"
  | false_ => "OpFalse" | nil_ => "OpNil" | negate => "OpNegate" | not_ => "OpNot"
  | equal => "OpEqual" | equalInt => "OpEqualInt" | equalString => "OpEqualString"
  | jump => "OpJump" | jumpIfTrue => "OpJumpIfTrue" | jumpIfFalse => "OpJumpIfFalse"
  | jumpBackward => "OpJumpBackward" | in_ => "OpIn" | less => "OpLess" | more => "OpMore"
  | lessOrEqual => "OpLessOrEqual" | moreOrEqual => "OpMoreOrEqual" | add => "OpAdd"
  | subtract => "OpSubtract" | multiply => "OpMultiply" | divide => "OpDivide"
  | modulo => "OpModulo" | exponent => "OpExponent" | range => "OpRange" | matches_ => "OpMatches"
  | matchesConst => "OpMatchesConst" | contains => "OpContains" | startsWith => "OpStartsWith"
  | endsWith => "OpEndsWith" | index => "OpIndex" | slice => "OpSlice" | property => "OpProperty"
  | propertyNilSafe => "OpPropertyNilSafe" | call => "OpCall" | callFast => "OpCallFast"
  | method => "OpMethod" | methodNilSafe => "OpMethodNilSafe" | array => "OpArray" | map => "OpMap"
  | len => "OpLen" | cast => "OpCast" | store => "OpStore" | load => "OpLoad" | inc => "OpInc"
  | begin_ => "OpBegin" | end_ => "OpEnd"

/-- position in the `const (… iota)` block -/
def code (o : Op) : Nat := (all.idxOf o)

def ofCode? (n : Nat) : Option Op := all[n]?

/-- opcodes followed by a 2-byte operand -/
def hasArg : Op → Bool
  | push | fetch | fetchNilSafe | fetchMap | jump | jumpIfTrue | jumpIfFalse | jumpBackward
  | matchesConst | property | propertyNilSafe | call | callFast | method | methodNilSafe
  | cast | store | load | inc => true
  | _ => false

/-- what the operand denotes -/
inductive ArgClass where
  | none | constant | jumpFwd | jumpBack | castKind
  deriving DecidableEq, Repr

def argClass : Op → ArgClass
  | jump | jumpIfTrue | jumpIfFalse => .jumpFwd
  | jumpBackward => .jumpBack
  | cast => .castKind
  | o => if o.hasArg then .constant else .none

theorem ofCode_code (o : Op) : ofCode? o.code = some o := by cases o <;> decide
theorem code_lt (o : Op) : o.code < 52 := by cases o <;> decide

end Op

structure Instr where
  op : Op
  arg : Nat := 0
  deriving DecidableEq, Repr, Inhabited

namespace Instr
def size (i : Instr) : Nat := if i.op.hasArg then 3 else 1

/-- `encode(uint16(arg))`: little endian, silently reduced modulo 65536 as Go's conversion does -/
def encode (i : Instr) : List Nat :=
  if i.op.hasArg then [i.op.code, i.arg % 256, (i.arg / 256) % 256] else [i.op.code]
end Instr

def encodeAll : List Instr → List Nat
  | [] => []
  | i :: is => i.encode ++ encodeAll is

def codeSize : List Instr → Nat
  | [] => 0
  | i :: is => i.size + codeSize is

/-- Linear decoding from a byte list; `none` on an unknown opcode or a truncated operand. -/
def decodeAll : Nat → List Nat → Option (List Instr)
  | _, [] => some []
  | 0, _ :: _ => none
  | fuel + 1, b :: rest =>
    match Op.ofCode? b with
    | none => none
    | some op =>
      if op.hasArg then
        match rest with
        | lo :: hi :: rest' =>
          if lo < 256 ∧ hi < 256 then
            (decodeAll fuel rest').map (fun is => { op := op, arg := lo + 256 * hi } :: is)
          else none
        | _ => none
      else (decodeAll fuel rest).map (fun is => { op := op } :: is)

end ExprModel
