import ExprModel.Code.Instr
/-
C05: the static well-formedness checker for bytecode.  Its meaning is literally the first sentence of
the property: the bytes decode linearly, from offset 0 to exactly the end, into known instructions;
every constant operand names an existing constant of the class the instruction expects (0/1 for Cast);
every jump lands on an instruction boundary inside the program or exactly at its end; OpBegin/OpEnd
nest along the linear order.  It is executed by the driver on the programs the REAL compiler produces
(stage `wfstatic`, Drv/Wf.lean) and proved to accept everything the compile model emits (Props/C05).
-/
namespace ExprModel

/-- the class of constant an opcode's operand must name -/
inductive ConstClass where
  | any | str | call | regexp
  deriving DecidableEq, Repr

def Op.constClass : Op → ConstClass
  | .fetch | .fetchNilSafe | .fetchMap | .property | .propertyNilSafe | .store | .load | .inc => .str
  | .call | .callFast | .method | .methodNilSafe => .call
  | .matchesConst => .regexp
  | _ => .any

def ConstClass.admits : ConstClass → Val → Bool
  | .any, _ => true
  | .str, .str _ => true
  | .call, .call _ _ => true
  | .regexp, .regexp _ => true
  | _, _ => false

/-- the operand is in range and of the kind the instruction expects (jump operands: `jumpOk`) -/
def argOk (consts : Array Val) (i : Instr) : Bool :=
  match i.op.argClass with
  | .constant =>
    match consts[i.arg]? with
    | some v => i.op.constClass.admits v
    | none => false
  | .castKind => decide (i.arg ≤ 1)
  | _ => true

/-- `t` is an instruction boundary of `is`: the offset at which one of its instructions starts, or its end -/
def instrBoundary : List Instr → Nat → Bool
  | [], t => t == 0
  | i :: is, t => t == 0 || (decide (i.size ≤ t) && instrBoundary is (t - i.size))

/-- the instruction at offset `off` jumps (if it is a jump) to an offset accepted by `bnd`;
    forward target `ip_after + arg`, backward target `ip_after - arg` as in vm.go -/
def jumpOk (bnd : Nat → Bool) (off : Nat) (i : Instr) : Bool :=
  match i.op.argClass with
  | .jumpFwd => bnd (off + i.size + i.arg)
  | .jumpBack => decide (i.arg ≤ off + i.size) && bnd (off + i.size - i.arg)
  | _ => true

def jumpsOk (bnd : Nat → Bool) : Nat → List Instr → Bool
  | _, [] => true
  | off, i :: is => jumpOk bnd off i && jumpsOk bnd (off + i.size) is

/-- OpBegin/OpEnd nesting along the linear order: the depth after the list, `none` if an OpEnd has no open OpBegin -/
def nestOk : Nat → List Instr → Option Nat
  | d, [] => some d
  | d, i :: is =>
    if i.op = .begin_ then nestOk (d + 1) is
    else if i.op = .end_ then (if d = 0 then none else nestOk (d - 1) is)
    else nestOk d is

/-- well-formedness of a decoded program -/
def wfInstrs (consts : Array Val) (is : List Instr) : Bool :=
  is.all (argOk consts) && jumpsOk (instrBoundary is) 0 is && (nestOk 0 is == some 0)

/-- The static checker on raw bytes (fuel `bytes.length` always suffices: every instruction consumes a byte). -/
def wfStatic (bytes : List Nat) (consts : Array Val) : Bool :=
  match decodeAll bytes.length bytes with
  | some is => wfInstrs consts is
  | none => false

/-! ### instruction offsets, decoding at an offset -/

/-- the offsets at which the instructions of `is` start, the first one at `off` -/
def instrOffsets : Nat → List Instr → List Nat
  | _, [] => []
  | off, i :: is => off :: instrOffsets (off + i.size) is

/-- decode the single instruction starting at byte offset `off` -/
def decodeAt (bytes : List Nat) (off : Nat) : Option Instr :=
  match bytes.drop off with
  | [] => none
  | b :: rest =>
    match Op.ofCode? b with
    | none => none
    | some op =>
      if op.hasArg then
        match rest with
        | lo :: hi :: _ => if lo < 256 ∧ hi < 256 then some { op := op, arg := lo + 256 * hi } else none
        | _ => none
      else some { op := op }

/-! ### diagnosis (driver only; the verdict is `wfStatic`'s) -/

/-- offset of the first byte that does not decode -/
def decodeFailAt : Nat → Nat → List Nat → Option Nat
  | _, _, [] => none
  | 0, off, _ :: _ => some off
  | fuel + 1, off, b :: rest =>
    match Op.ofCode? b with
    | none => some off
    | some op =>
      if op.hasArg then
        match rest with
        | lo :: hi :: rest' => if lo < 256 ∧ hi < 256 then decodeFailAt fuel (off + 3) rest' else some off
        | _ => some off
      else decodeFailAt fuel (off + 1) rest

def firstBadInstr (consts : Array Val) (all : List Instr) : Nat → Nat → List Instr → Option (String × Nat)
  | _, d, [] => if d = 0 then none else some ("scope-unclosed", 0)
  | off, d, i :: is =>
    if !argOk consts i then
      some ((match i.op.argClass with
        | .castKind => "cast-kind"
        | _ => if i.arg < consts.size then "const-class" else "const-index"), off)
    else if !jumpOk (instrBoundary all) off i then some ("jump-target", off)
    else if i.op = .begin_ then firstBadInstr consts all (off + i.size) (d + 1) is
    else if i.op = .end_ then
      (if d = 0 then some ("scope-nesting", off) else firstBadInstr consts all (off + i.size) (d - 1) is)
    else firstBadInstr consts all (off + i.size) d is

/-- `none` when nothing is wrong, else (reason, byte offset) -/
def wfDiagnose (bytes : List Nat) (consts : Array Val) : Option (String × Nat) :=
  match decodeAll bytes.length bytes with
  | none => some ("decode", (decodeFailAt bytes.length 0 bytes).getD 0)
  | some is => firstBadInstr consts is 0 0 is

end ExprModel
