import ExprModel.Code.Instr
import ExprModel.Syntax.Ast
import ExprModel.Num.Arith
/-
Model of compiler/compiler.go in structured form (DESIGN C01/C05): one emit scheme per node kind,
producing located instructions; jump operands are computed from the sizes of the code they skip
(exactly what patchJump / calcBackwardJump compute) and reduced modulo 65536 by `Instr.encode`.
The constant pool is threaded explicitly, with the de-duplicating index of `makeConstant`.
-/
namespace ExprModel

structure LInstr where
  instr : Instr
  loc : Loc
  deriving Repr, Inhabited

structure CompCfg where
  mapEnv : Bool := false
  cast : Option Nat := none      -- some 0 = int64, some 1 = float64
  /-- patchJump / calcBackwardJump panic on `offset > math.MaxUint16` (absent in the unfixed code, where the
      offset is silently truncated; set by the driver from the generated fact `Gen.jumpGuard`) -/
  jumpGuard : Bool := false
  deriving Repr, Inhabited

/-- the constant pool with `makeConstant`'s index; `reOwner` records which MatchesNode (by location)
    owns a regexp constant: a `*regexp.Regexp` is hashed by pointer, so only the *same* node compiled
    twice (a shared sub-tree, e.g. `c ?: b`) finds its constant again -/
structure Pool where
  consts : Array Val := #[]
  reOwner : List (Loc × String × Nat) := []
  deriving Inhabited

/-- Go map-key equality on the hashable constants (`c.index[i]`); slices/maps are never looked up,
    each `*regexp.Regexp` is a distinct pointer. -/
def constKeyEq : Val → Val → Bool
  | .nil, .nil => true
  | .bool a, .bool b => a == b
  | .int k a, .int k' b => k == k' && a == b
  | .f64 a, .f64 b => a == b
  | .f32 a, .f32 b => a == b
  | .str a, .str b => a == b
  | .call n s, .call n' s' => n == n' && s == s'
  | _, _ => false

def hashable : Val → Bool
  | .arr .. | .map .. | .tmap .. | .set .. | .regexp .. | .opaque .. => false
  | _ => true

inductive CompErr where
  | tooManyConstants | unknownOperator (op : String) | unknownBuiltin (name : String) | malformed
  | jumpTooFar
  deriving Repr, DecidableEq

abbrev CR := Except CompErr

def Pool.findIdx (p : Pool) (v : Val) : Option Nat :=
  (List.range p.consts.size).find? fun i => constKeyEq (p.consts[i]?.getD .nil) v

/-- `makeConstant`: index of the constant, appending when new -/
def mkConst (v : Val) (p : Pool) : CR (Nat × Pool) :=
  match (if hashable v then p.findIdx v else none) with
  | some i => .ok (i, p)
  | none =>
    let cs := p.consts.push v
    if cs.size > 65535 then .error .tooManyConstants else .ok (cs.size - 1, { p with consts := cs })

/-- `makeConstant(node.Regexp)` -/
def mkRegexConst (owner : Loc) (pat : String) (p : Pool) : CR (Nat × Pool) :=
  match p.reOwner.find? (fun o => o.1 == owner && o.2.1 == pat) with
  | some o => .ok (o.2.2, p)
  | none => do
    let (k, p) ← mkConst (.regexp pat) p
    pure (k, { p with reOwner := (owner, pat, k) :: p.reOwner })

def lsize (xs : List LInstr) : Nat := codeSize (xs.map (·.instr))

def li (loc : Loc) (op : Op) (arg : Nat := 0) : LInstr := ⟨{ op := op, arg := arg }, loc⟩

def binSimpleOp : String → Option (List Op)
  | "!=" => some [.equal, .not_]
  | "in" => some [.in_]
  | "not in" => some [.in_, .not_]
  | "<" => some [.less] | ">" => some [.more] | "<=" => some [.lessOrEqual] | ">=" => some [.moreOrEqual]
  | "+" => some [.add] | "-" => some [.subtract] | "*" => some [.multiply] | "/" => some [.divide]
  | "%" => some [.modulo] | "**" => some [.exponent]
  | "contains" => some [.contains] | "startsWith" => some [.startsWith] | "endsWith" => some [.endsWith]
  | ".." => some [.range]
  | _ => none

/-- `emitCond(body)` at location `l` -/
def emitCond (l : Loc) (body : List LInstr) : List LInstr :=
  -- JumpIfFalse noop; Pop; body; Jump end; noop: Pop; end:
  [li l .jumpIfFalse (1 + lsize body + 3), li l .pop] ++ body ++ [li l .jump 1, li l .pop]

/-- `emitLoop(body)`; the collection is on the stack and OpBegin has run. `l` is the builtin's location. -/
def emitLoop (l : Loc) (ci csize carray : Nat) (c0 : Nat) (body : List LInstr) : List LInstr :=
  let head := [li l .len, li l .store csize, li l .store carray, li l .push c0, li l .store ci]
  let cond := [li l .load ci, li l .load csize, li l .less]
  -- after `cond`: JumpIfFalse end; Pop; body; Inc i; JumpBackward cond; end: Pop
  let inner := [li l .pop] ++ body ++ [li l .inc ci]
  let back := lsize cond + 3 + lsize inner + 3
  head ++ cond ++ [li l .jumpIfFalse (lsize inner + 3)] ++ inner ++ [li l .jumpBackward back, li l .pop]

mutual
def compileNode (cfg : CompCfg) : Node → Pool → CR (List LInstr × Pool)
  | .nil m, p => .ok ([li m.loc .nil_], p)
  | .ident m name nilsafe, p => do
    let (k, p) ← mkConst (.str name) p
    let op := if cfg.mapEnv then Op.fetchMap else if nilsafe then .fetchNilSafe else .fetch
    pure ([li m.loc op k], p)
  | .int m v, p => do
    let (k, p) ← mkConst (intConst m.kd v) p
    pure ([li m.loc .push k], p)
  | .float m bits, p => do
    let (k, p) ← mkConst (.f64 (Float.ofBits bits)) p
    pure ([li m.loc .push k], p)
  | .bool m b, p => .ok ([li m.loc (if b then .true_ else .false_)], p)
  | .str m s, p => do
    let (k, p) ← mkConst (.str s) p
    pure ([li m.loc .push k], p)
  | .const m v, p =>
    match v with
    | .nil => .ok ([li m.loc .nil_], p)       -- `ConstantNode{nil}` (a ConstExpr function returned nil): OpNil
    | v => do
      let (k, p) ← mkConst v p
      pure ([li m.loc .push k], p)
  | .unary m op x, p => do
    let (cx, p) ← compileNode cfg x p
    if op == "!" || op == "not" then pure (cx ++ [li m.loc .not_], p)
    else if op == "+" then pure (cx, p)
    else if op == "-" then pure (cx ++ [li m.loc .negate], p)
    else .error (.unknownOperator op)
  | .binary m op l r, p => do
    if op == "==" then
      let (cl, p) ← compileNode cfg l p
      let (cr, p) ← compileNode cfg r p
      let e := if l.kd == r.kd && l.kd == .num .int then Op.equalInt
               else if l.kd == r.kd && l.kd == .string then .equalString else .equal
      pure (cl ++ cr ++ [li m.loc e], p)
    else if op == "or" || op == "||" then
      let (cl, p) ← compileNode cfg l p
      let (cr, p) ← compileNode cfg r p
      pure (cl ++ [li m.loc .jumpIfTrue (1 + lsize cr), li m.loc .pop] ++ cr, p)
    else if op == "and" || op == "&&" then
      let (cl, p) ← compileNode cfg l p
      let (cr, p) ← compileNode cfg r p
      pure (cl ++ [li m.loc .jumpIfFalse (1 + lsize cr), li m.loc .pop] ++ cr, p)
    else match binSimpleOp op with
      | some ops => do
        let (cl, p) ← compileNode cfg l p
        let (cr, p) ← compileNode cfg r p
        pure (cl ++ cr ++ ops.map (fun o => li m.loc o), p)
      | none => .error (.unknownOperator op)
  | .matches m hasRe l r, p => do
    if hasRe then
      let (cl, p) ← compileNode cfg l p
      let pat := match r with
        | .str _ s => s
        | _ => ""
      let (k, p) ← mkRegexConst m.loc pat p
      pure (cl ++ [li m.loc .matchesConst k], p)
    else
      let (cl, p) ← compileNode cfg l p
      let (cr, p) ← compileNode cfg r p
      pure (cl ++ cr ++ [li m.loc .matches_], p)
  | .prop m x name nilsafe, p => do
    let (cx, p) ← compileNode cfg x p
    let (k, p) ← mkConst (.str name) p
    pure (cx ++ [li m.loc (if nilsafe then .propertyNilSafe else .property) k], p)
  | .index m x i, p => do
    let (cx, p) ← compileNode cfg x p
    let (ci, p) ← compileNode cfg i p
    pure (cx ++ ci ++ [li m.loc .index], p)
  | .slice m x f t, p => do
    let (cx, p) ← compileNode cfg x p
    let (ct, p) ← match t with
      | some t => compileNode cfg t p
      | none => pure ([li m.loc .len], p)
    let (cf, p) ← match f with
      | some f => compileNode cfg f p
      | none => do
        let (k, p) ← mkConst (.int .int 0) p
        pure ([li m.loc .push k], p)
    pure (cx ++ ct ++ cf ++ [li m.loc .slice], p)
  | .method m x name args nilsafe, p => do
    let (cx, p) ← compileNode cfg x p
    let (ca, p) ← compileList cfg args p
    let (k, p) ← mkConst (.call name args.length) p
    pure (cx ++ ca ++ [li m.loc (if nilsafe then .methodNilSafe else .method) k], p)
  | .func m name args fast, p => do
    let (ca, p) ← compileList cfg args p
    let (k, p) ← mkConst (.call name args.length) p
    pure (ca ++ [li m.loc (if fast then .callFast else .call) k], p)
  | .builtin m name args, p =>
    let l := m.loc
    match name, args with
    | "len", [a] => do
      let (ca, p) ← compileNode cfg a p
      pure (ca ++ [li l .len, li l .rot, li l .pop], p)
    | "all", [a, b] => do
      let (ca, p) ← compileNode cfg a p
      let (ci, p) ← mkConst (.str "i") p
      let (cs, p) ← mkConst (.str "size") p
      let (car, p) ← mkConst (.str "array") p
      let (c0, p) ← mkConst (.int .int 0) p
      let (cb, p) ← compileNode cfg b p
      -- body: b; JumpIfFalse break; Pop   … after the loop: True; break: End
      let rest := [li l .pop, li l .inc ci, li l .jumpBackward 0, li l .pop, li l .true_]
      let body := cb ++ [li l .jumpIfFalse (lsize rest), li l .pop]
      pure (ca ++ [li l .begin_] ++ emitLoop l ci cs car c0 body ++ [li l .true_, li l .end_], p)
    | "none", [a, b] => do
      let (ca, p) ← compileNode cfg a p
      let (ci, p) ← mkConst (.str "i") p
      let (cs, p) ← mkConst (.str "size") p
      let (car, p) ← mkConst (.str "array") p
      let (c0, p) ← mkConst (.int .int 0) p
      let (cb, p) ← compileNode cfg b p
      let rest := [li l .pop, li l .inc ci, li l .jumpBackward 0, li l .pop, li l .true_]
      let body := cb ++ [li l .not_, li l .jumpIfFalse (lsize rest), li l .pop]
      pure (ca ++ [li l .begin_] ++ emitLoop l ci cs car c0 body ++ [li l .true_, li l .end_], p)
    | "any", [a, b] => do
      let (ca, p) ← compileNode cfg a p
      let (ci, p) ← mkConst (.str "i") p
      let (cs, p) ← mkConst (.str "size") p
      let (car, p) ← mkConst (.str "array") p
      let (c0, p) ← mkConst (.int .int 0) p
      let (cb, p) ← compileNode cfg b p
      let rest := [li l .pop, li l .inc ci, li l .jumpBackward 0, li l .pop, li l .false_]
      let body := cb ++ [li l .jumpIfTrue (lsize rest), li l .pop]
      pure (ca ++ [li l .begin_] ++ emitLoop l ci cs car c0 body ++ [li l .false_, li l .end_], p)
    | "one", [a, b] => do
      let (cc, p) ← mkConst (.str "count") p
      let (ca, p) ← compileNode cfg a p
      let (c0, p) ← mkConst (.int .int 0) p
      let (ci, p) ← mkConst (.str "i") p
      let (cs, p) ← mkConst (.str "size") p
      let (car, p) ← mkConst (.str "array") p
      let (cb, p) ← compileNode cfg b p
      let body := cb ++ emitCond l [li l .inc cc]
      let (c1, p) ← mkConst (.int .int 1) p
      pure (ca ++ [li l .begin_, li l .push c0, li l .store cc] ++ emitLoop l ci cs car c0 body ++
            [li l .load cc, li l .push c1, li l .equal, li l .end_], p)
    | "filter", [a, b] => do
      let (cc, p) ← mkConst (.str "count") p
      let (ca, p) ← compileNode cfg a p
      let (c0, p) ← mkConst (.int .int 0) p
      let (ci, p) ← mkConst (.str "i") p
      let (cs, p) ← mkConst (.str "size") p
      let (car, p) ← mkConst (.str "array") p
      let (cb, p) ← compileNode cfg b p
      let body := cb ++ emitCond l [li l .inc cc, li l .load car, li l .load ci, li l .index]
      pure (ca ++ [li l .begin_, li l .push c0, li l .store cc] ++ emitLoop l ci cs car c0 body ++
            [li l .load cc, li l .end_, li l .array], p)
    | "map", [a, b] => do
      let (ca, p) ← compileNode cfg a p
      let (ci, p) ← mkConst (.str "i") p
      let (cs, p) ← mkConst (.str "size") p
      let (car, p) ← mkConst (.str "array") p
      let (c0, p) ← mkConst (.int .int 0) p
      let (cb, p) ← compileNode cfg b p
      pure (ca ++ [li l .begin_] ++ emitLoop l ci cs car c0 cb ++ [li l .load cs, li l .end_, li l .array], p)
    | "count", [a, b] => do
      let (cc, p) ← mkConst (.str "count") p
      let (ca, p) ← compileNode cfg a p
      let (c0, p) ← mkConst (.int .int 0) p
      let (ci, p) ← mkConst (.str "i") p
      let (cs, p) ← mkConst (.str "size") p
      let (car, p) ← mkConst (.str "array") p
      let (cb, p) ← compileNode cfg b p
      let body := cb ++ emitCond l [li l .inc cc]
      pure (ca ++ [li l .begin_, li l .push c0, li l .store cc] ++ emitLoop l ci cs car c0 body ++
            [li l .load cc, li l .end_], p)
    | "len", _ | "all", _ | "none", _ | "any", _ | "one", _ | "filter", _ | "map", _ | "count", _ => .error .malformed
    | n, _ => .error (.unknownBuiltin n)
  | .closure _ x, p => compileNode cfg x p
  | .pointer m, p => do
    let (car, p) ← mkConst (.str "array") p
    let (ci, p) ← mkConst (.str "i") p
    pure ([li m.loc .load car, li m.loc .load ci, li m.loc .index], p)
  | .cond m c a b, p => do
    let (cc, p) ← compileNode cfg c p
    let (ca, p) ← compileNode cfg a p
    let (cb, p) ← compileNode cfg b p
    -- c; JumpIfFalse otherwise; Pop; a; Jump end; otherwise: Pop; b; end:
    pure (cc ++ [li m.loc .jumpIfFalse (1 + lsize ca + 3), li m.loc .pop] ++ ca ++
          [li m.loc .jump (1 + lsize cb), li m.loc .pop] ++ cb, p)
  | .array m xs, p => do
    let (cx, p) ← compileList cfg xs p
    let (k, p) ← mkConst (.int .int xs.length) p
    pure (cx ++ [li m.loc .push k, li m.loc .array], p)
  | .map m ps, p => do
    let (cx, p) ← compileList cfg ps p
    let (k, p) ← mkConst (.int .int ps.length) p
    pure (cx ++ [li m.loc .push k, li m.loc .map], p)
  | .pair _ k v, p => do
    let (ck, p) ← compileNode cfg k p
    let (cv, p) ← compileNode cfg v p
    pure (ck ++ cv, p)
def compileList (cfg : CompCfg) : List Node → Pool → CR (List LInstr × Pool)
  | [], p => .ok ([], p)
  | n :: ns, p => do
    let (c1, p) ← compileNode cfg n p
    let (c2, p) ← compileList cfg ns p
    pure (c1 ++ c2, p)
end

structure Compiled where
  code : List LInstr
  consts : Array Val
  deriving Inhabited

def Op.isJump (o : Op) : Bool := o.argClass == .jumpFwd || o.argClass == .jumpBack

/-- some jump of the code carries an offset that does not fit 16 bits -/
def jumpOverflow (code : List LInstr) : Bool := code.any fun i => i.instr.op.isJump && decide (65535 < i.instr.arg)

/-- `compiler.Compile(tree, config)`; with the guard, an oversized jump offset panics inside
    patchJump / calcBackwardJump and `Compile` recovers the panic into an error -/
def compileProgram (cfg : CompCfg) (n : Node) : CR Compiled := do
  let (code, p) ← compileNode cfg n {}
  if cfg.jumpGuard && jumpOverflow code then .error .jumpTooFar
  else
    let castI := match cfg.cast with
      | some t => [li {} .cast t]
      | none => []
    pure { code := code ++ castI, consts := p.consts }

def Compiled.bytes (c : Compiled) : List Nat := encodeAll (c.code.map (·.instr))

/-- the `Locations` map as (offset, loc) pairs in instruction order -/
def locTable : Nat → List LInstr → List (Nat × Loc)
  | _, [] => []
  | off, i :: is => (off, i.loc) :: locTable (off + i.instr.size) is

end ExprModel
