import ExprModel.Base.Sexp
import ExprModel.Num.Kind
/-
The closed universe of run-time values used by the models (DESIGN 3.1).
Floats are Lean's `Float`/`Float32`: opaque to the kernel, i.e. theorems hold for every
interpretation of the float operations; the driver executes them natively (IEEE binary64/32).
-/
namespace ExprModel

structure Loc where
  line : Nat := 0
  col : Nat := 0
  deriving DecidableEq, Repr, Inhabited

/-- element type tag of a Go slice value as far as the library can observe it -/
inductive ElemT where
  | iface                -- []interface{}
  | num (k : Kind)       -- []int, []uint8, []float64 …
  | str                  -- []string
  | bool
  | other (name : String)
  deriving DecidableEq, Repr, Inhabited

inductive Val where
  | nil
  | bool (b : Bool)
  | int (k : Kind) (n : Int)
  | f64 (x : Float)
  | f32 (x : Float32)
  | str (s : String)
  | arr (et : ElemT) (xs : List Val)
  | map (kvs : List (String × Val))                 -- map[string]interface{}
  /-- `map[string]T` for an element type `T` other than `interface{}`: `zero` is `reflect.Zero(T)` (what a
      missing key reads as), `isNil` tells the nil map from the empty one -/
  | tmap (zero : Val) (isNil : Bool) (kvs : List (String × Val))
  | set (et : ElemT) (ks : List Val)                -- map[K]struct{} lookup constants
  | struct (name : String) (isPtr : Bool) (fields : List (String × Val))
  | fn (id : String)                                 -- environment function, by behaviour id
  | regexp (pat : String)
  | call (name : String) (size : Nat)                -- vm.Call constant
  | opaque (desc : String)
  deriving Repr, Inhabited

namespace Val

/-- IEEE bit pattern; every NaN is rendered as one canonical NaN (payload and sign of NaNs are not compared) -/
def f64bits (x : Float) : String := if x.isNaN then "9221120237041090560" else toString x.toBits.toNat
def f32bits (x : Float32) : String := if x.isNaN then "2143289344" else toString x.toBits.toNat

def elemTToSexp : ElemT → Sexp
  | .iface => .atom "any"
  | .num k => .atom k.name
  | .str => .atom "string"
  | .bool => .atom "bool"
  | .other n => .list [.atom "other", Sexp.str n]

def elemTOfSexp : Sexp → Option ElemT
  | .atom "any" => some .iface
  | .atom "string" => some .str
  | .atom "bool" => some .bool
  | .atom a => (Kind.ofName? a).map .num
  | .list [.atom "other", n] => n.asStr.map .other
  | _ => none

mutual
def toSexp : Val → Sexp
  | .nil => .atom "nil"
  | .bool b => .list [.atom "b", Sexp.bool b]
  | .int k n => .list [.atom "i", .atom k.name, Sexp.int n]
  | .f64 x => .list [.atom "f64", .atom (f64bits x)]
  | .f32 x => .list [.atom "f32", .atom (f32bits x)]
  | .str s => .list [.atom "s", Sexp.str s]
  | .arr et xs => .list (.atom "arr" :: elemTToSexp et :: listToSexp xs)
  | .map kvs => .list (.atom "map" :: kvsToSexp kvs)
  | .tmap z n kvs => .list (.atom "tmap" :: toSexp z :: Sexp.bool n :: kvsToSexp kvs)
  | .set et ks => .list (.atom "set" :: elemTToSexp et :: listToSexp ks)
  | .struct n p fs => .list (.atom "struct" :: Sexp.str n :: Sexp.bool p :: kvsToSexp fs)
  | .fn id => .list [.atom "fn", Sexp.str id]
  | .regexp p => .list [.atom "re", Sexp.str p]
  | .call n sz => .list [.atom "call", Sexp.str n, Sexp.nat sz]
  | .opaque d => .list [.atom "opaque", Sexp.str d]
def listToSexp : List Val → List Sexp
  | [] => []
  | v :: vs => toSexp v :: listToSexp vs
def kvsToSexp : List (String × Val) → List Sexp
  | [] => []
  | (k, v) :: rest => .list [Sexp.str k, toSexp v] :: kvsToSexp rest
end

partial def ofSexp : Sexp → Option Val
  | .atom "nil" => some .nil
  | .list [.atom "b", b] => b.asBool.map .bool
  | .list [.atom "i", .atom k, n] => do
      let k ← Kind.ofName? k
      let n ← n.asInt
      pure (.int k n)
  | .list [.atom "f64", b] => b.asNat.map fun n => .f64 (Float.ofBits (UInt64.ofNat n))
  | .list [.atom "f32", b] => b.asNat.map fun n => .f32 (Float32.ofBits (UInt32.ofNat n))
  | .list [.atom "s", s] => s.asStr.map .str
  | .list (.atom "arr" :: et :: xs) => do
      let et ← elemTOfSexp et
      let vs ← xs.mapM ofSexp
      pure (.arr et vs)
  | .list (.atom "map" :: kvs) => do
      let kvs ← kvs.mapM fun
        | .list [k, v] => do pure ((← k.asStr), (← ofSexp v))
        | _ => none
      pure (.map kvs)
  | .list (.atom "tmap" :: z :: n :: kvs) => do
      let kvs ← kvs.mapM fun
        | .list [k, v] => do pure ((← k.asStr), (← ofSexp v))
        | _ => none
      pure (.tmap (← ofSexp z) (← n.asBool) kvs)
  | .list (.atom "set" :: et :: xs) => do
      let et ← elemTOfSexp et
      let vs ← xs.mapM ofSexp
      pure (.set et vs)
  | .list (.atom "struct" :: n :: p :: kvs) => do
      let kvs ← kvs.mapM fun
        | .list [k, v] => do pure ((← k.asStr), (← ofSexp v))
        | _ => none
      pure (.struct (← n.asStr) (← p.asBool) kvs)
  | .list [.atom "fn", id] => id.asStr.map .fn
  | .list [.atom "re", p] => p.asStr.map .regexp
  | .list [.atom "call", n, sz] => do pure (.call (← n.asStr) (← sz.asNat))
  | .list [.atom "opaque", d] => d.asStr.map .opaque
  | _ => none

end Val
end ExprModel
