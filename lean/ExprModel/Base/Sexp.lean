/-
S-expressions: the line protocol between the Go harness and the Lean model driver.
Driver-only code (no theorems are stated about it), so `partial` is fine here.
Strings travel hex-encoded (UTF-8 bytes), so atoms never contain blanks or parentheses.
-/
namespace ExprModel

inductive Sexp where
  | atom (s : String)
  | list (xs : List Sexp)
  deriving Inhabited, Repr

namespace Sexp

partial def toStr : Sexp → String
  | atom s => s
  | list xs => "(" ++ " ".intercalate (xs.map toStr) ++ ")"

instance : ToString Sexp := ⟨toStr⟩

/-- Parse one S-expression from a character list; returns the rest. -/
partial def parseChars : List Char → Option (Sexp × List Char)
  | [] => none
  | c :: cs =>
    if c == ' ' || c == '\n' || c == '\t' || c == '\r' then parseChars cs
    else if c == '(' then parseList cs []
    else if c == ')' then none
    else
      let rec atomLoop : List Char → List Char → (String × List Char)
        | [], acc => (String.ofList acc.reverse, [])
        | d :: ds, acc =>
          if d == ' ' || d == '(' || d == ')' || d == '\n' || d == '\t' || d == '\r'
          then (String.ofList acc.reverse, d :: ds)
          else atomLoop ds (d :: acc)
      let (a, rest) := atomLoop cs [c]
      some (atom a, rest)
where
  parseList : List Char → List Sexp → Option (Sexp × List Char)
    | [], _ => none
    | c :: cs, acc =>
      if c == ' ' || c == '\n' || c == '\t' || c == '\r' then parseList cs acc
      else if c == ')' then some (list acc.reverse, cs)
      else match parseChars (c :: cs) with
        | some (x, rest) => parseList rest (x :: acc)
        | none => none

def parse (s : String) : Option Sexp :=
  match parseChars s.toList with
  | some (x, _) => some x
  | none => none

def hexDigit (n : Nat) : Char :=
  if n < 10 then Char.ofNat (48 + n) else Char.ofNat (87 + n)

def hexVal (c : Char) : Option Nat :=
  if '0' ≤ c ∧ c ≤ '9' then some (c.toNat - 48)
  else if 'a' ≤ c ∧ c ≤ 'f' then some (c.toNat - 87)
  else if 'A' ≤ c ∧ c ≤ 'F' then some (c.toNat - 55)
  else none

/-- hex of the UTF-8 bytes of a string; the empty string is the atom `-`. -/
def hexOfBytes (bs : List UInt8) : String :=
  if bs.isEmpty then "-" else
  String.ofList (bs.flatMap fun b => [hexDigit (b.toNat / 16), hexDigit (b.toNat % 16)])

def hexOfString (s : String) : String := hexOfBytes s.toUTF8.toList

partial def bytesOfHex (s : String) : Option (List UInt8) :=
  if s == "-" then some [] else
  let rec go : List Char → List UInt8 → Option (List UInt8)
    | [], acc => some acc.reverse
    | [_], _ => none
    | a :: b :: rest, acc =>
      match hexVal a, hexVal b with
      | some x, some y => go rest (UInt8.ofNat (x * 16 + y) :: acc)
      | _, _ => none
  go s.toList []

/-- Decode hex to a String (invalid UTF-8 yields none). -/
def stringOfHex (s : String) : Option String :=
  match bytesOfHex s with
  | some bs =>
    let ba := ByteArray.mk bs.toArray
    if h : ba.IsValidUTF8 then some (String.fromUTF8 ba h) else none
  | none => none

def str (s : String) : Sexp := atom (hexOfString s)
def nat (n : Nat) : Sexp := atom (toString n)
def int (n : Int) : Sexp := atom (toString n)
def bool (b : Bool) : Sexp := atom (if b then "true" else "false")
def tagged (t : String) (xs : List Sexp) : Sexp := list (atom t :: xs)

def asAtom : Sexp → Option String
  | atom s => some s
  | _ => none
def asList : Sexp → Option (List Sexp)
  | list xs => some xs
  | _ => none
def asNat (s : Sexp) : Option Nat := s.asAtom.bind String.toNat?
def asInt (s : Sexp) : Option Int := s.asAtom.bind String.toInt?
def asBool : Sexp → Option Bool
  | atom "true" => some true
  | atom "false" => some false
  | _ => none
def asStr (s : Sexp) : Option String := s.asAtom.bind stringOfHex

end Sexp
end ExprModel
