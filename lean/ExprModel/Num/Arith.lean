import ExprModel.Base.Val
/-
Numeric semantics (C14).  Two readings of the binary helpers:

* `helperSem arms`  — interprets a *table of arms* exactly as Go executes the corresponding
  `return T(x) op y` statement of vm/helpers.go (the table is regenerated from the source: Gen/Helpers.lean);
* `refSem` — the rule of the property: convert the lower-ranked operand to the higher-ranked kind,
  then apply Go's operator at that kind.
-/
namespace ExprModel

inductive Helper where
  | equal | less | more | lessOrEqual | moreOrEqual | add | subtract | multiply | divide | modulo
  deriving DecidableEq, Repr, Inhabited

def Helper.all : List Helper :=
  [.equal, .less, .more, .lessOrEqual, .moreOrEqual, .add, .subtract, .multiply, .divide, .modulo]

inductive BinOp where
  | eq | lt | gt | le | ge | add | sub | mul | div | mod
  deriving DecidableEq, Repr, Inhabited

def Helper.op : Helper → BinOp
  | .equal => .eq | .less => .lt | .more => .gt | .lessOrEqual => .le | .moreOrEqual => .ge
  | .add => .add | .subtract => .sub | .multiply => .mul | .divide => .div | .modulo => .mod

/-- helpers that have a `case string:` arm -/
def Helper.hasString : Helper → Bool
  | .equal | .less | .more | .lessOrEqual | .moreOrEqual | .add => true
  | _ => false

/-- helpers generated with `noFloat` -/
def Helper.noFloat : Helper → Bool
  | .modulo => true
  | _ => false

/-- One `case` of the nested type switch: operand types (`none` = string), operator, conversions applied to x and y. -/
structure Arm where
  ka : Option Kind
  kb : Option Kind
  op : BinOp
  cx : Option Kind
  cy : Option Kind
  deriving DecidableEq, Repr, Inhabited

/-- shape of one case of `negate`, `toInt`, `toInt64`, `toFloat64` -/
inductive UnShape where
  | same | neg | conv (k : Kind)
  deriving DecidableEq, Repr, Inhabited

inductive ArithErr where
  | divZero        -- Go run-time panic: integer divide by zero
  | noArm          -- no case of the type switch matches (the helper falls through)
  | illTyped       -- the arm would not be valid Go (operand kinds differ after conversion)
  deriving DecidableEq, Repr, Inhabited

/-- the "arm type" of a value: numeric kind, or `none` for a string; other values have no arm -/
def armTypeOf : Val → Option (Option Kind)
  | .int k _ => some (some k)
  | .f64 _ => some (some .float64)
  | .f32 _ => some (some .float32)
  | .str _ => some none
  | _ => none

/-- float → integer conversion, Go `T(x)`: truncation toward zero; only meaningful in range
    (out of range is implementation-defined in Go and is excluded from the correspondence). -/
def floatToInt (k : Kind) (x : Float) : Int :=
  if x.isNaN || x ≥ 9223372036854775808.0 || x < -9223372036854775808.0 then
    wrap k (-9223372036854775808)     -- amd64 CVTTSD2SQ "integer indefinite" (trusted base: platform behaviour)
  else wrap k (if x < 0 then -((-x).floor.toUInt64.toNat : Int) else (x.floor.toUInt64.toNat : Int))

/-- Go conversion `T(v)` for numeric `v`. -/
def conv (t : Kind) (v : Val) : Val :=
  match t, v with
  | .float64, .int _ n => .f64 (Float.ofInt n)
  | .float64, .f32 x => .f64 x.toFloat
  | .float64, .f64 x => .f64 x
  | .float32, .int _ n => .f32 (Float32.ofInt n)
  | .float32, .f32 x => .f32 x
  | .float32, .f64 x => .f32 x.toFloat32
  | t, .int _ n => .int t (wrap t n)
  | t, .f64 x => .int t (floatToInt t x)
  | t, .f32 x => .int t (floatToInt t x.toFloat)
  | _, v => v

def convOpt : Option Kind → Val → Val
  | none, v => v
  | some t, v => conv t v

/-- Go's operator applied to two operands of the *same* type. -/
def applyOp (op : BinOp) (x y : Val) : Except ArithErr Val :=
  match x, y with
  | .int k a, .int k' b =>
    if k ≠ k' then .error .illTyped else
    match op with
    | .eq => .ok (.bool (a == b)) | .lt => .ok (.bool (a < b)) | .gt => .ok (.bool (a > b))
    | .le => .ok (.bool (a ≤ b)) | .ge => .ok (.bool (a ≥ b))
    | .add => .ok (.int k (wrap k (a + b))) | .sub => .ok (.int k (wrap k (a - b)))
    | .mul => .ok (.int k (wrap k (a * b)))
    | .div => if b = 0 then .error .divZero else .ok (.int k (wrap k (Int.tdiv a b)))
    | .mod => if b = 0 then .error .divZero else .ok (.int k (wrap k (Int.tmod a b)))
  | .f64 a, .f64 b =>
    match op with
    | .eq => .ok (.bool (a == b)) | .lt => .ok (.bool (a < b)) | .gt => .ok (.bool (a > b))
    | .le => .ok (.bool (a ≤ b)) | .ge => .ok (.bool (a ≥ b))
    | .add => .ok (.f64 (a + b)) | .sub => .ok (.f64 (a - b)) | .mul => .ok (.f64 (a * b))
    | .div => .ok (.f64 (a / b))
    | .mod => .error .illTyped
  | .f32 a, .f32 b =>
    match op with
    | .eq => .ok (.bool (a == b)) | .lt => .ok (.bool (a < b)) | .gt => .ok (.bool (a > b))
    | .le => .ok (.bool (a ≤ b)) | .ge => .ok (.bool (a ≥ b))
    | .add => .ok (.f32 (a + b)) | .sub => .ok (.f32 (a - b)) | .mul => .ok (.f32 (a * b))
    | .div => .ok (.f32 (a / b))
    | .mod => .error .illTyped
  | .str a, .str b =>
    match op with
    | .eq => .ok (.bool (a == b)) | .lt => .ok (.bool (a < b)) | .gt => .ok (.bool (a > b))
    | .le => .ok (.bool (a ≤ b)) | .ge => .ok (.bool (a ≥ b))
    | .add => .ok (.str (a ++ b))
    | _ => .error .illTyped
  | _, _ => .error .illTyped

def findArm (arms : List Arm) (ka kb : Option Kind) : Option Arm :=
  arms.find? fun a => a.ka == ka && a.kb == kb

/-- What Go executes for `helper(a, b)` given the helper's arms: first matching case of the nested
    type switch, conversions as written, operator as written. -/
def helperSem (arms : List Arm) (a b : Val) : Except ArithErr Val :=
  match armTypeOf a, armTypeOf b with
  | some ka, some kb =>
    match findArm arms ka kb with
    | some arm => applyOp arm.op (convOpt arm.cx a) (convOpt arm.cy b)
    | none => .error .noArm
  | _, _ => .error .noArm

/-- The arm the promotion rule prescribes for operand types `ka`, `kb`. -/
def ruleArm (h : Helper) (ka kb : Kind) : Arm :=
  { ka := some ka, kb := some kb, op := h.op
    cx := if ka.rank < kb.rank then some kb else none
    cy := if ka.rank > kb.rank then some ka else none }

def ruleKinds (h : Helper) : List Kind :=
  if h.noFloat then Kind.all.filter (fun k => !k.isFloat) else Kind.all

/-- The whole table a helper must have: kinds in list order, then the string arm if any. -/
def ruleArms (h : Helper) : List Arm :=
  ((ruleKinds h).flatMap fun ka => (ruleKinds h).map fun kb => ruleArm h ka kb) ++
  (if h.hasString then [{ ka := none, kb := none, op := h.op, cx := none, cy := none }] else [])

/-- The rule of the property, stated directly: convert the lower-ranked operand to the higher-ranked
    operand's kind, then apply the operator at that kind; strings only with strings. -/
def refSem (h : Helper) (a b : Val) : Except ArithErr Val :=
  match armTypeOf a, armTypeOf b with
  | some (some ka), some (some kb) =>
    if h.noFloat && (ka.isFloat || kb.isFloat) then .error .noArm
    else
      let K := Kind.maxRank ka kb
      applyOp h.op (if ka = K then a else conv K a) (if kb = K then b else conv K b)
  | some none, some none => if h.hasString then applyOp h.op a b else .error .noArm
  | _, _ => .error .noArm

/-- unary minus: Go's `-v` at the operand's own kind -/
def negateVal : Val → Option Val
  | .int k n => some (.int k (wrap k (-n)))
  | .f64 x => some (.f64 (-x))
  | .f32 x => some (.f32 (-x))
  | _ => none

def kindOfVal : Val → Option Kind
  | .int k _ => some k
  | .f64 _ => some .float64
  | .f32 _ => some .float32
  | _ => none

def toIntVal (v : Val) : Option Int :=
  match conv .int v, kindOfVal v with
  | .int _ n, some _ => some n
  | _, _ => none

def toFloat64Val (v : Val) : Option Float :=
  match conv .float64 v, kindOfVal v with
  | .f64 x, some _ => some x
  | _, _ => none

end ExprModel

namespace ExprModel

/-- rank "by width" as the property text words it: unsigned kinds by width, then signed kinds by width, then
    float32, float64 — with the platform-sized `uint`/`int` (64 bits) placed by their width, below the
    explicitly sized 64-bit kind.  The code (helpers and `typeWeight`) instead puts `uint` and `int` FIRST in
    their group (`Kind.rank`). -/
def Kind.rankW : Kind → Nat
  | .uint8 => 0 | .uint16 => 1 | .uint32 => 2 | .uint => 3 | .uint64 => 4
  | .int8 => 5 | .int16 => 6 | .int32 => 7 | .int => 8 | .int64 => 9
  | .float32 => 10 | .float64 => 11

def Kind.maxRankW (a b : Kind) : Kind := if a.rankW > b.rankW then a else b

/-- the promotion rule with the by-width ranking -/
def refSemW (h : Helper) (a b : Val) : Except ArithErr Val :=
  match armTypeOf a, armTypeOf b with
  | some (some ka), some (some kb) =>
    if h.noFloat && (ka.isFloat || kb.isFloat) then .error .noArm
    else
      let K := Kind.maxRankW ka kb
      applyOp h.op (if ka = K then a else conv K a) (if kb = K then b else conv K b)
  | some none, some none => if h.hasString then applyOp h.op a b else .error .noArm
  | _, _ => .error .noArm

end ExprModel
