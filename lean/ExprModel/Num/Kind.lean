/-
The twelve Go numeric kinds, in the order of `vm/generate/main.go`'s `types` list, which is also the
order of `checker.typeWeight` (1..12).  Integers are mathematical `Int` with an explicit `wrap`.
-/
namespace ExprModel

inductive Kind where
  | uint | uint8 | uint16 | uint32 | uint64
  | int | int8 | int16 | int32 | int64
  | float32 | float64
  deriving DecidableEq, Repr, Inhabited

namespace Kind

def all : List Kind :=
  [uint, uint8, uint16, uint32, uint64, int, int8, int16, int32, int64, float32, float64]

theorem mem_all (k : Kind) : k ∈ all := by cases k <;> simp [all]

/-- position in the helper list = `typeWeight - 1` -/
def rank : Kind → Nat
  | uint => 0 | uint8 => 1 | uint16 => 2 | uint32 => 3 | uint64 => 4
  | int => 5 | int8 => 6 | int16 => 7 | int32 => 8 | int64 => 9
  | float32 => 10 | float64 => 11

theorem rank_inj (a b : Kind) (h : a.rank = b.rank) : a = b := by
  cases a <;> cases b <;> simp [rank] at h <;> rfl

def name : Kind → String
  | uint => "uint" | uint8 => "uint8" | uint16 => "uint16" | uint32 => "uint32" | uint64 => "uint64"
  | int => "int" | int8 => "int8" | int16 => "int16" | int32 => "int32" | int64 => "int64"
  | float32 => "float32" | float64 => "float64"

def ofName? : String → Option Kind
  | "uint" => some uint | "uint8" => some uint8 | "uint16" => some uint16 | "uint32" => some uint32
  | "uint64" => some uint64 | "int" => some int | "int8" => some int8 | "int16" => some int16
  | "int32" => some int32 | "int64" => some int64 | "float32" => some float32 | "float64" => some float64
  | _ => none

def isFloat : Kind → Bool
  | float32 | float64 => true
  | _ => false

def isInt (k : Kind) : Bool := !k.isFloat

def isSigned : Kind → Bool
  | int | int8 | int16 | int32 | int64 => true
  | _ => false

/-- width in bits (Go on amd64: `int`, `uint` are 64 bits; recorded in the trusted base) -/
def bits : Kind → Nat
  | uint => 64 | uint8 => 8 | uint16 => 16 | uint32 => 32 | uint64 => 64
  | int => 64 | int8 => 8 | int16 => 16 | int32 => 32 | int64 => 64
  | float32 => 32 | float64 => 64

/-- the higher-ranked of two kinds (the checker's `combined`, the helpers' conversion target) -/
def maxRank (a b : Kind) : Kind := if a.rank > b.rank then a else b

end Kind

/-- Reduce a mathematical integer into the range of integer kind `k` (Go's conversion / overflow rule). -/
def wrap (k : Kind) (n : Int) : Int :=
  let m : Int := 2 ^ k.bits
  if k.isSigned then
    let h : Int := 2 ^ (k.bits - 1)
    (n + h) % m - h
  else n % m

def inRange (k : Kind) (n : Int) : Prop :=
  if k.isSigned then -(2 ^ (k.bits - 1) : Int) ≤ n ∧ n < 2 ^ (k.bits - 1)
  else 0 ≤ n ∧ n < 2 ^ k.bits

instance (k : Kind) (n : Int) : Decidable (inRange k n) := by
  unfold inRange; split <;> exact inferInstance

end ExprModel
