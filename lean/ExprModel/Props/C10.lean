import ExprModel.Proofs.WalkPath
import ExprModel.Gen.AstShape
import ExprModel.Gen.Walk
/-
C10 — AST traversal reaches every node exactly once.

Tie: `Gen.nodeFields` (the Node / []Node fields of every struct of ast/node.go) and `Gen.walkTargets`
(the child walks of every case of `walker.walk` in ast/visitor.go) are regenerated on every run;
`walk_table_complete` re-checks that the walker lists exactly the fields, in declaration order.  The
traversal theorems then hold for `walk Gen.walkTargets` — the model the harness compares with the real
`ast.Walk` — for all trees and all visitors.
-/
namespace ExprModel.C10
open ExprModel Node

/-! ### the generated tables -/

/-- The node structs of ast/node.go have exactly the child fields of the model's `Node` type. -/
theorem node_fields_as_modelled : ∀ k : NK, Gen.nodeFields k = (refSlots k).map Slot.erase := by
  intro k; cases k <;> decide

/-- **WalkTable completeness.** For every node kind, the child slots `walker.walk` walks are exactly the
    `Node` / `[]Node` fields of the struct, in declaration order (a slice field is ranged over). -/
theorem walk_table_complete : ∀ k : NK, (Gen.walkTargets k).map Slot.erase = Gen.nodeFields k := by
  intro k; cases k <;> decide

/-- nil guards are exactly on the two fields the parser leaves nil (`SliceNode.From`, `SliceNode.To`) -/
theorem walk_guards_as_modelled : ∀ k : NK, (Gen.walkTargets k).map (·.kind) = (refSlots k).map (·.kind) := by
  intro k; cases k <;> decide

private theorem erase_kind_inj (a b : Slot) (h1 : a.erase = b.erase) (h2 : a.kind = b.kind) : a = b := by
  cases a; cases b; simp_all [Slot.erase]

private theorem list_eq_of_maps {l1 l2 : List Slot}
    (h1 : l1.map Slot.erase = l2.map Slot.erase) (h2 : l1.map (·.kind) = l2.map (·.kind)) : l1 = l2 := by
  induction l1 generalizing l2 with
  | nil => cases l2 <;> simp_all
  | cons a l1 ih =>
    cases l2 with
    | nil => simp at h1
    | cons b l2 =>
      simp only [List.map_cons, List.cons.injEq] at h1 h2
      rw [erase_kind_inj a b h1.1 h2.1, ih h1.2 h2.2]

/-- hence the walker's table is the reference table: every child slot, in field order -/
theorem walk_table_is_reference : Gen.walkTargets = refSlots := by
  funext k
  exact list_eq_of_maps (by rw [walk_table_complete, node_fields_as_modelled]) (walk_guards_as_modelled k)

/-- the children of a node, as the theorems below use them, are the contents of the fields node.go declares -/
theorem children_are_the_fields (n : Node) :
    n.children = (Gen.nodeFields n.nk).flatMap fun fb =>
      match n.getSlot fb.1 with
      | .one c => [c] | .opt o => o.toList | .many cs => cs | .absent => [] := by
  rw [node_fields_as_modelled]
  cases n <;> simp [children, refSlots, nk, getSlot, Slot.erase]

/-- `walker.walk`: a nil slot is skipped (`if *node == nil { return }`); otherwise `Enter` is the first
    statement, the type switch re-reads `*node` after it, every case ends with `Exit`, every node kind has a
    case, anything else panics; `ast.Walk` just starts it. -/
theorem walker_shape :
    Gen.walkNilGuard = true ∧
    Gen.walkFirstStmt = "w.visitor.Enter(node)" ∧ Gen.walkSwitchSubject = "(*node)" ∧
    (∀ s ∈ Gen.walkCaseLastStmts, s = "w.visitor.Exit(node)") ∧ Gen.walkCaseLastStmts.length = 22 ∧
    (∀ k : NK, Gen.walkHasCase k = true) ∧ Gen.walkCases.map (·.1) = NK.all ∧ Gen.walkDefaultPanics = true ∧
    Gen.walkEntryBody = ["w := walker{ visitor: visitor, }", "w.walk(node)"] ∧
    Gen.visitorInterface = "interface { Enter(node *Node) Exit(node *Node) }" := by
  refine ⟨rfl, rfl, rfl, by decide, rfl, ?_, rfl, rfl, rfl, rfl⟩
  intro k; cases k <;> rfl

/-- the compiler has a case for every node kind -/
theorem compiler_dispatch_total : ∀ k : NK, k ∈ Gen.compilerDispatch := by
  intro k; cases k <;> decide

/-- the type checker has a case for every node kind (its default branch records an error instead of
    panicking); the compiler's default still panics -/
theorem checker_dispatch_total :
    (∀ k : NK, k ∈ Gen.checkerDispatch) ∧ Gen.checkerDefaultPanics = false ∧ Gen.compilerDefaultPanics = true := by
  refine ⟨?_, rfl, rfl⟩
  intro k; cases k <;> decide

/-- `expr.Compile`: check, patch operators, user visitors, check again, optimize, compile — all three
    rewriting stages go through `ast.Walk` on the root slot `&tree.Node`, and the tree handed to the
    second check and to the compiler is the rewritten one. -/
theorem pipeline_order :
    Gen.compileCalls = ["config.Check()", "parser.Parse(input)", "checker.Check(tree, config)",
      "compiler.PatchOperators(&tree.Node, config)", "ast.Walk(&tree.Node, v)", "checker.Check(tree, config)",
      "optimizer.Optimize(&tree.Node, config)", "fileError.Bind(tree.Source)", "compiler.Compile(tree, config)"] ∧
    Gen.exprPatchBody = ["return func(c *conf.Config) { c.Visitors = append(c.Visitors, visitor) }"] :=
  ⟨rfl, rfl⟩

/-- **The patched tree is re-checked.**  Guard structure of `expr.Compile` around the rewriting stages: a
    failing first check is fatal only when there are no visitors; operators are patched; then every user
    visitor walks the root slot and the tree is type-checked again *unconditionally* (the guard
    `len(config.Visitors) >= 0` is always true), an error of that second check being returned — so what
    is optimised and compiled is a tree whose type annotations belong to the patched tree. -/
theorem patched_tree_is_rechecked :
    Gen.compileCheckBlock =
      ["_, err = checker.Check(tree, config)",
       "if err != nil && len(config.Visitors) == 0 { return nil, err }",
       "compiler.PatchOperators(&tree.Node, config)"] ∧
    (Gen.compilePatchBlock =
      ["if len(config.Visitors) >= 0 { for _, v := range config.Visitors { ast.Walk(&tree.Node, v) } _, err = checker.Check(tree, config) if err != nil { return nil, err } }"] ∨
     -- the same three statements without the always-true guard (a harmless simplification; the pin used to
     -- demand the guard itself and raised a false alarm on it: DESIGN.md section 10)
     Gen.compilePatchBlock =
      ["for _, v := range config.Visitors { ast.Walk(&tree.Node, v) }", "_, err = checker.Check(tree, config)",
       "if err != nil { return nil, err }"]) := by
  refine ⟨rfl, ?_⟩
  first
  | exact Or.inl rfl
  | exact Or.inr rfl

/-! ### traversal theorems for the walker the code implements -/

theorem walk_eq_walkU {σ : Type} (v : Visitor σ) (fuel : Nat) : walk Gen.walkTargets v fuel = walkU v fuel := by
  rw [walk_table_is_reference, walk_ref_eq_walkU]

/-- **Bracketing, all trees, all visitors** (replacing, stateful).  In the Enter/Exit log of a walk of
    `n`: first `Enter n`; then exactly the events of walking, in field order, the children of the node
    `Enter` left in the slot; last `Exit` of that node rebuilt around what the child walks left in the
    child slots — and what `Exit` leaves in the slot is the result of the walk. -/
theorem events_bracketed {σ : Type} (v : Visitor σ) (f : Nat) (n : Node) (s : σ) (log : List Event)
    (n' : Node) (s' : σ) (log' : List Event)
    (h : walk Gen.walkTargets v.logged (f + 1) n (s, log) = some (n', (s', log'))) :
    ∃ ks s2 mid,
      walkList (walk Gen.walkTargets v.logged f) (v.enter n s).1.children ((v.enter n s).2, log ++ [.enter n])
        = some (ks, (s2, log ++ [.enter n] ++ mid)) ∧
      v.exit ((v.enter n s).1.withChildren ks) s2 = (n', s') ∧
      log' = log ++ [.enter n] ++ mid ++ [.exit ((v.enter n s).1.withChildren ks)] := by
  rw [walk_eq_walkU] at h ⊢
  exact walkU_bracket v f n s log n' s' log' h

/-- … and the events of the children are those of the successive child walks, concatenated, each child
    walk's result taking the child's place -/
theorem events_children_in_order {σ : Type} (v : Visitor σ) (f : Nat) (c : Node) (cs : List Node) (s : σ)
    (log : List Event) (ks : List Node) (s' : σ) (log' : List Event)
    (h : walkList (walk Gen.walkTargets v.logged f) (c :: cs) (s, log) = some (ks, (s', log'))) :
    ∃ c' s1 e1 cs' e2,
      walk Gen.walkTargets v.logged f c (s, log) = some (c', (s1, log ++ e1)) ∧
      walkList (walk Gen.walkTargets v.logged f) cs (s1, log ++ e1) = some (cs', (s', log ++ e1 ++ e2)) ∧
      ks = c' :: cs' ∧ log' = log ++ e1 ++ e2 := by
  rw [walk_eq_walkU] at h ⊢
  exact walkList_bracket v f c cs s log ks s' log' h

/-- **The prescribed stream.**  For every tree and every visitor that does not replace nodes, the walk
    terminates (fuel above the height), leaves the tree unchanged, and its log is `trace n`:
    `Enter n`, the traces of all children in field order, `Exit n`. -/
theorem events_observing {σ : Type} (v : Visitor σ) (hv : v.Observing) (f : Nat) (n : Node) (s : σ)
    (log : List Event) (hf : n.height ≤ f) :
    ∃ s', walk Gen.walkTargets v.logged f n (s, log) = some (n, (s', log ++ n.trace)) := by
  rw [walk_eq_walkU]
  exact walkU_observing v hv f n s log hf

/-- **Once each.**  The nodes handed to `Enter` are all sub-nodes of the tree in pre-order, those handed
    to `Exit` all sub-nodes in post-order — every occurrence exactly once (`size n` calls each). -/
theorem each_node_once (n : Node) :
    walk Gen.walkTargets Visitor.idle.logged (n.height) n ((), []) = some (n, ((), n.trace)) ∧
    n.trace.filterMap Event.entered = n.preorder ∧ n.trace.filterMap Event.exited = n.postorder ∧
    n.preorder.length = n.size ∧ n.postorder.length = n.size := by
  refine ⟨?_, trace_entered n, trace_exited n, preorder_length n, postorder_length n⟩
  obtain ⟨s', h⟩ := events_observing Visitor.idle ⟨fun _ _ => rfl, fun _ _ => rfl⟩ n.height n () [] (Nat.le_refl _)
  simpa using h

/-- pre-order / post-order / trace, spelled out: a node and its children's lists in field order -/
theorem orders_unfold (n : Node) :
    n.preorder = n :: (n.children.map preorder).flatten ∧
    n.postorder = (n.children.map postorder).flatten ++ [n] ∧
    n.trace = .enter n :: ((n.children.map trace).flatten ++ [.exit n]) :=
  ⟨preorder_eq n, postorder_eq n, trace_eq n⟩

/-- **Recursion equation of the walk** (all visitors): the result is `Exit` applied to the node `Enter`
    produced with every child replaced by the result of its own walk, states threaded left to right. -/
theorem replacement_effective_eqn {σ : Type} (v : Visitor σ) (f : Nat) (n : Node) (s : σ) :
    walk Gen.walkTargets v (f + 1) n s =
      match walkList (walk Gen.walkTargets v f) (v.enter n s).1.children (v.enter n s).2 with
      | none => none
      | some (ks, s2) => some (v.exit ((v.enter n s).1.withChildren ks) s2) := by
  rw [walk_eq_walkU, walk_eq_walkU]; rfl

/-- what the child walks return is written back to the very slots the children were read from -/
theorem replacement_written_back {σ : Type} (rec : Node → σ → Option (Node × σ)) (n : Node) (s : σ)
    (ks : List Node) (s' : σ) (h : walkList rec n.children s = some (ks, s')) :
    (n.withChildren ks).children = ks ∧ (n.withChildren ks).nk = n.nk ∧ (n.withChildren ks).getMeta = n.getMeta :=
  ⟨children_withChildren n ks (walkList_length rec _ _ _ _ h), withChildren_nk n ks, withChildren_getMeta n ks⟩

/-- **Replacements take effect.**  A visitor that rewrites on `Exit` (any state): the walk returns the
    bottom-up rewriting of the tree — `ex` applied at every node of the tree, children first, left to
    right, each time on the node rebuilt around its already rewritten children. -/
theorem replacement_effective {σ : Type} (ex : Node → σ → Node × σ) (f : Nat) (n : Node) (s : σ) (hf : n.height ≤ f) :
    walk Gen.walkTargets (Visitor.onExitS ex) f n s = some (bottomUpS ex n s) ∧
    bottomUpS ex n s =
      ex (n.withChildren (seqS (n.children.map (bottomUpS ex)) s).1) (seqS (n.children.map (bottomUpS ex)) s).2 := by
  rw [walk_eq_walkU]
  exact ⟨walkU_onExitS ex f n s hf, bottomUpS_eq ex n s⟩

/-- stateless version, with `bottomUp` written out by structural recursion over every field -/
theorem replacement_effective_stateless (g : Node → Node) (f : Nat) (n : Node) (hf : n.height ≤ f) :
    walk Gen.walkTargets (Visitor.onExit g) f n () = some (bottomUp g n, ()) := by
  rw [walk_eq_walkU]
  exact walkU_onExit g f n hf

/-- **At any position.**  If the visitor leaves the ancestors of position `p` alone, the tree after the
    walk holds at position `p` the rewriting of the sub-tree that was at `p`. -/
theorem replacement_at_position (g : Node → Node) (p : List Nat) (n : Node) (h : spineInert g p n) (f : Nat)
    (hf : n.height ≤ f) :
    ∃ r, walk Gen.walkTargets (Visitor.onExit g) f n () = some (r, ()) ∧
      nodeAt p r = (nodeAt p n).map (bottomUp g) :=
  ⟨bottomUp g n, replacement_effective_stateless g f n hf, bottomUp_at g p n h⟩

/-- **A replacement at any position** (stateful visitor).  For every tree `n`, every position `p` (path
    of child ordinals) and every rewriting `g`: the visitor that locates position `p` by counting its
    `Enter`/`Exit` calls and rewrites there on `Exit` returns `n` with exactly the sub-tree at `p`
    rewritten — whatever kinds of nodes and slots lie on the way. -/
theorem replacement_at_any_position (g : Node → Node) (p : List Nat) (f : Nat) (n : Node) (hf : n.height ≤ f) :
    walk Gen.walkTargets (Visitor.atPath (0 :: p) g) f n ⟨[], 0⟩ = some (rewriteAt g p n, ⟨[], 1⟩) := by
  rw [walk_eq_walkU]
  exact walkU_atPath_root g p f n hf

/-- … and `rewriteAt` does put the rewritten sub-tree at `p` -/
theorem rewriteAt_at (g : Node → Node) : ∀ (p : List Nat) (n c : Node), nodeAt p n = some c →
    nodeAt p (rewriteAt g p n) = some (g c) := by
  intro p
  induction p with
  | nil => intro n c h; simp only [nodeAt, Option.some.injEq] at h; subst h; rfl
  | cons i p ih =>
    intro n c h
    simp only [nodeAt] at h
    cases hi : n.children[i]? with
    | none => simp [hi] at h
    | some d =>
      simp only [hi] at h
      simp only [rewriteAt, nodeAt]
      rw [children_withChildren _ _ (by simp)]
      simp only [List.getElem?_modify_eq, hi]
      exact ih d c h

/-- `ast.Patch`: the new node takes type and location of the node it replaces and is otherwise itself -/
theorem patch_copies_meta (old new : Node) :
    (astPatch old new).getMeta = old.getMeta ∧ (astPatch old new).nk = new.nk ∧
    (astPatch old new).children = new.children ∧ (astPatch old new).withMeta new.getMeta = new ∧
    Gen.astPatchBody = ["newNode.SetType((*node).Type())", "newNode.SetLocation((*node).Location())", "*node = newNode"] := by
  refine ⟨?_, ?_, ?_, ?_, rfl⟩ <;> cases new <;> rfl

/-! ### completeness of the table is necessary -/

/-- the walker's table as it stood with the defect: `SliceNode.Node` is not walked -/
def sliceNodeDropped : WalkTable := fun k =>
  if k = .SliceNode then [⟨.fFrom, .optional⟩, ⟨.fTo, .optional⟩] else refSlots k

def enteredNames (evs : List Event) : List String :=
  evs.filterMap fun e => match e with
    | .enter (.ident _ name _) => some name
    | _ => none

/-- with `SliceNode.Node` missing from the table, in `a[b:c]` only `b` and `c` are entered -/
theorem incomplete_table_witness :
    let t := Node.slice {} (.ident {} "a" false) (some (.ident {} "b" false)) (some (.ident {} "c" false))
    (walk sliceNodeDropped Visitor.idle.logged 3 t ((), [])).map (fun r => enteredNames r.2.2) = some ["b", "c"] ∧
    (walk refSlots Visitor.idle.logged 3 t ((), [])).map (fun r => enteredNames r.2.2) = some ["a", "b", "c"] := by
  decide

/-- a nil slot is neither entered nor exited, whatever the table says about guarding it:
    `a[:]` walked with an unguarded table gives the same stream as with the guarded one -/
theorem nil_slot_skipped :
    let t := Node.slice {} (.ident {} "a" false) none none
    let unguarded : WalkTable := fun k => if k = .SliceNode then [⟨.fNode, .single⟩, ⟨.fFrom, .single⟩, ⟨.fTo, .single⟩] else refSlots k
    (walk unguarded Visitor.idle.logged 3 t ((), [])).map (fun r => enteredNames r.2.2) = some ["a"] ∧
    (walk refSlots Visitor.idle.logged 3 t ((), [])).map (fun r => enteredNames r.2.2) = some ["a"] := by
  decide

/-! ### non-vacuity -/

/-- the slice `a[b:c]`: all three identifiers are entered, `a` first -/
example :
    let a := Node.ident {loc := ⟨1, 0⟩} "a" false
    let b := Node.ident {loc := ⟨1, 2⟩} "b" false
    let c := Node.ident {loc := ⟨1, 4⟩} "c" false
    let t := Node.slice {} a (some b) (some c)
    t.trace = [.enter t, .enter a, .exit a, .enter b, .exit b, .enter c, .exit c, .exit t] := by
  simp [trace, foldN, foldO]

/-- replacing `a` under the slice: the ancestors are inert for a visitor that only rewrites identifiers -/
example :
    let g : Node → Node := fun n => match n with | .ident m "a" s => .ident m "z" s | n => n
    let t := Node.slice {} (.ident {} "a" false) (some (.int {} 1)) none
    spineInert g [0] t ∧ nodeAt [0] (bottomUp g t) = some (.ident {} "z" false) := by
  simp [spineInert, mapChildren, children, withChildren, bottomUp, bottomUpO, nodeAt]

end ExprModel.C10
