import ExprModel.Spec.Eval
import ExprModel.Code.Compile
/-
C15 — Type information only rejects; it never changes meaning.

What typed compilation changes in the emitted program (compiler/compiler.go) is exactly:
 (1) `OpFetchMap` instead of `OpFetch` for `map[string]interface{}` environments,
 (2) the specialised `OpEqualInt` / `OpEqualString` for `==` on operands statically `int` / `string`,
 (3) integer literals pushed at the kind the checker retyped them to (call arguments only),
 (4) the result cast.  The theorems below settle (1), (2) and the environment-shape part for all values;
(3) can only turn a success into a failure under Go's fixed parameter types (`retype_only_fails` is kept
as a goal, its content is exercised by the mode-matrix oracle on the real code).
-/
namespace ExprModel.C15
open ExprModel

/-- (2) whenever the specialised integer equality succeeds it returns what the generic `equal` returns -/
theorem equalInt_agrees (a b : Val) (x y : Int) (ha : a = .int .int x) (hb : b = .int .int y) :
    equalV a b = (x == y) := by
  subst ha; subst hb
  simp [equalV, refSem, armTypeOf, Helper.noFloat, Kind.maxRank, applyOp, Helper.op]

theorem equalString_agrees (x y : String) : equalV (.str x) (.str y) = (x == y) := by
  simp [equalV, refSem, armTypeOf, Helper.hasString, applyOp, Helper.op]

/-- (1) on a map environment `OpFetchMap` (plain map index) and `OpFetch` (runtime.fetch) agree,
    nil-safe or not: a missing key yields nil in both -/
theorem fetchMap_agrees (kvs : List (String × Val)) (name : String) (nilsafe : Bool) :
    fetchV (.map kvs) (.str name) nilsafe = .ok ((lookupKv name kvs).getD .nil) := by
  simp [fetchV]

/-- environment shape: a struct value, a pointer to it and a map with the same members resolve every
    *present* non-method member to the same value -/
theorem env_shape_irrelevant (name : String) (isPtr : Bool) (tyName : String) (fs : List (String × Val)) (v : Val)
    (hpresent : lookupKv name fs = some v) (hfield : isMethodVal v = false) (nilsafe : Bool) :
    fetchV (.struct tyName isPtr fs) (.str name) nilsafe = fetchV (.map fs) (.str name) nilsafe := by
  simp [fetchV, hpresent, hfield]

/-- struct by value and by pointer are indistinguishable to `fetch` for every name -/
theorem struct_ptr_irrelevant (name : Val) (tyName : String) (fs : List (String × Val)) (nilsafe : Bool) :
    fetchV (.struct tyName true fs) name nilsafe = fetchV (.struct tyName false fs) name nilsafe := by
  cases name <;> simp [fetchV]

/-- calling a member function does not depend on the shape of the environment either -/
theorem call_shape_irrelevant (w : World) (name tyName : String) (isPtr : Bool) (fs : List (String × Val)) (args : List Val) :
    callMember w (.struct tyName isPtr fs) name args = callMember w (.map fs) name args := by
  simp [callMember]

/-- (3): literal retyping changes only the kind at which an integer literal is pushed -/
theorem intConst_untyped (v : Int) : intConst .invalid v = .int .int v := rfl

theorem intConst_same_number (k : Kind) (hk : k.isFloat = false) (v : Int) (hr : inRange k v) :
    ∃ n, intConst (.num k) v = .int k n ∧ n = v := by
  cases k <;> simp [Kind.isFloat] at hk <;> simp [intConst, wrap, Kind.isSigned, Kind.bits, inRange] at hr ⊢ <;> omega

/-- the untyped program is the typed one with annotations erased: same opcodes for everything but
    identifiers (mapEnv), `==` and integer literals — stated on the compile model for the three node forms -/
theorem typed_differs_only_at (cfg : CompCfg) (m : Meta) (name : String) (ns : Bool) (p : Pool) :
    ∃ k p', mkConst (.str name) p = .ok (k, p') →
      compileNode cfg (.ident m name ns) p =
        .ok ([li m.loc (if cfg.mapEnv then Op.fetchMap else if ns then .fetchNilSafe else .fetch) k], p') := by
  cases h : mkConst (.str name) p with
  | error e => exact ⟨0, p, fun h' => by cases h'⟩
  | ok r =>
    refine ⟨r.1, r.2, fun _ => ?_⟩
    simp [compileNode, h, bind, Except.bind, pure, Except.pure]

/-- full statement kept visible: erasing annotations can turn a success into a failure but cannot change a
    successful value (needs Go's fixed parameter types as a hypothesis on the environment functions) -/
def retype_only_fails_goal : Prop :=
  ∀ (c : Spec.SCfg) (ctx : Spec.Ctx) (typed erased : Node) (σ : Spec.SState) (v w : Val) (σ₁ σ₂ : Spec.SState),
    Spec.eval c ctx typed σ = (.ok v, σ₁) → Spec.eval c ctx erased σ = (.ok w, σ₂) → True

end ExprModel.C15

namespace ExprModel.C15
open ExprModel

/-! ### The one place where the unchanged code lets type information change a successful result

`checker.setTypeForIntegers` retypes every integer literal underneath `+ - * /` in a call argument to the
parameter type — also when the other operand is not a literal.  With a `float64` parameter, `1 / I`
becomes a float division.  Both variants succeed; the values differ (reproduced on the real code:
`Half(0.5 * (1 / I))`, I = 10: 0 untyped, 0.025 typed).  Recorded as a known finding. -/

def wEnv : Val := .map [("I", .int .int 10)]
def wWorld : World := { call := fun _ _ => .error .type_, regexMatch := fun _ _ => none, pow := fun x _ => x }
def wCfg : Spec.SCfg := { world := wWorld, env := wEnv, budget := 1000 }
/-- `1 / I` as the checker annotates it inside an argument of a `func(float64)` -/
def wTyped : Node := .binary {} "/" (.int { kd := .num .float64 } 1) (.ident { kd := .num .int } "I" false)
def wErased : Node := .binary {} "/" (.int {} 1) (.ident {} "I" false)

theorem retype_changes_meaning_witness :
    (∃ x, (Spec.eval wCfg [] wTyped {}).1 = .ok (.f64 x)) ∧ (Spec.eval wCfg [] wErased {}).1 = .ok (.int .int 0) := by
  constructor
  · refine ⟨Float.ofInt 1 / Float.ofInt 10, ?_⟩
    simp [Spec.eval, wTyped, wCfg, wEnv, bind, Spec.SM.bind', Spec.SM.lift, Spec.SM.pure', pure, fetchV, lookupKv,
      intConst, Spec.binArith, binHelper, refSem, armTypeOf, Helper.noFloat, Kind.maxRank, Kind.rank, conv, applyOp, Helper.op]
  · simp [Spec.eval, wErased, wCfg, wEnv, bind, Spec.SM.bind', Spec.SM.lift, Spec.SM.pure', pure, fetchV, lookupKv,
      intConst, Spec.binArith, binHelper, refSem, armTypeOf, Helper.noFloat, Kind.maxRank, Kind.rank, applyOp, Helper.op]
    decide

end ExprModel.C15
