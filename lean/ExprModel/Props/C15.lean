import ExprModel.Spec.Eval
import ExprModel.Code.Compile
import ExprModel.Proofs.SpecRetype
import ExprModel.Props.C18
/-
C15 — Type information only rejects; it never changes meaning.

What typed compilation changes in the emitted program (compiler/compiler.go) is exactly:
 (1) `OpFetchMap` instead of `OpFetch` for `map[string]interface{}` environments,
 (2) the specialised `OpEqualInt` / `OpEqualString` for `==` on operands statically `int` / `string`,
 (3) integer literals pushed at the kind the checker retyped them to (call arguments only),
 (4) the result cast.  The theorems below settle (1), (2) and the environment-shape part for all values;
then, for whole trees (second half of the file): `Node.eraseKd` (every annotation erased: what the untyped
pipeline compiles); `typed_implies_erased_partial` — without literal retyping a typed success is the same
untyped success (value, call log, counters), for every tree, by mutual induction over `Spec.eval`; the
converse is false (`erased_not_implies_typed_witness`: the specialised `==` can fail where the generic one
succeeds); `typed_untyped_agree_partial`; (3) with literals retyped as direct call arguments, two successes
are equal under Go's fixed parameter types (`retype_only_fails_partial`); the unrestricted statement
`retype_only_fails_goal` is false (`retype_only_fails_goal_false`, from `retype_changes_meaning_witness`);
`typed_untyped_vm`: the same about runs of the two compiled programs, through C01's refinement theorem.
-/
namespace ExprModel.C15
open ExprModel

/-- (2) whenever the specialised integer equality succeeds it returns what the generic `equal` returns -/
theorem equalInt_agrees (a b : Val) (x y : Int) (ha : a = .int .int x) (hb : b = .int .int y) :
    equalV a b = (x == y) := by
  subst ha; subst hb
  simp [equalV, refSem, armTypeOf, Helper.noFloat, Kind.maxRank, applyOp, Helper.op]

theorem equalString_agrees (x y : String) : equalV (.str x) (.str y) = (x == y) := by
  simp [equalV, refSem, armTypeOf, Helper.hasString, applyOp, Helper.op]

/-- (1) on a map environment `OpFetchMap` (plain map index) and `OpFetch` (runtime.fetch) agree,
    nil-safe or not: a missing key yields nil in both -/
theorem fetchMap_agrees (kvs : List (String × Val)) (name : String) (nilsafe : Bool) :
    fetchV (.map kvs) (.str name) nilsafe = .ok ((lookupKv name kvs).getD .nil) := by
  simp [fetchV]

/-- environment shape: a struct value, a pointer to it and a map with the same members resolve every
    *present* non-method member to the same value -/
theorem env_shape_irrelevant (name : String) (isPtr : Bool) (tyName : String) (fs : List (String × Val)) (v : Val)
    (hpresent : lookupKv name fs = some v) (hfield : isMethodVal v = false) (nilsafe : Bool) :
    fetchV (.struct tyName isPtr fs) (.str name) nilsafe = fetchV (.map fs) (.str name) nilsafe := by
  simp [fetchV, hpresent, hfield]

/-- struct by value and by pointer are indistinguishable to `fetch` for every name -/
theorem struct_ptr_irrelevant (name : Val) (tyName : String) (fs : List (String × Val)) (nilsafe : Bool) :
    fetchV (.struct tyName true fs) name nilsafe = fetchV (.struct tyName false fs) name nilsafe := by
  cases name <;> simp [fetchV]

/-- calling a member function does not depend on the shape of the environment either -/
theorem call_shape_irrelevant (w : World) (name tyName : String) (isPtr : Bool) (fs : List (String × Val)) (args : List Val) :
    callMember w (.struct tyName isPtr fs) name args = callMember w (.map fs) name args := by
  simp [callMember]

/-- (3): literal retyping changes only the kind at which an integer literal is pushed -/
theorem intConst_untyped (v : Int) : intConst .invalid v = .int .int v := rfl

theorem intConst_same_number (k : Kind) (hk : k.isFloat = false) (v : Int) (hr : inRange k v) :
    ∃ n, intConst (.num k) v = .int k n ∧ n = v := by
  cases k <;> simp [Kind.isFloat] at hk <;> simp [intConst, wrap, Kind.isSigned, Kind.bits, inRange] at hr ⊢ <;> omega

/-- how an identifier compiles: one fetch instruction whose opcode depends only on `mapEnv` (typed map
    environment) and the nil-safe flag, never on the annotation — the identifier case of "typing changes only
    the opcode chosen"; `==` and integer literals are covered by `typed_untyped_vm` and `intConst_*` -/
theorem typed_differs_only_at (cfg : CompCfg) (m : Meta) (name : String) (ns : Bool) (p p' : Pool) (k : Nat)
    (h : mkConst (.str name) p = .ok (k, p')) :
    compileNode cfg (.ident m name ns) p =
      .ok ([li m.loc (if cfg.mapEnv then Op.fetchMap else if ns then .fetchNilSafe else .fetch) k], p') := by
  simp [compileNode, h, bind, Except.bind, pure, Except.pure]

/-- the hypothesis is met on the empty pool: the name becomes constant 0 -/
example : compileNode {} (.ident {} "x" false) {} = .ok ([li ({} : Meta).loc Op.fetch 0], ⟨#[.str "x"], []⟩) :=
  typed_differs_only_at {} {} "x" false {} _ 0 rfl

end ExprModel.C15

namespace ExprModel.C15
open ExprModel

/-! ### The one place where the unchanged code lets type information change a successful result

`checker.setTypeForIntegers` retypes every integer literal underneath `+ - * /` in a call argument to the
parameter type — also when the other operand is not a literal.  With a `float64` parameter, `1 / I`
becomes a float division.  Both variants succeed; the values differ (reproduced on the real code:
`Half(0.5 * (1 / I))`, I = 10: 0 untyped, 0.025 typed).  Recorded as a known finding. -/

def wEnv : Val := .map [("I", .int .int 10)]
def wWorld : World := { call := fun _ _ => .error .type_, regexMatch := fun _ _ => none, pow := fun x _ => x }
def wCfg : Spec.SCfg := { world := wWorld, env := wEnv, budget := 1000 }
/-- `1 / I` as the checker annotates it inside an argument of a `func(float64)` -/
def wTyped : Node := .binary {} "/" (.int { kd := .num .float64 } 1) (.ident { kd := .num .int } "I" false)
def wErased : Node := .binary {} "/" (.int {} 1) (.ident {} "I" false)

theorem retype_changes_meaning_witness :
    (∃ x, (Spec.eval wCfg [] wTyped {}).1 = .ok (.f64 x)) ∧ (Spec.eval wCfg [] wErased {}).1 = .ok (.int .int 0) := by
  constructor
  · refine ⟨Float.ofInt 1 / Float.ofInt 10, ?_⟩
    simp [Spec.eval, wTyped, wCfg, wEnv, bind, Spec.SM.bind', Spec.SM.lift, Spec.SM.pure', pure, fetchV, lookupKv,
      intConst, Spec.binArith, binHelper, refSem, armTypeOf, Helper.noFloat, Kind.maxRank, Kind.rank, conv, applyOp, Helper.op]
  · simp [Spec.eval, wErased, wCfg, wEnv, bind, Spec.SM.bind', Spec.SM.lift, Spec.SM.pure', pure, fetchV, lookupKv,
      intConst, Spec.binArith, binHelper, refSem, armTypeOf, Helper.noFloat, Kind.maxRank, Kind.rank, applyOp, Helper.op]
    decide


/-! ### whole trees: typed evaluation against the evaluation of the erased tree -/
open ExprModel.Spec

/-- (2) For a tree without literal retyping (`PlainInts`: every integer literal denotes the `int` it spells),
    whatever the other annotations are: if the typed tree evaluates successfully, the erased tree evaluates
    to the same value in the same final state (call log, allocation counters) — for all configurations,
    closure contexts and start states.  The only places `eval` reads an annotation are `intConst` and the
    `==` specialisation, whose success implies the generic `equal` gives the same boolean. -/
theorem typed_implies_erased_partial (c : SCfg) (ctx : Ctx) (n : Node) (hn : PlainInts n) (σ σ' : SState) (v : Val)
    (h : eval c ctx n σ = (.ok v, σ')) : eval c ctx n.eraseKd σ = (.ok v, σ') :=
  eval_le_erase c n hn ctx σ v σ' h

/-- `PlainInts` holds e.g. when every integer literal is annotated `.invalid` or `int` (value in range) -/
example : PlainInts (.binary {} "+" (.int {} 1) (.int { kd := .num .int } 2)) :=
  ⟨rfl, rfl⟩

/-- `x == 1` with `x` statically `int` but dynamically an `int64` (a value behind a named type, C03) -/
def eqTyped : Node := .binary {} "==" (.const { kd := .num .int } (.int .int64 1)) (.int { kd := .num .int } 1)

/-- The converse is false: the erased tree can succeed where the typed one fails — the specialised
    `OpEqualInt` is a type assertion; the generic `equal` compares across kinds. -/
theorem erased_not_implies_typed_witness :
    PlainInts eqTyped ∧ (eval wCfg [] eqTyped.eraseKd {}).1 = .ok (.bool true) ∧
    (eval wCfg [] eqTyped {}).1 = .error .type_ := by
  refine ⟨⟨trivial, rfl⟩, rfl, rfl⟩

/-- (3) when both the typed tree and its erasure evaluate successfully the results are equal (and so are
    call log and counters) -/
theorem typed_untyped_agree_partial (c : SCfg) (ctx : Ctx) (n : Node) (hn : PlainInts n) (σ σ₁ σ₂ : SState) (v w : Val)
    (h1 : eval c ctx n σ = (.ok v, σ₁)) (h2 : eval c ctx n.eraseKd σ = (.ok w, σ₂)) : v = w ∧ σ₁ = σ₂ :=
  (eval_le_erase c n hn ctx).agree σ v w σ₁ σ₂ h1 h2

/-- The full statement: erasing annotations can turn a success into a failure, or a failure into a success,
    but two successes are the same value — for every tree, under Go's fixed parameter types for the
    environment functions (`FixedParams`: a call that succeeds on `args` is refused on arguments that
    differ in the kind of a number). -/
def retype_only_fails_goal : Prop :=
  ∀ (c : SCfg), FixedParams c.world → ∀ (ctx : Ctx) (n : Node) (σ σ₁ σ₂ : SState) (v w : Val),
    eval c ctx n σ = (.ok v, σ₁) → eval c ctx n.eraseKd σ = (.ok w, σ₂) → v = w

/-- (4) proved for trees in which retyped literals occur only as direct call arguments (`Half(1)`; every
    other integer literal plain: `RetypeOK`): the two successes agree on the value, the call log and the
    counters.  If the retyped argument differs in kind from the plain one, the callee accepts at most one of
    them, so at most one of the two evaluations succeeds. -/
theorem retype_only_fails_partial (c : SCfg) (hw : FixedParams c.world) (ctx : Ctx) (n : Node) (hn : RetypeOK n)
    (σ σ₁ σ₂ : SState) (v w : Val)
    (h1 : eval c ctx n σ = (.ok v, σ₁)) (h2 : eval c ctx n.eraseKd σ = (.ok w, σ₂)) : v = w ∧ σ₁ = σ₂ :=
  eval_agree_erase c hw n hn ctx σ v w σ₁ σ₂ h1 h2

/-- a world with one function `Half : func(float64) float64` -/
def halfWorld : World :=
  { call := fun id args => match id, args with
      | "Half", [.f64 x] => .ok (.f64 x)
      | _, _ => .error .type_
    regexMatch := fun _ _ => none, pow := fun x _ => x }

theorem halfWorld_fixed : FixedParams halfWorld := by
  intro id args args' r h hrel hne
  simp only [halfWorld] at h ⊢
  split at h
  · rename_i x
    match args', hrel with
    | [b], ⟨hb, _⟩ =>
      rcases hb with hb | ⟨k, k', hk, hk', hkk⟩
      · exact absurd (by rw [hb]) hne
      · cases b <;> simp_all [kindOfVal]
  · cases h

/-- `Half(1)` as the checker annotates it: the literal retyped to `float64` -/
def halfTyped : Node := .func {} "Half" [.int { kd := .num .float64 } 1] false
def halfCfg : SCfg := { world := halfWorld, env := .map [("Half", .fn "Half")], budget := 1000 }

/-- the hypotheses of `retype_only_fails_partial` are satisfiable, and literal retyping is exactly the case
    where the *typed* program succeeds and the untyped one is rejected at run time -/
example : RetypeOK halfTyped ∧ FixedParams halfCfg.world ∧
    (∃ x, (eval halfCfg [] halfTyped {}).1 = .ok (.f64 x)) ∧
    (eval halfCfg [] halfTyped.eraseKd {}).1 = .error .type_ :=
  ⟨⟨.inr ⟨_, _, rfl, rfl, by decide⟩, trivial⟩, halfWorld_fixed, ⟨_, rfl⟩, rfl⟩

theorem wWorld_fixed : FixedParams wWorld := by
  intro id args args' r h
  cases h

/-- The unrestricted statement is false: `retype_changes_meaning_witness` (the checker retypes literals
    underneath arithmetic inside a call argument — the known finding) is a counterexample. -/
theorem retype_only_fails_goal_false : ¬ retype_only_fails_goal := by
  intro hgoal
  obtain ⟨⟨x, hx⟩, hy⟩ := retype_changes_meaning_witness
  have he : wTyped.eraseKd = wErased := rfl
  have := hgoal wCfg wWorld_fixed [] wTyped {} (eval wCfg [] wTyped {}).2 (eval wCfg [] wErased {}).2 (.f64 x) (.int .int 0)
    (Prod.ext hx rfl) (by rw [he]; exact Prod.ext hy rfl)
  cases this

/-! ### transferred to the VM: the typed and the untyped compiled program -/
open ExprModel.Refine (specOf)

/-- the result directive as a function -/
def castOut : Option Nat → Val → R Val
  | none, v => .ok v
  | some t, v => castV t v

theorem specRun_ok {sc : SCfg} {cast : Option Nat} {n : Node} {v' : Val} {s : SState}
    (h : Spec.run sc cast n = (.ok v', s)) :
    ∃ v, eval sc [] n {} = (.ok v, s) ∧ castOut cast v = .ok v' := by
  unfold Spec.run at h
  rcases he : eval sc [] n {} with ⟨r, σ⟩
  rw [he] at h
  cases r with
  | error e => simp at h
  | ok v =>
    cases cast with
    | none => simp only [Prod.mk.injEq, Except.ok.injEq] at h; exact ⟨v, by rw [h.2], by rw [← h.1]; rfl⟩
    | some t => simp only [Prod.mk.injEq] at h; exact ⟨v, by rw [h.2], h.1⟩

/-- The typed program (any `mapEnv`, annotations as the checker left them) and the untyped program (the
    erased tree), both compiled and run on the byte-level VM: whenever both runs succeed they return the
    same value — under C01's side conditions for both, the same result cast, `RetypeOK` and fixed
    parameter types. -/
theorem typed_untyped_vm (c : Cfg) (hw : FixedParams c.world) (cfgT cfgU : CompCfg) (hcast : cfgT.cast = cfgU.cast)
    (n : Node) (hn : RetypeOK n) (cpT cpU : Compiled)
    (hT : C18.Conf c cfgT n cpT) (hU : C18.Conf c cfgU n.eraseKd cpU) :
    ∃ N, ∀ fuel, N ≤ fuel → ∀ v w, (C18.vmOut c cpT fuel).1 = .ok v → (C18.vmOut c cpU fuel).1 = .ok w → v = w :=
  C18.transfer hT hU (fun a b => ∀ v w, a.1 = .ok v → b.1 = .ok w → v = w) (by
    intro v w h1 h2
    obtain ⟨v0, e1, c1⟩ := specRun_ok (Prod.ext h1 rfl : Spec.run (specOf c) cfgT.cast n = (.ok v, _))
    obtain ⟨w0, e2, c2⟩ := specRun_ok (Prod.ext h2 rfl : Spec.run (specOf c) cfgU.cast n.eraseKd = (.ok w, _))
    obtain ⟨e, _⟩ := eval_agree_erase (specOf c) hw n hn [] {} v0 w0 _ _ e1 e2
    subst e
    rw [hcast, c2] at c1
    exact (Except.ok.inj c1).symm)

/-- `I == 1` as the checker annotates it over a map environment (`OpFetchMap`, `OpEqualInt`) … -/
def vmTyped : Node := .binary { kd := .bool } "==" (.ident { kd := .num .int } "I" false) (.int { kd := .num .int } 1)
def vmCfgT : CompCfg := { mapEnv := true }
def vmCpT : Compiled := match compileProgram vmCfgT vmTyped with | .ok cp => cp | .error _ => default
/-- … and as `expr.Eval` compiles it (`OpFetch`, `OpEqual`) -/
def vmCpU : Compiled := match compileProgram {} vmTyped.eraseKd with | .ok cp => cp | .error _ => default

set_option maxRecDepth 8000 in
/-- non-vacuity of `typed_untyped_vm`: the two programs differ (specialised opcodes) and satisfy all side
    conditions, in every world with fixed parameter types, every map environment and every budget -/
example (c : Cfg) (hw : FixedParams c.world) (henv : ∃ kvs, c.env = .map kvs) :
    vmCpT.code.map (·.instr) ≠ vmCpU.code.map (·.instr) ∧
    ∃ N, ∀ fuel, N ≤ fuel → ∀ v w, (C18.vmOut c vmCpT fuel).1 = .ok v → (C18.vmOut c vmCpU fuel).1 = .ok w → v = w :=
  ⟨by decide,
   typed_untyped_vm c hw vmCfgT {} rfl vmTyped ⟨trivial, rfl⟩ vmCpT vmCpU
    ⟨by unfold vmCpT; rfl, by decide, by decide, (fun _ => henv), ⟨trivial, trivial⟩⟩
    ⟨by unfold vmCpU; rfl, by decide, by decide, (fun h => by cases h), ⟨trivial, trivial⟩⟩⟩

end ExprModel.C15
