import ExprModel.Proofs.VMStep
import ExprModel.Proofs.SpecInv
import ExprModel.Proofs.SpecBudget
import ExprModel.Props.C01
import ExprModel.VM.SrcDefects
/-
C06 — The memory budget bounds what a run can allocate.

"A run that completes successfully has created fewer collection elements - arrays, maps and ranges built
during evaluation, intermediate ones included - than the configured memory budget, and a run whose
evaluation has to create at least that many fails with an error instead of completing.  A run that needs
fewer is never refused for budget reasons.  This holds however the allocations are split between ranges,
literals and builtin results, and for ranges whose end precedes their start."

Model: the byte-level VM (`VM/Step.lean`) with the ghost counter `created` = collection elements actually
built (the length of the slice `makeRange` returns, of the array `OpArray` fills, the pairs `OpMap` stores),
beside the code's own `memory` / `limit`.  All theorems are for ARBITRARY bytecode, environments and fuel —
so for every way of splitting the allocations between ranges, literals and builtin results (builtins
allocate through the same three opcodes) — under the variant `rangeSizeSigned = false` (OpRange counts the
size it builds, never a negative number).  `srcDefects` (VM/SrcDefects.lean) derives the variant from the
regenerated source facts; `source_clamps_range` is the theorem that fails on a tree without the clamp.

Tie (Gen/Budget.lean, regenerated from vm/vm.go on every run): the three accounting sites with their
comparison, operands, order of test / add / push, the clamp, `MemoryBudget`, `makeRange`.
-/
namespace ExprModel.C06
open ExprModel
open ExprModel.Refine
set_option autoImplicit false

/-! ### the source facts -/

/-- `OpRange`: `size` is `max - min + 1` (clamped at zero: either `if size < 0 { size = 0 }` after it, or
    `size := 0; if max >= min { size = max - min + 1 … }` — both shapes set `clamped`), refused *before* building
    (`vm.memory+size >= vm.limit`), then `vm.push(makeRange(min, max)); vm.memory += size` — as in the model's
    `.range` clause.  The model computes `size` in unbounded integers; `Gen.Budget.rangeOverflowGuard` records
    whether the code refuses a size that does not fit an `int` (then it agrees with the model there too: such a
    range exceeds every budget). -/
theorem range_site_as_modelled :
    Gen.Budget.rangeSite.sizeExpr = "max - min + 1" ∧
    Gen.Budget.rangeSite.testLhs = "vm.memory+size" ∧ Gen.Budget.rangeSite.testOp = ">=" ∧
    Gen.Budget.rangeSite.testRhs = "vm.limit" ∧ Gen.Budget.rangeSite.testBeforeAdd = true ∧
    Gen.Budget.rangeSite.pushBeforeTest = false ∧ Gen.Budget.rangeSite.addStmt = "vm.memory += size" ∧
    Gen.Budget.rangeSite.failMsg = "memory budget exceeded" := by decide

/-- `OpArray` / `OpMap`: `size := vm.pop().(int)`, build, push, `vm.memory += size`, *then*
    `vm.memory >= vm.limit` — as in the model's `.array` / `.map` clauses (whole case bodies compared) -/
theorem literal_sites_as_modelled :
    Gen.Budget.arraySite.body = "size := vm.pop().(int); array := make([]interface{}, size); for i := size - 1; i >= 0; i-- { array[i] = vm.pop() }; vm.push(array); vm.memory += size; if vm.memory >= vm.limit { panic(\"memory budget exceeded\") }" ∧
    Gen.Budget.mapSite.body = "size := vm.pop().(int); m := make(map[string]interface{}); for i := size - 1; i >= 0; i-- { value := vm.pop() key := vm.pop() m[key.(string)] = value }; vm.push(m); vm.memory += size; if vm.memory >= vm.limit { panic(\"memory budget exceeded\") }" ∧
    (∀ st ∈ [Gen.Budget.arraySite, Gen.Budget.mapSite],
      st.sizeExpr = "vm.pop().(int)" ∧ st.clamped = false ∧ st.testLhs = "vm.memory" ∧ st.testOp = ">=" ∧
      st.testRhs = "vm.limit" ∧ st.testBeforeAdd = false ∧ st.pushBeforeTest = true ∧
      st.addStmt = "vm.memory += size" ∧ st.failMsg = "memory budget exceeded") :=
  ⟨rfl, rfl, by decide⟩

/-- the code refuses a range whose size does not fit an `int` (`if size < 1 { panic("memory budget exceeded") }`
    inside `if max >= min`, fix 426e727): only with this guard does the model's unbounded `size` agree with Go's
    64-bit arithmetic, so every theorem below that speaks about `.range` rests on it; removing the guard breaks
    this theorem -/
theorem range_overflow_guard_present : Gen.Budget.rangeOverflowGuard = true := by decide

/-- no other case of the dispatch switch mentions `vm.memory` / `vm.limit` (the translator refuses any
    mention outside `switch op`) -/
theorem only_three_sites : Gen.Budget.casesTouchingBudget = ["OpRange", "OpArray", "OpMap"] := by decide

/-- `MemoryBudget int = 1e6`; `vm.limit = MemoryBudget` in the prologue -/
theorem budget_default : Gen.Budget.memoryBudgetDefault = 1000000 ∧ Gen.Budget.limitInit = "MemoryBudget" := by decide

/-- `makeRange` builds no element when `max < min` (tested BEFORE the subtraction, which wraps around for bounds
    more than MaxInt apart: fix e8a6401) and `max - min + 1` elements otherwise (`rangeElems`) -/
theorem makeRange_as_modelled :
    Gen.Budget.makeRangeSig = "func(min, max int) []int" ∧
    Gen.Budget.makeRangeBody = "{ if max < min { return []int{} } size := max - min + 1 if size <= 0 { return []int{} } rng := make([]int, size) for i := range rng { rng[i] = min + i } return rng }" :=
  ⟨rfl, rfl⟩

/-- the model's flag is by definition the negation of the extracted fact … -/
theorem gen_matches_model : srcDefects.rangeSizeSigned = !Gen.Budget.rangeSite.clamped := rfl

/-- … and in /repo's current source `OpRange` clamps `size` at zero before the test and the accounting -/
theorem source_clamps_range : srcDefects.rangeSizeSigned = false := by decide

/-! ### one step -/

variable {c : Cfg} {p : Prog}

/-- **Every step moves the budget counter and the number of elements actually built by the same amount**
    (all 52 opcodes: 49 leave both untouched) — on success … -/
theorem step_memory_created (hr : c.defects.rangeSizeSigned = false) (hw : WorldNB c.world) {s s' : VM}
    (h : step c p s = .ok s') : s'.memory - s.memory = (s'.created : Int) - (s.created : Int) :=
  ((step_sat c hr hw p s).ok h).delta

/-- … and on failure, for the state the failing step reports -/
theorem step_memory_created_err (hr : c.defects.rangeSizeSigned = false) (hw : WorldNB c.world) {s s' : VM} {e}
    (h : step c p s = .error (e, s')) : s'.memory - s.memory = (s'.created : Int) - (s.created : Int) :=
  ((step_sat c hr hw p s).err h).delta

/-- **A step fails with a budget error only at the budget**: the instruction is one of the three allocating
    ones with its operands in place, about to create `k` elements, and either (range) nothing was built or
    counted and `memory + k` would reach the limit, or (array / map literal) the `k` elements were built and
    counted and the counter has reached the limit. -/
theorem refused_only_at_budget (hr : c.defects.rangeSizeSigned = false) (hw : WorldNB c.world) {s s' : VM}
    (h : step c p s = .error (.budget, s')) :
    ∃ k, pending p s = some k ∧
      ((s'.memory = s.memory ∧ s'.created = s.created ∧ s.memory + k ≥ s.limit) ∨
       (s'.memory = s.memory + k ∧ s'.created = s.created + k ∧ s'.memory ≥ s.limit)) := by
  cases ((step_sat c hr hw p s).err h).budget rfl with
  | before k hp hm hc hk => exact ⟨k, hp, .inl ⟨hm, hc, hk⟩⟩
  | after k hp hm hc hk => exact ⟨k, hp, .inr ⟨hm, hc, hk⟩⟩

/-- **never refused below the budget**: an instruction about to create `k` elements with `memory + k` still
    below the limit does not fail for budget reasons -/
theorem never_refused_below_step (hr : c.defects.rangeSizeSigned = false) (hw : WorldNB c.world) {s : VM} {k : Nat}
    (hp : pending p s = some k) (hlt : s.memory + k < s.limit) : ∀ s', step c p s ≠ .error (.budget, s') := by
  intro s' h
  obtain ⟨k', hp', hh⟩ := refused_only_at_budget hr hw h
  rw [hp] at hp'; injection hp' with hk; subst hk
  have hl := ((step_sat c hr hw p s).err h).limit
  rcases hh with ⟨_, _, h3⟩ | ⟨h1, _, h3⟩ <;> omega

/-- **needs ≥ budget ⇒ fails**: an instruction about to create `k` elements with `memory + k` reaching the
    limit does not complete -/
theorem needs_ge_fails_step (hr : c.defects.rangeSizeSigned = false) (hw : WorldNB c.world) {s : VM} {k : Nat}
    (hp : pending p s = some k) (hge : s.memory + k ≥ s.limit) : ∀ s', step c p s ≠ .ok s' := by
  intro s' h
  have hs := (step_sat c hr hw p s).ok h
  obtain ⟨hc, hlt⟩ := hs.alloc k hp
  have := hs.delta
  have := hs.limit
  omega

/-! ### whole runs -/

/-- invariant of the states a run goes through -/
structure Inv (c : Cfg) (s : VM) : Prop where
  eq : s.memory = (s.created : Int)
  limit : s.limit = c.budget
  below : s.created = 0 ∨ s.memory < s.limit

theorem inv_prologue (h : c.defects.memoryNotReset = false) (s : VM) : Inv c (prologue c s) := by
  refine ⟨?_, rfl, .inl rfl⟩
  simp [prologue, h]

theorem inv_prologue_fresh : Inv c (prologue c {}) := by
  refine ⟨?_, rfl, .inl rfl⟩
  simp [prologue]

theorem inv_step (hr : c.defects.rangeSizeSigned = false) (hw : WorldNB c.world) {s s' : VM}
    (hi : Inv c s) (h : step c p s = .ok s') : Inv c s' := by
  have hs := (step_sat c hr hw p s).ok h
  refine ⟨?_, by rw [hs.limit, hi.limit], ?_⟩
  · have := hs.delta; have := hi.eq; omega
  · rcases hs.below with hc | hlt
    · rcases hi.below with h0 | hl
      · left; rw [hc, h0]
      · right
        have hd := hs.delta; have hl' := hs.limit
        rw [hc] at hd
        omega
    · exact .inr hlt

/-- induction principle for the dispatch loop -/
theorem loop_ind (c : Cfg) (p : Prog) (I : VM → Prop) (Post : R Val → VM → Prop)
    (hfuel : ∀ s, I s → Post (.error .fuel) s)
    (hstep : ∀ s s', I s → step c p s = .ok s' → I s')
    (herr : ∀ s e s', I s → step c p s = .error (e, s') → Post (.error e) s')
    (hexit1 : ∀ s v rest, I s → s.stack = v :: rest → Post (.ok v) { s with stack := rest })
    (hexit2 : ∀ s, I s → Post (.ok .nil) s) :
    ∀ fuel s, I s → Post (loop c p fuel s).1 (loop c p fuel s).2
  | 0, s, hi => by unfold loop; exact hfuel s hi
  | fuel + 1, s, hi => by
    unfold loop
    split
    · cases hst : step c p s with
      | ok s' => simp only []; exact loop_ind c p I Post hfuel hstep herr hexit1 hexit2 fuel s' (hstep s s' hi hst)
      | error es => obtain ⟨e, s'⟩ := es; exact herr s e s' hi hst
    · split
      · rename_i v rest hs; exact hexit1 s v rest hi hs
      · exact hexit2 s hi

/-- the counter equals the number of elements built at the end of the loop, however it ends -/
theorem loop_memory_eq_created (hr : c.defects.rangeSizeSigned = false) (hw : WorldNB c.world) (fuel : Nat) (s : VM)
    (hi : Inv c s) :
    (loop c p fuel s).2.memory = ((loop c p fuel s).2.created : Int) ∧ (loop c p fuel s).2.limit = c.budget := by
  refine loop_ind c p (Inv c) (fun _ s => s.memory = (s.created : Int) ∧ s.limit = c.budget)
    (fun s hi => ⟨hi.eq, hi.limit⟩) (fun s s' hi h => inv_step hr hw hi h) ?_
    (fun s v rest hi _ => ⟨hi.eq, hi.limit⟩) (fun s hi => ⟨hi.eq, hi.limit⟩) fuel s hi
  intro s e s' hi h
  have hs := (step_sat c hr hw p s).err h
  exact ⟨by have := hs.delta; have := hi.eq; omega, by rw [hs.limit, hi.limit]⟩

/-- **memory = created** at the end of every run on a fresh VM: success, failure of any class, out of fuel -/
theorem memory_eq_created (hr : c.defects.rangeSizeSigned = false) (hw : WorldNB c.world) (fuel : Nat) :
    (run c p fuel).2.memory = ((run c p fuel).2.created : Int) :=
  (loop_memory_eq_created hr hw fuel _ inv_prologue_fresh).1

/-- the same on a reused VM, once the prologue resets the counter (C07) -/
theorem memory_eq_created_reused (hr : c.defects.rangeSizeSigned = false) (hm : c.defects.memoryNotReset = false)
    (hw : WorldNB c.world) (fuel : Nat) (s : VM) :
    (runOn c p fuel s).2.memory = ((runOn c p fuel s).2.created : Int) :=
  (loop_memory_eq_created hr hw fuel _ (inv_prologue hm s)).1

theorem loop_success_lt (hr : c.defects.rangeSizeSigned = false) (hw : WorldNB c.world) (fuel : Nat) (s : VM)
    (hi : Inv c s) (v : Val) (hv : (loop c p fuel s).1 = .ok v) :
    (loop c p fuel s).2.created = 0 ∨ ((loop c p fuel s).2.created : Int) < c.budget := by
  have key : ∀ s, Inv c s → s.created = 0 ∨ (s.created : Int) < c.budget := by
    intro s hi
    rcases hi.below with h | h
    · exact .inl h
    · right; rw [← hi.eq, ← hi.limit]; exact h
  refine loop_ind c p (Inv c) (fun r s => ∀ v, r = .ok v → s.created = 0 ∨ (s.created : Int) < c.budget)
    (fun s _ v h => by cases h) (fun s s' hi h => inv_step hr hw hi h) (fun s e s' _ _ v h => by cases h)
    (fun s v rest hi _ _ _ => key s hi) (fun s hi _ _ => key s hi) fuel s hi v hv

/-- **C06, first half.** A run that completes successfully has created fewer collection elements than the
    budget (`created` counts every array, map and range built on the way, intermediate ones included). -/
theorem success_lt_budget (hr : c.defects.rangeSizeSigned = false) (hw : WorldNB c.world) (fuel : Nat) (v : Val)
    (hv : (run c p fuel).1 = .ok v) (hb : 0 < c.budget) : ((run c p fuel).2.created : Int) < c.budget := by
  rcases loop_success_lt hr hw fuel _ inv_prologue_fresh v hv with h | h
  · unfold run runOn; rw [h]; exact hb
  · exact h

/-- without the side condition: a successful run created nothing or fewer elements than the budget -/
theorem success_lt_budget' (hr : c.defects.rangeSizeSigned = false) (hw : WorldNB c.world) (fuel : Nat) (v : Val)
    (hv : (run c p fuel).1 = .ok v) : (run c p fuel).2.created = 0 ∨ ((run c p fuel).2.created : Int) < c.budget :=
  loop_success_lt hr hw fuel _ inv_prologue_fresh v hv

/-- **C06, third sentence.** A run that ends with a budget error was refused at the budget: the failing
    instruction was about to create `k` elements in a state that had created `n`, and `n + k` reaches the
    budget — counted before building (range: final `created = n`) or after (literal: final `created = n + k`).
    So a run that needs fewer elements than the budget is never refused for budget reasons. -/
theorem refused_only_at_budget_run (hr : c.defects.rangeSizeSigned = false) (hw : WorldNB c.world) (fuel : Nat)
    (h : (run c p fuel).1 = .error .budget) :
    ∃ (s : VM) (k : Nat), Inv c s ∧ pending p s = some k ∧ (s.created : Int) + k ≥ c.budget ∧
      ((run c p fuel).2.created = s.created ∨ (run c p fuel).2.created = s.created + k) := by
  refine loop_ind c p (Inv c)
    (fun r s' => r = .error .budget → ∃ (s : VM) (k : Nat), Inv c s ∧ pending p s = some k ∧
      (s.created : Int) + k ≥ c.budget ∧ (s'.created = s.created ∨ s'.created = s.created + k))
    (fun s _ h => by cases h) (fun s s' hi h => inv_step hr hw hi h) ?_
    (fun s v rest _ _ h => by cases h) (fun s _ h => by cases h) fuel _ inv_prologue_fresh h
  intro s e s' hi hst he
  injection he with he; subst he
  obtain ⟨k, hp, hh⟩ := refused_only_at_budget hr hw hst
  refine ⟨s, k, hi, hp, ?_, ?_⟩
  · have := hi.eq; have := hi.limit
    rcases hh with ⟨_, _, h3⟩ | ⟨h1, _, h3⟩ <;> omega
  · rcases hh with ⟨_, h2, _⟩ | ⟨_, h2, _⟩
    · exact .inl h2
    · exact .inr h2

/-- `n` successful steps of the dispatch loop -/
def stepsTo (c : Cfg) (p : Prog) : Nat → VM → Option VM
  | 0, s => some s
  | n + 1, s =>
    if s.ip < p.code.size then
      match step c p s with
      | .ok s' => stepsTo c p n s'
      | .error _ => none
    else none

theorem inv_stepsTo (hr : c.defects.rangeSizeSigned = false) (hw : WorldNB c.world) :
    ∀ (n : Nat) (s t : VM), Inv c s → stepsTo c p n s = some t → Inv c t
  | 0, s, t, hi, h => by unfold stepsTo at h; injection h with h; rw [← h]; exact hi
  | n + 1, s, t, hi, h => by
    unfold stepsTo at h
    split at h
    · cases hst : step c p s with
      | ok s' => rw [hst] at h; exact inv_stepsTo hr hw n s' t (inv_step hr hw hi hst) h
      | error e => rw [hst] at h; cases h
    · cases h

theorem loop_not_ok_of_stuck : ∀ (n : Nat) (s t : VM), stepsTo c p n s = some t → t.ip < p.code.size →
    (∀ t', step c p t ≠ .ok t') → ∀ fuel v, (loop c p fuel s).1 ≠ .ok v
  | _, s, t, _, _, _, 0, v => by unfold loop; intro h; cases h
  | 0, s, t, h, hin, hstuck, fuel + 1, v => by
    unfold stepsTo at h; injection h with h; subst h
    unfold loop
    rw [if_pos hin]
    cases hst : step c p s with
    | ok s' => exact absurd hst (hstuck s')
    | error es => intro h; cases h
  | n + 1, s, t, h, hin, hstuck, fuel + 1, v => by
    unfold stepsTo at h
    split at h
    · rename_i hs
      unfold loop
      rw [if_pos hs]
      cases hst : step c p s with
      | ok s' => rw [hst] at h; exact loop_not_ok_of_stuck n s' t h hin hstuck fuel v
      | error es => rw [hst] at h; cases h
    · cases h

/-- **C06, second half.** If a run reaches (after any number of steps) an allocating instruction about to
    create `k` elements while `n` have been created and `n + k` reaches the budget, the run does not
    complete successfully — whatever the fuel. -/
theorem needs_ge_fails (hr : c.defects.rangeSizeSigned = false) (hw : WorldNB c.world) (n : Nat) (t : VM) (k : Nat)
    (hreach : stepsTo c p n (prologue c {}) = some t) (hp : pending p t = some k)
    (hge : (t.created : Int) + k ≥ c.budget) : ∀ fuel v, (run c p fuel).1 ≠ .ok v := by
  have hi := inv_stepsTo hr hw n _ t inv_prologue_fresh hreach
  have hstuck : ∀ t', step c p t ≠ .ok t' :=
    needs_ge_fails_step hr hw hp (by have := hi.eq; have := hi.limit; omega)
  exact loop_not_ok_of_stuck n _ t hreach (pending_in_range hp) hstuck

/-! ### the language level: the same invariants for the reference evaluator `Spec.eval`

By structural recursion over the syntax tree (Proofs/SpecInv.lean): array and map literals, run-time ranges
(ascending, empty, descending), `map` / `filter` results and every nesting of these inside any other
construct — "however the allocations are split between ranges, literals and builtin results". -/

/-- the counter the budget is checked against equals the number of elements the evaluation built, at the
    end of every evaluation, successful or not -/
theorem spec_memory_eq_created (sc : Spec.SCfg) (cast : Option Nat) (n : Node) (hr : sc.rangeSizeSigned = false) :
    (Spec.run sc cast n).2.memory = ((Spec.run sc cast n).2.created : Int) :=
  Spec.spec_memory_eq_created sc cast n hr

/-- a successful evaluation has built fewer elements than the budget -/
theorem spec_success_lt_budget (sc : Spec.SCfg) (cast : Option Nat) (n : Node) (v : Val)
    (hr : sc.rangeSizeSigned = false) (hb : 0 < sc.budget) (hv : (Spec.run sc cast n).1 = .ok v) :
    ((Spec.run sc cast n).2.created : Int) < sc.budget :=
  Spec.spec_success_lt_budget sc cast n hr hb hv

/-- an evaluation that builds at least as many elements as the budget ends with the budget error -/
theorem spec_needs_ge_fails (sc : Spec.SCfg) (cast : Option Nat) (n : Node)
    (hr : sc.rangeSizeSigned = false) (hb : 0 < sc.budget)
    (hge : sc.budget ≤ ((Spec.run sc cast n).2.created : Int)) :
    (Spec.run sc cast n).1 = .error .budget :=
  Spec.spec_budget_error_of_created_ge_budget sc cast n hr hb hge

/-- every intermediate evaluation: the invariant is kept from any state that satisfies it, and a sub-evaluation
    that does not end in the budget error leaves the counter below the budget -/
theorem spec_eval_invariant (sc : Spec.SCfg) (hr : sc.rangeSizeSigned = false) (ctx : Spec.Ctx) (n : Node)
    (s : Spec.SState) (hs : s.memory = (s.created : Int)) :
    (Spec.eval sc ctx n s).2.memory = ((Spec.eval sc ctx n s).2.created : Int) ∧
    s.created ≤ (Spec.eval sc ctx n s).2.created ∧
    (s.memory < sc.budget → (Spec.eval sc ctx n s).1 ≠ .error .budget → (Spec.eval sc ctx n s).2.memory < sc.budget) :=
  ⟨Spec.eval_memory_eq_created sc hr ctx n s hs, Spec.eval_created_mono sc hr ctx n s,
   fun hlt hne => Spec.eval_lt_budget_of_not_budget_error sc hr ctx n s hs hlt hne⟩

/-- **The two-budget reading of "needs"** (budget monotonicity of `Spec.eval`, Proofs/SpecBudget.lean): the number
    of elements an expression *needs* is what an evaluation under a budget large enough not to be refused
    creates; under any other (positive) budget the evaluation returns the same value exactly when it needs
    fewer elements than that budget, and ends with the budget error otherwise — whatever the order of the
    allocations and whether they are refused before building (ranges) or fail after adding (literals, builtin
    results). -/
theorem spec_needs (sc : Spec.SCfg) (cast : Option Nat) (n : Node) (big : Int) (v : Val)
    (hr : sc.rangeSizeSigned = false) (hb : 0 < sc.budget)
    (hbig : (Spec.run { sc with budget := big } cast n).1 = .ok v) :
    (((Spec.run { sc with budget := big } cast n).2.created : Int) < sc.budget → (Spec.run sc cast n).1 = .ok v) ∧
    (sc.budget ≤ ((Spec.run { sc with budget := big } cast n).2.created : Int) → (Spec.run sc cast n).1 = .error .budget) := by
  have hsc : Spec.withBudget { sc with budget := big } sc.budget = sc := by cases sc; rfl
  have h := Spec.spec_needs { sc with budget := big } hr cast n sc.budget hb (by rw [hbig]; intro h; cases h)
  rw [hsc] at h
  exact ⟨fun hlt => by rw [h.1 hlt]; exact hbig, h.2⟩

/-- the same when the reference evaluation fails for another reason (index, type, environment function …) after
    creating `k` elements: below `k + 1` the budget error comes first, above it the very same outcome (result
    and final state) -/
theorem spec_needs_any_outcome (sc : Spec.SCfg) (cast : Option Nat) (n : Node) (big : Int)
    (hr : sc.rangeSizeSigned = false) (hb : 0 < sc.budget)
    (hbig : (Spec.run { sc with budget := big } cast n).1 ≠ .error .budget) :
    (((Spec.run { sc with budget := big } cast n).2.created : Int) < sc.budget →
        Spec.run sc cast n = Spec.run { sc with budget := big } cast n) ∧
    (sc.budget ≤ ((Spec.run { sc with budget := big } cast n).2.created : Int) → (Spec.run sc cast n).1 = .error .budget) := by
  have hsc : Spec.withBudget { sc with budget := big } sc.budget = sc := by cases sc; rfl
  have h := Spec.spec_needs { sc with budget := big } hr cast n sc.budget hb hbig
  rw [hsc] at h
  exact h

/-- both directions for one and the same evaluation -/
theorem spec_needs_same_run (sc : Spec.SCfg) (cast : Option Nat) (n : Node) (hr : sc.rangeSizeSigned = false)
    (hb : 0 < sc.budget) :
    (∀ v, (Spec.run sc cast n).1 = .ok v → ((Spec.run sc cast n).2.created : Int) < sc.budget) ∧
    (sc.budget ≤ ((Spec.run sc cast n).2.created : Int) → (Spec.run sc cast n).1 = .error .budget) :=
  ⟨fun v hv => spec_success_lt_budget sc cast n v hr hb hv, spec_needs_ge_fails sc cast n hr hb⟩

/-! ### compiled programs: the property's sentence through the refinement theorem of C01

`C01.run_conforms_checked`: for enough fuel the byte-level run of the compiled program returns the reference
evaluator's result and counters (exclusions of C01: operands fit 16 bits, no aliased float constants, looped
collections shorter than 2^63).  Together with `spec_needs`: -/

/-- **C06 for compiled programs.**  Take the run of the compiled program under any reference budget `big` that does
    not end in the budget error; the elements it created are what the evaluation *needs*.  Under the budget
    `c.budget` the same program, environment and world: needs fewer ⇒ the very same result, never refused;
    needs at least that many ⇒ fails with the budget error instead of completing. -/
theorem compiled_needs (cfg : CompCfg) (n : Node) (cp : Compiled) (c : Cfg) (big : Int)
    (hc : compileProgram cfg n = .ok cp) (hfl : floatsOK n = true) (hfit : FitsU16 cp.code) (henv : EnvOK c cfg)
    (hg : Good (SmallColl c) n) (hgbig : Good (SmallColl { c with budget := big }) n)
    (hr : c.defects.rangeSizeSigned = false) (hb : 0 < c.budget) :
    ∃ N, ∀ fuel, N ≤ fuel →
      (run { c with budget := big } (progOf cp) fuel).1 ≠ .error .budget →
      (((run { c with budget := big } (progOf cp) fuel).2.created : Int) < c.budget →
          (run c (progOf cp) fuel).1 = (run { c with budget := big } (progOf cp) fuel).1 ∧
          (run c (progOf cp) fuel).2.created = (run { c with budget := big } (progOf cp) fuel).2.created) ∧
      (c.budget ≤ ((run { c with budget := big } (progOf cp) fuel).2.created : Int) →
          (run c (progOf cp) fuel).1 = .error .budget) := by
  obtain ⟨N1, h1⟩ := C01.run_conforms_checked cfg n cp c hc hfl hfit henv hg
  obtain ⟨N2, h2⟩ := C01.run_conforms_checked cfg n cp { c with budget := big } hc hfl hfit henv hgbig
  refine ⟨max N1 N2, fun fuel hf hnb => ?_⟩
  obtain ⟨a1, a2, _⟩ := h1 fuel (by omega)
  obtain ⟨b1, b2, _⟩ := h2 fuel (by omega)
  have hcr : (run { c with budget := big } (progOf cp) fuel).2.created
      = (Spec.run (specOf { c with budget := big }) cfg.cast n).2.created := congrArg Spec.SState.created b2
  have hcr1 : (run c (progOf cp) fuel).2.created = (Spec.run (specOf c) cfg.cast n).2.created :=
    congrArg Spec.SState.created a2
  have hsc : Spec.withBudget (specOf { c with budget := big }) c.budget = specOf c := rfl
  have h := Spec.spec_needs (specOf { c with budget := big }) hr cfg.cast n c.budget hb (by rw [← b1]; exact hnb)
  rw [hsc, ← hcr] at h
  refine ⟨fun hlt => ?_, fun hge => ?_⟩
  · have e := h.1 hlt
    exact ⟨by rw [a1, b1, e], by rw [hcr1, hcr, e]⟩
  · rw [a1]; exact h.2 hge

/-- the hypotheses of `compiled_needs` are satisfiable on a tree with a run-time range inside a loop builtin
    (`all(1..3, {# > 0 and I == 1})`, C01's worked example), in every world and environment and for every
    pair of budgets -/
example (c : Cfg) (big : Int) (hr : c.defects.rangeSizeSigned = false) (hb : 0 < c.budget) :
    ∃ N, ∀ fuel, N ≤ fuel →
      (run { c with budget := big } (progOf C01.exCompiled) fuel).1 ≠ .error .budget →
      (((run { c with budget := big } (progOf C01.exCompiled) fuel).2.created : Int) < c.budget →
          (run c (progOf C01.exCompiled) fuel).1 = (run { c with budget := big } (progOf C01.exCompiled) fuel).1 ∧
          (run c (progOf C01.exCompiled) fuel).2.created = (run { c with budget := big } (progOf C01.exCompiled) fuel).2.created) ∧
      (c.budget ≤ ((run { c with budget := big } (progOf C01.exCompiled) fuel).2.created : Int) →
          (run c (progOf C01.exCompiled) fuel).1 = .error .budget) :=
  compiled_needs {} C01.exTree C01.exCompiled c big C01.ex_compiles (by decide) C01.ex_fits (fun h => by cases h) (C01.ex_good c)
    (C01.ex_good _) hr hb

/-! ### the defect as it was (`rangeSizeSigned := true`): a descending range lowers the counter -/

def wWorld : World := { call := fun _ _ => .error .type_, regexMatch := fun _ _ => none, pow := fun x _ => x }

/-- the bytecode of `len(A+98..A) + len(A..A+6) + len(A..A+6)` with the bounds as constants (`A = 1`):
    a descending range, then two ranges of 7 elements -/
def wProg : Prog :=
  { code := (encodeAll [⟨.push, 0⟩, ⟨.push, 1⟩, ⟨.range, 0⟩, ⟨.len, 0⟩, ⟨.rot, 0⟩, ⟨.pop, 0⟩,
                        ⟨.push, 1⟩, ⟨.push, 2⟩, ⟨.range, 0⟩, ⟨.len, 0⟩, ⟨.rot, 0⟩, ⟨.pop, 0⟩, ⟨.add, 0⟩,
                        ⟨.push, 1⟩, ⟨.push, 2⟩, ⟨.range, 0⟩, ⟨.len, 0⟩, ⟨.rot, 0⟩, ⟨.pop, 0⟩, ⟨.add, 0⟩]).toArray
    consts := #[.int .int 99, .int .int 1, .int .int 7] }

def wCfg (signed : Bool) : Cfg :=
  { world := wWorld, env := .nil, budget := 10, defects := { rangeSizeSigned := signed, memoryNotReset := false } }

def isOkInt (n : Int) : R Val → Bool
  | .ok (.int .int m) => m == n
  | _ => false

def isBudgetErr : R Val → Bool
  | .error .budget => true
  | _ => false

/-- With the signed size, budget 10: the run succeeds (result 14) having created 14 ≥ 10 elements while the
    counter says -83; with the size clamped the same program is refused at the third range. -/
theorem memory_witness_asIs :
    isOkInt 14 (run (wCfg true) wProg 100).1 = true ∧ (run (wCfg true) wProg 100).2.created = 14 ∧
    (run (wCfg true) wProg 100).2.memory = -83 ∧
    isBudgetErr (run (wCfg false) wProg 100).1 = true ∧ (run (wCfg false) wProg 100).2.created = 7 := by
  decide

/-- hence `success_lt_budget` is false for that variant -/
theorem success_lt_budget_false_asIs :
    ¬ (∀ (c : Cfg) (p : Prog) (fuel : Nat) (v : Val), c.defects.rangeSizeSigned = true → WorldNB c.world →
        (run c p fuel).1 = .ok v → 0 < c.budget → ((run c p fuel).2.created : Int) < c.budget) := by
  intro hall
  have hw : WorldNB wWorld := fun _ _ => by unfold NB wWorld; simp
  cases hres : (run (wCfg true) wProg 100).1 with
  | error e => have := memory_witness_asIs.1; rw [hres] at this; cases this
  | ok v =>
    have := hall (wCfg true) wProg 100 v rfl hw hres (by decide)
    rw [memory_witness_asIs.2.1] at this
    revert this; decide

/-! ### non-vacuity -/

/-- the hypotheses of the run theorems are satisfiable with allocating programs: under the clamped variant the
    witness program with budget 100 succeeds having created 14 < 100 elements … -/
example : isOkInt 14 (run { wCfg false with budget := 100 } wProg 100).1 = true ∧
    (run { wCfg false with budget := 100 } wProg 100).2.created = 14 := by decide

/-- … and with budget 10 it reaches, after 15 steps, a range of 7 pending with 7 created: `needs_ge_fails` applies -/
example : (stepsTo (wCfg false) wProg 15 (prologue (wCfg false) {})).map (fun t => (pending wProg t, t.created)) = some (some 7, 7) := by
  decide

end ExprModel.C06
