import ExprModel.Spec.Eval
import ExprModel.Proofs.PatchOps
import ExprModel.Props.C10
/-
C17 — Operator overloading is equivalent to calling the function.

`compiler.PatchOperators` = `ast.Walk` with `operatorPatcher` (Enter empty, Exit rewrites a BinaryNode
whose operator is mapped and whose operand types fit a candidate into the FunctionNode call).  Modelled
as `patchOperators Gen.walkTargets` — the walker with the slot table regenerated from ast/visitor.go —
and proved equal, as a tree, to `explicitCallForm`: the Spec that rewrites *every* occurrence by plain
structural recursion over every child slot.  Holds because the walker's table is complete (C10).
-/
namespace ExprModel.C17
open ExprModel Node

/-- the source of the patcher, of the overload search, of the checker's overload branch and of the
    configuration check is what the model mirrors -/
theorem patcher_shape :
    Gen.opPatcherEnterBody = [] ∧
    Gen.opPatcherExitBody =
      ["binaryNode, ok := (*node).(*ast.BinaryNode)", "if !ok { return }",
       "fns, ok := p.ops[binaryNode.Operator]", "if !ok { return }",
       "leftType := binaryNode.Left.Type()", "rightType := binaryNode.Right.Type()",
       "_, fn, ok := conf.FindSuitableOperatorOverload(fns, p.types, leftType, rightType)",
       "if ok { newNode := &ast.FunctionNode{ Name: fn, Arguments: []ast.Node{binaryNode.Left, binaryNode.Right}, } ast.Patch(node, newNode) }"] ∧
    Gen.opPatcherNewKind = .FunctionNode ∧
    Gen.opPatcherNewFields = [("Name", "fn"), ("Arguments", "[]ast.Node{binaryNode.Left, binaryNode.Right}")] ∧
    Gen.patchOperatorsBody =
      ["if len(config.Operators) == 0 { return }",
       "patcher := &operatorPatcher{ops: config.Operators, types: config.Types}", "ast.Walk(node, patcher)"] ∧
    Gen.exprOperatorBody = ["return func(c *conf.Config) { c.Operators[operator] = append(c.Operators[operator], fn...) }"] :=
  ⟨rfl, rfl, rfl, rfl, rfl, rfl⟩

theorem overload_search_shape :
    Gen.findOverloadLoop =
      ["for _, fn := range fns", "fnType := types[fn]", "firstInIndex := 0",
       "if fnType.Method { firstInIndex = 1 }",
       "firstArgType := fnType.Type.In(firstInIndex)", "secondArgType := fnType.Type.In(firstInIndex + 1)",
       "firstArgumentFit := l == firstArgType || (firstArgType.Kind() == reflect.Interface && (l == nil || l.Implements(firstArgType)))",
       "secondArgumentFit := r == secondArgType || (secondArgType.Kind() == reflect.Interface && (r == nil || r.Implements(secondArgType)))",
       "if firstArgumentFit && secondArgumentFit { return fnType.Type.Out(0), fn, true }"] ∧
    Gen.findOverloadBody.length = 2 ∧ Gen.findOverloadBody.getLast? = some "return nil, \"\", false" ∧
    Gen.checkerBinaryHead =
      ["l := v.visit(node.Left)", "r := v.visit(node.Right)",
       "if fns, ok := v.operators[node.Operator]; ok { t, _, ok := conf.FindSuitableOperatorOverload(fns, v.types, l, r) if ok { return t } }"] :=
  ⟨rfl, rfl, rfl, rfl⟩

theorem config_check_shape :
    Gen.configCheckOperatorLoop =
      "for op, fns := range c.Operators { for _, fn := range fns { fnType, ok := c.Types[fn] if !ok || fnType.Type == nil || fnType.Type.Kind() != reflect.Func { return fmt.Errorf(\"function %s for %s operator does not exist in environment\", fn, op) } requiredNumIn := 2 if fnType.Method { requiredNumIn = 3 } if fnType.Type.NumIn() != requiredNumIn || fnType.Type.NumOut() != 1 { return fmt.Errorf(\"function %s for %s operator does not have a correct signature\", fn, op) } } }" :=
  rfl

/-- **Main theorem.**  For every overload table, every typing of the nodes and every tree: patching the
    operators through the walker yields exactly the explicit-call form. -/
theorem patch_eq_explicit (ops : OpTable) (tyOf : Node → String) (n : Node) :
    patchOperators Gen.walkTargets ops tyOf n = some (explicitCallForm ops tyOf n) := by
  rw [C10.walk_table_is_reference]
  exact patchOperators_ref ops tyOf n

/-- hence whatever is computed from the tree afterwards (type check, optimisation, compilation, run) is
    computed from the explicit-call form -/
theorem overload_is_call {α : Type} (run : Node → α) (ops : OpTable) (tyOf : Node → String) (n : Node) :
    (patchOperators Gen.walkTargets ops tyOf n).map run = some (run (explicitCallForm ops tyOf n)) := by
  rw [patch_eq_explicit]; rfl

/-- an occurrence whose (rewritten) operands fit a candidate is the call of that function on the
    operands in order, with the type and location of the occurrence; any other stays the operator -/
theorem occurrence_rewritten (ops : OpTable) (tyOf : Node → String) (m : Meta) (op : String) (l r : Node) :
    explicitCallForm ops tyOf (.binary m op l r) =
      match overloadFor ops tyOf op (explicitCallForm ops tyOf l) (explicitCallForm ops tyOf r) with
      | some fn => .func m fn [explicitCallForm ops tyOf l, explicitCallForm ops tyOf r] false
      | none => .binary m op (explicitCallForm ops tyOf l) (explicitCallForm ops tyOf r) := by
  simp only [explicitCallForm, callOrOp]
  cases overloadFor ops tyOf op (explicitCallForm ops tyOf l) (explicitCallForm ops tyOf r) <;> rfl

private theorem patchExit_children (ops : OpTable) (tyOf : Node → String) (n : Node) :
    (patchExit ops tyOf n).children = n.children := by
  cases n with
  | binary m op l r =>
    simp only [patchExit]
    cases overloadFor ops tyOf op l r <;> rfl
  | _ => rfl

/-- **Wherever the occurrence sits.**  At every position of the tree (under slices and indexes, in
    closure bodies, arguments, map values, branches, to any depth) the patched tree holds the
    explicit-call form of the sub-tree that was there. -/
theorem explicit_at_position (ops : OpTable) (tyOf : Node → String) :
    ∀ (p : List Nat) (n : Node),
      nodeAt p (explicitCallForm ops tyOf n) = (nodeAt p n).map (explicitCallForm ops tyOf) := by
  intro p
  induction p with
  | nil => intro n; rfl
  | cons i p ih =>
    intro n
    rw [explicitCallForm_eq]
    simp only [nodeAt, patchExit_children]
    rw [children_withChildren _ _ (by simp)]
    simp only [List.getElem?_map]
    cases n.children[i]? with
    | none => rfl
    | some c => simp only [Option.map_some]; exact ih c

/-- an operator that is not mapped keeps its built-in meaning -/
theorem others_keep_builtin (ops : OpTable) (tyOf : Node → String) (m : Meta) (op : String) (l r : Node)
    (h : ops.lookup op = none) :
    explicitCallForm ops tyOf (.binary m op l r) =
      .binary m op (explicitCallForm ops tyOf l) (explicitCallForm ops tyOf r) := by
  rw [occurrence_rewritten]; simp [overloadFor, h]

/-- a mapped operator whose operand types fit no candidate keeps its built-in meaning -/
theorem others_keep_builtin_types (ops : OpTable) (tyOf : Node → String) (m : Meta) (op : String) (l r : Node)
    (cands : List OpCand) (h : ops.lookup op = some cands)
    (hno : ∀ c ∈ cands, (c.l.fits (tyOf (explicitCallForm ops tyOf l)) && c.r.fits (tyOf (explicitCallForm ops tyOf r))) = false) :
    explicitCallForm ops tyOf (.binary m op l r) =
      .binary m op (explicitCallForm ops tyOf l) (explicitCallForm ops tyOf r) := by
  rw [occurrence_rewritten]
  simp [overloadFor, h, (findOverload_none_iff cands _ _).mpr hno]

/-- non-binary nodes are never rewritten themselves (e.g. `matches`, unary operators) -/
theorem only_binary_rewritten (ops : OpTable) (tyOf : Node → String) (n : Node) (h : n.nk ≠ .BinaryNode) :
    (explicitCallForm ops tyOf n).nk = n.nk := by
  cases n <;> first | rfl | exact absurd rfl h

/-- the first candidate, in the order the functions were given, whose two parameters fit is chosen -/
theorem first_match_wins (pre post : List OpCand) (c : OpCand) (tl tr : String)
    (hpre : ∀ d ∈ pre, (d.l.fits tl && d.r.fits tr) = false) (hc : (c.l.fits tl && c.r.fits tr) = true) :
    findOverload (pre ++ c :: post) tl tr = some c.fn :=
  findOverload_first pre post c tl tr hpre hc

/-- a chosen function is a candidate both of whose parameters fit the operand types: equal type, or an
    interface parameter with a nil-typed operand or an operand type implementing it -/
theorem chosen_fits (cs : List OpCand) (tl tr fn : String) (h : findOverload cs tl tr = some fn) :
    ∃ c ∈ cs, c.fn = fn ∧
      (tl = c.l.ty ∨ (c.l.iface = true ∧ (tl = nilTyKey ∨ tl ∈ c.l.impls))) ∧
      (tr = c.r.ty ∨ (c.r.iface = true ∧ (tr = nilTyKey ∨ tr ∈ c.r.impls))) := by
  obtain ⟨c, hc, hfn, hl, hr⟩ := findOverload_some cs tl tr fn h
  refine ⟨c, hc, hfn, ?_, ?_⟩
  · simpa [Param.fits] using hl
  · simpa [Param.fits] using hr

/-- the call node takes over type and location of the operator occurrence (`ast.Patch`) -/
theorem patched_keeps_meta (ops : OpTable) (tyOf : Node → String) (m : Meta) (op : String) (l r : Node) :
    (callOrOp ops tyOf m op l r).getMeta = m ∧
    patchExit ops tyOf (.binary m op l r) = callOrOp ops tyOf m op l r := by
  refine ⟨?_, patchExit_binary ops tyOf m op l r⟩
  simp only [callOrOp]; cases overloadFor ops tyOf op l r <;> rfl

/-- **Config.Check** accepts an operator table exactly when every mapped name is in the types table
    with a function type of two parameters (three for methods: the receiver) and one result; anything
    else is rejected with an error (`missing` / `badSignature`). -/
theorem config_check_rejects (types : List (String × FnTag)) (ops : List (String × List String)) :
    configCheck types ops = .ok ↔
      ∀ e ∈ ops, ∀ fn ∈ e.2, ∃ t, types.lookup fn = some t ∧
        t.hasType = true ∧ t.isFunc = true ∧ t.numIn = (if t.method then 3 else 2) ∧ t.numOut = 1 := by
  rw [configCheck_ok_iff]
  simp [FnTag.wellShaped, and_assoc]

/-- a name whose tag has no type (an ambiguous embedded field, a nil map value) is rejected as missing -/
theorem config_check_untyped_rejected :
    configCheck [("X", { hasType := false, isFunc := false, numIn := 0, numOut := 0 })] [("+", ["X"])] = .missing "X" "+" := by
  decide

/-- `Config.Check` never fails otherwise than by returning one of its two errors -/
theorem config_check_total (types : List (String × FnTag)) (ops : List (String × List String)) :
    configCheck types ops = .ok ∨ (∃ fn op, configCheck types ops = .missing fn op) ∨
      (∃ fn op, configCheck types ops = .badSignature fn op) := by
  cases h : configCheck types ops with
  | ok => exact Or.inl rfl
  | missing fn op => exact Or.inr (Or.inl ⟨fn, op, rfl⟩)
  | badSignature fn op => exact Or.inr (Or.inr ⟨fn, op, rfl⟩)

/-! ### what the explicit call form means

By the language definition (`Spec.eval`) the call `fn(l, r)` the patcher writes evaluates `l`, then `r`, then
applies the environment's `fn` to the two values in that order, logging one call; C01's theorems
(`run_conforms_*`) transfer every statement about `Spec.eval` to runs of the compiled program.  Together with
`patch_eq_explicit` this is the property's sentence "evaluates to that function applied to the operands in
order". -/

private theorem sm_pure_bind {α β : Type} (a : α) (f : α → Spec.SM β) : (pure a >>= f) = f a := by
  funext s; rfl

private theorem sm_bind_assoc {α β γ : Type} (m : Spec.SM α) (f : α → Spec.SM β) (g : β → Spec.SM γ) :
    (m >>= f >>= g) = (m >>= fun a => f a >>= g) := by
  funext s
  show Spec.SM.bind' (Spec.SM.bind' m f) g s = Spec.SM.bind' m (fun a => Spec.SM.bind' (f a) g) s
  unfold Spec.SM.bind'
  cases h : m s with
  | mk r s' => cases r <;> simp

private theorem evalList_cons_nonpair (c : Spec.SCfg) (ctx : Spec.Ctx) (n : Node) (rest : List Node)
    (hn : ∀ mm k v, n ≠ .pair mm k v) :
    Spec.evalList c ctx (n :: rest) =
      (do let v ← Spec.eval c ctx n; let vs ← Spec.evalList c ctx rest; pure (v :: vs)) := by
  cases n <;> first | (exact absurd rfl (hn _ _ _)) | (simp [Spec.evalList])

/-- **call_semantics**: the explicit call of a two-argument function evaluates the operands left to right and
    applies the function to their values in that order (one logged call, the function's result or failure) -/
theorem call_semantics (c : Spec.SCfg) (ctx : Spec.Ctx) (m : Meta) (fn : String) (l r : Node) (fast : Bool)
    (hl : ∀ mm k v, l ≠ .pair mm k v) (hr : ∀ mm k v, r ≠ .pair mm k v) :
    Spec.eval c ctx (.func m fn [l, r] fast) = (do
      let vl ← Spec.eval c ctx l
      let vr ← Spec.eval c ctx r
      let res := callMember c.world c.env fn [vl, vr]
      if callHappened res then Spec.SM.logCall fn [vl, vr]
      Spec.SM.lift res) := by
  rw [Spec.eval, evalList_cons_nonpair c ctx l [r] hl, evalList_cons_nonpair c ctx r [] hr]
  simp only [Spec.evalList, sm_bind_assoc, sm_pure_bind]

/-! ### non-vacuity -/

/-- `(a + b)[0:1]` with `+` mapped to `Add(Vec, Vec)`: the sliced operand is rewritten -/
example :
    let ops : OpTable := [("+", [{ fn := "Add", l := { ty := "Vec" }, r := { ty := "Vec" } }])]
    let tyOf : Node → String := fun n => match n with | .ident _ _ _ => "Vec" | _ => "?"
    let a := Node.ident {} "a" false
    let b := Node.ident {} "b" false
    explicitCallForm ops tyOf (.slice {} (.binary {} "+" a b) (some (.int {} 0)) (some (.int {} 1)))
      = .slice {} (.func {} "Add" [a, b] false) (some (.int {} 0)) (some (.int {} 1)) := by
  simp [explicitCallForm, explicitCallFormO, callOrOp, overloadFor, List.lookup, findOverload, Param.fits]

end ExprModel.C17
