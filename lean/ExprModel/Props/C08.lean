import ExprModel.Gen.Writes
import ExprModel.VM.Interleave
/-
C08 — A compiled program can be run concurrently.  **Claimed as partial** (see "Outside the model").

Model (`VM/Interleave.lean`): N threads (thread ids are naturals — any N), each owning a `Local` state, over
one `Shared` value (program, constants, locations, memory budget, environment; for concurrent Compile:
option values and sample environment); a schedule is an arbitrary list of thread ids; a step may in
principle return a changed shared part.

Theorems, for every N, every schedule and every schedule length: if steps write nothing shared
(`ReadOnly`), the shared part never changes and every thread ends exactly where it ends when executed
alone with the same number of steps (`interleaving_independent`), so the schedule is irrelevant
(`schedule_irrelevant`); the hypothesis is needed (`race_witness`).

The content is the tie: that the Go steps really write nothing shared.  `Gen/Writes.lean` is regenerated
from /repo's source on every run by a points-to analysis over vm, compiler, optimizer, checker, conf, ast,
parser, lexer, file and expr; `shared_writes_empty`, `package_vars_readonly`, `external_calls_readonly`,
`user_call_sites_as_expected`, `no_concurrency_primitives` are re-checked by the kernel against it.  A cache
field on Program, a write through a constant, a package-level memo, a reflect setter on the environment
each change a generated fact and break a theorem.

Outside the model (why this is partial): the Go memory model itself — that concurrent *reads* of memory
nobody writes are well-defined is Go's guarantee, not proved here; the race detector (used by the harness
as validation of the analysis, not as proof); internals of the standard library that synchronise their own
caches (regexp's machine pool, reflect's type caches, strings.Replacer's sync.Once); user-supplied
functions, methods and visitors, which must themselves be safe for concurrent use.
-/
namespace ExprModel.C08
open ExprModel ExprModel.Interleave

section machine
variable {Shared Local : Type} (step : Shared → Local → Shared × Local)

private theorem runAll_spec (h : ReadOnly step) :
    ∀ (sched : List Nat) (g : Shared × Locals Local),
      (runAll step sched g).1 = g.1 ∧
      ∀ i, (runAll step sched g).2 i = runAlone step g.1 (steps i sched) (g.2 i)
  | [], g => ⟨rfl, fun _ => rfl⟩
  | j :: rest, g => by
    have hs : (stepThread step g j).1 = g.1 := h g.1 (g.2 j)
    obtain ⟨ih1, ih2⟩ := runAll_spec h rest (stepThread step g j)
    refine ⟨by simp only [runAll]; rw [ih1, hs], fun i => ?_⟩
    simp only [runAll]
    rw [ih2 i, hs]
    simp only [steps, List.count_cons]
    by_cases e : j = i
    · subst e
      simp only [BEq.rfl, if_true, stepThread, setLocal, runAlone]
    · have e' : (j == i) = false := by simpa using e
      have e'' : ¬ i = j := fun x => e x.symm
      simp only [e', Bool.false_eq_true, if_false, Nat.add_zero, stepThread, setLocal, e'']

/-- no interleaving changes the shared part -/
theorem shared_unchanged (h : ReadOnly step) (sched : List Nat) (g : Shared × Locals Local) :
    (runAll step sched g).1 = g.1 :=
  (runAll_spec step h sched g).1

/-- **Interleaving independence.** For every schedule (any number of threads, any length, any order), the
    final state of thread `i` is the state it reaches executing alone the number of steps the schedule gave it. -/
theorem interleaving_independent (h : ReadOnly step) (sched : List Nat) (g : Shared × Locals Local) (i : Nat) :
    (runAll step sched g).2 i = runAlone step g.1 (steps i sched) (g.2 i) :=
  (runAll_spec step h sched g).2 i

/-- two schedules that give thread `i` the same number of steps leave it in the same state, whatever the
    other threads did in between; in particular any reordering of a schedule -/
theorem schedule_irrelevant (h : ReadOnly step) (s₁ s₂ : List Nat) (g : Shared × Locals Local) (i : Nat)
    (hc : steps i s₁ = steps i s₂) : (runAll step s₁ g).2 i = (runAll step s₂ g).2 i := by
  rw [interleaving_independent step h, interleaving_independent step h, hc]

theorem reordering_irrelevant (h : ReadOnly step) {s₁ s₂ : List Nat} (p : s₁.Perm s₂)
    (g : Shared × Locals Local) (i : Nat) : (runAll step s₁ g).2 i = (runAll step s₂ g).2 i :=
  schedule_irrelevant step h s₁ s₂ g i (p.count_eq i)

/-- a thread that is not scheduled is not touched -/
theorem unscheduled_untouched (h : ReadOnly step) (sched : List Nat) (g : Shared × Locals Local) (i : Nat)
    (hi : i ∉ sched) : (runAll step sched g).2 i = g.2 i := by
  rw [interleaving_independent step h, steps, List.count_eq_zero.2 hi]; rfl

end machine

/-- steps built from a pure transition `Shared → Local → Local` (the shape of `(*VM).Run`'s dispatch loop and
    of a Compile call over shared options) are read-only by construction -/
theorem pureStep_readOnly {Shared Local : Type} (f : Shared → Local → Local) : ReadOnly (pureStep f) :=
  fun _ _ => rfl

/-- concurrent runs / concurrent Compile calls in the pure shape: each returns what it returns alone -/
theorem concurrent_pure_independent {Shared Local : Type} (f : Shared → Local → Local) (sched : List Nat)
    (sh : Shared) (ls : Locals Local) (i : Nat) :
    (runAll (pureStep f) sched (sh, ls)).2 i = runAlone (pureStep f) sh (steps i sched) (ls i) :=
  interleaving_independent _ (pureStep_readOnly f) sched (sh, ls) i

/-- The hypothesis is needed: a step that bumps a shared counter (a "cache" on the program) and reads it
    makes thread 0's result depend on whether thread 1 ran first. -/
theorem race_witness :
    let step : Nat → Nat → Nat × Nat := fun sh l => (sh + 1, l + sh)
    (runAll step [0] (0, fun _ => 0)).2 0 ≠ (runAll step [1, 0] (0, fun _ => 0)).2 0 := by decide

/-- non-vacuity of `ReadOnly` on a machine whose shared part is really used -/
example :
    let f : List Nat → Nat → Nat := fun consts ip => ip + consts.length
    (runAll (pureStep f) [2, 0, 1, 0, 2, 2] ([7, 8, 9], fun i => i)).2 2 = 2 + 3 + 3 + 3 := by decide

/-! ## The tie: regenerated facts about /repo's source -/

def badRoot : Gen.Writes.Root → Bool
  | .shared | .pkgvar | .unknown => true
  | _ => false

/-- the write sites that reach memory shared between concurrent callers, a package-level variable, or
    memory the analysis cannot account for -/
def sharedWrites : List Gen.Writes.Site := Gen.Writes.sites.filter fun s => badRoot s.root

/-- **The library performs no write to shared state** on the Run, Compile and Eval paths: every assignment,
    `++`, indexed store, `append` target, `delete`, `copy`, channel operation and reflect setter writes a
    local variable, memory allocated by the same call, or the VM record owned by the calling goroutine. -/
theorem shared_writes_empty : sharedWrites = [] := by decide +kernel

/-- the analysis saw the code: the three paths reach functions and there are write sites to classify -/
theorem analysis_not_vacuous :
    Gen.Writes.sites.length ≥ 100 ∧ Gen.Writes.localVarWrites ≥ 100 ∧
    Gen.Writes.reachedOnRun ≥ 30 ∧ Gen.Writes.reachedOnCompile ≥ 150 := by decide +kernel

/-- package-level variables are never assigned and never have their address taken anywhere in the library:
    they are read-only after package initialisation -/
theorem package_vars_readonly :
    (Gen.Writes.packageVars.all fun v => !v.2.1 && !v.2.2.1) = true := by decide +kernel

/-- the package-level variables that hold references are the expected immutable tables -/
theorem package_vars_as_expected :
    (Gen.Writes.packageVars.filter fun v => v.2.2.2).map (·.1) =
      ["ast.isCapital", "checker.arrayType", "checker.boolType", "checker.floatType", "checker.integerType",
       "checker.interfaceType", "checker.mapType", "checker.nilType", "checker.stringType",
       "lexer.newlineNormalizer", "parser.binaryOperators", "parser.builtins", "parser.unaryOperators"] := by
  decide +kernel

/-- Standard-library functions that may be handed references into shared memory, each known to only read
    through them (reflect inspectors, fmt formatting, regexp matching — documented safe for concurrent use —,
    strings.Replacer.Replace — internally synchronised).  `(reflect.Value).Call` invokes a user function. -/
def readOnlyExternals : List String :=
  ["(*regexp.Regexp).MatchString", "(*regexp.Regexp).String", "(*strings.Replacer).Replace",
   "(reflect.Type).AssignableTo", "(reflect.Type).Elem", "(reflect.Type).Field", "(reflect.Type).Implements",
   "(reflect.Type).In", "(reflect.Type).IsVariadic", "(reflect.Type).Kind", "(reflect.Type).Method",
   "(reflect.Type).MethodByName", "(reflect.Type).NumField", "(reflect.Type).NumIn", "(reflect.Type).NumMethod",
   "(reflect.Type).NumOut", "(reflect.Type).Out", "(reflect.Type).String", "(reflect.Type).Key",
   "(reflect.Value).Call", "(reflect.Value).CanInterface", "(reflect.Value).Elem", "(reflect.Value).FieldByName",
   "(reflect.Value).Index", "(reflect.Value).Interface", "(reflect.Value).IsNil", "(reflect.Value).IsValid",
   "(reflect.Value).Kind", "(reflect.Value).Len", "(reflect.Value).MapIndex", "(reflect.Value).MapKeys",
   "(reflect.Value).MethodByName", "(reflect.Value).NumMethod", "(reflect.Value).Slice", "(reflect.Value).String",
   "(reflect.Value).Type", "(reflect.Value).Field", "(reflect.Value).NumField",
   "(reflect.Type).FieldByName", "(reflect.Type).FieldByIndex", "(reflect.Type).Name", "(reflect.Type).PkgPath",
   "(reflect.Type).ConvertibleTo", "(reflect.Type).Comparable", "(reflect.Type).Len",
   "(reflect.Value).Convert", "(reflect.Value).CanConvert", "(reflect.Value).FieldByIndex", "(reflect.Value).IsZero",
   "(reflect.Value).Int", "(reflect.Value).Uint", "(reflect.Value).Float", "(reflect.Value).Bool", "(reflect.Value).Cap",
   "(reflect.Value).CanAddr", "(reflect.Value).CanSet", "(reflect.Value).Addr", "reflect.New", "reflect.MakeSlice",
   "reflect.MakeMap", "reflect.MakeMapWithSize",
   "fmt.Errorf", "fmt.Sprintf", "reflect.DeepEqual", "reflect.FuncOf", "reflect.Indirect", "reflect.SliceOf",
   "reflect.TypeOf", "reflect.ValueOf", "reflect.Zero", "regexp.MatchString", "regexp.Compile",
   "strings.Contains", "strings.HasPrefix", "strings.HasSuffix", "strings.Replace"]

/-- every standard-library call that receives a reference from which shared memory is reachable is on the
    read-only list (a `sort.Slice`, `copy`-like helper or reflect mutator on shared data would not be) -/
theorem external_calls_readonly :
    (Gen.Writes.externalSharedCalls.all fun c => readOnlyExternals.contains c.1) = true := by decide +kernel

/-- the places where the library calls code supplied by its user: visitors during Compile, the option
    closures, fast-call functions (other environment functions go through reflect.Value.Call) -/
theorem user_call_sites_as_expected :
    Gen.Writes.userCallSites.map (·.1) =
      ["ast.(*walker).walk: w.visitor.Enter", "ast.(*walker).walk: w.visitor.Exit", "expr.Compile: op",
       "vm.(*VM).Run: fn.(func(...interface{}) interface{})"] := by decide +kernel

/-- the only constructors assumed to return unaliased fresh values (the reflect ones take type descriptors and
    sizes only; a reflect setter on a value made by them is a write to memory of this call, any other reflect
    setter is classified by what its receiver denotes and caught by `shared_writes_empty`) -/
theorem fresh_constructors_as_expected :
    (Gen.Writes.assumedFreshConstructors.all fun c =>
      ["fmt.Errorf", "errors.New", "regexp.Compile", "reflect.New", "reflect.Zero", "reflect.MakeSlice", "reflect.MakeMap",
       "reflect.MakeMapWithSize"].contains c) = true := by
  decide +kernel

/-- the library starts no goroutine, uses no select, and imports no sync / atomic / unsafe / time / rand /
    os / runtime package: there is no synchronisation to get wrong and no hidden shared state behind one -/
theorem no_concurrency_primitives :
    Gen.Writes.concurrencyStatements = [] ∧ Gen.Writes.nondetImports = [] := by decide +kernel

/-- The statement without the `ReadOnly` hypothesis (independence for *every* step function): false in
    general (`race_witness`); for the Go code the hypothesis is supplied by the regenerated facts above, not
    by a Lean proof about Go itself.  Data-race freedom of the real binary in the sense of the Go memory
    model (library internals, user callbacks included) is a statement about the Go runtime and is outside
    this model: C08 is claimed as partial. -/
def interleaving_independent_goal : Prop :=
  ∀ (step : Nat → Nat → Nat × Nat) (sched : List Nat) (g : Nat × Locals Nat) (i : Nat),
    (runAll step sched g).2 i = runAlone step g.1 (steps i sched) (g.2 i)

theorem interleaving_independent_goal_false : ¬ interleaving_independent_goal := by
  intro h
  have := h (fun sh l => (sh + 1, l + sh)) [1, 0] (0, fun _ => 0) 0
  revert this; decide

end ExprModel.C08
