import ExprModel.Gen.ParserTables
import ExprModel.Syntax.Parser
/-
C11 — Parsing follows the documented precedence and associativity.

Tie: `Gen.parserTables` is regenerated from parser/parser.go on every run; `tables_as_documented`
re-checks that the code's tables are the documented ones pinned here (`Ref`).
-/
namespace ExprModel.C11
open ExprModel ExprModel.Parser

/-! The documented binding powers (DESIGN Appendix B), pinned by hand: `Ref`. -/
namespace Ref
def unary : List (String × Nat × Assoc) :=
  [("!", 50, .left), ("+", 500, .left), ("-", 500, .left), ("not", 50, .left)]
def binary : List (String × Nat × Assoc) :=
  [("!=", 20, .left), ("%", 60, .left), ("&&", 15, .left), ("*", 60, .left), ("**", 70, .right),
   ("+", 30, .left), ("-", 30, .left), ("..", 25, .left), ("/", 60, .left), ("<", 20, .left),
   ("<=", 20, .left), ("==", 20, .left), (">", 20, .left), (">=", 20, .left), ("and", 15, .left),
   ("contains", 20, .left), ("endsWith", 20, .left), ("in", 20, .left), ("matches", 20, .left),
   ("not in", 20, .left), ("or", 10, .left), ("startsWith", 20, .left), ("||", 10, .left)]
def builtins : List (String × Nat) :=
  [("all", 2), ("any", 2), ("count", 2), ("filter", 2), ("len", 1), ("map", 2), ("none", 2), ("one", 2)]
def tables : Tables := { unary := unary, binary := binary, builtins := builtins }
end Ref

/-- The tables in parser.go are the documented ones. -/
theorem tables_as_documented :
    Gen.unaryOperators = Ref.unary ∧ Gen.binaryOperators = Ref.binary ∧ Gen.builtins = Ref.builtins := by
  decide +kernel

theorem tables_eq : Gen.parserTables = Ref.tables := by
  unfold Gen.parserTables Ref.tables
  rw [tables_as_documented.1, tables_as_documented.2.1, tables_as_documented.2.2]

/-- equal binding power ⇒ equal associativity (the round trip needs it) -/
def Coherent (tb : Tables) : Prop :=
  ∀ x ∈ tb.binary, ∀ y ∈ tb.binary, x.2.1 = y.2.1 → x.2.2 = y.2.2

theorem table_coherent : Coherent Gen.parserTables := by
  unfold Coherent; decide +kernel

/-- keys are unique (so `List.lookup` is the Go map lookup) -/
theorem table_keys_nodup :
    (Gen.unaryOperators.map (·.1)).Nodup ∧ (Gen.binaryOperators.map (·.1)).Nodup ∧ (Gen.builtins.map (·.1)).Nodup := by
  decide +kernel

end ExprModel.C11
